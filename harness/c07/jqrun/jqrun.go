// Package jqrun: the two sides of C07/C11 comparisons.
//
//   - Fq runs the real fq command line in-process (interp.New + Main) on a virtual OS: argument vector, files,
//     readline script, captured stdout/stderr/exit status, and the text of every program handed to the Go side
//     of `_eval` (the rewritten command line / REPL expression), recorded by wrapping that registry entry.
//   - Gojq runs a program on the bare embedded engine (gojq.Parse/Compile/Run, none of fq's definitions), with the
//     functions the jq *command* provides supplied as documented (DESIGN C07 N3).
//
// Values travel as canonical tagged JSON (spec/JsonVal.tla): no oracle lives here.
package jqrun

import (
	"bytes"
	"context"
	"encoding/json"
	"errors"
	"fmt"
	"io"
	"io/fs"
	"math"
	"math/big"
	"sort"
	"strconv"
	"strings"
	"sync"
	"time"

	_ "github.com/wader/fq/format/all"
	"github.com/wader/fq/internal/gojqx"
	"github.com/wader/fq/pkg/interp"
	"github.com/wader/gojq"
)

// ---------------------------------------------------------------- virtual OS

type memFS struct{ files map[string]string }
type memFile struct {
	*bytes.Reader
	name string
	size int64
}

func (f memFile) Stat() (fs.FileInfo, error) {
	return interp.FixedFileInfo{FName: f.name, FSize: f.size}, nil
}
func (f memFile) Close() error { return nil }
func (m memFS) Open(name string) (fs.File, error) {
	b, ok := m.files[name]
	if !ok {
		return nil, &fs.PathError{Op: "open", Path: name, Err: fs.ErrNotExist}
	}
	return memFile{Reader: bytes.NewReader([]byte(b)), name: name, size: int64(len(b))}, nil
}

type vin struct{ interp.FileReader }

func (vin) IsTerminal() bool { return false }
func (vin) Size() (int, int) { return 120, 25 }

type vout struct{ io.Writer }

func (vout) Size() (int, int)  { return 120, 25 }
func (vout) IsTerminal() bool { return false }

type lockedBuf struct {
	mu sync.Mutex
	b  bytes.Buffer
}

func (l *lockedBuf) Write(p []byte) (int, error) { l.mu.Lock(); defer l.mu.Unlock(); return l.b.Write(p) }
func (l *lockedBuf) String() string               { l.mu.Lock(); defer l.mu.Unlock(); return l.b.String() }

type vos struct {
	args           []string
	stdout, stderr *lockedBuf
	fsys           fs.FS
	lines          []string
	mu             sync.Mutex
	evals          []string
}

func (o *vos) Platform() interp.Platform { return interp.Platform{OS: "verif", Arch: "verif", GoVersion: "go"} }
func (o *vos) Stdin() interp.Input {
	return vin{FileReader: interp.FileReader{R: bytes.NewBuffer(nil)}}
}
func (o *vos) Stdout() interp.Output          { return vout{o.stdout} }
func (o *vos) Stderr() interp.Output          { return vout{o.stderr} }
func (o *vos) InterruptChan() chan struct{}   { return nil }
func (o *vos) Environ() []string              { return Environ }
func (o *vos) Args() []string                 { return o.args }
func (o *vos) ConfigDir() (string, error)     { return "/config", nil }
func (o *vos) FS() fs.FS                      { return o.fsys }
func (o *vos) History() ([]string, error)     { return nil, nil }
func (o *vos) Readline(opts interp.ReadlineOpts) (string, error) {
	o.mu.Lock()
	defer o.mu.Unlock()
	if len(o.lines) == 0 {
		return "", interp.ErrEOF
	}
	l := o.lines[0]
	o.lines = o.lines[1:]
	return l, nil
}

// Environ is what both sides see as the process environment.
var Environ = []string{"NO_COLOR=1", "VERIF=x"}

var hookOnce sync.Once

// hook wraps the registry entry of `_eval` so that the text it is called with is recorded on the run's OS.
func hook() {
	hookOnce.Do(func() {
		fns := interp.DefaultRegistry.EnvFuncFns
		for k := range fns {
			orig := fns[k]
			fns[k] = func(i *interp.Interp) gojqx.Function {
				f := orig(i)
				if f.Name != "_eval" || f.IterFn == nil {
					return f
				}
				inner := f.IterFn
				f.IterFn = func(c any, args []any) gojq.Iter {
					if o, ok := i.OS.(*vos); ok && len(args) > 0 {
						if s, ok := args[0].(string); ok {
							o.mu.Lock()
							o.evals = append(o.evals, s)
							o.mu.Unlock()
						}
					}
					return inner(c, args)
				}
				return f
			}
		}
	})
}

type FqRun struct {
	Stdout, Stderr string
	Exit           int
	Evals          []string // texts handed to the Go side of _eval, in order
	TimedOut       bool
	Panicked       bool
}

// Fq runs `args` (args[0] is the program name) through the real command line.
func Fq(args []string, files map[string]string, lines []string, timeout time.Duration) (res FqRun) {
	hook()
	defer func() {
		if r := recover(); r != nil { // a Go panic escaping the real command line: reported, not fatal to the harness
			res = FqRun{Exit: -3, Stderr: fmt.Sprintf("panic: %v", r), Panicked: true}
		}
	}()
	o := &vos{args: args, stdout: &lockedBuf{}, stderr: &lockedBuf{}, fsys: memFS{files}, lines: lines}
	i, err := interp.New(o, interp.DefaultRegistry)
	if err != nil {
		return FqRun{Stderr: err.Error(), Exit: -1}
	}
	ctx, cancel := context.WithTimeout(context.Background(), timeout)
	defer cancel()
	err = i.Main(ctx, o.Stdout(), "verif")
	code := 0
	if err != nil {
		var ex interp.Exiter
		if errors.As(err, &ex) {
			code = ex.ExitCode()
		} else {
			code = -2
		}
	}
	o.mu.Lock()
	ev := append([]string(nil), o.evals...)
	o.mu.Unlock()
	return FqRun{Stdout: o.stdout.String(), Stderr: o.stderr.String(), Exit: code, Evals: ev, TimedOut: ctx.Err() != nil}
}

// ---------------------------------------------------------------- canonical tagged values

type T = map[string]any

// Cps: code points of a string (TLC's JSON reader garbles non-ASCII text)
func Cps(s string) []int { return cps(s) }

func cps(s string) []int {
	r := []int{}
	for _, c := range s {
		r = append(r, int(c))
	}
	return r
}

// FromJSONValue turns a value decoded with UseNumber into the tagged form of spec/JsonVal.tla.
func FromJSONValue(v any) any {
	switch v := v.(type) {
	case nil:
		return T{"t": "null"}
	case bool:
		if v {
			return T{"t": "true"}
		}
		return T{"t": "false"}
	case json.Number:
		return canonNumber(string(v))
	case string:
		return T{"t": "str", "s": cps(v)}
	case []any:
		out := make([]any, len(v))
		for i := range v {
			out[i] = FromJSONValue(v[i])
		}
		return T{"t": "arr", "v": out}
	case map[string]any:
		ks := make([]string, 0, len(v))
		for k := range v {
			ks = append(ks, k)
		}
		sort.Strings(ks)
		kk := make([]any, len(ks))
		vv := make([]any, len(ks))
		for i, k := range ks {
			kk[i] = cps(k)
			vv[i] = FromJSONValue(v[k])
		}
		return T{"t": "obj", "k": kk, "v": vv}
	}
	panic(fmt.Sprintf("FromJSONValue: %T", v))
}

const smallLimit = 1 << 30

func canonNumber(lit string) any {
	if !strings.ContainsAny(lit, ".eE") {
		if n, ok := new(big.Int).SetString(lit, 10); ok {
			if n.IsInt64() && n.Int64() < smallLimit && n.Int64() > -smallLimit {
				return T{"t": "num", "n": n.Int64()}
			}
			return T{"t": "big", "b": cps(n.String())}
		}
	}
	f, err := strconv.ParseFloat(lit, 64)
	if err != nil {
		if math.IsInf(f, 0) {
			return T{"t": "big", "b": cps(strconv.FormatFloat(f, 'g', -1, 64))}
		}
		return T{"t": "big", "b": cps("?" + lit)}
	}
	if f == math.Trunc(f) && math.Abs(f) < smallLimit {
		return T{"t": "num", "n": int64(f)}
	}
	if f == math.Trunc(f) && math.Abs(f) < 1e18 {
		return T{"t": "big", "b": cps(strconv.FormatInt(int64(f), 10))}
	}
	return T{"t": "big", "b": cps(strconv.FormatFloat(f, 'g', -1, 64))}
}

// ParseJSONText decodes one JSON text to the tagged form.
func ParseJSONText(s string) (any, error) {
	d := json.NewDecoder(strings.NewReader(s))
	d.UseNumber()
	var v any
	if err := d.Decode(&v); err != nil {
		return nil, err
	}
	if d.More() {
		return nil, fmt.Errorf("trailing data")
	}
	return FromJSONValue(v), nil
}

// ToGojq converts a value decoded with UseNumber to the engine's native types (int, float64, *big.Int ...).
func ToGojq(v any) any {
	switch v := v.(type) {
	case json.Number:
		s := string(v)
		if !strings.ContainsAny(s, ".eE") {
			if n, ok := new(big.Int).SetString(s, 10); ok {
				if n.IsInt64() && n.Int64() >= math.MinInt32*1024 && n.Int64() <= math.MaxInt32*1024 {
					return int(n.Int64())
				}
				if n.IsInt64() {
					return int(n.Int64())
				}
				return n
			}
		}
		f, _ := strconv.ParseFloat(s, 64)
		return f
	case []any:
		out := make([]any, len(v))
		for i := range v {
			out[i] = ToGojq(v[i])
		}
		return out
	case map[string]any:
		out := make(map[string]any, len(v))
		for k, x := range v {
			out[k] = ToGojq(x)
		}
		return out
	}
	return v
}

func DecodeJSON(s string) (any, error) {
	d := json.NewDecoder(strings.NewReader(s))
	d.UseNumber()
	var v any
	err := d.Decode(&v)
	return v, err
}

// ---------------------------------------------------------------- outcomes

// Outcome: {k:"v", v} a value; {k:"e", u, v} an error (u: raised by error(v)/a value-carrying error, v the value or the
// message); {k:"halt", v, c}; {k:"x", why} the run could not be completed (timeout).
type Outcome = map[string]any

func valueOutcome(v any) Outcome {
	b, err := gojq.Marshal(v)
	if err != nil {
		return Outcome{"k": "x", "why": "marshal: " + err.Error()}
	}
	t, err := ParseJSONText(string(b))
	if err != nil {
		return Outcome{"k": "x", "why": "reparse: " + err.Error()}
	}
	return Outcome{"k": "v", "v": t}
}

type GojqResult struct {
	CompileErr string
	Out        []Outcome
	Side       []any  // debug / stderr records, tagged values
	Stderr     string // what the jq command writes to stderr for them (debug: compact JSON line; stderr: raw text)
}

type sliceIter struct {
	vs []any
	i  int
}

func (s *sliceIter) Next() (any, bool) {
	if s.i >= len(s.vs) {
		return nil, false
	}
	v := s.vs[s.i]
	s.i++
	return v, true
}

func tostring(v any) string {
	if s, ok := v.(string); ok {
		return s
	}
	b, _ := gojq.Marshal(v)
	return string(b)
}

// GojqCompile parses and compiles on the bare engine; side collects debug/stderr records of the next Run.
type Compiled struct {
	code *gojq.Code
	side *[]any
	ins  *sliceIter
	errb *strings.Builder
}

func GojqCompile(prog string) (*Compiled, string) {
	q, err := gojq.Parse(prog)
	if err != nil {
		return nil, "parse: " + err.Error()
	}
	c := &Compiled{side: new([]any), ins: &sliceIter{}, errb: &strings.Builder{}}
	tag := func(v any) any {
		o := valueOutcome(v)
		if o["k"] != "v" {
			return T{"t": "null"}
		}
		return o["v"]
	}
	code, err := gojq.Compile(q,
		gojq.WithEnvironLoader(func() []string { return Environ }),
		gojq.WithInputIter(c.ins),
		// N3: provided by the jq command, documented behaviour
		gojq.WithFunction("debug", 0, 0, func(v any, _ []any) any {
			*c.side = append(*c.side, T{"t": "arr", "v": []any{T{"t": "str", "s": cps("DEBUG:")}, tag(v)}})
			b, _ := gojq.Marshal([]any{"DEBUG:", v})
			c.errb.Write(b)
			c.errb.WriteByte('\n')
			return v
		}),
		gojq.WithFunction("stderr", 0, 0, func(v any, _ []any) any {
			*c.side = append(*c.side, T{"t": "str", "s": cps(tostring(v))})
			c.errb.WriteString(tostring(v))
			return v
		}),
		gojq.WithFunction("input_filename", 0, 0, func(any, []any) any { return nil }),
	)
	if err != nil {
		return nil, "compile: " + err.Error()
	}
	c.code = code
	return c, ""
}

// Run evaluates on one input (value decoded with UseNumber); inputs feed input/inputs.
func (c *Compiled) Run(input any, inputs []any, timeout time.Duration) (res GojqResult) {
	defer func() {
		if r := recover(); r != nil {
			res.Out = append(res.Out, Outcome{"k": "x", "why": fmt.Sprintf("panic: %v", r)})
			if res.Side == nil {
				res.Side = []any{}
			}
		}
	}()
	*c.side = nil
	c.errb.Reset()
	c.ins.vs = nil
	c.ins.i = 0
	for _, x := range inputs {
		c.ins.vs = append(c.ins.vs, ToGojq(x))
	}
	ctx, cancel := context.WithTimeout(context.Background(), timeout)
	defer cancel()
	it := c.code.RunWithContext(ctx, ToGojq(input))
	for {
		v, ok := it.Next()
		if !ok {
			break
		}
		if err, ok := v.(error); ok {
			var he *gojq.HaltError
			var ve gojq.ValueError
			switch {
			case ctx.Err() != nil:
				res.Out = append(res.Out, Outcome{"k": "x", "why": "timeout"})
			case errors.As(err, &he):
				o := valueOutcome(he.Value())
				res.Out = append(res.Out, Outcome{"k": "halt", "v": o["v"], "c": he.ExitCode()})
			case errors.As(err, &ve):
				o := valueOutcome(ve.Value())
				if o["k"] != "v" {
					res.Out = append(res.Out, o)
				} else {
					res.Out = append(res.Out, Outcome{"k": "e", "u": true, "v": o["v"]})
				}
			default:
				res.Out = append(res.Out, Outcome{"k": "e", "u": false, "v": T{"t": "str", "s": cps(err.Error())}})
			}
			break
		}
		res.Out = append(res.Out, valueOutcome(v))
		if len(res.Out) > 4000 {
			res.Out = append(res.Out, Outcome{"k": "x", "why": "too many outputs"})
			break
		}
	}
	res.Side = append([]any{}, *c.side...)
	if res.Side == nil {
		res.Side = []any{}
	}
	res.Stderr = c.errb.String()
	if res.Out == nil {
		res.Out = []Outcome{}
	}
	return res
}

// ---------------------------------------------------------------- fq batch runs (one compile, many programs and inputs)

// BatchExpr builds one command-line expression that evaluates every program on every input of $__vin and prints, per program,
// one line [program index, [per input: [["v", value] ... | ["e", error value]]]] (each run truncated at its first error; one
// line per program because every top-level output of the command line pays for the display machinery).
func BatchExpr(progs []string) string {
	var sb strings.Builder
	sb.WriteString("$__vin as $__vin | (")
	for k, p := range progs {
		if k > 0 {
			sb.WriteString(", ")
		}
		fmt.Fprintf(&sb, "[%d, [$__vin[] | [try ((%s\n) | [\"v\", .]) catch [\"e\", .]]]]", k, p)
	}
	sb.WriteString(")")
	return sb.String()
}

// ParseBatch reads the stdout of a batch run into out[prog][input] = outcomes.
func ParseBatch(stdout string, nprog, nin int) ([][][]Outcome, error) {
	out := make([][][]Outcome, nprog)
	seen := 0
	for _, line := range strings.Split(stdout, "\n") {
		if line == "" {
			continue
		}
		d := json.NewDecoder(strings.NewReader(line))
		d.UseNumber()
		var rec []any
		if err := d.Decode(&rec); err != nil || len(rec) != 2 {
			return nil, fmt.Errorf("bad batch line %.200q", line)
		}
		kn, ok := rec[0].(json.Number)
		runs, ok2 := rec[1].([]any)
		k64, _ := kn.Int64()
		k := int(k64)
		if !ok || !ok2 || k < 0 || k >= nprog || len(runs) != nin || out[k] != nil {
			return nil, fmt.Errorf("bad batch record %.200q", line)
		}
		out[k] = make([][]Outcome, nin)
		for i, r := range runs {
			out[k][i] = []Outcome{}
			for _, o := range r.([]any) {
				pr, ok := o.([]any)
				if !ok || len(pr) != 2 {
					return nil, fmt.Errorf("bad outcome in %.200q", line)
				}
				kind, _ := pr[0].(string)
				out[k][i] = append(out[k][i], Outcome{"k": kind, "v": FromJSONValue(pr[1])})
			}
		}
		seen++
	}
	if seen != nprog {
		return nil, fmt.Errorf("batch answered %d of %d programs", seen, nprog)
	}
	return out, nil
}

// BatchExprSel is BatchExpr with, per program, the indices of $__vin it is evaluated on.
func BatchExprSel(progs []string, sel [][]int) string {
	var sb strings.Builder
	sb.WriteString("$__vin as $__vin | (")
	for k, p := range progs {
		if k > 0 {
			sb.WriteString(", ")
		}
		ix := make([]string, len(sel[k]))
		for i, j := range sel[k] {
			ix[i] = fmt.Sprint(j)
		}
		fmt.Fprintf(&sb, "[%d, [$__vin[%s] | [try ((%s\n) | [\"v\", .]) catch [\"e\", .]]]]", k, strings.Join(ix, ", "), p)
	}
	sb.WriteString(")")
	return sb.String()
}

// ParseBatchSel reads the stdout of a BatchExprSel run: out[prog][n] = outcomes on the n-th selected input.
func ParseBatchSel(stdout string, sel [][]int) ([][][]Outcome, error) {
	out := make([][][]Outcome, len(sel))
	seen := 0
	for _, line := range strings.Split(stdout, "\n") {
		if line == "" {
			continue
		}
		d := json.NewDecoder(strings.NewReader(line))
		d.UseNumber()
		var rec []any
		if err := d.Decode(&rec); err != nil || len(rec) != 2 {
			return nil, fmt.Errorf("bad batch line %.200q", line)
		}
		kn, ok := rec[0].(json.Number)
		runs, ok2 := rec[1].([]any)
		k64, _ := kn.Int64()
		k := int(k64)
		if !ok || !ok2 || k < 0 || k >= len(sel) || len(runs) != len(sel[k]) || out[k] != nil {
			return nil, fmt.Errorf("bad batch record %.200q", line)
		}
		out[k] = make([][]Outcome, len(runs))
		for i, r := range runs {
			out[k][i] = []Outcome{}
			for _, o := range r.([]any) {
				pr, ok := o.([]any)
				if !ok || len(pr) != 2 {
					return nil, fmt.Errorf("bad outcome in %.200q", line)
				}
				kind, _ := pr[0].(string)
				out[k][i] = append(out[k][i], Outcome{"k": kind, "v": FromJSONValue(pr[1])})
			}
		}
		seen++
	}
	if seen != len(sel) {
		return nil, fmt.Errorf("batch answered %d of %d programs", seen, len(sel))
	}
	return out, nil
}
