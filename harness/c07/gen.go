package main

// Seeded grammar generator for what the TLA+ universe cannot hold: regular-expression functions with generated patterns and
// flags, big integers, floats, unicode, @format strings, tojson/fromjson on deep values, paths/getpath/leaf_paths-style helpers,
// update operators, walk, env, limit/first/until, group_by/unique_by/min_by ... (DESIGN C07).  Programs are kept only if the
// bare engine compiles them.  Excluded on purpose: index/rindex/indices with a string input and a non-string argument (the
// dependency returns a malformed value there and fq dies on it: recorded defect of the dependency), date functions, now,
// halt/halt_error, $__loc__ (not supported by this version of the embedded engine), fq-only arities (tojson/1).

import (
	"encoding/json"
	"fmt"
	"math/rand"
	"strings"

	"github.com/wader/fq/internal/verif/c07/jqrun"
	"github.com/wader/fq/internal/verif/kit"
	"github.com/wader/gojq"
)

type pgen struct{ r *rand.Rand }

func (g *pgen) pick(xs ...string) string { return xs[g.r.Intn(len(xs))] }

var strs = []string{"a.b.c", "1+1=2", "a|b|c", "(x)(y)", "a*b*c", "$5$", "x^y", "a\\b\\c", "q?r?", "[z][w]", "{k}{l}", "", "a", "ab", "abc abc", "aXbxc", "a,b, c", "é", "日本語", "a\nb", "test123", "AbC", "  pad ", "a\tb", "x=1&y=2", "<a href=\"x\">", "it's", "YWJj", "\u00e9\u0301", "😀a", "1", "-12", "1.5", "[1,2]", "{\"a\":1}", "null", "nan", "0x10", " 1 "}
var nums = []string{"0", "1", "-1", "2", "3", "10", "255", "1.5", "-0.5", "0.1", "1e3", "1e-3", "100000000000000000000", "-9223372036854775809", "9007199254740993", "3.0", "1e1000", "-1e1000", "0.30000000000000004", "1234567890123456789012345678901234567890", "4294967296", "-0"}

func (g *pgen) value(d int) any {
	switch n := g.r.Intn(12); {
	case n == 0:
		return nil
	case n == 1:
		return g.r.Intn(2) == 0
	case n <= 3:
		return json.Number(nums[g.r.Intn(len(nums))])
	case n <= 6:
		return strs[g.r.Intn(len(strs))]
	case n <= 8 && d > 0:
		k := g.r.Intn(4)
		a := make([]any, k)
		for i := range a {
			a[i] = g.value(d - 1)
		}
		return a
	case d > 0:
		m := map[string]any{}
		for k := g.r.Intn(4); k > 0; k-- {
			m[g.pick("a", "b", "c", "key", "value", "é", "a b", "")] = g.value(d - 1)
		}
		return m
	}
	return json.Number(fmt.Sprint(g.r.Intn(5) - 1))
}

var regexes = []string{"a", "a+", "(a)(b)?", "(?<x>[a-z]+)", "\\\\d+", "", "^", "$", "b*", "[é日]", "(?<n>a)|b", ".", "\\\\s+", "(?<k>\\\\w+)=(?<v>\\\\w+)", "A", "a|b|c", "[", "(?i)b", "x*?", "\\\\b"}
var flags = []string{"\"\"", "\"g\"", "\"i\"", "\"x\"", "\"gi\"", "\"n\"", "\"s\"", "\"l\"", "null", "\"gx\"", "\"ig\"", "\"q\""}

func (g *pgen) strlit() string {
	b, _ := json.Marshal(strs[g.r.Intn(len(strs))])
	return string(b)
}

func (g *pgen) regexStage() string {
	re := "\"" + regexes[g.r.Intn(len(regexes))] + "\""
	fl := flags[g.r.Intn(len(flags))]
	repl := g.pick("\"X\"", "\"[\\(.x)]\"", "\"\\(.n // \"-\")\"", "\"\"", "(\"1\", \"2\")", "\"\\(.k)=\\(.v | ascii_upcase)\"")
	switch g.r.Intn(16) {
	case 0:
		return "test(" + re + ")"
	case 1:
		return "test(" + re + "; " + fl + ")"
	case 2:
		return "[match(" + re + ")]"
	case 3:
		return "[match(" + re + "; " + fl + ") | {offset, length, string, captures: [.captures[] | {name, string}]}]"
	case 4:
		return "capture(" + re + ")"
	case 5:
		return "[capture(" + re + "; " + fl + ")]"
	case 6:
		return "[scan(" + re + ")]"
	case 7:
		return "[scan(" + re + "; " + fl + ")]"
	case 8:
		return "split(" + re + "; " + fl + ")"
	case 9:
		return "[splits(" + re + ")]"
	case 10:
		return "[splits(" + re + "; " + fl + ")]"
	case 11:
		return "sub(" + re + "; " + repl + ")"
	case 12:
		return "sub(" + re + "; " + repl + "; " + fl + ")"
	case 13:
		return "gsub(" + re + "; " + repl + ")"
	case 14:
		return "gsub(" + re + "; " + repl + "; " + fl + ")"
	default:
		return "[match([" + re + ", " + fl + "])]"
	}
}

func (g *pgen) stringStage() string {
	return g.pick("(\"ab{1,}c\", \"abbc\") | split(\"b{1,}\")", "(\"xx{2}y\", \"xxy\") | split(\"{2}\")", "(\"a{1,2}b a\", \"aab\") | split(\"a{1,2}\")", "(\"aab\", \"a{2}b\") | split(\"a{2}\")",
		"(\"a.b\", \"axb\") | split(\"a.b\")", "(\"a+\", \"aa\") | split(\"a+\")", "(\"(a)\", \"a\") | split(\"(a)\")", "(\"a\\\\d\", \"a1\") | split(\"\\\\d\")",
		"split(\".\")", "split(\"+\")", "split(\"*\")", "split(\"|\")", "split(\"(\")", "split(\")\")", "split(\"[\")", "split(\"]\")", "split(\"{\")", "split(\"}\")", "split(\"^\")", "split(\"$\")", "split(\"?\")", "split(\"\\\\\")", "split(\"a.c\")", ". / \".\"", "[splits(\"[.]\")]", "split(\",\")", "split(\"\")", "split(\" \")", "split("+g.strlit()+")", "ascii_downcase", "ascii_upcase", "ltrimstr(\"a\")", "rtrimstr(\"c\")",
		"startswith(\"a\")", "endswith("+g.strlit()+")", "explode", "explode | implode", "explode | map(. + 1) | implode", "@base64", "@base64d", "@base64 | @base64d", "@uri", "@csv", "@tsv", "@html", "@sh", "@json", "@text",
		"@base32", "@base32d", "@urid", "@json \"v=\\(.)\"", "@base64 \"x\\(.)y\"", "@html \"<\\(.)>\"", "@sh \"echo \\(.)\"", "@uri \"q=\\(.)\"", "@csv \"\\([., 1])\"",
		"tojson", "tostring", "tonumber", "length", "utf8bytelength", "\"\\(.)\"", "\"a\\(.)b\\(. | length)\"", ". * 2", ". * 0", ". / \",\"", "ascii", "indices(\"a\")", "index(\"b\")", "rindex(\"a\")",
		"indices(\"\")", "trim", "ltrim", "rtrim", ".[1:3]", ".[-2:]", ".[:-1]", ".[0:1]", "join(\"-\")", "tojson | fromjson", "fromjson", "fromjson?", "try fromjson catch \"bad\"", "test(\"a\")", "contains(\"a\")", "inside(\"xabcx\")",
		"ltrimstr(1)", "splits(\", *\")", "[splits(\"a\")]", "ascii_downcase | explode | length", "@text \"\\(.)\" | length", "tostring | tojson | fromjson | fromjson?", "[.[]?]", "implode", "[limit(3; explode[])] | implode")
}

func (g *pgen) numStage() string {
	n := nums[g.r.Intn(len(nums))]
	return g.pick(". + "+n, ". - "+n, ". * "+n, ". / 2", ". % 3", "-(.)", "floor", "sqrt", "pow(.; 2)", "tostring", "tojson", "@text", ". == "+n, ". < "+n, "[., "+n+"] | sort", "[., "+n+"] | unique",
		". as $x | [$x, $x + 1]", "tojson | fromjson", "tostring | tonumber", "[., "+n+"] | min", "[., "+n+"] | max", "abs", "fabs", "ceil", "round", "isnan", "isinfinite", "isnormal", "nan | tojson", "[nan] | sort | tojson",
		"infinite | tostring", "-infinite | tojson", "[., nan] | tojson", ". * 1000000000000 | tostring", ". / 0", ". % 0", "[limit(5; range(.))]", "[range(0; .; 2)]", "[range(.; 0; -1)] | length", "log2 | floor", "exp10", "significand", "logb", "trunc",
		n+" | tojson", n+" | @json", n+" | . + 1 | tostring", "["+n+", 1] | add", n+" as $big | [$big, $big] | tojson", "length", "tostring | length", "[., 1, \"a\", null, true, [], {}] | sort", "[splits(\"a\")]?", "ltrimstr(\"a\")")
}

func (g *pgen) structStage() string {
	return g.pick("paths", "[paths]", "[paths(type == \"number\")]", "[paths(..)]", "[leaf_paths]", "getpath([\"a\", 0])", "getpath([\"a\", \"b\"])", "[getpath([\"a\"], [\"b\"], [0])]", "[path(..)]", "path(.a[0].b)", "[path(.. | select(type == \"string\"))]",
		"to_entries", "with_entries(.value |= tostring)", "with_entries(select(.value != null))", "from_entries", "del(.a)", "del(.[0])", "del(.[] | select(. == null))", "del(.a, .b)", "setpath([\"a\"]; 1)", "setpath([0, \"x\"]; null)", "delpaths([[\"a\"], [0]])",
		"pick(.a)", "pick(.[0])", ".a = 1", ".[0] |= . + 1", ".a += 1", ".[] //= 0", ".a //= \"d\"", ".a -= 1", ".a *= 2", ".a /= 2", ".a %= 2", ".. |= .", "(.. | numbers) |= . + 1", "(.a, .b) = 9", ".a |= empty", ".[1:] = [\"x\"]", ".[2:4] |= map(. * 2)?",
		"map_values(. + 1)", "map_values(empty)", "walk(if type == \"number\" then . + 1 else . end)", "walk(if type == \"object\" then del(.a) else . end)", "[tostream]", "fromstream(tostream)", "[tostream] | length", "flatten", "flatten(1)", "transpose", "group_by(.a)", "group_by(type)",
		"unique_by(length)", "unique_by(tostring)", "min_by(.a)", "max_by(length)", "sort_by(.a, .b)", "sort_by(type)", "sort", "unique", "any", "all", "add", "add(.[]?)", "[limit(3; .[]?)]", "first(.[]?)", "[first(range(10))]", "until(. > 100 or . <= 0; . * 2)?", "[.[]? | until(type != \"number\" or . > 100 or . <= 0; . * 2)]",
		"[recurse(.[]?; . != null)] | length", "[..] | length", "[.. | scalars]", "[.. | type]", "env.VERIF", "$ENV.VERIF", "env | type", "$ENV | has(\"VERIF\")", "input_filename", "keys", "keys_unsorted", "values", "[.[]?] | length", "length", "has(\"a\")", "has(0)", "map(has(\"a\"))?", "in({\"a\": 1})?",
		"contains({a: 1})?", "contains([1])?", "inside([1, 2, 3])?", "indices(1)?", "indices([1, 2])?", "index(1)?", "combinations?", "[combinations(2)]?", "to_entries | map(.key)", "reverse", "tojson", "tojson | fromjson", "tojson | fromjson == .", "[.[]? | tojson]", "@json", "@text", "tostring",
		"splits(\"a\")?", "ascii?", "[.[]? | strings | ascii_downcase]", "[.[]? | numbers]", "[.[]? | select(type == \"boolean\")]", "map(type)?", "type", "isvalid(.a)?", "getpath([\"a\"]) as $x | [$x]", "[splits(\"x\")]?", "limit(0; .[]?)", "[limit(-1; .[]?)]?", "nth(1)?", "[nth(0, 2; .[]?)]", "last", "first", "[last(.[]?)]",
		"isempty(.[]?)", "[range(3)] == .", "error", "error(null)", "error({a: .})", "try error catch .", "try error({a: 1}) catch .a", ".a?", ".[\"a\"]?", ".[0]?", "..?", "[.[]?.a?]", "(.a // \"none\")", "[.[]? // 1]", "(.a, .b) // 2", "first(.a, .b) // 3", "if . then 1 elif . == null then 2 else 3 end", "[.[]? | if type == \"number\" then . else empty end]",
		". as [$a, $b] | [$b, $a]", ". as {a: $x} | $x", ". as {$a, b: [$c]} | [$a, $c]", ". as [$a] ?// $a | [$a]", ".[] as [$a] ?// {a: $a} ?// $a | $a", "reduce .[]? as $x (0; . + ($x | length))", "[foreach .[]? as $x (0; . + 1; [$x, .])]", "foreach .[]? as [$a, $b] (null; $a; $b)",
		"label $out | .[]? | if . == null then break $out else . end", "[label $f | range(10) | ., (select(. == 2) | break $f)]", "def f: if . > 3 then . else . + 1 | f end; [.[]? | numbers | f]", "def fac: if . <= 1 then 1 else . * (. - 1 | fac) end; [range(1; 6) | fac]", "def f(g): [g, g]; f(.[]?)", "def f($a; $b): $a + $b; f(.[0]?; .[1]?)", "def f(x): x | x; f(.[0]?)",
		"{a: .a?, b: (.[0]?)}", "{(.[]? | strings): 1}", "{a: (1, 2), b: (3, 4)}", "{\"x\\(1 + 1)\": .}", "{$__prog_name}?", "[.[]? | {k: ., t: type}]", "[., .] | {a: .[0], b: .[1]} | .a == .b", "\"\\(.)\"", "\"\\(.a?)-\\(.b?)\"", "[\"x\\(.[]?)\"]", "@json \"\\(.)\"", "[.[]? | tostring]", "[.[]?] | join(\",\")?", "input", "[inputs]", "[., input]", "first(inputs)", "[limit(1; inputs)]", "debug", "debug(\"msg\")", "[.[]? | debug] | length", "stderr", "[.[]? | stderr]", "(debug | stderr | empty), 1",
		"ltrimstr(\"a\")?", "splits(\", \")?", "@base64d?", "getpath([\"a\", \"b\", \"c\"])?", "group_by(.a)?", "unique_by(.a)?", "min_by(.a)?", "walk(.)", "walk(tostring)?", "env | length > 0", "[paths] | length", "[leaf_paths] | length", "tojson | length", "ascii_downcase?", "limit(2; .[]?)", "first(.[]?, 1)", "until(true; .)", "[splits(\"a\"; \"g\")]?", "ascii(65)?", "tojson | @base64 | @base64d | fromjson")
}

func (g *pgen) program() string {
	stage := func() string {
		switch g.r.Intn(10) {
		case 0, 1, 2:
			return g.regexStage()
		case 3, 4:
			return g.stringStage()
		case 5:
			return g.numStage()
		default:
			return g.structStage()
		}
	}
	p := stage()
	for g.r.Intn(3) == 0 {
		p = p + " | " + stage()
	}
	switch g.r.Intn(12) {
	case 0:
		p = "[" + p + "]"
	case 1:
		p = "try (" + p + ") catch \"caught\""
	case 2:
		p = ".[]? | " + p
	case 3:
		p = "[.. | strings | " + g.regexStage() + "]"
	case 4:
		p = "[.[]? | strings | " + g.stringStage() + "]"
	case 5:
		p = "[.[]? | numbers | " + g.numStage() + "]"
	case 6:
		p = "(" + p + ")?"
	case 7:
		p = "map(" + p + ")?"
	}
	return p
}

func hasNonASCII(s string) bool {
	for _, c := range s {
		if c > 126 || c < 32 {
			return true
		}
	}
	return false
}

// collect literal tables for the core check (TraceJq evaluates JqCore.Run when they are present)
func collectLits(a any, strs map[string][]int, nums map[string]int, ok *bool) {
	switch a := a.(type) {
	case map[string]any:
		for k, v := range a {
			if s, isStr := v.(string); isStr {
				switch k {
				case "number":
					var n int
					if _, err := fmt.Sscanf(s, "%d", &n); err != nil || fmt.Sprint(n) != s || n > 100000 {
						*ok = false
					} else {
						nums[s] = n
					}
				case "type", "op", "format", "break", "ident", "import_path", "import_alias", "include_path":
				default:
					if hasNonASCII(s) {
						*ok = false
					} else if s != "" {
						cp := []int{}
						for _, c := range s {
							cp = append(cp, int(c))
						}
						strs[s] = cp
					}
				}
			} else {
				collectLits(v, strs, nums, ok)
			}
		}
	case []any:
		for _, v := range a {
			collectLits(v, strs, nums, ok)
		}
	}
}

var coreFuncs = map[string]bool{}

func init() {
	for _, n := range strings.Fields(`not in map with_entries select recurse while until repeat range add min_by max_by sort_by group_by unique_by arrays objects strings numbers
		booleans nulls values scalars iterables first last isempty all any limit nth paths inputs length keys type tostring tojson fromjson explode implode to_entries from_entries
		sort unique min max reverse input_filename has split ltrimstr rtrimstr startswith endswith join getpath empty error input debug stderr path`) {
		coreFuncs[n] = true
	}
}

// is every node of the tree something JqCore.tla gives a meaning to (conservative)?
func inCoreShape(a any) bool {
	switch a := a.(type) {
	case map[string]any:
		if t, ok := a["type"].(string); ok {
			switch t {
			case "TermTypeFormat":
				if f, _ := a["format"].(string); f != "@json" && f != "@text" {
					return false
				}
			case "TermTypeFunc":
				f := a["func"].(map[string]any)
				name := f["name"].(string)
				if !strings.HasPrefix(name, "$") && !coreFuncs[name] && len(name) > 1 {
					return false
				}
			}
		}
		if op, ok := a["op"].(string); ok {
			switch op {
			case "=", "|=", "+=", "-=", "*=", "/=", "%=", "//=":
				return false
			}
		}
		for k, v := range a {
			if k == "meta" || k == "imports" {
				return false
			}
			if !inCoreShape(v) {
				return false
			}
		}
	case []any:
		for _, v := range a {
			if !inCoreShape(v) {
				return false
			}
		}
	}
	return true
}

// fixedPrograms: families that are part of every run, whatever the seed.
// JSON texts that are NOT one well-formed document - a document followed by a closing bracket or brace, by a separator, by a
// second document, by letters; documents cut short; near-misses of the literals - through fromjson in its three error-handling
// shapes.  The reference engine fails on every one of them, and fails at that point of the output sequence.
func fixedPrograms() []string {
	texts := []string{"[1]]", "{\"a\":1}}", "1 ]", "[1] }x", "[1]\n]", "{\"a\":[1,2]}}", "[[1]]]", "1}", "\"s\"]", "null]", "[1],", "[1]:", "[1] [2]", "1 2", "{}{}", "[1]x", "[1,]", "[,1]", "[1 2]",
		"{\"a\" 1}", "{\"a\":1,}", "{1:2}", "nul", "tru", "nulll", "NaN", "nan", "01", "1e", "-", "+1", ".5", "\"a", "[", "{", "]", "}", "", " ", "[1]\n\n", " [1] ", "\t{\"a\":1}\n", "[1]\u0000", "'a'"}
	var ps []string
	for _, t := range texts {
		b, _ := json.Marshal(t)
		lit := string(b)
		ps = append(ps, "1, ("+lit+" | fromjson), 2", "[("+lit+", \"[2]\") | fromjson?]", "try ("+lit+" | fromjson) catch \"bad\"")
	}
	return ps
}

func generate(n int) []tcase {
	g := &pgen{r: rand.New(rand.NewSource(kit.Seed()*104729 + 7))}
	var cases []tcase
	seen := map[string]bool{}
	fixed := fixedPrograms()
	for tries := 0; len(cases) < n && tries < n*50; tries++ {
		p := g.program()
		if tries < len(fixed) {
			p = fixed[tries]
		}
		if seen[p] {
			continue
		}
		seen[p] = true
		if c, _ := jqrun.GojqCompile(p); c == nil {
			continue
		}
		c := tcase{ID: []string{"go", fmt.Sprint(len(cases)), ""}, Prog: p}
		vb, _ := json.Marshal(g.value(3))
		t, err := jqrun.ParseJSONText(string(vb))
		if err != nil {
			continue
		}
		c.Input, _ = json.Marshal(t)
		c.InputText = string(vb)
		if sideRe.MatchString(p) {
			ins := []any{}
			c.InputsText = []string{}
			for k := 1 + g.r.Intn(2); k > 0; k-- {
				ib, _ := json.Marshal(g.value(1))
				it, _ := jqrun.ParseJSONText(string(ib))
				ins = append(ins, it)
				c.InputsText = append(c.InputsText, string(ib))
			}
			c.Inputs, _ = json.Marshal(ins)
		}
		// tree and literal tables for the core check
		if q, err := gojq.Parse(p); err == nil {
			if ab, err := json.Marshal(q); err == nil {
				var a any
				_ = json.Unmarshal(ab, &a)
				strsT, numsT, ok := map[string][]int{}, map[string]int{}, true
				collectLits(a, strsT, numsT, &ok)
				if ok && inCoreShape(a) && !hasNonASCII(string(vb)) && !strings.Contains(string(c.Input), `"t":"big"`) && !strings.Contains(string(c.Inputs), `"t":"big"`) {
					c.Ast = ab
					strsT["a"] = []int{97} // TLC needs non-empty records of one shape
					numsT["0"] = 0
					c.Lits, _ = json.Marshal(map[string]any{"str": strsT, "num": numsT})
				}
			}
		}
		cases = append(cases, c)
	}
	if len(cases) < n {
		kit.Fatalf("generator produced only %d of %d programs", len(cases), n)
	}
	return cases
}
