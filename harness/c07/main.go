package main

import (
	"bytes"
	"context"
	"fmt"
	"io"
	"io/fs"
	"os"
	"time"

	_ "github.com/wader/fq/format/all"
	"github.com/wader/fq/pkg/interp"
)

type vfs struct{}

func (vfs) Open(name string) (fs.File, error) { return nil, &fs.PathError{Op: "open", Path: name, Err: fs.ErrNotExist} }

type vin struct{ interp.FileReader }

func (vin) IsTerminal() bool { return false }
func (vin) Size() (int, int) { return 120, 25 }

type vout struct{ io.Writer }

func (vout) Size() (int, int) { return 120, 25 }
func (vout) IsTerminal() bool { return false }

type vos struct {
	args           []string
	stdout, stderr *bytes.Buffer
}

func (o *vos) Platform() interp.Platform { return interp.Platform{} }
func (o *vos) Stdin() interp.Input {
	return vin{FileReader: interp.FileReader{R: bytes.NewBuffer(nil)}}
}
func (o *vos) Stdout() interp.Output                             { return vout{o.stdout} }
func (o *vos) Stderr() interp.Output                             { return vout{o.stderr} }
func (o *vos) InterruptChan() chan struct{}                      { return nil }
func (o *vos) Environ() []string                                 { return []string{"NO_COLOR=1"} }
func (o *vos) Args() []string                                    { return o.args }
func (o *vos) ConfigDir() (string, error)                        { return "/config", nil }
func (o *vos) FS() fs.FS                                         { return vfs{} }
func (o *vos) History() ([]string, error)                        { return nil, nil }
func (o *vos) Readline(opts interp.ReadlineOpts) (string, error) { return "", io.EOF }

func runFq(args []string) (string, string, int) {
	o := &vos{args: args, stdout: &bytes.Buffer{}, stderr: &bytes.Buffer{}}
	i, err := interp.New(o, interp.DefaultRegistry)
	if err != nil {
		return "", err.Error(), -1
	}
	err = i.Main(context.Background(), o.Stdout(), "v")
	code := 0
	if err != nil {
		if ex, ok := err.(interp.Exiter); ok {
			code = ex.ExitCode()
		} else {
			code = -2
		}
	}
	return o.stdout.String(), o.stderr.String(), code
}

func main() {
	t := time.Now()
	n := 20
	for k := 0; k < n; k++ {
		so, se, c := runFq([]string{"fq", "-nc", "--argjson", "in", "[1,2]", os.Args[1]})
		if k == 0 {
			fmt.Printf("%q %q %d\n", so, se, c)
		}
	}
	fmt.Println(time.Since(t) / time.Duration(n))
}
