package main

import (
	"fmt"
	"os"
	"time"

	"github.com/wader/fq/internal/verif/c07/jqrun"
)

func main() {
	t := time.Now()
	r := jqrun.Fq(append([]string{"fq"}, os.Args[1:]...), nil, nil, 60*time.Second)
	fmt.Println(len(r.Stdout), r.Exit, time.Since(t))
}
