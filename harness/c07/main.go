// c07: standard jq programs in fq versus the bare embedded engine (JqCore.tla is the third voice).
//
//	c07 replay <cases.ndjson> <events.ndjson> [single_every]   TLC-emitted {id, prog, ast, input, inputs, out, side, core}
//	c07 rand <n> <events.ndjson>                               seeded grammar generator (gen.go) beyond the TLA+ universe
//	c07 probe <prog> <input json> [inputs json array]          one program, both sides, printed
//
// Every program goes through fq's command line evaluation path (interp.Main -> _main -> _cli_eval -> rewrite -> _eval with
// fq's init.jq included): in batches (one command line expression evaluating many programs on their inputs, values and error
// values exact) and, for programs using the side channel or input/inputs and for a seeded sample of the others, as the plain
// command line `fq -nc --argjson __vin V '$__vin | PROG' [input files]` (stdout lines, stderr, exit status).
// The reference is gojq.Parse/Compile/Run without any of fq's definitions (jqrun.GojqCompile).
// The harness records; TLC (TraceJq.tla) compares fq with the reference and, inside the core, both with JqCore.Run.
package main

import (
	"encoding/json"
	"fmt"
	"os"
	"reflect"
	"regexp"
	"runtime"
	"sort"
	"strings"
	"sync"
	"time"

	"github.com/wader/fq/internal/verif/c07/jqrun"
	"github.com/wader/fq/internal/verif/kit"
)

type tcase struct {
	ID     []string        `json:"id"`
	Prog   string          `json:"prog"`
	Ast    json.RawMessage `json:"ast,omitempty"`
	Input  json.RawMessage `json:"input"`
	Inputs json.RawMessage `json:"inputs,omitempty"`
	Out    json.RawMessage `json:"out,omitempty"`
	Side   json.RawMessage `json:"side,omitempty"`
	Core   *bool           `json:"core,omitempty"`
	Lits   json.RawMessage `json:"lits,omitempty"`
	// generator cases: the JSON texts themselves (a tagged value cannot carry 1e1000 back to text)
	InputText  string   `json:"-"`
	InputsText []string `json:"-"`
}

// tagged value (JsonVal.tla) -> JSON text
func untag(v any) string {
	m := v.(map[string]any)
	str := func(a any) string {
		var sb strings.Builder
		for _, c := range a.([]any) {
			sb.WriteRune(rune(int(c.(float64))))
		}
		return sb.String()
	}
	switch m["t"] {
	case "null", "true", "false":
		return m["t"].(string)
	case "num":
		return fmt.Sprintf("%d", int64(m["n"].(float64)))
	case "big":
		return str(m["b"])
	case "str":
		b, _ := json.Marshal(str(m["s"]))
		return string(b)
	case "arr":
		xs := m["v"].([]any)
		parts := make([]string, len(xs))
		for i := range xs {
			parts[i] = untag(xs[i])
		}
		return "[" + strings.Join(parts, ",") + "]"
	case "obj":
		ks, vs := m["k"].([]any), m["v"].([]any)
		parts := make([]string, len(ks))
		for i := range ks {
			b, _ := json.Marshal(str(ks[i]))
			parts[i] = string(b) + ":" + untag(vs[i])
		}
		return "{" + strings.Join(parts, ",") + "}"
	}
	kit.Fatalf("untag: %v", v)
	return ""
}

func untagRaw(raw json.RawMessage) string {
	var v any
	kit.Unmarshal(raw, &v)
	return untag(v)
}

var sideRe = regexp.MustCompile(`\b(debug|stderr|input|inputs|input_filename|halt|halt_error|input_line_number)\b`)
var inputRe = regexp.MustCompile(`\b(input|inputs|halt|halt_error|input_filename|input_line_number)\b`)

// input/inputs deliver what fq decoded from the input files: decode values, whose behaviour under further jq processing is the
// subject of C08.  C07 judges input/inputs only where their results go straight to the output: programs built from nothing but
// input, inputs, array/comma/pipe/identity, first(..), limit(n; ..), literals.
var identRe = regexp.MustCompile(`[A-Za-z_$][A-Za-z0-9_]*`)

func inputStraightToOutput(p string) bool {
	for _, id := range identRe.FindAllString(p, -1) {
		switch id {
		case "input", "inputs", "first", "limit", "empty", "null", "true", "false", "input_filename":
		default:
			return false
		}
	}
	return !strings.ContainsAny(p, "+-*/%<>=?{}")
}

type event map[string]any

var fromjsonRe = regexp.MustCompile(`\bfromjson\b`)

// the comparison rule of TraceJq.tla, used only to decide whether extra evidence is worth gathering
func sameOutcomes(fq, gj []jqrun.Outcome) bool {
	if len(fq) != len(gj) {
		return false
	}
	for i := range gj {
		switch gj[i]["k"] {
		case "v":
			if fq[i]["k"] != "v" || !reflect.DeepEqual(fq[i]["v"], gj[i]["v"]) {
				return false
			}
		case "e":
			if fq[i]["k"] != "e" {
				return false
			}
			if u, _ := gj[i]["u"].(bool); u && !reflect.DeepEqual(fq[i]["v"], gj[i]["v"]) {
				return false
			}
		default:
			return false
		}
	}
	return true
}

type work struct {
	c      tcase
	input  string   // JSON text
	inputs []string // JSON texts
	ev     event
}

// reference side
func runRef(w *work, c *jqrun.Compiled) {
	in, _ := jqrun.DecodeJSON(w.input)
	var ins []any
	for _, s := range w.inputs {
		v, _ := jqrun.DecodeJSON(s)
		ins = append(ins, v)
	}
	g := c.Run(in, ins, time.Second)
	w.ev["gj"] = g.Out
	w.ev["gj_side"] = g.Side
	w.ev["gj_stderr"] = jqrun.Cps(g.Stderr)
}

// plain command line: `fq -nc --argjson __vin V '$__vin | PROG' in0.json in1.json ...`
func runSingle(w *work) {
	files := map[string]string{}
	args := []string{"fq", "-nc", "--argjson", "__vin", w.input, "$__vin | " + w.c.Prog + "\n"}
	for i, s := range w.inputs {
		name := fmt.Sprintf("in%d.json", i)
		files[name] = s + "\n"
		args = append(args, name)
	}
	r := jqrun.Fq(args, files, nil, 20*time.Second)
	one := map[string]any{"exit": r.Exit, "timeout": r.TimedOut, "panic": r.Panicked}
	outs := []jqrun.Outcome{}
	bad := ""
	for _, line := range strings.Split(r.Stdout, "\n") {
		if line == "" {
			continue
		}
		t, err := jqrun.ParseJSONText(line)
		if err != nil {
			bad = "stdout line is not JSON: " + line
			break
		}
		outs = append(outs, jqrun.Outcome{"k": "v", "v": t})
	}
	if r.Exit == 5 {
		outs = append(outs, jqrun.Outcome{"k": "e"})
	} else if r.Exit != 0 {
		bad = fmt.Sprintf("exit %d: %s", r.Exit, r.Stderr)
	}
	one["out"] = outs
	one["stderr"] = jqrun.Cps(r.Stderr)
	one["stderr_text"] = r.Stderr
	if bad != "" {
		one["bad"] = bad
	}
	w.ev["cli"] = one
}

func replay(cases []tcase, singleEvery int) []event {
	ws := make([]*work, len(cases))
	byProg := map[string][]int{}
	var progs []string
	for i := range cases {
		c := cases[i]
		w := &work{c: c, ev: event{"id": c.ID, "prog": c.Prog, "input": c.Input}}
		if c.InputText != "" {
			w.input = c.InputText
		} else {
			w.input = untagRaw(c.Input)
		}
		if c.InputsText != nil {
			w.inputs = c.InputsText
			w.ev["inputs"] = c.Inputs
		} else if len(c.Inputs) > 0 {
			var xs []any
			kit.Unmarshal(c.Inputs, &xs)
			for _, x := range xs {
				w.inputs = append(w.inputs, untag(x))
			}
			w.ev["inputs"] = c.Inputs
		}
		if len(c.Ast) > 0 && c.Core == nil {
			w.ev["ast"] = c.Ast // TLC-emitted cases carry the prediction already; the tree is needed only to evaluate generated programs
		}
		if len(c.Lits) > 0 {
			w.ev["lits"] = c.Lits
		}
		if c.Core != nil {
			w.ev["spec"] = map[string]any{"out": c.Out, "side": c.Side, "core": *c.Core}
		}
		ws[i] = w
		if _, ok := byProg[c.Prog]; !ok {
			progs = append(progs, c.Prog)
		}
		byProg[c.Prog] = append(byProg[c.Prog], i)
	}
	// reference side, and which programs it compiles at all
	compiled := map[string]*jqrun.Compiled{}
	skip := map[string]bool{}
	var batchable []string
	{
		var rwg sync.WaitGroup
		rsem := make(chan struct{}, max(2, runtime.NumCPU()/2))
		var rmu sync.Mutex
		for _, p := range progs {
			rwg.Add(1)
			rsem <- struct{}{}
			go func(p string) {
				defer rwg.Done()
				defer func() { <-rsem }()
				c, cerr := jqrun.GojqCompile(p)
				if c == nil {
					for _, i := range byProg[p] {
						ws[i].ev["gj_compile"] = cerr
					}
					return
				}
				// a Go panic or a timeout of the bare engine: recorded, not judged; fq would only repeat it
				broken := false
				for _, i := range byProg[p] {
					runRef(ws[i], c)
					if g := ws[i].ev["gj"].([]jqrun.Outcome); len(g) > 0 && g[len(g)-1]["k"] == "x" {
						broken = true
						if why, _ := g[len(g)-1]["why"].(string); strings.HasPrefix(why, "panic") {
							ws[i].ev["engine_panic"] = true
						}
						break
					}
				}
				rmu.Lock()
				defer rmu.Unlock()
				if broken {
					for _, i := range byProg[p] {
						if _, ok := ws[i].ev["gj"]; !ok {
							ws[i].ev["gj"] = []jqrun.Outcome{{"k": "x", "why": "not run"}}
							ws[i].ev["gj_side"] = []any{}
							ws[i].ev["gj_stderr"] = []int{}
						}
					}
					skip[p] = true
					return
				}
				compiled[p] = c
			}(p)
		}
		rwg.Wait()
		for _, p := range progs {
			if compiled[p] != nil && !inputRe.MatchString(p) {
				batchable = append(batchable, p)
			}
		}
	}
	// fq, batch arm
	const B = 150
	var wg sync.WaitGroup
	sem := make(chan struct{}, max(2, runtime.NumCPU()/2))
	var mu sync.Mutex
	var runBatch func(ps []string)
	runBatch = func(ps []string) {
		// distinct inputs of the batch; every program is evaluated on its own inputs only
		idx := map[string]int{}
		var vin []string
		sel := make([][]int, len(ps))
		for k, p := range ps {
			for _, i := range byProg[p] {
				j, ok := idx[ws[i].input]
				if !ok {
					j = len(vin)
					idx[ws[i].input] = j
					vin = append(vin, ws[i].input)
				}
				sel[k] = append(sel[k], j)
			}
		}
		tmo := 30 * time.Second
		if len(ps) == 1 {
			tmo = 5 * time.Second
		}
		r := jqrun.Fq([]string{"fq", "-nc", "--argjson", "__vin", "[" + strings.Join(vin, ",") + "]", jqrun.BatchExprSel(ps, sel)}, nil, nil, tmo)
		var got [][][]jqrun.Outcome
		var err error
		if !r.TimedOut && r.Exit == 0 {
			got, err = jqrun.ParseBatchSel(r.Stdout, sel)
		}
		if r.TimedOut || r.Exit != 0 || err != nil {
			if len(ps) > 1 {
				runBatch(ps[:len(ps)/2])
				runBatch(ps[len(ps)/2:])
				return
			}
			mu.Lock()
			for _, i := range byProg[ps[0]] {
				ws[i].ev["fq_failed"] = fmt.Sprintf("exit=%d timeout=%v panic=%v err=%v stderr=%.300s", r.Exit, r.TimedOut, r.Panicked, err, r.Stderr)
			}
			mu.Unlock()
			return
		}
		mu.Lock()
		for k, p := range ps {
			for n, i := range byProg[p] {
				ws[i].ev["fq"] = got[k][n]
			}
		}
		mu.Unlock()
	}
	for lo := 0; lo < len(batchable); lo += B {
		hi := min(lo+B, len(batchable))
		wg.Add(1)
		sem <- struct{}{}
		go func(ps []string) {
			defer wg.Done()
			defer func() { <-sem }()
			runBatch(ps)
		}(batchable[lo:hi])
	}
	// fq, plain command line arm: side-channel / input programs always, the rest sampled
	n := 0
	for pi, p := range progs {
		if skip[p] {
			continue
		}
		if compiled[p] == nil {
			// a program the reference rejects must be rejected by fq too: one plain run
			i := byProg[p][0]
			wg.Add(1)
			sem <- struct{}{}
			go func(w *work) { defer wg.Done(); defer func() { <-sem }(); runSingle(w) }(ws[i])
			continue
		}
		always := sideRe.MatchString(p)
		if inputRe.MatchString(p) && !inputStraightToOutput(p) {
			for _, i := range byProg[p] {
				ws[i].ev["not_judged"] = "input results processed further (decode values: C08)"
			}
			continue
		}
		for k, i := range byProg[p] {
			if always || (singleEvery > 0 && k == 0 && pi%singleEvery == int(kit.Seed())%singleEvery) {
				n++
				wg.Add(1)
				sem <- struct{}{}
				go func(w *work) { defer wg.Done(); defer func() { <-sem }(); runSingle(w) }(ws[i])
			}
		}
	}
	wg.Wait()
	// Extra evidence for differences downstream of fromjson (no verdict here): fq's fromjson returns a decode value; the same
	// program with every fromjson followed by tovalue (the plain jq value) shows whether the difference comes from that alone.
	for _, w := range ws {
		fq, ok1 := w.ev["fq"].([]jqrun.Outcome)
		gj, ok2 := w.ev["gj"].([]jqrun.Outcome)
		if !ok1 || !ok2 || !strings.Contains(w.c.Prog, "fromjson") || sameOutcomes(fq, gj) {
			continue
		}
		p2 := fromjsonRe.ReplaceAllString(w.c.Prog, "(fromjson | tovalue)")
		r := jqrun.Fq([]string{"fq", "-nc", "--argjson", "__vin", "[" + w.input + "]", jqrun.BatchExpr([]string{p2})}, nil, nil, 10*time.Second)
		if r.Exit == 0 && !r.TimedOut {
			if got, err := jqrun.ParseBatch(r.Stdout, 1, 1); err == nil {
				w.ev["fq_fromjson_tovalue"] = got[0][0]
			}
		}
	}
	evs := make([]event, len(ws))
	for i, w := range ws {
		evs[i] = w.ev
	}
	return evs
}

func main() {
	if len(os.Args) < 2 {
		kit.Fatalf("usage")
	}
	switch os.Args[1] {
	case "replay":
		var cases []tcase
		kit.Cases(os.Args[2], func(_ int, raw []byte) {
			var c tcase
			kit.Unmarshal(raw, &c)
			cases = append(cases, c)
		})
		every := 0
		if len(os.Args) > 4 {
			every = kit.Atoi(os.Args[4])
		}
		out := kit.NewOut(os.Args[3])
		for _, e := range replay(cases, every) {
			out.Emit(e)
		}
		out.Close()
	case "rand":
		cases := generate(kit.Atoi(os.Args[2]))
		out := kit.NewOut(os.Args[3])
		for _, e := range replay(cases, 25) {
			out.Emit(e)
		}
		out.Close()
	case "probe":
		ins := []string{}
		if len(os.Args) > 4 {
			var xs []json.RawMessage
			kit.Unmarshal([]byte(os.Args[4]), &xs)
			for _, x := range xs {
				ins = append(ins, string(x))
			}
		}
		in, err := jqrun.ParseJSONText(os.Args[3])
		if err != nil {
			kit.Fatalf("input: %v", err)
		}
		inb, _ := json.Marshal(in)
		c := tcase{ID: []string{"probe"}, Prog: os.Args[2], Input: inb}
		if len(ins) > 0 {
			var tg []any
			for _, s := range ins {
				t, _ := jqrun.ParseJSONText(s)
				tg = append(tg, t)
			}
			c.Inputs, _ = json.Marshal(tg)
		}
		e := replay([]tcase{c}, 1)[0]
		keys := make([]string, 0, len(e))
		for k := range e {
			keys = append(keys, k)
		}
		sort.Strings(keys)
		for _, k := range keys {
			b, _ := json.Marshal(e[k])
			fmt.Printf("%s: %s\n", k, b)
		}
	default:
		kit.Fatalf("unknown mode")
	}
}
