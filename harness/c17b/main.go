// c17b: the independence clause of C17 on BINARY inputs, whose default display carries the file name and a dump
// (the JSON fixtures of harness/c17 print plain JSON, which cannot show an input decoded under the wrong circumstances).
//
//	c17b indep <events.ndjson>   every list of 1..3 inputs over {gzip, png, json, undecodable, missing} x programs
package main

import (
	"bytes"
	"compress/gzip"
	"image"
	"image/png"
	"os"

	_ "github.com/wader/fq/format/all"
	"github.com/wader/fq/internal/verif/kit"
	"github.com/wader/fq/pkg/interp"
)

func fixtures() map[string][]byte {
	var gz bytes.Buffer
	w := gzip.NewWriter(&gz)
	w.Write([]byte("hello verif\n"))
	w.Close()
	var pb bytes.Buffer
	png.Encode(&pb, image.NewGray(image.Rect(0, 0, 2, 2)))
	return map[string][]byte{"g.gz": gz.Bytes(), "p.png": pb.Bytes(), "j.json": []byte("{\"a\":[1,2]}\n"), "u.bin": {0xde, 0xad, 0xbe, 0xef, 0x01, 0x02, 0x03}}
}

var kindFile = map[string]string{"G": "g.gz", "P": "p.png", "J": "j.json", "U": "u.bin", "M": "missing"}

func exitOf(err error) int {
	if err == nil {
		return 0
	}
	if ex, ok := err.(interp.Exiter); ok {
		return ex.ExitCode()
	}
	return 1
}

func main() {
	if os.Args[1] != "indep" {
		kit.Fatalf("unknown mode")
	}
	out := kit.NewOut(os.Args[2])
	fx := fixtures()
	kinds := []string{"G", "P", "J", "U", "M"}
	progs := []string{".", "._format", "[.. | ._name?] | length", "tobytes | length"}
	solo := map[string][]byte{}
	for _, pr := range progs {
		for _, k := range []string{"G", "P", "J"} {
			r := kit.RunFQ([]string{pr, kindFile[k]}, fx, nil)
			if r.Err != nil {
				kit.Fatalf("solo run of %s %s failed: %v %s", pr, k, r.Err, r.Stderr)
			}
			solo[pr+"|"+k] = r.Stdout
		}
	}
	var lists [][]string
	var rec func(cur []string)
	rec = func(cur []string) {
		if len(cur) > 0 {
			lists = append(lists, append([]string{}, cur...))
		}
		if len(cur) == 3 {
			return
		}
		for _, k := range kinds {
			rec(append(cur, k))
		}
	}
	rec(nil)
	for _, pr := range progs {
		for _, l := range lists {
			args := []string{pr}
			var want []byte
			for _, k := range l {
				args = append(args, kindFile[k])
				want = append(want, solo[pr+"|"+k]...)
			}
			r := kit.RunFQ(args, fx, nil)
			out.Emit(map[string]any{"inputs": l, "prog": pr, "equal": bytes.Equal(r.Stdout, want), "exit": exitOf(r.Err),
				"got_len": len(r.Stdout), "want_len": len(want)})
		}
	}
	out.Close()
}
