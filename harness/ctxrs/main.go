// ctxrs: binds CtxReadSeeker.tla to internal/ctxreadseeker (the context-aware file reader under every opened file).
//
//	ctxrs replay <cases.ndjson> <out.ndjson>   run TLC-emitted scenarios on a real ctxreadseeker.Reader over a gated source and
//	                                           record one trace of events per scenario (numbered by an atomic counter)
//	ctxrs storm <n>                            unsynchronised driver for the race detector: reads racing with cancellation
//
// A scenario is {calls: n, cancel: {at: "before"|"during"|"after"|"never", call: k}, release: "before_return"|"after_return"}:
// the source blocks inside the k-th underlying Read until the harness opens its gate, so that the cancellation can be placed
// before the call, while the underlying Read is in flight (the caller returns first or the source returns first), or after it.
// No expectation is computed here: the traces are validated by TLC against CtxReadSeeker.tla.
package main

import (
	"context"
	"errors"
	"io"
	"os"
	"runtime"
	"sync"
	"sync/atomic"
	"time"

	"github.com/wader/fq/internal/ctxreadseeker"
	"github.com/wader/fq/internal/verif/kit"
)

type Scenario struct {
	Calls   int    `json:"calls"`
	At      string `json:"at"`      // before during after never
	Call    int    `json:"call"`    // 1-based call the cancellation is placed at
	Release string `json:"release"` // during only: "before_return" the source returns, then the caller is let go; "after_return" the caller returns (cancelled) first
}

type Ev struct {
	Seq  int64  `json:"seq"`
	Op   string `json:"op"` // call under_start under_end ret cancel closed
	K    int    `json:"k"`
	Cls  string `json:"cls"` // ret: ok | ctx | other
	N    int    `json:"n"`   // ret ok: bytes
	Want int    `json:"want"`
}

type Trace struct {
	Sc      Scenario `json:"sc"`
	Events  []Ev     `json:"events"`
	Closed  bool     `json:"closed"`  // the source was closed (the loop goroutine took its ctx branch) within the grace period
	Leaked  int      `json:"leaked"`  // goroutines left over after the grace period, compared with before the scenario
	Payload bool     `json:"payload"` // every ok return delivered exactly the bytes the source produced for that call
}

type src struct {
	mu     sync.Mutex
	seq    *int64
	evs    *[]Ev
	k      int
	gateAt int
	gate   chan struct{}
	inside chan struct{}
	closed chan struct{}
	once   sync.Once
}

func (s *src) log(e Ev) {
	s.mu.Lock()
	e.Seq = atomic.AddInt64(s.seq, 1)
	*s.evs = append(*s.evs, e)
	s.mu.Unlock()
}

func (s *src) Read(p []byte) (int, error) {
	s.mu.Lock()
	s.k++
	k := s.k
	s.mu.Unlock()
	s.log(Ev{Op: "under_start", K: k})
	if k == s.gateAt {
		close(s.inside)
		<-s.gate
	}
	n := 1 + k%3
	if n > len(p) {
		n = len(p)
	}
	for i := 0; i < n; i++ {
		p[i] = byte(16*k + i)
	}
	s.log(Ev{Op: "under_end", K: k, N: n})
	return n, nil
}

func (s *src) Seek(off int64, wh int) (int64, error) { return 0, nil }
func (s *src) Close() error {
	s.once.Do(func() {
		s.log(Ev{Op: "closed"})
		close(s.closed)
	})
	return nil
}

func runScenario(sc Scenario) Trace {
	var seq int64
	var evs []Ev
	before := runtime.NumGoroutine()
	s := &src{seq: &seq, evs: &evs, gate: make(chan struct{}), inside: make(chan struct{}), closed: make(chan struct{})}
	if sc.At == "during" {
		s.gateAt = sc.Call
	}
	ctx, cancel := context.WithCancel(context.Background())
	r := ctxreadseeker.New(ctx, s)
	tr := Trace{Sc: sc, Payload: true}
	doCancel := func() {
		s.log(Ev{Op: "cancel"})
		cancel()
	}
	for k := 1; k <= sc.Calls; k++ {
		if sc.At == "before" && sc.Call == k {
			doCancel()
		}
		s.log(Ev{Op: "call", K: k})
		buf := make([]byte, 8)
		var n int
		var err error
		if sc.At == "during" && sc.Call == k {
			ret := make(chan struct{})
			go func() {
				n, err = r.Read(buf)
				close(ret)
			}()
			select {
			case <-s.inside: // the loop goroutine is inside the underlying Read
			case <-ret: // the call never reached the source
			}
			select {
			case <-ret:
			default:
				doCancel()
				if sc.Release == "before_return" {
					close(s.gate)
					<-ret
				} else {
					<-ret
					close(s.gate)
				}
			}
		} else {
			n, err = r.Read(buf)
		}
		cls := "ok"
		switch {
		case err == nil:
		case errors.Is(err, context.Canceled):
			cls = "ctx"
		default:
			cls = "other"
		}
		if cls == "ok" {
			// what the source wrote for the call that produced this result
			okp := n >= 1 && n <= 3
			for i := 0; okp && i < n; i++ {
				okp = buf[i]&0x0f == byte(i)
			}
			if !okp {
				tr.Payload = false
			}
		}
		s.log(Ev{Op: "ret", K: k, Cls: cls, N: n})
		if sc.At == "after" && sc.Call == k {
			doCancel()
		}
	}
	if sc.At == "never" {
		// nothing else: the reader stays usable; cancel at the very end so that the goroutine can go
		doCancel()
	}
	select {
	case <-s.closed:
		tr.Closed = true
	case <-time.After(300 * time.Millisecond):
	}
	select {
	case <-s.gate:
	default:
		if sc.At != "during" {
			close(s.gate)
		}
	}
	time.Sleep(20 * time.Millisecond)
	tr.Leaked = runtime.NumGoroutine() - before
	s.mu.Lock()
	tr.Events = append([]Ev{}, evs...)
	s.mu.Unlock()
	return tr
}

// storm: no synchronisation added by the harness between the reading goroutine and the cancelling one
func storm(n int) {
	for i := 0; i < n; i++ {
		ctx, cancel := context.WithCancel(context.Background())
		var seq int64
		var evs []Ev
		s := &src{seq: &seq, evs: &evs, gate: make(chan struct{}), inside: make(chan struct{}), closed: make(chan struct{})}
		r := ctxreadseeker.New(ctx, s)
		var wg sync.WaitGroup
		wg.Add(2)
		go func() {
			defer wg.Done()
			buf := make([]byte, 8)
			for k := 0; k < 50; k++ {
				if _, err := r.Read(buf); err != nil {
					return
				}
				if k%7 == 0 {
					r.Seek(0, io.SeekStart)
				}
			}
		}()
		go func() {
			defer wg.Done()
			for k := 0; k < i%40; k++ {
				runtime.Gosched()
			}
			cancel()
		}()
		wg.Wait()
		select {
		case <-s.closed:
		case <-time.After(50 * time.Millisecond):
		}
	}
}

func main() {
	switch os.Args[1] {
	case "replay":
		out := kit.NewOut(os.Args[3])
		kit.Cases(os.Args[2], func(_ int, raw []byte) {
			var sc Scenario
			kit.Unmarshal(raw, &sc)
			out.Emit(runScenario(sc))
		})
		out.Close()
	case "storm":
		storm(kit.Atoi(os.Args[2]))
	default:
		kit.Fatalf("unknown mode %q", os.Args[1])
	}
}
