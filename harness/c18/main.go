// c18: binds Jobs.tla to the real fq code: decode+display jobs sharing the process-wide registry.
//
//	c18 vet   <specs> <out> <nworkers> <memKB> <perJobSec>   every spec in a process of its own under RLIMIT_AS (non-race build): the lone result
//	c18 one                                                   that process: spec on stdin, result (hash, class, size, CPU ms) on stdout
//	c18 formats                                               registered groups and their default in-args (JSON)
//	c18 solo  <specs> <out> <orderSeed> <repeat>              every spec sequentially on one goroutine (orderSeed 0: file order)
//	c18 multi <specs> <groups> <out>                          several inputs through ONE Interp (`fq .. f1 f2`) against each input alone
//	c18 sched <specs> <solo> <scheds> <out>                   TLC-emitted schedules with start gates; the first one runs on a cold registry
//	c18 drive <specs> <solo> <out> <goroutines> <njobs> <roundSeed>   randomised concurrent driver, start/end events with atomic sequence numbers
//
// A job is (input bytes, format, options) run at one of two levels:
//
//	decode: interp.DefaultRegistry.Group(format) + decode.Decode with fresh options; result = digest text of the projected tree
//	interp: a fresh interp.Interp on a virtual OS running `fq -d FORMAT [-o k=v].. EXPR file`; result = stdout, stderr, exit status
//
// Every mode is meant to be run from the -race build (vet excepted); race reports go to stderr and are parsed by checks/c18.py.
// Exit status: 0 fine, 3 machinery error (kit.Fatalf), 5 a schedule did not finish in time (inconclusive), 66 race detector.
package main

import (
	"bytes"
	"context"
	"crypto/sha256"
	"encoding/hex"
	"encoding/json"
	"fmt"
	"io"
	"io/fs"
	"math/big"
	"math/rand"
	"os"
	"os/exec"
	"path/filepath"
	"sort"
	"strings"
	"sync"
	"sync/atomic"
	"syscall"
	"time"

	"github.com/mitchellh/copystructure"
	_ "github.com/wader/fq/format/all"
	"github.com/wader/fq/internal/bitiox"
	"github.com/wader/fq/internal/mapstruct"
	"github.com/wader/fq/internal/verif/kit"
	"github.com/wader/fq/pkg/bitio"
	"github.com/wader/fq/pkg/decode"
	"github.com/wader/fq/pkg/interp"
	"github.com/wader/fq/pkg/scalar"
)

// Spec is one concrete job kind: the result must be a function of exactly these fields.
type Spec struct {
	ID     string            `json:"id"`
	File   string            `json:"file"`
	Format string            `json:"format"`
	Level  string            `json:"level"` // decode | interp
	Opts   map[string]string `json:"opts"`  // per-format options (-o k=v); empty: unset
	Trunc  int               `json:"trunc"` // < 0: whole file, else first n bytes
	Expr   string            `json:"expr"`  // interp level: dv, tovalue, ...
}

type Result struct {
	Hash  string `json:"hash"`
	Class string `json:"class"` // ok | fail
	N     int    `json:"n"`
	Ms    int64  `json:"ms"`
	out   []byte
}

// ---------------------------------------------------------------- inputs (read once, never written afterwards)

var (
	dataMu sync.Mutex
	dataOf = map[string][]byte{}
)

func input(sp *Spec) []byte {
	dataMu.Lock()
	b, ok := dataOf[sp.File]
	if !ok {
		var err error
		b, err = os.ReadFile(sp.File)
		if err != nil {
			kit.Fatalf("read %s: %v", sp.File, err)
		}
		dataOf[sp.File] = b
	}
	dataMu.Unlock()
	if sp.Trunc >= 0 && sp.Trunc < len(b) {
		b = b[:sp.Trunc:sp.Trunc]
	}
	return b
}

func optKeys(sp *Spec) []string {
	var ks []string
	for k := range sp.Opts {
		ks = append(ks, k)
	}
	sort.Strings(ks)
	return ks
}

// optText: the option value as written after `-o k=`; "@file:<path>" stands for the content of that file as a JSON string
func optText(s string) string {
	if strings.HasPrefix(s, "@file:") {
		b, err := os.ReadFile(s[len("@file:"):])
		if err != nil {
			kit.Fatalf("option file: %v", err)
		}
		j, _ := json.Marshal(string(b))
		return string(j)
	}
	return s
}

func optValue(s string) any {
	s = optText(s)
	var v any
	if err := json.Unmarshal([]byte(s), &v); err != nil {
		return s
	}
	if f, ok := v.(float64); ok && f == float64(int(f)) {
		return int(f)
	}
	return v
}

// ---------------------------------------------------------------- interp level: virtual OS

type mfs struct {
	name string
	data []byte
	more map[string][]byte // further inputs of a several-files invocation
}
type mfile struct {
	*bytes.Reader
	name string
	size int64
}

func (f mfile) Stat() (fs.FileInfo, error) {
	return interp.FixedFileInfo{FName: f.name, FSize: f.size}, nil
}
func (f mfile) Close() error { return nil }
func (m mfs) Open(name string) (fs.File, error) {
	data := m.data
	if name != m.name {
		var ok bool
		if data, ok = m.more[name]; !ok {
			return nil, &fs.PathError{Op: "open", Path: name, Err: fs.ErrNotExist}
		}
	}
	return mfile{Reader: bytes.NewReader(data), name: name, size: int64(len(data))}, nil
}

type vin struct{ interp.FileReader }

func (vin) IsTerminal() bool { return false }
func (vin) Size() (int, int) { return 120, 25 }

type vout struct{ io.Writer }

func (vout) Size() (int, int) { return 120, 25 }
func (vout) IsTerminal() bool { return false }

type vos struct {
	args           []string
	stdout, stderr *bytes.Buffer
	fsys           fs.FS
}

func (o *vos) Platform() interp.Platform { return interp.Platform{} }
func (o *vos) Stdin() interp.Input {
	return vin{FileReader: interp.FileReader{R: bytes.NewBuffer(nil)}}
}
func (o *vos) Stdout() interp.Output        { return vout{o.stdout} }
func (o *vos) Stderr() interp.Output        { return vout{o.stderr} }
func (o *vos) InterruptChan() chan struct{} { return nil }
func (o *vos) Environ() []string            { return []string{"NO_COLOR=1", "NO_DECODE_PROGRESS=1"} }
func (o *vos) Args() []string               { return o.args }
func (o *vos) ConfigDir() (string, error)   { return "/config", nil }
func (o *vos) FS() fs.FS                    { return o.fsys }
func (o *vos) History() ([]string, error)   { return nil, nil }
func (o *vos) Readline(opts interp.ReadlineOpts) (string, error) {
	return "", io.EOF
}

func fqArgs(sp *Spec) []string {
	args := []string{"fq", "-d", sp.Format}
	for _, k := range optKeys(sp) {
		args = append(args, "-o", k+"="+optText(sp.Opts[k]))
	}
	expr := sp.Expr
	if expr == "" {
		expr = "dv"
	}
	return append(args, expr)
}

// runFq: one fresh Interp on the shared registry, one invocation
func runFq(args []string, fsys fs.FS) (stdout, stderr []byte, code int) {
	o := &vos{args: args, stdout: &bytes.Buffer{}, stderr: &bytes.Buffer{}, fsys: fsys}
	i, err := interp.New(o, interp.DefaultRegistry)
	if err != nil {
		kit.Fatalf("interp.New: %v", err)
	}
	err = i.Main(context.Background(), o.Stdout(), "verif")
	i.Stop()
	if err != nil {
		code = -2
		if ex, ok := err.(interp.Exiter); ok {
			code = ex.ExitCode()
		}
	}
	return o.stdout.Bytes(), o.stderr.Bytes(), code
}

func runInterp(sp *Spec, data []byte) ([]byte, string) {
	name := filepath.Base(sp.File)
	so, se, code := runFq(append(fqArgs(sp), name), mfs{name: name, data: data})
	var b bytes.Buffer
	b.Write(so)
	fmt.Fprintf(&b, "\n--stderr--\n%s\n--exit %d--\n", se, code)
	class := "ok"
	if code != 0 || len(se) != 0 {
		class = "fail"
	}
	return b.Bytes(), class
}

// runMulti: `fq -d F [-o ..] EXPR file1 file2 ..` on ONE Interp (include cache and global state carried from input to input),
// then every input alone on a fresh Interp: stdout and stderr of the former must be the concatenation of the latter.
func runMulti(group []*Spec) map[string]any {
	fsys := mfs{more: map[string][]byte{}}
	args := fqArgs(group[0])
	var ids []string
	for _, sp := range group {
		name := filepath.Base(sp.File)
		fsys.more[name] = input(sp)
		args = append(args, name)
		ids = append(ids, sp.ID)
	}
	so, se, code := runFq(args, fsys)
	var wo, we bytes.Buffer
	wcode := 0
	for _, sp := range group {
		name := filepath.Base(sp.File)
		o1, e1, c1 := runFq(append(fqArgs(sp), name), mfs{name: name, data: input(sp)})
		wo.Write(o1)
		we.Write(e1)
		if c1 != 0 {
			wcode = c1
		}
	}
	rec := map[string]any{"specs": ids, "match": true, "n": len(so) + len(se)}
	switch {
	case !bytes.Equal(so, wo.Bytes()):
		rec["match"], rec["detail"] = false, "stdout: "+firstDiff(wo.Bytes(), so)
	case !bytes.Equal(se, we.Bytes()):
		rec["match"], rec["detail"] = false, "stderr: "+firstDiff(we.Bytes(), se)
	case wcode == 0 && code != 0:
		rec["match"], rec["detail"] = false, fmt.Sprintf("exit status %d although every input alone exits 0", code)
	}
	return rec
}

// ---------------------------------------------------------------- decode level

func bitBufDigest(br bitio.ReaderAtSeeker) string {
	if br == nil {
		return "nil"
	}
	c, err := bitio.CloneReaderAtSeeker(br)
	if err != nil {
		return "noclone"
	}
	n, err := bitiox.Len(c)
	if err != nil {
		return "nolen"
	}
	if n > 1<<16 {
		return fmt.Sprintf("bits:%d", n)
	}
	bs, err := io.ReadAll(bitio.NewIOReader(c))
	if err != nil {
		return fmt.Sprintf("bits:%d:readerr", n)
	}
	h := sha256.Sum256(bs)
	return fmt.Sprintf("bits:%d:%x", n, h[:6])
}

func scalarText(v any) string {
	switch x := v.(type) {
	case nil:
		return "null"
	case bitio.ReaderAtSeeker:
		return bitBufDigest(x)
	case []byte:
		return fmt.Sprintf("bytes:%x", x)
	case bool, int, int64, uint64, float64, string, *big.Int:
		return fmt.Sprintf("%T:%v", v, v)
	default:
		// maps / slices of decoded JSON-like values; anything else only by type (no addresses in the digest)
		if b, err := json.Marshal(v); err == nil {
			return fmt.Sprintf("%T:%s", v, b)
		}
		return fmt.Sprintf("%T", v)
	}
}

// treeText projects a decode tree to text: every value with its path position, range, kind, scalar triple and error.
func treeText(w *bytes.Buffer, root *decode.Value) {
	_ = root.WalkPreOrder(func(v *decode.Value, _ *decode.Value, depth int, rootDepth int) error {
		fmt.Fprintf(w, "%d/%d %s [%d+%d] idx=%d root=%v", depth, rootDepth, v.Name, v.Range.Start, v.Range.Len, v.Index, v.IsRoot)
		if v.Format != nil {
			fmt.Fprintf(w, " fmt=%s", v.Format.Name)
		}
		if v.Err != nil {
			fmt.Fprintf(w, " err=%q", v.Err.Error())
		}
		switch vv := v.V.(type) {
		case *decode.Compound:
			fmt.Fprintf(w, " compound array=%v n=%d desc=%q", vv.IsArray, len(vv.Children), vv.Description)
		case scalar.Scalarable:
			fmt.Fprintf(w, " a=%s s=%s d=%q f=%d df=%d", scalarText(vv.ScalarActual()), scalarText(vv.ScalarSym()), vv.ScalarDescription(), vv.ScalarFlags(), vv.ScalarDisplayFormat())
		default:
			fmt.Fprintf(w, " other=%T", vv)
		}
		w.WriteByte('\n')
		return nil
	})
}

func runDecode(sp *Spec, data []byte) ([]byte, string) {
	group, err := interp.DefaultRegistry.Group(sp.Format) // lazy once-only resolution on first use
	if err != nil {
		kit.Fatalf("unknown format %s", sp.Format)
	}
	opts := decode.Options{IsRoot: true, FillGaps: true, Description: filepath.Base(sp.File)}
	if len(sp.Opts) > 0 {
		// fresh options: the harness owns the copy (same recipe as interp's ParseOptsFn)
		m := map[string]any{}
		for k, v := range sp.Opts {
			m[k] = optValue(v)
		}
		opts.ParseOptsFn = func(init any) any {
			v, err := copystructure.Copy(init)
			if err != nil {
				return nil
			}
			if err := mapstruct.ToStruct(m, &v); err != nil {
				return nil
			}
			return v
		}
	}
	dv, out, derr := decode.Decode(context.Background(), bitio.NewBitReader(data, -1), group, opts)
	var b bytes.Buffer
	class := "ok"
	if derr != nil {
		fmt.Fprintf(&b, "error: %s\n", derr.Error()) // a probe that succeeds still lists the formats that did not match
	}
	if dv == nil || dv.Err != nil {
		class = "fail"
	}
	fmt.Fprintf(&b, "out: %T\n", out)
	if dv != nil {
		treeText(&b, dv)
	} else {
		b.WriteString("no tree\n")
	}
	return b.Bytes(), class
}

func runSpec(sp *Spec) Result {
	t := time.Now()
	data := input(sp)
	var out []byte
	var class string
	switch sp.Level {
	case "decode":
		out, class = runDecode(sp, data)
	case "interp":
		out, class = runInterp(sp, data)
	default:
		kit.Fatalf("bad level %q", sp.Level)
	}
	h := sha256.Sum256(out)
	return Result{Hash: hex.EncodeToString(h[:10]), Class: class, N: len(out), Ms: time.Since(t).Milliseconds(), out: out}
}

func cpuMs() int64 {
	var ru syscall.Rusage
	if err := syscall.Getrusage(syscall.RUSAGE_SELF, &ru); err != nil {
		return 0
	}
	return (ru.Utime.Sec+ru.Stime.Sec)*1000 + int64(ru.Utime.Usec+ru.Stime.Usec)/1000
}

// ---------------------------------------------------------------- tables

func loadSpecs(path string) ([]*Spec, map[string]*Spec) {
	var l []*Spec
	m := map[string]*Spec{}
	kit.Cases(path, func(_ int, raw []byte) {
		sp := &Spec{}
		kit.Unmarshal(raw, sp)
		l = append(l, sp)
		m[sp.ID] = sp
	})
	return l, m
}

func loadSolo(path string) map[string]string {
	m := map[string]string{}
	kit.Cases(path, func(_ int, raw []byte) {
		var r struct {
			ID   string `json:"id"`
			Hash string `json:"hash"`
		}
		kit.Unmarshal(raw, &r)
		m[r.ID] = r.Hash
	})
	return m
}

func firstDiff(a, b []byte) string {
	la, lb := bytes.Split(a, []byte("\n")), bytes.Split(b, []byte("\n"))
	for i := 0; i < len(la) || i < len(lb); i++ {
		var x, y []byte
		if i < len(la) {
			x = la[i]
		}
		if i < len(lb) {
			y = lb[i]
		}
		if !bytes.Equal(x, y) {
			cut := func(s []byte) string {
				if len(s) > 160 {
					s = s[:160]
				}
				return string(s)
			}
			return fmt.Sprintf("line %d: solo %q / in schedule %q", i+1, cut(x), cut(y))
		}
	}
	return "no differing line"
}

// mismatch detail, computed after the process went quiet: re-run alone and show the first differing line
type pending struct {
	rec map[string]any
	sp  *Spec
	out []byte
}

func explain(ps []pending, solo map[string]string) {
	for _, p := range ps {
		r := runSpec(p.sp)
		if r.Hash == solo[p.sp.ID] {
			p.rec["detail"] = firstDiff(r.out, p.out)
			p.rec["sticky"] = false
		} else {
			// the process no longer reproduces the lone result even sequentially: state leaked and stayed
			p.rec["detail"] = "the state stays: run alone afterwards in the same process the job still does not give its lone result"
			p.rec["sticky"] = true
		}
	}
}

var seq atomic.Int64

// ---------------------------------------------------------------- sched mode

type SJob struct {
	Spec  string `json:"spec"`
	Wave  int    `json:"wave"`  // jobs of one wave are released together
	After []int  `json:"after"` // indices of jobs that must have completed before this one starts
}
type Sched struct {
	SID     string `json:"sid"`
	Threads int    `json:"threads"`
	Jobs    []SJob `json:"jobs"`
}

type barrier struct {
	n    int32
	cnt  atomic.Int32
	open chan struct{}
}

func (b *barrier) arrive() {
	if b.cnt.Add(1) == b.n {
		close(b.open)
	}
	<-b.open
}

func runSched(sc *Sched, specs map[string]*Spec, solo map[string]string, all *[]map[string]any, pend *[]pending) bool {
	n := len(sc.Jobs)
	done := make([]chan struct{}, n)
	waves := map[int]*barrier{}
	for i := range sc.Jobs {
		done[i] = make(chan struct{})
		w := sc.Jobs[i].Wave
		if waves[w] == nil {
			waves[w] = &barrier{open: make(chan struct{})}
		}
		waves[w].n++
	}
	recs := make([]map[string]any, n)
	outs := make([][]byte, n)
	var running, maxRunning atomic.Int32
	var wg sync.WaitGroup
	for i := range sc.Jobs {
		wg.Add(1)
		go func(i int) {
			defer wg.Done()
			j := sc.Jobs[i]
			sp := specs[j.Spec]
			for _, a := range j.After {
				<-done[a]
			}
			waves[j.Wave].arrive() // start gate: the whole wave is released at once
			r := running.Add(1)
			for {
				m := maxRunning.Load()
				if r <= m || maxRunning.CompareAndSwap(m, r) {
					break
				}
			}
			s := seq.Add(1)
			res := runSpec(sp)
			e := seq.Add(1)
			running.Add(-1)
			recs[i] = map[string]any{"sid": sc.SID, "j": i, "spec": sp.ID, "hash": res.Hash, "solo": solo[sp.ID], "class": res.Class,
				"match": res.Hash == solo[sp.ID], "start": s, "end": e, "ms": res.Ms}
			if res.Hash != solo[sp.ID] {
				outs[i] = res.out
			}
			close(done[i])
		}(i)
	}
	fin := make(chan struct{})
	go func() { wg.Wait(); close(fin) }()
	select {
	case <-fin:
	case <-time.After(180 * time.Second):
		fmt.Fprintf(os.Stderr, "HANG: schedule %s did not finish in 180s\n", sc.SID)
		return false
	}
	for i, r := range recs {
		r["maxrunning"] = maxRunning.Load()
		if outs[i] != nil {
			*pend = append(*pend, pending{rec: r, sp: specs[sc.Jobs[i].Spec], out: outs[i]})
		}
	}
	*all = append(*all, recs...)
	return true
}

// ---------------------------------------------------------------- drive mode

func drive(specs []*Spec, solo map[string]string, out *kit.Out, g, njobs int, seed int64) bool {
	rng := rand.New(rand.NewSource(seed))
	// job list: every spec about equally often, a few hot ones many times (same file many times), seeded order
	var list []*Spec
	hot := []*Spec{specs[rng.Intn(len(specs))], specs[rng.Intn(len(specs))], specs[rng.Intn(len(specs))]}
	for len(list) < njobs {
		if rng.Intn(5) == 0 {
			list = append(list, hot[rng.Intn(len(hot))])
		} else {
			list = append(list, specs[rng.Intn(len(specs))])
		}
	}
	type ev struct {
		Op   string `json:"op"`
		J    int    `json:"j"`
		Kind string `json:"kind"`
		Seq  int64  `json:"seq"`
		Hash string `json:"hash"`
		Solo string `json:"solo"`
	}
	var mu sync.Mutex
	var evs []ev
	type bad struct {
		j   int
		sp  *Spec
		out []byte
	}
	var bads []bad
	ch := make(chan int, len(list))
	for i := range list {
		ch <- i
	}
	close(ch)
	gate := &barrier{n: int32(g), open: make(chan struct{})}
	var wg sync.WaitGroup
	for w := 0; w < g; w++ {
		wg.Add(1)
		go func() {
			defer wg.Done()
			gate.arrive() // the first g jobs meet the cold registry together
			for i := range ch {
				sp := list[i]
				// the sequence number is taken and logged under one lock, so the log order is the order of the counter
				mu.Lock()
				evs = append(evs, ev{Op: "start", J: i, Kind: sp.ID, Seq: seq.Add(1), Hash: "", Solo: solo[sp.ID]})
				mu.Unlock()
				res := runSpec(sp)
				mu.Lock()
				evs = append(evs, ev{Op: "end", J: i, Kind: sp.ID, Seq: seq.Add(1), Hash: res.Hash, Solo: solo[sp.ID]})
				if res.Hash != solo[sp.ID] {
					bads = append(bads, bad{i, sp, res.out})
				}
				mu.Unlock()
			}
		}()
	}
	fin := make(chan struct{})
	go func() { wg.Wait(); close(fin) }()
	select {
	case <-fin:
	case <-time.After(time.Duration(120+njobs) * time.Second):
		fmt.Fprintf(os.Stderr, "HANG: driver did not finish\n")
		return false
	}
	for _, e := range evs {
		out.Emit(e)
	}
	for _, b := range bads {
		r := runSpec(b.sp)
		d := firstDiff(r.out, b.out)
		if r.Hash != solo[b.sp.ID] {
			d = "the state stays: run alone afterwards in the same process the job still does not give its lone result"
		}
		out.Emit(map[string]any{"op": "detail", "j": b.j, "kind": b.sp.ID, "detail": d, "sticky": r.Hash != solo[b.sp.ID]})
	}
	return true
}

// ---------------------------------------------------------------- main

func main() {
	if len(os.Args) < 2 {
		kit.Fatalf("usage")
	}
	switch os.Args[1] {
	case "formats":
		// registered group names, and per format the documented option names with their default values
		info := map[string]any{}
		for n, g := range interp.DefaultRegistry.Groups() {
			e := map[string]any{"nformats": len(g.Formats)}
			if len(g.Formats) == 1 && g.Formats[0].Name == n && g.Formats[0].DefaultInArg != nil {
				if m, err := mapstruct.ToMap(g.Formats[0].DefaultInArg); err == nil {
					e["inarg"] = m
				}
			}
			info[n] = e
		}
		b, _ := json.Marshal(info)
		fmt.Println(string(b))
	case "one":
		// one spec on stdin, its result on stdout: the lone run (this process does nothing else)
		raw, _ := io.ReadAll(os.Stdin)
		sp := &Spec{}
		kit.Unmarshal(raw, sp)
		c0 := cpuMs()
		r := runSpec(sp)
		r.Ms = cpuMs() - c0 // CPU time of the process, not wall time: the cost filter must not depend on the machine load
		b, _ := json.Marshal(r)
		fmt.Println(string(b))
	case "vet":
		var jobs [][]byte
		kit.Cases(os.Args[2], func(_ int, raw []byte) { jobs = append(jobs, raw) })
		out := kit.NewOut(os.Args[3])
		n, mem, sec := kit.Atoi(os.Args[4]), kit.Atoi(os.Args[5]), kit.Atoi(os.Args[6])
		self, _ := os.Executable()
		var mu sync.Mutex
		var wg sync.WaitGroup
		ch := make(chan int, len(jobs))
		for i := range jobs {
			ch <- i
		}
		close(ch)
		for w := 0; w < n; w++ {
			wg.Add(1)
			go func() {
				defer wg.Done()
				for i := range ch {
					ctx, cancel := context.WithTimeout(context.Background(), time.Duration(sec)*time.Second)
					cmd := exec.CommandContext(ctx, "sh", "-c", fmt.Sprintf("ulimit -v %d; exec \"$0\" one", mem), self)
					cmd.Stdin = bytes.NewReader(jobs[i])
					cmd.Env = append(os.Environ(), "GOMAXPROCS=2")
					var so, se bytes.Buffer
					cmd.Stdout, cmd.Stderr = &so, &se
					err := cmd.Run()
					timedOut := ctx.Err() != nil
					cancel()
					rec := map[string]any{"i": i, "outcome": "ok"}
					switch {
					case timedOut:
						rec["outcome"] = "hang"
					case err != nil:
						rec["outcome"] = "died"
						msg := se.String()
						if len(msg) > 300 {
							msg = msg[:300]
						}
						rec["msg"] = msg
					default:
						rec["res"] = json.RawMessage(bytes.TrimSpace(so.Bytes()))
					}
					mu.Lock()
					out.Emit(rec)
					mu.Unlock()
				}
			}()
		}
		wg.Wait()
		out.Close()
	case "solo":
		specs, _ := loadSpecs(os.Args[2])
		out := kit.NewOut(os.Args[3])
		seed, rep := kit.Atoi(os.Args[4]), kit.Atoi(os.Args[5])
		var order []int
		for r := 0; r < rep; r++ {
			for i := range specs {
				order = append(order, i)
			}
		}
		if seed != 0 {
			rand.New(rand.NewSource(int64(seed))).Shuffle(len(order), func(a, b int) { order[a], order[b] = order[b], order[a] })
		}
		for pos, i := range order {
			r := runSpec(specs[i])
			out.Emit(map[string]any{"id": specs[i].ID, "pos": pos, "hash": r.Hash, "class": r.Class, "n": r.N, "ms": r.Ms})
		}
		out.Close()
	case "multi":
		_, specs := loadSpecs(os.Args[2])
		out := kit.NewOut(os.Args[4])
		kit.Cases(os.Args[3], func(_ int, raw []byte) {
			var ids []string
			kit.Unmarshal(raw, &ids)
			var group []*Spec
			for _, id := range ids {
				if specs[id] == nil {
					kit.Fatalf("unknown spec %s", id)
				}
				group = append(group, specs[id])
			}
			out.Emit(runMulti(group))
		})
		out.Close()
	case "sched":
		_, specs := loadSpecs(os.Args[2])
		solo := loadSolo(os.Args[3])
		out := kit.NewOut(os.Args[5])
		var pend []pending
		var all []map[string]any
		ok := true
		kit.Cases(os.Args[4], func(_ int, raw []byte) {
			if !ok {
				return
			}
			sc := &Sched{}
			kit.Unmarshal(raw, sc)
			for _, j := range sc.Jobs {
				if specs[j.Spec] == nil {
					kit.Fatalf("schedule %s names unknown spec %s", sc.SID, j.Spec)
				}
			}
			ok = runSched(sc, specs, solo, &all, &pend)
		})
		if ok {
			explain(pend, solo)
		}
		for _, r := range all {
			out.Emit(r)
		}
		out.Close()
		if !ok {
			os.Exit(5)
		}
	case "drive":
		specs, _ := loadSpecs(os.Args[2])
		solo := loadSolo(os.Args[3])
		out := kit.NewOut(os.Args[4])
		ok := drive(specs, solo, out, kit.Atoi(os.Args[5]), kit.Atoi(os.Args[6]), int64(kit.Atoi(os.Args[7])))
		out.Close()
		if !ok {
			os.Exit(5)
		}
	default:
		kit.Fatalf("unknown mode %s", os.Args[1])
	}
}
