// c11: translation validation of fq's query round trip and rewrite (Query.tla), one event per program.
//
//	c11 facts <cases.ndjson> <events.ndjson> [sample_every]   cases {id, ast, min, full} (TLC) or {id, text} (generator)
//	c11 gen <n> <cases.ndjson>                                seeded grammar generator (texts the embedded parser accepts)
//
// The harness holds no oracle.  For every program it records what the real code did:
//
//	a      the tree (given, or text | _query_fromstring)
//	s1,a1  a | _query_tostring, and that text | _query_fromstring                       (fact 1)
//	b1,b2  full-parenthesis text | _query_fromstring, and b1 | _query_tostring | _query_fromstring   (fact 2)
//	rw     per option object: text | _eval_query_rewrite(opts) and its tree             (fact 3)
//	real   for sampled programs: the text the real command line / REPL handed to _eval  (fact 3, real option objects)
//	f4     outcome sequences of the real command line path and of the bare engine on the original text (fact 4)
//
// TLC (TraceQuery.tla) re-derives Norm and the expected rewrite from Query.tla and judges.
package main

import (
	"encoding/json"
	"fmt"
	"math/rand"
	"os"
	"runtime"
	"strings"
	"sync"
	"time"

	"github.com/wader/fq/internal/verif/c07/jqrun"
	"github.com/wader/fq/internal/verif/kit"
	"github.com/wader/gojq"
)

type gcase struct {
	ID   []string        `json:"id"`
	Ast  json.RawMessage `json:"ast,omitempty"`
	Min  string          `json:"min,omitempty"`
	Full string          `json:"full,omitempty"`
	Text string          `json:"text,omitempty"`
}

// TLC prints empty records as []: the struct-valued fields of the tree want {}.
func fixEmpty(v any) any {
	switch v := v.(type) {
	case map[string]any:
		for k, x := range v {
			if a, ok := x.([]any); ok && len(a) == 0 {
				switch k {
				case "array", "object", "str", "key_string", "meta":
					v[k] = map[string]any{}
					continue
				}
			}
			v[k] = fixEmpty(x)
		}
		return v
	case []any:
		for i := range v {
			v[i] = fixEmpty(v[i])
		}
		return v
	}
	return v
}

// the option objects init.jq (_main/_cli_eval) and repl.jq (_repl_eval) build, written with fq's own constructors.
// Their agreement with the real ones is observed on sampled programs (event field `real`).
const optsDef = `
def __verif_opts($m):
  if $m == "repl" then
    { slurps: {repl: "_repl_slurp", help: "_help_slurp", slurp: "_slurp"}
    , input_query: (_query_ident | _query_iter)
    , catch_query: _query_func("_repl_on_expr_error")
    , output_query: _query_func("_repl_display")
    }
  else
    ( {filename: null}
    | if $m != "prelude" then
        ( .input_query =
            ( if $m == "null_input" then _query_null
              elif $m == "slurp" then _query_func("inputs") | _query_array
              else _query_func("inputs")
              end
            )
        | .output_query = _query_func("_cli_display")
        )
      end
    | . + { slurps: {help: "_help_slurp", repl: "_cli_repl_error", slurp: "_cli_slurp_error"}
          , catch_query: _query_func("_cli_eval_on_expr_error")
          }
    )
  end;
def __verif_try(f): try f catch {__err: (if type == "string" then . else tojson end)};
`

const factsExpr = optsDef + `
$__c[] | . as $c
| __verif_try(if $c.ast then $c.ast else ($c.text | _query_fromstring) end) as $a
| if $a.__err then {i: $c.i, a: $a}
  else
    __verif_try($a | _query_tostring) as $s1
    | (if $c.full then $c.full else $c.text end) as $full
    | __verif_try($full | _query_fromstring) as $b1
    | { i: $c.i
      , a: $a
      , s1: $s1
      , a1: __verif_try($s1 | _query_fromstring)
      , b1: $b1
      , b2: __verif_try($b1 | _query_tostring | _query_fromstring)
      , rw: ( ["null_input", "inputs", "slurp", "repl", "prelude"]
            | map(. as $m | {key: $m, value: (__verif_try($s1 | _eval_query_rewrite(__verif_opts($m))) as $t
                                            | if $t | type == "string" then {text: $t, ast: __verif_try($t | _query_fromstring)} else {text: "", ast: $t} end)})
            | from_entries
            )
      }
  end
`

var f4Inputs = []string{`null`, `1`, `"a"`, `[1,[2]]`, `{"a":1,"b":[0]}`, `{"a":{"b":2}}`}

type event map[string]any

func runFacts(cases []gcase, sampleEvery int) [][]byte {
	evs := make([]event, len(cases))
	outs := make([][]byte, len(cases))
	const B = 60
	var wg sync.WaitGroup
	sem := make(chan struct{}, max(2, runtime.NumCPU()/2))
	for lo := 0; lo < len(cases); lo += B {
		hi := min(lo+B, len(cases))
		wg.Add(1)
		sem <- struct{}{}
		go func(lo, hi int) {
			defer wg.Done()
			defer func() { <-sem }()
			batch := make([]map[string]any, 0, hi-lo)
			for k := lo; k < hi; k++ {
				c := cases[k]
				m := map[string]any{"i": k}
				if len(c.Ast) > 0 {
					var a any
					kit.Unmarshal(c.Ast, &a)
					m["ast"] = fixEmpty(a)
					m["full"] = c.Full
				} else {
					m["text"] = c.Text
				}
				batch = append(batch, m)
			}
			b, _ := json.Marshal(batch)
			t0 := time.Now()
			r := jqrun.Fq([]string{"fq", "-nc", "--argjson", "__c", string(b), factsExpr}, nil, nil, 120*time.Second)
			if os.Getenv("VERIF_TIMING") != "" {
				fmt.Fprintf(os.Stderr, "facts batch %d: %v, %d bytes\n", lo, time.Since(t0), len(r.Stdout))
			}
			if r.Exit != 0 || r.TimedOut {
				// the real command line refused or failed the (valid) fact-gathering program: an observation about fq, not about the
				// harness -- every program of the batch is reported with an unusable tree, which TLC rejects
				for k := lo; k < hi; k++ {
					b, _ := json.Marshal(event{"id": cases[k].ID, "a": map[string]any{"__err": fmt.Sprintf("command line failed on the fact-gathering program: exit=%d timeout=%v stderr=%.300s", r.Exit, r.TimedOut, r.Stderr)}})
					outs[k] = b
				}
				return
			}
			n := 0
			for _, line := range strings.Split(r.Stdout, "\n") {
				if line == "" {
					continue
				}
				var e event
				if err := json.Unmarshal([]byte(line), &e); err != nil {
					kit.Fatalf("bad facts line: %v", err)
				}
				k := int(e["i"].(float64))
				delete(e, "i")
				e["id"] = cases[k].ID
				evs[k] = e
				n++
			}
			if n != hi-lo {
				kit.Fatalf("facts batch %d: %d of %d answers; stderr=%s", lo, n, hi-lo, r.Stderr)
			}
			// fact 3 with the real option objects, and fact 4, per program
			for k := lo; k < hi; k++ {
				e := evs[k]
				s1, _ := e["s1"].(string)
				if s1 == "" {
					continue
				}
				orig := s1
				if cases[k].Text != "" {
					orig = cases[k].Text
				}
				e["text"] = orig
				if sampleEvery > 0 && k%sampleEvery == 0 {
					e["real"] = realRewrites(orig)
				}
			}
			t1 := time.Now()
			fact4Batch(evs[lo:hi])
			if os.Getenv("VERIF_TIMING") != "" {
				fmt.Fprintf(os.Stderr, "fact4 batch %d: %v\n", lo, time.Since(t1))
			}
			// serialise and release the batch (a thorough run holds tens of thousands of trees)
			for k := lo; k < hi; k++ {
				b, err := json.Marshal(evs[k])
				if err != nil {
					kit.Fatalf("marshal event: %v", err)
				}
				outs[k] = b
				evs[k] = nil
			}
		}(lo, hi)
	}
	wg.Wait()
	return outs
}

// the text the real command line / REPL evaluates for `prog`, per mode (last text handed to _eval that is not the REPL prelude)
func realRewrites(prog string) map[string]string {
	files := map[string]string{"f.json": "1\n"}
	out := map[string]string{}
	if strings.HasPrefix(prog, "-") {
		prog = " " + prog // not an option
	}
	pick := func(r jqrun.FqRun, idx int) string {
		if idx < len(r.Evals) {
			return r.Evals[idx]
		}
		return fmt.Sprintf("<no eval %d of %d; exit=%d stderr=%q>", idx, len(r.Evals), r.Exit, r.Stderr)
	}
	out["null_input"] = pick(jqrun.Fq([]string{"fq", "-n", prog}, files, nil, 20*time.Second), 0)
	out["inputs"] = pick(jqrun.Fq([]string{"fq", prog, "f.json"}, files, nil, 20*time.Second), 0)
	out["slurp"] = pick(jqrun.Fq([]string{"fq", "-s", prog, "f.json"}, files, nil, 20*time.Second), 0)
	// `fq -i EXPR`: EXPR is evaluated without input/output query before the REPL starts; then the REPL reads `prog`
	out["prelude"] = pick(jqrun.Fq([]string{"fq", "-n", "-i", prog}, files, nil, 20*time.Second), 0)
	out["repl"] = pick(jqrun.Fq([]string{"fq", "-n", "-i"}, files, []string{prog}, 20*time.Second), 1)
	return out
}

func hasDirectives(a any) bool {
	m, ok := a.(map[string]any)
	if !ok {
		return false
	}
	_, x := m["meta"]
	_, y := m["imports"]
	return x || y
}

// fact 4: the real command line path (batch expression through _cli_eval) against the bare engine on the original text
func fact4Batch(evs []event) {
	ins := make([]any, len(f4Inputs))
	for i, s := range f4Inputs {
		ins[i], _ = jqrun.DecodeJSON(s)
	}
	type item struct {
		e    event
		prog string
		c    *jqrun.Compiled
		ref  []jqrun.GojqResult
	}
	var items []item
	for _, e := range evs {
		prog, _ := e["text"].(string)
		if prog == "" {
			continue
		}
		if hasDirectives(e["a"]) {
			e["f4"] = map[string]any{"skip": "directives"}
			continue
		}
		c, cerr := jqrun.GojqCompile(prog)
		if c == nil {
			e["f4"] = map[string]any{"skip": "bare engine: " + strings.SplitN(cerr, ":", 2)[0]}
			continue
		}
		// reference first: a program the bare engine cannot finish (timeout, engine panic) is not sent to the command line
		runs := make([]jqrun.GojqResult, len(ins))
		broken := ""
		for i := range ins {
			runs[i] = c.Run(ins[i], nil, time.Second)
			if n := len(runs[i].Out); n > 0 && runs[i].Out[n-1]["k"] == "x" {
				broken, _ = runs[i].Out[n-1]["why"].(string)
				break
			}
		}
		if broken != "" {
			if strings.HasPrefix(broken, "panic") {
				e["f4"] = map[string]any{"skip": "engine panic", "bare": broken}
			} else {
				e["f4"] = map[string]any{"skip": "bare engine: " + broken}
			}
			continue
		}
		items = append(items, item{e, prog, c, runs})
	}
	vin := "[" + strings.Join(f4Inputs, ",") + "]"
	var run func(its []item)
	run = func(its []item) {
		if len(its) == 0 {
			return
		}
		progs := make([]string, len(its))
		for k := range its {
			progs[k] = its[k].prog
		}
		r := jqrun.Fq([]string{"fq", "-nc", "--argjson", "__vin", vin, jqrun.BatchExpr(progs)}, nil, nil, 15*time.Second)
		var got [][][]jqrun.Outcome
		var err error
		if !r.TimedOut && r.Exit == 0 {
			got, err = jqrun.ParseBatch(r.Stdout, len(its), len(ins))
		}
		if r.TimedOut || r.Exit != 0 || err != nil {
			if os.Getenv("VERIF_TIMING") != "" {
				fmt.Fprintf(os.Stderr, "fact4 split %d: exit=%d timeout=%v err=%v stderr=%.300s\n", len(its), r.Exit, r.TimedOut, err, r.Stderr)
			}
			if len(its) > 1 {
				run(its[:len(its)/2])
				run(its[len(its)/2:])
				return
			}
			if r.TimedOut {
				its[0].e["f4"] = map[string]any{"skip": "timeout"}
			} else if r.Panicked {
				// the same program on the bare engine: a panic there too is a defect of the dependency, not of fq's rewrite
				g := its[0].c.Run(ins[0], nil, 5*time.Second)
				why := ""
				if n := len(g.Out); n > 0 && g.Out[n-1]["k"] == "x" {
					why, _ = g.Out[n-1]["why"].(string)
				}
				its[0].e["f4"] = map[string]any{"skip": "engine panic", "fq": r.Stderr, "bare": why}
			} else {
				its[0].e["f4"] = map[string]any{"cli_failed": r.Stderr, "runs": []any{}}
			}
			return
		}
		for k, it := range its {
			runs := []any{}
			for i := range ins {
				g := it.ref[i]
				if n := len(g.Out); n > 0 && g.Out[n-1]["k"] == "halt" {
					continue
				}
				if len(g.Side) > 0 {
					continue // debug/stderr side channel: C07's business
				}
				runs = append(runs, map[string]any{"in": i, "fq": got[k][i], "gj": g.Out})
			}
			it.e["f4"] = map[string]any{"runs": runs}
		}
	}
	run(items)
}

// ---------------------------------------------------------------- grammar generator

type gen struct {
	r *rand.Rand
}

func (g *gen) pick(xs ...string) string { return xs[g.r.Intn(len(xs))] }

var fields = []string{"a", "b", "and", "if", "foo_1", "__loc__"}

func (g *gen) str(d int) string {
	switch g.r.Intn(7) {
	case 0:
		return "`a\\b\"c`" // raw string (fq literal extension)
	case 1:
		return `"a\"b\\c\n\té"`
	case 2:
		if d > 0 {
			return `"x\(` + g.query(d-1) + `)y\(` + g.query(d-1) + `)"`
		}
		return `""`
	case 3:
		return "`raw $x \\(.)`"
	default:
		return g.pick(`"a"`, `"a b"`, `""`, `"é"`, `"\\(1)"`)
	}
}

func (g *gen) pattern(d int) string {
	switch g.r.Intn(6) {
	case 0:
		if d > 0 {
			return "[" + g.pattern(d-1) + ", " + g.pattern(d-1) + "]"
		}
	case 1:
		if d > 0 {
			return "{a: " + g.pattern(d-1) + ", $b, \"c d\": $c, (" + g.query(0) + "): " + g.pattern(d-1) + "}"
		}
	case 2:
		return "{$a}"
	}
	return g.pick("$x", "$y", "$__loc__", "$a::b")
}

func (g *gen) term(d int) string {
	if d <= 0 {
		return g.pick(".", "..", "null", "true", "false", "1", "0x1f", "0b101", "0o17", "1.5", "1e3", ".5", "10", `"a"`,
			".a", ".and", `."a b"`, ".[]", "$x", "$__loc__", "@base64", "@json", "length", "m::f", "$m::v", "{}", "[]", "empty", "not")
	}
	var t string
	switch g.r.Intn(26) {
	case 0:
		t = "(" + g.query(d-1) + ")"
	case 1:
		t = "[" + g.query(d-1) + "]"
	case 2:
		kv := []string{"a: " + g.objval(d-1), `"b c": ` + g.objval(d-1), "(" + g.query(d-1) + "): " + g.objval(d-1), "$x", "a", `"q"`, "if: 1", g.str(d-1) + ": " + g.objval(d-1), "$__loc__"}
		n := 1 + g.r.Intn(3)
		var parts []string
		for i := 0; i < n; i++ {
			parts = append(parts, kv[g.r.Intn(len(kv))])
		}
		t = "{" + strings.Join(parts, ", ") + g.pick("", ",") + "}"
	case 3:
		t = g.pick("-", "+", "-", "- ") + g.term(d-1)
	case 4:
		t = g.pick("@base64", "@json", "@text", "@uri", "@sh") + " " + g.str(d)
	case 5:
		t = g.str(d)
	case 6:
		t = "if " + g.query(d-1) + " then " + g.query(d-1) + g.pick("", " else "+g.query(d-1), " elif "+g.query(d-1)+" then "+g.query(d-1)+" else "+g.query(d-1), " elif "+g.query(d-1)+" then "+g.query(d-1)) + " end"
	case 7:
		t = "try " + g.expr(d-1, 0) + g.pick("", " catch "+g.expr(d-1, 0))
	case 8:
		t = "reduce " + g.expr(d-1, 0) + " as " + g.pattern(1) + " (" + g.query(d-1) + "; " + g.query(d-1) + ")"
	case 9:
		t = "foreach " + g.expr(d-1, 0) + " as " + g.pattern(1) + " (" + g.query(d-1) + "; " + g.query(d-1) + g.pick("", "; "+g.query(d-1)) + ")"
	case 10:
		t = g.pick("select", "map", "path", "first", "recurse") + "(" + g.query(d-1) + ")"
	case 11:
		t = g.pick("limit", "range", "sub", "m::g") + "(" + g.query(d-1) + "; " + g.query(d-1) + ")"
	case 12:
		t = ".[" + g.query(d-1) + "]"
	case 13:
		t = g.pick(".["+g.query(d-1)+":]", ".[:"+g.query(d-1)+"]", ".["+g.query(d-1)+":"+g.query(d-1)+"]")
	case 14:
		t = "." + g.str(d-1)
	case 15:
		t = "break $out"
	default:
		t = g.term(0)
	}
	// suffixes
	for n := g.r.Intn(3); n > 0; n-- {
		switch g.r.Intn(9) {
		case 0:
			t += "." + fields[g.r.Intn(len(fields))]
		case 1:
			t += "[" + g.query(d-1) + "]"
		case 2:
			t += "[]"
		case 3:
			t += "?"
		case 4:
			t += g.pick("[1:]", "[:"+g.query(0)+"]", "[1:2]")
		case 5:
			t += "." + g.pick(`"a b"`, `"x\(1)"`)
		case 6:
			t += ".[" + g.query(0) + "]"
		case 7:
			t += ".[]"
		case 8:
			t += " ." + fields[g.r.Intn(len(fields))]
		}
	}
	return t
}

var binops = []string{"//", "=", "|=", "+=", "-=", "*=", "/=", "%=", "//=", "or", "and", "==", "!=", "<", "<=", ">", ">=", "+", "-", "*", "/", "%"}

func (g *gen) expr(d, ops int) string {
	if d <= 0 || g.r.Intn(3) == 0 {
		return g.term(d)
	}
	s := g.term(d - 1)
	for n := 1 + g.r.Intn(3); n > 0; n-- {
		s += " " + binops[g.r.Intn(len(binops))] + " " + g.term(d-1)
	}
	return s
}

func (g *gen) objval(d int) string {
	s := g.expr(d, 0)
	if g.r.Intn(4) == 0 {
		s += " | " + g.expr(d, 0)
	}
	return s
}

func (g *gen) funcdef(d int) string {
	return "def " + g.pick("f", "g", "_h") + g.pick("", "(a)", "($a; b)", "(a; $b; c)") + ": " + g.query(d-1) + ";"
}

func (g *gen) query(d int) string {
	if d <= 0 {
		return g.expr(0, 0)
	}
	switch g.r.Intn(10) {
	case 0:
		return g.query(d-1) + " | " + g.query(d-1)
	case 1:
		return g.query(d-1) + ", " + g.query(d-1)
	case 2:
		pats := g.pattern(2)
		for g.r.Intn(3) == 0 {
			pats += " ?// " + g.pattern(1)
		}
		return g.term(d-1) + " as " + pats + " | " + g.query(d-1)
	case 3:
		return "label $out | " + g.query(d-1)
	case 4:
		return g.funcdef(d) + " " + g.query(d-1)
	case 5:
		return g.expr(d, 0) + g.pick(" | ", ", ", " | ") + g.query(d-1)
	default:
		return g.expr(d, 0)
	}
}

func (g *gen) program(d int) string {
	s := ""
	if g.r.Intn(12) == 0 {
		s += g.pick(`module {a: 1, "b": [true, null, "x", {}], if: 2};`, `module {};`, `module {"version": "1.0"};`) + "\n"
	}
	for g.r.Intn(10) == 0 {
		s += g.pick(`import "m" as m;`, `import "d" as $d {search: "./"};`, `include "i";`, `include "j" {a: [1]};`) + "\n"
	}
	switch g.r.Intn(14) {
	case 0:
		return s + g.funcdef(d) + " " + g.funcdef(d)
	case 1:
		return s + g.query(d) + " | " + g.pick("repl", "repl({a: 1})", "help", "help(length)", "slurp(\"x\")", "slurp")
	case 2:
		return s + "# comment\n" + g.query(d) + " # trailing"
	}
	return s + g.query(d)
}

func generate(n int, path string) {
	g := &gen{r: rand.New(rand.NewSource(kit.Seed()*7919 + 11))}
	out := kit.NewOut(path)
	seen := map[string]bool{}
	tries := 0
	for out.N < n && tries < n*200 {
		tries++
		p := g.program(1 + g.r.Intn(3))
		if len(p) > 400 || seen[p] {
			continue
		}
		if _, err := gojq.Parse(p); err != nil {
			continue // not in the language of the embedded parser (e.g. chained non-associative operators)
		}
		seen[p] = true
		out.Emit(gcase{ID: []string{"go", fmt.Sprint(out.N)}, Text: p})
	}
	out.Close()
	if out.N < n {
		kit.Fatalf("generator produced only %d of %d programs", out.N, n)
	}
}

func main() {
	if len(os.Args) < 2 {
		kit.Fatalf("usage")
	}
	switch os.Args[1] {
	case "facts":
		var cases []gcase
		kit.Cases(os.Args[2], func(_ int, raw []byte) {
			var c gcase
			kit.Unmarshal(raw, &c)
			cases = append(cases, c)
		})
		every := 0
		if len(os.Args) > 4 {
			every = kit.Atoi(os.Args[4])
		}
		evs := runFacts(cases, every)
		out := kit.NewOut(os.Args[3])
		for _, e := range evs {
			out.Emit(json.RawMessage(e))
		}
		out.Close()
	case "gen":
		generate(kit.Atoi(os.Args[2]), os.Args[3])
	default:
		kit.Fatalf("unknown mode")
	}
}
