// c02: binds Scalar.tla to the scalar readers of pkg/decode (read.go, decode_gen.go).
//
//	c02 replay <cases.ndjson> <out.ndjson>   run every TLC-emitted case on the real readers: every name variant
//	                                          (U, UE, U37, U37BE ...) in every form (Try, plain, TryFieldScalar,
//	                                          FieldScalar, TryField, Field), called by name through reflection, at the
//	                                          case's bit alignment inside a buffer with random surrounding bits.
//	                                          The expected value/position come from TLC (Scalar!Expect); this side
//	                                          only compares for equality and reports the calls that differ.
//	c02 rerun <events.ndjson> <out.ndjson>    execute the calls of recorded events again (confirmation / --replay)
//	c02 rand <n> <events.ndjson>              seeded random reads, one event per call, for validation by TraceScalar.tla
//	                                          (the spec decides every event; nothing is judged here).
//
// Values leave this program as bit sequences (TLC integers are 32-bit): uint64/int64/*big.Int as sign + magnitude
// bits, float64 as the 64 bits of math.Float64bits, strings as code points ([]rune) plus their raw bytes.
package main

import (
	"context"
	"fmt"
	"math"
	"math/big"
	"math/rand"
	"os"
	"reflect"
	"sort"
	"unicode/utf16"

	"github.com/wader/fq/internal/recoverfn"
	"github.com/wader/fq/internal/verif/kit"
	"github.com/wader/fq/pkg/bitio"
	"github.com/wader/fq/pkg/decode"
	"golang.org/x/text/encoding"
)

// ---------------------------------------------------------------- data

type val struct {
	Neg bool    `json:"neg"`
	Mag []int   `json:"mag"`
	Nan bool    `json:"nan"`
	F64 [][]int `json:"f64"` // want: admissible patterns
	B   bool    `json:"b"`
	Cps []int   `json:"cps"`
}

// observed value: same shape, but f64 is one pattern and sb are the raw bytes of a returned string
type oval struct {
	Neg bool  `json:"neg"`
	Mag []int `json:"mag"`
	F64 []int `json:"f64"`
	B   bool  `json:"b"`
	Cps []int `json:"cps"`
	Sb  []int `json:"sb"`
}

type gcase struct {
	K    string `json:"k"`
	W    int    `json:"w"`
	F    int    `json:"f"`
	LE   bool   `json:"le"`
	Al   int    `json:"al"`
	Bits []int  `json:"bits"`
	Tail int    `json:"tail"`
	Err  bool   `json:"err"`
	Lax  bool   `json:"lax"`
	N    int    `json:"n"`
	Tag  string `json:"tag"`
	Want val    `json:"want"`
}

type obs struct {
	Err    bool   `json:"err"`
	Crash  bool   `json:"crash"`
	Pos    int64  `json:"pos"` // bits advanced from the start alignment
	Fld    string `json:"fld"` // na | ok | none | bad   (field forms: was a field added, with the right range/value)
	V      oval   `json:"v"`
	Detail string `json:"detail,omitempty"`
}

type call struct {
	base   string
	args   []reflect.Value
	endian decode.Endian // value of d.Endian during the call (the opposite one for explicit-endian variants)
}

var forms = []string{"Try", "", "TryFieldScalar", "FieldScalar", "TryField", "Field"}

func isField(form string) bool { return len(form) >= 5 }

func methodName(form, base string) string { return form + base }

// ---------------------------------------------------------------- conversions (trusted base, see checks/c02.py)

func natBits(n *big.Int) []int {
	out := []int{}
	if n.Sign() == 0 {
		return out
	}
	for _, c := range n.Text(2) {
		out = append(out, int(c-'0'))
	}
	return out
}

func toOval(v reflect.Value) (oval, bool) {
	o := oval{Mag: []int{}, F64: []int{}, Cps: []int{}, Sb: []int{}}
	switch x := v.Interface().(type) {
	case uint64:
		o.Mag = natBits(new(big.Int).SetUint64(x))
	case int64:
		b := big.NewInt(x)
		o.Neg = b.Sign() < 0
		o.Mag = natBits(b.Abs(b))
	case *big.Int:
		if x == nil {
			return o, false
		}
		o.Neg = x.Sign() < 0
		o.Mag = natBits(new(big.Int).Abs(x))
	case float64:
		u := math.Float64bits(x)
		o.F64 = make([]int, 64)
		for i := 0; i < 64; i++ {
			o.F64[i] = int(u >> uint(63-i) & 1)
		}
	case bool:
		o.B = x
	case string:
		for _, r := range []rune(x) {
			o.Cps = append(o.Cps, int(r))
		}
		for _, b := range []byte(x) {
			o.Sb = append(o.Sb, int(b))
		}
	default:
		return o, false
	}
	return o, true
}

func eqInts(a, b []int) bool {
	if len(a) != len(b) {
		return false
	}
	for i := range a {
		if a[i] != b[i] {
			return false
		}
	}
	return true
}

func eqOval(a, b oval) bool {
	return a.Neg == b.Neg && a.B == b.B && eqInts(a.Mag, b.Mag) && eqInts(a.F64, b.F64) && eqInts(a.Cps, b.Cps)
}

// ---------------------------------------------------------------- name variants of a reader family

func rv(x any) reflect.Value { return reflect.ValueOf(x) }

func endianOf(le bool) decode.Endian {
	if le {
		return decode.Endian(decode.LittleEndian)
	}
	return decode.Endian(decode.BigEndian)
}

func sfx(le bool) string {
	if le {
		return "LE"
	}
	return "BE"
}

var textEnc = map[string]encoding.Encoding{"UTF8": decode.UTF8BOM, "UTF16": decode.UTF16BOM, "UTF16LE": decode.UTF16LE, "UTF16BE": decode.UTF16BE}

func variants(k string, w, f int, le bool) []call {
	e, opp := endianOf(le), endianOf(!le)
	switch k {
	case "U", "S":
		cs := []call{{k, []reflect.Value{rv(w)}, e}, {k + "E", []reflect.Value{rv(w), rv(e)}, opp}, {fmt.Sprintf("%s%d", k, w), nil, e}}
		if w >= 8 {
			cs = append(cs, call{fmt.Sprintf("%s%d%s", k, w, sfx(le)), nil, opp})
		}
		return cs
	case "UBigInt", "SBigInt":
		return []call{{k, []reflect.Value{rv(w)}, e}, {k + "E", []reflect.Value{rv(w), rv(e)}, opp}, {k + sfx(le), []reflect.Value{rv(w)}, opp}}
	case "F":
		return []call{{"F", []reflect.Value{rv(w)}, e}, {"FE", []reflect.Value{rv(w), rv(e)}, opp},
			{fmt.Sprintf("F%d", w), nil, e}, {fmt.Sprintf("F%d%s", w, sfx(le)), nil, opp}}
	case "FP":
		cs := []call{{"FP", []reflect.Value{rv(w), rv(f)}, e}, {"FPE", []reflect.Value{rv(w), rv(f), rv(e)}, opp}}
		if (w == 16 && f == 8) || (w == 32 && f == 16) || (w == 64 && f == 32) {
			cs = append(cs, call{fmt.Sprintf("FP%d", w), nil, e}, call{fmt.Sprintf("FP%d%s", w, sfx(le)), nil, opp})
		}
		return cs
	case "Unary":
		return []call{{"Unary", []reflect.Value{rv(uint64(f))}, e}}
	case "ULEB128", "SLEB128", "Bool", "UTF8Null", "UTF16Null", "UTF16LENull", "UTF16BENull", "UTF8ShortString":
		return []call{{k, nil, e}}
	case "UTF8", "UTF16", "UTF16LE", "UTF16BE":
		return []call{{k, []reflect.Value{rv(w)}, e}, {"Str", []reflect.Value{rv(w), rv(textEnc[k])}, e}}
	case "UTF8ShortStringFixedLen", "UTF8NullFixedLen":
		return []call{{k, []reflect.Value{rv(w)}, e}}
	}
	kit.Fatalf("unknown kind %q", k)
	return nil
}

// ---------------------------------------------------------------- one real call

var fieldSeq int

func doCall(d *decode.D, al int64, c call, form string) (o obs, mname string) {
	mname = methodName(form, c.base)
	m := reflect.ValueOf(d).MethodByName(mname)
	if !m.IsValid() {
		kit.Fatalf("no method %s on *decode.D", mname)
	}
	d.SeekAbs(al)
	d.Endian = c.endian
	args := c.args
	fname := ""
	if isField(form) {
		fieldSeq++
		fname = fmt.Sprintf("f%d", fieldSeq)
		args = append([]reflect.Value{rv(fname)}, c.args...)
	}
	comp, _ := d.Value.V.(*decode.Compound)
	nBefore := len(comp.Children)
	o = obs{Fld: "na", V: oval{Mag: []int{}, F64: []int{}, Cps: []int{}, Sb: []int{}}}
	var out []reflect.Value
	func() {
		defer func() {
			if r := recover(); r != nil {
				if re, ok := r.(recoverfn.RecoverableErrorer); ok && re.IsRecoverableError() {
					o.Err = true // the plain forms report errors by a recoverable panic (IOError / DecoderError)
					o.Detail = fmt.Sprint(r)
				} else {
					o.Crash = true // anything else (nil dereference, index out of range ...) takes fq down
					o.Detail = fmt.Sprint(r)
				}
			}
		}()
		out = m.Call(args)
	}()
	pos := d.Pos() - al
	if !o.Err && !o.Crash {
		if len(out) == 2 && !out[1].IsNil() {
			o.Err = true
			o.Detail = fmt.Sprint(out[1].Interface())
		} else {
			v := out[0]
			if v.Kind() == reflect.Ptr && v.Type() != reflect.TypeOf((*big.Int)(nil)) { // *scalar.X
				if v.IsNil() {
					o.Crash, o.Detail = true, "nil scalar returned without error"
				} else {
					v = v.Elem().FieldByName("Actual")
				}
			}
			if !o.Crash {
				ov, ok := toOval(v)
				if !ok {
					o.Crash, o.Detail = true, fmt.Sprintf("unconvertible result %v", v.Type())
				}
				o.V = ov
				o.Pos = pos
			}
		}
	}
	if isField(form) {
		nAfter := len(comp.Children)
		switch {
		case nAfter == nBefore:
			o.Fld = "none"
		case nAfter != nBefore+1:
			o.Fld = "bad"
		case o.Err || o.Crash:
			o.Fld = "ok" // a field was added although the read failed (judged as field_on_error)
		default:
			ch := comp.Children[nAfter-1]
			o.Fld = "ok"
			if ch.Name != fname || ch.Range.Start != al || ch.Range.Len != pos {
				o.Fld = "bad"
			} else if sv := reflect.ValueOf(ch.V); sv.Kind() != reflect.Ptr || sv.IsNil() {
				o.Fld = "bad"
			} else if cv, ok := toOval(sv.Elem().FieldByName("Actual")); !ok || !eqOval(cv, o.V) {
				o.Fld = "bad"
			}
		}
	}
	return o, mname
}

// bits -> bytes (MSB first, zero padded)
func pack(all []int) []byte {
	buf := make([]byte, (len(all)+7)/8)
	for i, b := range all {
		if b != 0 {
			buf[i/8] |= 0x80 >> uint(i%8)
		}
	}
	return buf
}

func randBits(rng *rand.Rand, n int) []int {
	out := make([]int, n)
	for i := range out {
		out[i] = rng.Intn(2)
	}
	return out
}

// runInDecoder runs fn inside a harness-defined format decoding `all`
func runInDecoder(all []int, fn func(d *decode.D)) {
	buf := pack(all)
	g := decode.FormatFn(func(d *decode.D) any {
		fn(d)
		return nil
	})
	_, _, err := decode.Decode(context.Background(), bitio.NewBitReader(buf, int64(len(all))), g, decode.Options{IsRoot: true})
	if err != nil {
		kit.Fatalf("decode of harness format failed: %v", err)
	}
}

// ---------------------------------------------------------------- replay

// equality against the expectation computed by TLC (mirror of Scalar!Judge for values already decided by the spec)
func compare(c *gcase, o obs, form string) string {
	if o.Crash {
		return "crash"
	}
	if c.Lax {
		return ""
	}
	if c.Err {
		if !o.Err {
			return "value_instead_of_err"
		}
		if o.Fld == "ok" || o.Fld == "bad" {
			return "field_on_error"
		}
		return ""
	}
	if o.Err {
		return "err_instead_of_value"
	}
	if o.Pos != int64(c.N) {
		return "wrong_pos"
	}
	okv := false
	switch {
	case c.K == "F" || c.K == "FP":
		if c.Want.Nan {
			okv = len(o.V.F64) == 64 && allOnes(o.V.F64[1:12]) && !allZero(o.V.F64[12:])
		} else {
			for _, p := range c.Want.F64 {
				if eqInts(p, o.V.F64) {
					okv = true
				}
			}
		}
	default:
		okv = o.V.Neg == c.Want.Neg && o.V.B == c.Want.B && eqInts(o.V.Mag, c.Want.Mag) && eqInts(o.V.Cps, c.Want.Cps)
	}
	if !okv {
		return "wrong_value"
	}
	if isField(form) && o.Fld != "ok" {
		if o.Fld == "none" {
			return "field_missing"
		}
		return "field_wrong"
	}
	return ""
}

func allOnes(b []int) bool {
	for _, x := range b {
		if x != 1 {
			return false
		}
	}
	return true
}
func allZero(b []int) bool {
	for _, x := range b {
		if x != 0 {
			return false
		}
	}
	return true
}

type failRec struct {
	M       string `json:"m"`
	Form    string `json:"form"`
	Failure string `json:"failure"`
	Got     obs    `json:"got"`
}
type caseOut struct {
	I     int       `json:"i"`
	K     string    `json:"k"`
	W     int       `json:"w"`
	F     int       `json:"f"`
	LE    bool      `json:"le"`
	Al    int       `json:"al"`
	Tag   string    `json:"tag"`
	Err   bool      `json:"err"`
	Bits  []int     `json:"bits"`
	Calls int       `json:"calls"`
	Fails []failRec `json:"fails"`
}

func replay(casesPath, outPath string) {
	rng := rand.New(rand.NewSource(kit.Seed()))
	out := kit.NewOut(outPath)
	nCases, nCalls, nFail := 0, 0, 0
	methods := map[string]int{}
	kit.Cases(casesPath, func(i int, raw []byte) {
		var c gcase
		kit.Unmarshal(raw, &c)
		nCases++
		all := append(append(randBits(rng, c.Al), c.Bits...), randBits(rng, c.Tail)...)
		co := caseOut{I: i, K: c.K, W: c.W, F: c.F, LE: c.LE, Al: c.Al, Tag: c.Tag, Err: c.Err, Bits: c.Bits, Fails: []failRec{}}
		runInDecoder(all, func(d *decode.D) {
			for _, cl := range variants(c.K, c.W, c.F, c.LE) {
				for _, form := range forms {
					o, mname := doCall(d, int64(c.Al), cl, form)
					methods[mname]++
					co.Calls++
					if f := compare(&c, o, form); f != "" {
						fn := form
						if fn == "" {
							fn = "plain"
						}
						co.Fails = append(co.Fails, failRec{M: mname, Form: fn, Failure: f, Got: o})
					}
				}
			}
		})
		nCalls += co.Calls
		if len(co.Fails) > 0 {
			nFail++
			out.Emit(co)
		}
	})
	names := make([]string, 0, len(methods))
	for m := range methods {
		names = append(names, m)
	}
	sort.Strings(names)
	out.Emit(map[string]any{"summary": true, "cases": nCases, "calls": nCalls, "failing_cases": nFail, "distinct_methods": len(names), "methods": names})
	out.Close()
}

// ---------------------------------------------------------------- random driver

type event struct {
	K     string `json:"k"`
	W     int    `json:"w"`
	F     int    `json:"f"`
	LE    bool   `json:"le"`
	Al    int    `json:"al"`
	Avail []int  `json:"avail"` // every bit from the start alignment to the end of the buffer
	M     string `json:"m"`
	Form  string `json:"form"`
	obs
}

func bitsOfUint(v uint64, n int) []int {
	out := make([]int, n)
	for i := 0; i < n; i++ {
		out[i] = int(v >> uint(n-1-i) & 1)
	}
	return out
}

func bitsOfBytes(bs []byte) []int {
	out := make([]int, 0, 8*len(bs))
	for _, b := range bs {
		out = append(out, bitsOfUint(uint64(b), 8)...)
	}
	return out
}

// random bit pattern with a bias to boundary shapes
func randPattern(rng *rand.Rand, n int) []int {
	out := randBits(rng, n)
	if n == 0 {
		return out
	}
	switch rng.Intn(12) {
	case 0:
		for i := range out {
			out[i] = 1
		}
	case 1:
		for i := range out {
			out[i] = 0
		}
		out[0] = 1
	case 2:
		for i := range out {
			out[i] = 1
		}
		out[0] = 0
	case 3: // few ones
		for i := range out {
			out[i] = 0
		}
		out[rng.Intn(n)] = 1
		out[rng.Intn(n)] = 1
	case 4: // few zeros
		for i := range out {
			out[i] = 1
		}
		out[rng.Intn(n)] = 0
	}
	return out
}

var cpClasses = [][2]int{{1, 0x7f}, {0x80, 0x7ff}, {0x800, 0xd7ff}, {0xe000, 0xfffd}, {0x10000, 0x10ffff}, {0x20, 0x7e}}

func randText(rng *rand.Rand) []rune {
	n := rng.Intn(7)
	rs := make([]rune, n)
	for i := range rs {
		c := cpClasses[rng.Intn(len(cpClasses))]
		r := rune(c[0] + rng.Intn(c[1]-c[0]+1))
		if r == 0xfeff || r == 0xfffe { // byte order marks are not text for the BOM-aware readers
			r = 0x2603
		}
		rs[i] = r
	}
	return rs
}

func utf16Bytes(rs []rune, le bool) []byte {
	var out []byte
	for _, u := range utf16.Encode(rs) {
		if le {
			out = append(out, byte(u), byte(u>>8))
		} else {
			out = append(out, byte(u>>8), byte(u))
		}
	}
	return out
}

var kindWeights = []struct {
	k string
	w int
}{{"U", 20}, {"S", 20}, {"UBigInt", 5}, {"SBigInt", 5}, {"F", 14}, {"FP", 7}, {"ULEB128", 6}, {"SLEB128", 6}, {"Unary", 3}, {"Bool", 1},
	{"UTF8", 2}, {"UTF16", 1}, {"UTF16LE", 1}, {"UTF16BE", 1}, {"UTF8Null", 2}, {"UTF16Null", 1}, {"UTF16LENull", 1}, {"UTF16BENull", 1},
	{"UTF8ShortString", 1}, {"UTF8ShortStringFixedLen", 1}, {"UTF8NullFixedLen", 1}}

func pickKind(rng *rand.Rand) string {
	tot := 0
	for _, kw := range kindWeights {
		tot += kw.w
	}
	r := rng.Intn(tot)
	for _, kw := range kindWeights {
		if r < kw.w {
			return kw.k
		}
		r -= kw.w
	}
	return "U"
}

// content for one random read: the bits at the position that make the read satisfiable (then possibly cut short)
func randRead(rng *rand.Rand) (k string, w, f int, le bool, bits []int) {
	k = pickKind(rng)
	switch k {
	case "U", "S":
		w = 1 + rng.Intn(64)
		le = w%8 == 0 && rng.Intn(2) == 0
		bits = randPattern(rng, w)
	case "UBigInt", "SBigInt":
		switch rng.Intn(3) {
		case 0:
			w = 1 + rng.Intn(64)
		case 1:
			w = 8*(1+rng.Intn(64)) + rng.Intn(3) - 1
		default:
			w = 1 + rng.Intn(512)
		}
		le = w%8 == 0 && rng.Intn(2) == 0
		bits = randPattern(rng, w)
	case "F":
		w = []int{16, 32, 64, 80}[rng.Intn(4)]
		le = rng.Intn(2) == 0
		bits = randBits(rng, w)
		eb := map[int]int{16: 5, 32: 8, 64: 11, 80: 15}[w]
		bias := 1<<uint(eb-1) - 1
		var e int
		switch rng.Intn(8) {
		case 0:
			e = 0
		case 1:
			e = 1<<uint(eb) - 1
		case 2:
			e = 1 + rng.Intn(2)
		case 3:
			e = 1<<uint(eb) - 2 - rng.Intn(2)
		case 4, 5:
			e = bias + rng.Intn(41) - 20
		default:
			e = rng.Intn(1 << uint(eb))
		}
		if w == 80 {
			switch rng.Intn(10) {
			case 0, 1, 2, 3: // around the float64 range, both ends
				e = 16383 + rng.Intn(2300) - 1150
			case 4: // beyond it
				e = 1 + rng.Intn(32766)
			}
			if e != 0 && rng.Intn(12) != 0 {
				bits[16] = 1 // explicit integer bit set: a valid normal / inf / nan encoding
			}
			if rng.Intn(6) == 0 { // rounding boundary: low 11 bits
				copy(bits[69:], [][]int{{1, 0, 0, 0, 0, 0, 0, 0, 0, 0, 0}, {0, 1, 1, 1, 1, 1, 1, 1, 1, 1, 1}, {1, 0, 0, 0, 0, 0, 0, 0, 0, 0, 1}, {0, 0, 0, 0, 0, 0, 0, 0, 0, 0, 0}}[rng.Intn(4)])
			}
		}
		copy(bits[1:1+eb], bitsOfUint(uint64(e), eb))
		if rng.Intn(10) == 0 { // zero fraction: zero / infinity / power of two
			for i := 1 + eb; i < w; i++ {
				bits[i] = 0
			}
			if w == 80 && e != 0 {
				bits[16] = 1
			}
		}
		if le {
			bits = swapBytes(bits)
		}
	case "FP":
		if rng.Intn(2) == 0 {
			sh := [][2]int{{16, 8}, {32, 16}, {64, 32}}[rng.Intn(3)]
			w, f = sh[0], sh[1]
		} else {
			w, f = 1+rng.Intn(64), rng.Intn(64)
		}
		le = w%8 == 0 && rng.Intn(2) == 0
		bits = randPattern(rng, w)
	case "ULEB128", "SLEB128":
		n := 1 + rng.Intn(10)
		if rng.Intn(20) == 0 {
			n = 11 + rng.Intn(2)
		}
		for i := 0; i < n; i++ {
			g := randPattern(rng, 7)
			if i == n-1 && n >= 10 && rng.Intn(3) != 0 { // keep a good share of 10-byte encodings inside 64 bits
				g = [][]int{{0, 0, 0, 0, 0, 0, 0}, {0, 0, 0, 0, 0, 0, 1}, {1, 1, 1, 1, 1, 1, 1}, {0, 0, 0, 0, 0, 1, 0}, {1, 1, 1, 1, 1, 1, 0}}[rng.Intn(5)]
			}
			cont := 1
			if i == n-1 {
				cont = 0
			}
			bits = append(bits, cont)
			bits = append(bits, g...)
		}
	case "Unary":
		f = rng.Intn(2)
		n := rng.Intn(70)
		for i := 0; i < n; i++ {
			bits = append(bits, f)
		}
		bits = append(bits, 1-f)
	case "Bool":
		bits = []int{rng.Intn(2)}
	default: // text
		rs := randText(rng)
		u8 := []byte(string(rs))
		var bs []byte
		switch k {
		case "UTF8":
			bs = u8
			if rng.Intn(10) == 0 {
				bs = append([]byte{0xef, 0xbb, 0xbf}, u8...)
			}
			w = len(bs)
		case "UTF16LE", "UTF16BE":
			bs = utf16Bytes(rs, k == "UTF16LE")
			w = len(bs)
		case "UTF16":
			switch rng.Intn(3) {
			case 0:
				bs = utf16Bytes(rs, true)
			case 1:
				bs = append([]byte{0xff, 0xfe}, utf16Bytes(rs, true)...)
			default:
				bs = append([]byte{0xfe, 0xff}, utf16Bytes(rs, false)...)
			}
			w = len(bs)
		case "UTF8Null":
			bs = append(u8, 0)
		case "UTF16LENull", "UTF16Null":
			bs = append(utf16Bytes(rs, true), 0, 0)
		case "UTF16BENull":
			bs = append(utf16Bytes(rs, false), 0, 0)
		case "UTF8ShortString":
			bs = append([]byte{byte(len(u8))}, u8...)
		case "UTF8ShortStringFixedLen":
			bs = append([]byte{byte(len(u8))}, u8...)
			for p := rng.Intn(4); p > 0; p-- {
				bs = append(bs, byte(0x80+rng.Intn(64))) // never decoded
			}
			w = len(bs)
		case "UTF8NullFixedLen":
			bs = u8
			if p := rng.Intn(4); p > 0 {
				bs = append(bs, 0)
				for ; p > 1; p-- {
					bs = append(bs, byte(0x80+rng.Intn(64)))
				}
			}
			w = len(bs)
		}
		bits = bitsOfBytes(bs)
	}
	return
}

func swapBytes(b []int) []int {
	out := make([]int, 0, len(b))
	for i := len(b) - 8; i >= 0; i -= 8 {
		out = append(out, b[i:i+8]...)
	}
	return out
}

func randDriver(n int, outPath string) {
	rng := rand.New(rand.NewSource(kit.Seed()*7919 + 17))
	out := kit.NewOut(outPath)
	for i := 0; i < n; i++ {
		k, w, f, le, bits := randRead(rng)
		al := rng.Intn(8)
		tail := rng.Intn(25)
		if rng.Intn(12) == 0 && len(bits) > 0 { // the buffer ends early: the spec decides whether the read is still satisfiable
			bits = bits[:len(bits)-1-rng.Intn(minInt(len(bits), 9))]
			tail = 0
		}
		all := append(append(randBits(rng, al), bits...), randBits(rng, tail)...)
		vs := variants(k, w, f, le)
		cl := vs[rng.Intn(len(vs))]
		form := forms[rng.Intn(len(forms))]
		ev := event{K: k, W: w, F: f, LE: le, Al: al, Avail: append([]int{}, all[al:]...), Form: form}
		if form == "" {
			ev.Form = "plain"
		}
		runInDecoder(all, func(d *decode.D) {
			ev.obs, ev.M = doCall(d, int64(al), cl, form)
		})
		ev.Detail = ""
		out.Emit(ev)
	}
	out.Close()
}

// rerun executes the calls of recorded events again (confirmation of a rejected event, and --replay of a TV finding)
func rerun(inPath, outPath string) {
	rng := rand.New(rand.NewSource(kit.Seed()*31 + 5))
	out := kit.NewOut(outPath)
	kit.Cases(inPath, func(_ int, raw []byte) {
		var ev event
		kit.Unmarshal(raw, &ev)
		form := ev.Form
		if form == "plain" {
			form = ""
		}
		var cl *call
		for _, c := range variants(ev.K, ev.W, ev.F, ev.LE) {
			if methodName(form, c.base) == ev.M {
				c := c
				cl = &c
			}
		}
		if cl == nil {
			kit.Fatalf("event method %s is not a variant of %s", ev.M, ev.K)
		}
		all := append(randBits(rng, ev.Al), ev.Avail...)
		ne := event{K: ev.K, W: ev.W, F: ev.F, LE: ev.LE, Al: ev.Al, Avail: ev.Avail, Form: ev.Form}
		if ne.Avail == nil {
			ne.Avail = []int{}
		}
		runInDecoder(all, func(d *decode.D) {
			ne.obs, ne.M = doCall(d, int64(ev.Al), *cl, form)
		})
		ne.Detail = ""
		out.Emit(ne)
	})
	out.Close()
}

func minInt(a, b int) int {
	if a < b {
		return a
	}
	return b
}

func main() {
	if len(os.Args) < 4 {
		kit.Fatalf("usage: c02 replay <cases> <out> | rand <n> <events>")
	}
	switch os.Args[1] {
	case "replay":
		replay(os.Args[2], os.Args[3])
	case "rand":
		randDriver(kit.Atoi(os.Args[2]), os.Args[3])
	case "rerun":
		rerun(os.Args[2], os.Args[3])
	default:
		kit.Fatalf("unknown mode %q", os.Args[1])
	}
}
