// c09: binds Binary.tla to fq's binary values (pkg/interp/binary.go, binary.jq).
//
//	c09 replay <cases.ndjson> <out.ndjson>   evaluate TLC-emitted jq programs {id, txt} in real fq, project results
//	c09 rand <n> <events.ndjson>             seeded random expression trees over random contents (up to 4 KiB);
//	                                         one event per operation applied: {o, in, out} for TLC trace validation
//	c09 one <jq program>                     project one program (debugging / replay of a finding)
//
// fq runs in-process through the CLI entry point (interp.Main, args `-n <program>`) with a virtual OS; many
// expressions are evaluated per invocation. Results are captured by two harness-registered jq functions
// (_c09s stores the projection of its input, _c09e records a caught error); no result goes through text.
// There is no Go-side oracle here: the harness only projects real values into the shape of Binary.tla values.
package main

import (
	"bytes"
	"context"
	"encoding/json"
	"fmt"
	"io"
	"io/fs"
	"math"
	"math/big"
	"math/rand"
	"os"
	"strconv"
	"strings"
	"time"

	_ "github.com/wader/fq/format/all"
	"github.com/wader/fq/internal/bitiox"
	"github.com/wader/fq/internal/verif/kit"
	"github.com/wader/fq/pkg/bitio"
	"github.com/wader/fq/pkg/interp"
)

// ---------------------------------------------------------------- projection

type val = map[string]any

func bitsOfBytes(buf []byte, n int64) []int {
	out := make([]int, n)
	for i := int64(0); i < n; i++ {
		out[i] = int(buf[i/8]>>(7-uint(i%8))) & 1
	}
	return out
}

func numVal(bi *big.Int) val {
	neg := bi.Sign() < 0
	s := new(big.Int).Abs(bi).Text(2)
	bits := make([]int, len(s))
	for i, c := range s {
		bits[i] = int(c - '0')
	}
	return val{"t": "num", "neg": neg, "bits": bits}
}

func broken(why string, a ...any) val { return val{"t": "broken", "why": fmt.Sprintf(why, a...)} }

// proj maps a real jq value to the value shape of Binary.tla.
func proj(v any) val {
	switch vv := v.(type) {
	case nil:
		return val{"t": "null"}
	case bool:
		return val{"t": "bool"}
	case int:
		return numVal(big.NewInt(int64(vv)))
	case *big.Int:
		return numVal(vv)
	case float64:
		if math.IsNaN(vv) || math.IsInf(vv, 0) {
			return broken("float %v", vv)
		}
		bi, _ := new(big.Float).SetFloat64(math.Trunc(vv)).Int(nil) // a float is seen through its truncation
		return numVal(bi)
	case string:
		bs := []byte(vv)
		out := make([]int, len(bs))
		for i, b := range bs {
			out[i] = int(b)
		}
		return val{"t": "str", "bytes": out}
	case []any:
		out := make([]any, len(vv))
		for i, e := range vv {
			out[i] = proj(e)
		}
		return val{"t": "arr", "v": out}
	case map[string]any:
		return val{"t": "obj"}
	case interp.Binary:
		br, err := interp.ToBitReader(vv) // the bits of the binary's range
		if err != nil {
			return broken("ToBitReader: %v", err)
		}
		n, err := bitiox.Len(br)
		if err != nil {
			return broken("Len: %v", err)
		}
		buf := make([]byte, (n+7)/8)
		if n > 0 {
			if _, err := bitio.ReadAtFull(br, buf, n, 0); err != nil {
				return broken("read: %v", err)
			}
		}
		unit, ok := vv.JQValueKey("unit").(int)
		if !ok {
			return broken("unit")
		}
		bb, ok := vv.JQValueKey("bits").(interp.Binary)
		if !ok {
			return broken("bits key")
		}
		st, ok := bb.JQValueKey("start").(*big.Int)
		if !ok || !st.IsInt64() {
			return broken("start")
		}
		return val{"t": "bin", "bits": bitsOfBytes(buf, n), "unit": unit, "start": int(st.Int64())}
	case interp.ToBinary: // decode value: seen as the binary of its range (byte unit)
		b, err := vv.ToBinary()
		if err != nil {
			return broken("ToBinary: %v", err)
		}
		return proj(b)
	default:
		return broken("type %T", v)
	}
}

// ---------------------------------------------------------------- capture functions

type slot struct {
	Got val // projection, or {"t":"err"}
	X   any // jq-level view of a binary: tobits|explode (nil when not requested / not a binary)
}

var store map[int]*slot

func init() {
	// _c09s($id; $x): store projection of input under id, pass the input through unchanged
	interp.RegisterFunc2("_c09s", func(_ *interp.Interp, c any, id int, x any) any {
		s := &slot{Got: proj(c)}
		if x != nil {
			s.X = proj(x)
		}
		store[id] = s
		return c
	})
	// _c09e($id): the expression raised a jq error
	interp.RegisterFunc1("_c09e", func(_ *interp.Interp, c any, id int) any {
		if _, dup := store[id]; !dup {
			store[id] = &slot{Got: val{"t": "err"}}
		}
		return nil
	})
}

// ---------------------------------------------------------------- virtual OS / fq runner

type memFS map[string][]byte
type memFile struct {
	*bytes.Reader
	name string
	size int64
}

func (f memFile) Stat() (fs.FileInfo, error) {
	return interp.FixedFileInfo{FName: f.name, FSize: f.size}, nil
}
func (f memFile) Close() error { return nil }
func (m memFS) Open(name string) (fs.File, error) {
	b, ok := m[name]
	if !ok {
		return nil, &fs.PathError{Op: "open", Path: name, Err: fs.ErrNotExist}
	}
	return memFile{Reader: bytes.NewReader(b), name: name, size: int64(len(b))}, nil
}

type vin struct{ interp.FileReader }

func (vin) IsTerminal() bool { return false }
func (vin) Size() (int, int) { return 120, 25 }

type vout struct{ io.Writer }

func (vout) Size() (int, int) { return 120, 25 }
func (vout) IsTerminal() bool { return false }

type vos struct {
	args           []string
	stdout, stderr *bytes.Buffer
	fsys           fs.FS
}

func (o *vos) Platform() interp.Platform { return interp.Platform{} }
func (o *vos) Stdin() interp.Input {
	return vin{FileReader: interp.FileReader{R: bytes.NewBuffer(nil)}}
}
func (o *vos) Stdout() interp.Output                             { return vout{o.stdout} }
func (o *vos) Stderr() interp.Output                             { return vout{o.stderr} }
func (o *vos) InterruptChan() chan struct{}                      { return nil }
func (o *vos) Environ() []string                                 { return []string{"NO_COLOR=1", "NO_DECODE_PROGRESS=1"} }
func (o *vos) Args() []string                                    { return o.args }
func (o *vos) ConfigDir() (string, error)                        { return "/config", nil }
func (o *vos) FS() fs.FS                                         { return o.fsys }
func (o *vos) History() ([]string, error)                        { return nil, nil }
func (o *vos) Readline(opts interp.ReadlineOpts) (string, error) { return "", io.EOF }

// hangAfter: a chunk of a thousand programs takes well under a second; real code that has not returned after
// this long is looping. The harness cannot stop it, so it reports the chunk (exit 4) and the runner re-runs
// that chunk alone before calling it a hang.
var hangAfter = 90 * time.Second

func init() {
	if s, err := strconv.Atoi(os.Getenv("C09_HANG_S")); err == nil && s > 0 {
		hangAfter = time.Duration(s) * time.Second
	}
}

var onHang func() // flushes what has been recorded and describes the stuck chunk

func runFq(files memFS, args ...string) {
	done := make(chan struct{})
	go func() {
		runFq1(files, args...)
		close(done)
	}()
	select {
	case <-done:
	case <-time.After(hangAfter):
		if onHang != nil {
			onHang()
		}
		fmt.Fprintf(os.Stderr, "HANG: fq did not return within %v\n", hangAfter)
		os.Exit(4)
	}
}

// runFq1 runs `fq <args...>` in-process. Machinery failure (non-zero exit) is fatal: every generated program
// catches its own errors, so a failing invocation means the harness produced a bad program.
func runFq1(files memFS, args ...string) {
	o := &vos{args: append([]string{"fq"}, args...), stdout: &bytes.Buffer{}, stderr: &bytes.Buffer{}, fsys: files}
	i, err := interp.New(o, interp.DefaultRegistry)
	if err != nil {
		kit.Fatalf("interp.New: %v", err)
	}
	if err := i.Main(context.Background(), o.Stdout(), "verif"); err != nil {
		p := strings.Join(args, " ")
		if len(p) > 600 {
			p = p[:600] + "..."
		}
		kit.Fatalf("fq failed: %v\nstderr: %.2000s\nargs: %s", err, o.stderr.String(), p)
	}
}

const prelude = `def _c09p($id): if _exttype == "binary" then _c09s($id; try (tobits | explode) catch "xerr") else _c09s($id; null) end; `

func wrapCase(id int, txt string) string {
	return fmt.Sprintf("(try ((%s) | _c09p(%d)) catch _c09e(%d) | empty)", txt, id, id)
}

// ---------------------------------------------------------------- replay of TLC-emitted programs

type gcase struct {
	ID  int    `json:"id"`
	Txt string `json:"txt"`
}
type gout struct {
	ID  int  `json:"id"`
	Got val  `json:"got"`
	XOK bool `json:"xok"`         // binaries: the jq-level view `tobits | explode` equals the projected bits
	X   any  `json:"x,omitempty"` // only when it does not
}

// xAgrees compares (equality only) the jq-level view of a binary with its projection.
func xAgrees(got val, x any) bool {
	bits, ok := got["bits"].([]int)
	xv, ok2 := x.(val)
	if !ok || !ok2 || xv["t"] != "arr" {
		return false
	}
	vs, ok := xv["v"].([]any)
	if !ok || len(vs) != len(bits) {
		return false
	}
	for i, e := range vs {
		if n := natOf(e); n != bits[i] {
			return false
		}
	}
	return true
}

func evalChunk(cs []gcase, out *kit.Out) {
	store = map[int]*slot{}
	parts := make([]string, len(cs))
	for i, c := range cs {
		parts[i] = wrapCase(c.ID, c.Txt)
	}
	onHang = func() {
		out.Close()
		fmt.Fprintf(os.Stderr, "HANGCHUNK %d %d\n", cs[0].ID, cs[len(cs)-1].ID)
	}
	runFq(nil, "-n", prelude+strings.Join(parts, ",\n"))
	for _, c := range cs {
		s, ok := store[c.ID]
		if !ok {
			// neither a value nor a caught error: the expression produced no output
			out.Emit(gout{ID: c.ID, Got: val{"t": "empty"}})
			continue
		}
		o := gout{ID: c.ID, Got: s.Got}
		if s.Got["t"] == "bin" {
			if o.XOK = xAgrees(s.Got, s.X); !o.XOK {
				o.X = s.X
			}
		}
		out.Emit(o)
	}
}

func replay(casesPath, outPath string, chunk int) {
	out := kit.NewOut(outPath)
	var cur []gcase
	kit.Cases(casesPath, func(_ int, raw []byte) {
		var c gcase
		kit.Unmarshal(raw, &c)
		cur = append(cur, c)
		if len(cur) >= chunk {
			evalChunk(cur, out)
			cur = cur[:0]
		}
	})
	if len(cur) > 0 {
		evalChunk(cur, out)
	}
	out.Close()
}

// ---------------------------------------------------------------- random driver (trace validation)

type opRec struct {
	Op string `json:"op"`
	A  int    `json:"a"`
	B  int    `json:"b"`
	Ha bool   `json:"ha"`
	Hb bool   `json:"hb"`
}

type node struct {
	kind string // lit | arr | op
	txt  string // lit
	es   []*node
	o    opRec
	e    *node
	id   int
	res  string // static guess of the result kind: bin | num | str | arr | other (drives generation only)
	big  bool   // some leaf below is large: avoid ops whose events would be huge
	dv   bool   // leaf is a decode value of the ipv4 packet in the virtual file system
}

func (o opRec) text() string {
	switch o.Op {
	case "tobitsn":
		return fmt.Sprintf("tobits(%d)", o.A)
	case "tobytesn":
		return fmt.Sprintf("tobytes(%d)", o.A)
	case "index":
		return fmt.Sprintf(".[%d]", o.A)
	case "slice":
		a, b := "", ""
		if o.Ha {
			a = strconv.Itoa(o.A)
		}
		if o.Hb {
			b = strconv.Itoa(o.B)
		}
		return ".[" + a + ":" + b + "]"
	case "bits", "bytes", "size", "start", "stop", "unit":
		return "." + o.Op
	}
	return o.Op
}

type gen struct {
	rng    *rand.Rand
	nextID int
	nodes  []*node // post-order = evaluation order
}

// text builds the jq program of a tree; every node passes its value through _c09s(id; null).
func (g *gen) text(n *node) string {
	var s string
	switch n.kind {
	case "lit":
		s = n.txt
	case "arr":
		ps := make([]string, len(n.es))
		for i, e := range n.es {
			ps[i] = g.text(e)
		}
		s = "[" + strings.Join(ps, ",") + "]"
	case "op":
		s = g.text(n.e) + " | " + n.o.text()
	}
	n.id = g.nextID
	g.nextID++
	g.nodes = append(g.nodes, n)
	if n.dv { // also capture the jq-visible range of the decode value
		return fmt.Sprintf("(%s | _c09s(%d; [._start, ._stop]))", s, n.id)
	}
	return fmt.Sprintf("(%s | _c09s(%d; null))", s, n.id)
}

func (g *gen) randBytes(n int) []byte {
	b := make([]byte, n)
	switch g.rng.Intn(4) {
	case 0: // sparse
		for i := range b {
			if g.rng.Intn(8) == 0 {
				b[i] = byte(g.rng.Intn(256))
			}
		}
	case 1: // all ones-ish
		for i := range b {
			b[i] = 0xff
			if g.rng.Intn(8) == 0 {
				b[i] = byte(g.rng.Intn(256))
			}
		}
	default:
		g.rng.Read(b)
	}
	return b
}

func (g *gen) size() int {
	switch r := g.rng.Intn(100); {
	case r < 55:
		return g.rng.Intn(6)
	case r < 85:
		return g.rng.Intn(40)
	case r < 97:
		return g.rng.Intn(300)
	default:
		return 1024 + g.rng.Intn(3073) // up to 4 KiB
	}
}

func (g *gen) leaf(inArr bool) *node {
	r := g.rng.Intn(100)
	switch {
	case r < 30: // string (ascii and multi-byte UTF-8)
		n := g.size()
		var sb strings.Builder
		alphabet := []rune("abcXYZ09 ~éÿĀ€\U0001F600\u0001\u007f")
		for i := 0; i < n; i++ {
			sb.WriteRune(alphabet[g.rng.Intn(len(alphabet))])
		}
		js, _ := json.Marshal(sb.String())
		return &node{kind: "lit", txt: string(js), res: "str", big: n > 600}
	case r < 50: // byte array literal (fast path of toBitReaderEx)
		n := g.size()
		b := g.randBytes(n)
		ps := make([]string, n)
		for i, x := range b {
			ps[i] = strconv.Itoa(int(x))
		}
		return &node{kind: "lit", txt: "[" + strings.Join(ps, ",") + "]", res: "arr", big: n > 600}
	case r < 72: // integer: small, boundary, or big (up to 200 bits)
		var bi *big.Int
		switch g.rng.Intn(5) {
		case 0:
			bi = big.NewInt(int64(g.rng.Intn(4)))
		case 1:
			bi = big.NewInt(int64([]int{127, 128, 254, 255, 256, 257, 65535, 65536}[g.rng.Intn(8)]))
		case 2:
			bi = big.NewInt(g.rng.Int63())
		case 3:
			bi = new(big.Int).Lsh(big.NewInt(1), uint(g.rng.Intn(200)))
			if g.rng.Intn(2) == 0 {
				bi.Sub(bi, big.NewInt(1))
			}
		default:
			bi = new(big.Int).Rand(g.rng, new(big.Int).Lsh(big.NewInt(1), uint(1+g.rng.Intn(200))))
		}
		return &node{kind: "lit", txt: bi.String(), res: "num"}
	case r < 80 && inArr: // members that must be rejected or truncated
		return &node{kind: "lit", txt: []string{"-1", "256", "1.9", "-0.5", "255.9", "256.5", "-1.5", "null", "{}", "true", "1000000000000000000000"}[g.rng.Intn(11)], res: "other"}
	case r < 84:
		return &node{kind: "lit", txt: []string{"null", "{}", "true", "1.9", "255.5"}[g.rng.Intn(5)], res: "other"}
	case r < 92: // decode value: root, a bit field, a byte field or the payload of the decoded packet
		return &node{kind: "lit", txt: fmt.Sprintf("($d | [..] | .[%d])", g.rng.Intn(dvCount)), res: "dv", dv: true}
	default: // a binary built from hex, bit or byte unit, often not byte aligned
		n := g.size()
		b := g.randBytes(n)
		ps := make([]string, n)
		for i, x := range b {
			ps[i] = strconv.Itoa(int(x))
		}
		t := "[" + strings.Join(ps, ",") + "] | tobytes"
		if g.rng.Intn(2) == 0 && n > 0 {
			lo := g.rng.Intn(8 * n)
			hi := lo + g.rng.Intn(8*n-lo+1)
			t = fmt.Sprintf("%s | tobits | .[%d:%d]", t, lo, hi)
			if g.rng.Intn(2) == 0 {
				t += " | .bytes"
			}
		}
		return &node{kind: "lit", txt: "(" + t + ")", res: "bin", big: n > 600}
	}
}

// bigConvTree: a whole-binary conversion (tonumber / tostring / explode - the operations that read a binary through a byte view,
// front to back) of a binary of 1 100 .. 4 096 bytes whose parts meet OFF a byte boundary: 1..7 bits in front of a long run of
// bytes, concatenated through an array and turned into bits or (front-padded) bytes.  The random trees above keep these
// conversions away from big operands; this family is where thousands of bytes pass through the carry buffers of the byte view.
func (g *gen) bigConvTree() *node {
	k := 1 + g.rng.Intn(7)
	front := &node{kind: "lit", txt: fmt.Sprintf("([%d] | tobits | .[%d:])", g.rng.Intn(256), 8-k), res: "bin"}
	n := 1100 + g.rng.Intn(2997)
	b := g.randBytes(n)
	fin := []string{"tonumber", "tostring", "explode"}[g.rng.Intn(3)]
	if fin != "tonumber" { // text: mostly printable ASCII, so that a shifted or zeroed byte is a different character
		for i := range b {
			if g.rng.Intn(50) != 0 {
				b[i] = byte(32 + g.rng.Intn(95))
			}
		}
	}
	ps := make([]string, n)
	for i, x := range b {
		ps[i] = strconv.Itoa(int(x))
	}
	body := &node{kind: "lit", txt: "[" + strings.Join(ps, ",") + "]", res: "arr", big: true}
	es := []*node{front, body}
	if g.rng.Intn(3) == 0 { // the odd bits behind the bytes: the front padding of tobytes does the shifting
		es = []*node{body, front}
	}
	arr := &node{kind: "arr", es: es, res: "arr", big: true}
	conv := &node{kind: "op", e: arr, o: opRec{Op: []string{"tobits", "tobytes"}[g.rng.Intn(2)]}, res: "bin", big: true}
	res := map[string]string{"tonumber": "num", "tostring": "str", "explode": "arr"}[fin]
	return &node{kind: "op", e: conv, o: opRec{Op: fin}, res: res, big: true}
}

func (g *gen) bound(big bool) int {
	switch r := g.rng.Intn(10); {
	case r < 5:
		return g.rng.Intn(26) - 5
	case r < 8:
		return g.rng.Intn(400) - 200
	default:
		if big {
			return g.rng.Intn(70000) - 35000
		}
		return g.rng.Intn(4000) - 2000
	}
}

func (g *gen) tree(d int, inArr bool) *node {
	if d == 0 || g.rng.Intn(6) == 0 {
		return g.leaf(inArr)
	}
	if g.rng.Intn(5) == 0 { // array of sub-expressions
		k := g.rng.Intn(4)
		n := &node{kind: "arr", res: "arr"}
		for i := 0; i < k; i++ {
			e := g.tree(d-1, true)
			n.es = append(n.es, e)
			n.big = n.big || e.big
		}
		return n
	}
	e := g.tree(d-1, false)
	n := &node{kind: "op", e: e, big: e.big}
	conv := []string{"tobits", "tobytes", "tobitsrange", "tobytesrange", "tobitsn", "tobytesn", "to_hex"}
	if e.res != "bin" || g.rng.Intn(6) == 0 {
		op := conv[g.rng.Intn(len(conv))]
		if op == "to_hex" && e.big {
			op = "tobytes"
		}
		n.o = opRec{Op: op}
		if op == "tobitsn" || op == "tobytesn" {
			n.o.A = g.rng.Intn(5)
			if g.rng.Intn(6) == 0 {
				n.o.A = g.rng.Intn(40)
			}
			n.o.Ha = true
		}
		n.res = "bin"
		if op == "to_hex" {
			n.res = "str"
		}
		return n
	}
	ops := []string{"slice", "slice", "slice", "slice", "index", "index", "bits", "bytes", "size", "start", "stop", "unit", "length", "tonumber", "tostring", "explode"}
	op := ops[g.rng.Intn(len(ops))]
	if e.big && (op == "explode" || op == "tonumber" || op == "tostring") {
		op = "slice"
	}
	n.o = opRec{Op: op}
	switch op {
	case "slice":
		n.o.Ha, n.o.Hb = g.rng.Intn(5) != 0, g.rng.Intn(5) != 0
		if !n.o.Ha && !n.o.Hb { // `.[:]` is not jq syntax
			n.o.Ha = true
		}
		if n.o.Ha {
			n.o.A = g.bound(e.big)
		}
		if n.o.Hb {
			n.o.B = g.bound(e.big)
		}
		n.res = "bin"
	case "index":
		n.o.A, n.o.Ha = g.bound(e.big), true
		n.res = "num"
	case "bits", "bytes":
		n.res = "bin"
	case "tostring":
		n.res = "str"
	case "explode":
		n.res = "arr"
	default:
		n.res = "num"
	}
	return n
}

// ipv4 packet with random field values: 4-, 6-, 2-, 1- and 13-bit fields, byte fields and a raw payload.
// `$d | [..]` has dvCount entries: the root and its 16 fields.
const dvCount = 17

func ipv4File(rng *rand.Rand) []byte {
	payload := rng.Intn(24)
	b := make([]byte, 20+payload)
	rng.Read(b)
	b[0] = 0x45 // version 4, ihl 5
	b[2], b[3] = byte(len(b)>>8), byte(len(b))
	b[9] = 253 // experimental protocol: payload stays raw
	return b
}

type event struct {
	O    opRec  `json:"o"`
	In   val    `json:"in"`
	Out  val    `json:"out"`
	Tree int    `json:"tree"`
	Txt  string `json:"txt,omitempty"` // program text of the whole tree (first event of a tree only)
}

// natOf reads back a small projected number (-1 if it is not one)
func natOf(x any) int {
	v, ok := x.(val)
	if !ok || v["t"] != "num" || v["neg"] == true {
		return -1
	}
	bits, ok := v["bits"].([]int)
	if !ok || len(bits) > 30 {
		return -1
	}
	n := 0
	for _, b := range bits {
		n = n*2 + b
	}
	return n
}

func randDriver(nTrees int, outPath string) {
	out := kit.NewOut(outPath)
	rng := rand.New(rand.NewSource(kit.Seed()*7919 + 9))
	const chunk = 200
	for base := 0; base < nTrees; base += chunk {
		g := &gen{rng: rng}
		type rt struct {
			root  *node
			first int
			last  int
			txt   string
		}
		var trees []rt
		var parts []string
		for t := base; t < base+chunk && t < nTrees; t++ {
			root := g.tree(1+rng.Intn(7), false)
			if t%40 == 7 {
				root = g.bigConvTree()
			}
			first := g.nextID
			txt := g.text(root)
			trees = append(trees, rt{root, first, g.nextID - 1, txt})
			// the error marker id is the root id shifted into a disjoint space
			parts = append(parts, fmt.Sprintf("(try (%s) catch _c09e(%d) | empty)", txt, 1000000+root.id))
		}
		store = map[int]*slot{}
		onHang = func() {
			for ti, t := range trees { // the programs of the stuck chunk, for the runner's re-run and the replay file
				out.Emit(event{O: opRec{Op: "hangchunk"}, In: val{"t": "null"}, Out: val{"t": "null"}, Tree: base + ti, Txt: t.txt})
			}
			out.Close()
		}
		file := ipv4File(rng)
		fileBits := bitsOfBytes(file, int64(8*len(file)))
		runFq(memFS{"p.bin": file}, "-n", `("p.bin" | open | decode("ipv4_packet")) as $d | `+strings.Join(parts, ",\n"))
		for ti, t := range trees {
			_, caught := store[1000000+t.root.id]
			// the first node (evaluation order) without a stored value is the one that raised
			failed := -1
			for id := t.first; id <= t.last; id++ {
				if _, ok := store[id]; !ok {
					failed = id
					break
				}
			}
			if (failed >= 0) != caught {
				// a value is missing without an error (empty output), or an error after all values were stored
				out.Emit(event{O: opRec{Op: "anomaly"}, In: val{"t": "null"}, Out: val{"t": "empty"}, Tree: base + ti, Txt: t.txt})
				continue
			}
			firstEv := true
			for id := t.first; id <= t.last; id++ {
				n := g.nodes[id]
				if failed >= 0 && id >= failed && n.kind != "op" {
					break
				}
				if n.dv {
					// ground truth event: the decode value seen as a binary is the file's bits [_start, _stop)
					rg, _ := store[id].X.(val)
					a, b := -1, -1
					if vs, ok := rg["v"].([]any); ok && len(vs) == 2 {
						a, b = natOf(vs[0]), natOf(vs[1])
					}
					out.Emit(event{O: opRec{Op: "dv", A: a, B: b}, In: val{"t": "file", "bits": fileBits}, Out: store[id].Got, Tree: base + ti})
				}
				if n.kind != "op" {
					continue
				}
				if failed >= 0 && id > failed {
					break
				}
				in := store[n.e.id].Got
				var res val
				if id == failed {
					res = val{"t": "err"}
				} else {
					res = store[id].Got
				}
				ev := event{O: n.o, In: in, Out: res, Tree: base + ti}
				if firstEv {
					ev.Txt = t.txt
					firstEv = false
				}
				out.Emit(ev)
			}
		}
	}
	out.Close()
}

func main() {
	if len(os.Args) < 2 {
		kit.Fatalf("usage")
	}
	switch os.Args[1] {
	case "replay":
		chunk := 500
		if len(os.Args) > 4 {
			chunk = kit.Atoi(os.Args[4])
		}
		replay(os.Args[2], os.Args[3], chunk)
	case "rand":
		randDriver(kit.Atoi(os.Args[2]), os.Args[3])
	case "one":
		store = map[int]*slot{}
		onHang = nil
		// `$d` as in the random driver (a fixed packet here), so tree programs of that driver can be re-run alone
		file := ipv4File(rand.New(rand.NewSource(1)))
		runFq(memFS{"p.bin": file}, "-n", prelude+`("p.bin" | open | decode("ipv4_packet")) as $d | `+wrapCase(0, os.Args[2]))
		s, ok := store[0]
		if !ok {
			fmt.Println(`{"t":"empty"}`)
			return
		}
		b, _ := json.Marshal(gout{ID: 0, Got: s.Got, X: s.X})
		fmt.Println(string(b))
	default:
		kit.Fatalf("unknown mode")
	}
}
