// c19: binds TcpReasm.tla to fq's pcap/pcapng flow reassembly (format/pcap + format/inet/flowsdecoder).
//
//	c19 replay <cases.ndjson> <events.ndjson> <variants-per-case>   TLC-emitted histories -> captures -> real fq -> events
//	c19 rand <n> <events.ndjson> <big>                             seeded random longer conversations (beyond TLC's constants)
//	c19 again <events.ndjson> <events-out.ndjson>                  re-run recorded events (confirmation, --replay)
//	c19 one <event.json> <event-out.ndjson> [capture-file]         re-run one event and write its capture bytes
//
// A history is {conns:[{hs,isn:[class,class]}], wire:[{c,dir,kind,from,to,dg,fi,fn}]} (see spec/TcpReasm.tla).
// The harness chooses everything the model leaves symbolic (addresses, ports, ISN numbers by class, payload chunk
// per token, fragment cut points, link layer, file format), serialises the packets with the hand-written writer
// below (no gopacket), decodes the capture with real fq in-process and reports what fq says, abstracted back to
// tokens: an event {.., obs:{conns:[{c,cl:{side,toks,skipped},sv:{..}}], reasm:[dg..]}}.
//
// Trusted base (all trivial lookups, no reassembly logic): endpointsOf (reported ip:port pair -> connection, sides),
// tokensOf (stream bytes -> token numbers by comparing with the chunk table), datagramOf (bytes -> datagram id).
package main

import (
	"bytes"
	"context"
	"encoding/binary"
	"fmt"
	"math/rand"
	"os"
	"runtime/debug"

	_ "github.com/wader/fq/format/all"
	"github.com/wader/fq/internal/bitiox"
	"github.com/wader/fq/internal/verif/kit"
	"github.com/wader/fq/pkg/bitio"
	"github.com/wader/fq/pkg/decode"
	"github.com/wader/fq/pkg/interp"
)

// ---------------------------------------------------------------- history (shared vocabulary with the spec)

type Conn struct {
	Hs  bool      `json:"hs"`
	Isn [2]string `json:"isn"`
}
type Pkt struct {
	C    int    `json:"c"`
	Dir  int    `json:"dir"`
	Kind string `json:"kind"`
	From int    `json:"from"`
	To   int    `json:"to"`
	Dg   int    `json:"dg"`
	Fi   int    `json:"fi"`
	Fn   int    `json:"fn"`
}
type History struct {
	Conns []Conn `json:"conns"`
	Wire  []Pkt  `json:"wire"`
	Omits []Pkt  `json:"omits"` // informational: segments the capture missed
	Swaps []int  `json:"swaps"` // informational: wire index of adjacent swaps
	Split int    `json:"split"` // pcapng only: the first Split packets form a section of their own (0: one section)
}
type ObsSide struct {
	Side    int   `json:"side"`
	Toks    []int `json:"toks"`
	Skipped int   `json:"skipped"`
}
type ObsConn struct {
	C  int     `json:"c"`
	Cl ObsSide `json:"cl"`
	Sv ObsSide `json:"sv"`
}
type Obs struct {
	Conns []ObsConn `json:"conns"`
	Reasm []int     `json:"reasm"`
}
type Event struct {
	ID    int    `json:"id"`
	Src   string `json:"src"`
	Fmt   string `json:"fmt"`
	Link  string `json:"link"`
	WSeed int64  `json:"wseed"`
	Big   bool   `json:"big"`
	Many  bool   `json:"many"`
	Split int    `json:"split"`
	Conns []Conn `json:"conns"`
	Wire  []Pkt  `json:"wire"`
	Omits []Pkt  `json:"omits"`
	Swaps []int  `json:"swaps"`
	Obs   Obs    `json:"obs"`
	Coinc []int  `json:"coinc"` // fragmented datagrams whose payload length equals the total length of the fragment that completes them (as-built B2)
	Err   string `json:"err"`
	Bytes int    `json:"bytes"`
}

func tok(c, dir, p int) int { return c*100000 + dir*10000 + p }

// many: one connection whose client sends several hundred small segments (the reassembler's per-connection page budget, the
// sequence-number arithmetic over hundreds of segments and what follows a gap by far)
var many bool

func nz(p []Pkt) []Pkt {
	if p == nil {
		return []Pkt{}
	}
	return p
}
func nzi(p []int) []int {
	if p == nil {
		return []int{}
	}
	return p
}

// ---------------------------------------------------------------- world: what the model leaves symbolic

type world struct {
	ip    [][3][4]byte   // [c][side]
	port  [][3]uint16    // [c][side]
	isn   [][3]uint32    // [c][side]
	chunk [][3][][]byte  // [c][side][pos] (pos 1-based)
	off   [][3][]uint32  // byte offset of pos in the stream; off[pos] for pos in 1..n+1
	dgram map[int][]byte // original IPv4 datagram per dg id (as sent, before fragmentation)
	coinc []int
}

var wellKnown = []uint16{80, 8080, 25, 9999, 5000, 21, 110}

func buildWorld(h *History, rng *rand.Rand, big bool) *world {
	nc := len(h.Conns)
	w := &world{dgram: map[int][]byte{}}
	w.ip = make([][3][4]byte, nc+1)
	w.port = make([][3]uint16, nc+1)
	w.isn = make([][3]uint32, nc+1)
	w.chunk = make([][3][][]byte, nc+1)
	w.off = make([][3][]uint32, nc+1)
	// positions used per direction
	maxpos := make([][3]int, nc+1)
	for _, p := range h.Wire {
		m := p.To
		if p.From-1 > m {
			m = p.From - 1
		}
		if m > maxpos[p.C][p.Dir] {
			maxpos[p.C][p.Dir] = m
		}
	}
	sameHosts := rng.Intn(2) == 0 // all connections between the same two hosts (distinguished by port only)
	for c := 1; c <= nc; c++ {
		if sameHosts {
			w.ip[c][1] = [4]byte{10, 0, 0, 1}
			w.ip[c][2] = [4]byte{10, 0, 0, 2}
		} else {
			w.ip[c][1] = [4]byte{192, 168, byte(c), byte(1 + rng.Intn(100))}
			w.ip[c][2] = [4]byte{172, 16, byte(rng.Intn(250)), byte(c)}
		}
		w.port[c][1] = uint16(20000 + 100*c + rng.Intn(100))
		if rng.Intn(2) == 0 {
			w.port[c][2] = wellKnown[rng.Intn(len(wellKnown))]
		} else {
			w.port[c][2] = uint16(30000 + 100*c + rng.Intn(100))
		}
		for s := 1; s <= 2; s++ {
			n := maxpos[c][s]
			w.chunk[c][s] = make([][]byte, n+1)
			w.off[c][s] = make([]uint32, n+2)
			tot := uint32(0)
			for p := 1; p <= n; p++ {
				var l int
				switch r := rng.Intn(10); {
				case r == 0:
					l = 1
				case r <= 3:
					l = 1 + rng.Intn(16)
				case r <= 7:
					l = 1 + rng.Intn(300)
				default:
					l = 1 + rng.Intn(1500)
				}
				if many {
					l = 8 + rng.Intn(57)
				}
				if big && rng.Intn(20) != 0 {
					l = 1400 + rng.Intn(101) // 40..45 tokens of ~1450 bytes: 55..66 KiB per direction
				}
				b := make([]byte, l)
				rng.Read(b)
				w.chunk[c][s][p] = b
				w.off[c][s][p] = tot
				tot += uint32(l)
			}
			w.off[c][s][n+1] = tot
			cls := "low"
			if c-1 < len(h.Conns) {
				cls = h.Conns[c-1].Isn[s-1]
			}
			switch cls {
			case "wrap": // the stream crosses 2^32 (r = 0: first data byte has sequence number 0)
				w.isn[c][s] = uint32(0xFFFFFFFF) - uint32(rng.Int63n(int64(tot)+1))
			case "half": // the stream crosses 2^31 (signed difference arithmetic)
				w.isn[c][s] = uint32(0x7FFFFFFF) - uint32(rng.Int63n(int64(tot)+1))
			default:
				w.isn[c][s] = uint32(rng.Int63n(1 << 31))
			}
		}
	}
	return w
}

// ---------------------------------------------------------------- hand-written packet writer

func csum(b []byte, init uint32) uint16 {
	s := init
	for i := 0; i+1 < len(b); i += 2 {
		s += uint32(b[i])<<8 | uint32(b[i+1])
	}
	if len(b)%2 == 1 {
		s += uint32(b[len(b)-1]) << 8
	}
	for s>>16 != 0 {
		s = s&0xffff + s>>16
	}
	return ^uint16(s)
}

func tcpSegment(src, dst [4]byte, sport, dport uint16, seq, ack uint32, flags byte, opts, payload []byte) []byte {
	hl := 20 + len(opts)
	b := make([]byte, hl+len(payload))
	binary.BigEndian.PutUint16(b[0:], sport)
	binary.BigEndian.PutUint16(b[2:], dport)
	binary.BigEndian.PutUint32(b[4:], seq)
	binary.BigEndian.PutUint32(b[8:], ack)
	b[12] = byte(hl/4) << 4
	b[13] = flags
	binary.BigEndian.PutUint16(b[14:], 65535)
	copy(b[20:], opts)
	copy(b[hl:], payload)
	ph := make([]byte, 12)
	copy(ph[0:], src[:])
	copy(ph[4:], dst[:])
	ph[9] = 6
	binary.BigEndian.PutUint16(ph[10:], uint16(len(b)))
	var s uint32
	for i := 0; i < 12; i += 2 {
		s += uint32(ph[i])<<8 | uint32(ph[i+1])
	}
	binary.BigEndian.PutUint16(b[16:], csum(b, s))
	return b
}

func ipv4(src, dst [4]byte, id uint16, payload []byte, fragOff int, mf bool) []byte {
	b := make([]byte, 20+len(payload))
	b[0] = 0x45
	binary.BigEndian.PutUint16(b[2:], uint16(len(b)))
	binary.BigEndian.PutUint16(b[4:], id)
	fo := uint16(fragOff / 8)
	if mf {
		fo |= 0x2000
	}
	binary.BigEndian.PutUint16(b[6:], fo)
	b[8] = 64
	b[9] = 6
	copy(b[12:], src[:])
	copy(b[16:], dst[:])
	binary.BigEndian.PutUint16(b[10:], csum(b[:20], 0))
	copy(b[20:], payload)
	return b
}

var linkTypes = map[string]uint32{"ether": 1, "raw": 101, "ipv4": 228, "sll": 113, "sll2": 276, "null": 0}
var linkNames = []string{"ether", "raw", "ipv4", "sll", "sll2", "null"}
var fmtNames = []string{"pcap_le", "pcap_be", "pcap_le_ns", "pcap_be_ns", "pcapng_le", "pcapng_be"}

func linkFrame(kind string, bo binary.ByteOrder, ip []byte) []byte {
	switch kind {
	case "ether":
		return append([]byte{0x02, 0, 0, 0, 0, 0x02, 0x02, 0, 0, 0, 0, 0x01, 0x08, 0x00}, ip...)
	case "raw", "ipv4":
		return append([]byte{}, ip...)
	case "sll":
		h := make([]byte, 16)
		binary.BigEndian.PutUint16(h[2:], 1) // ARPHRD_ETHER
		binary.BigEndian.PutUint16(h[4:], 6)
		copy(h[6:], []byte{2, 0, 0, 0, 0, 1})
		binary.BigEndian.PutUint16(h[14:], 0x0800)
		return append(h, ip...)
	case "sll2":
		h := make([]byte, 20)
		binary.BigEndian.PutUint16(h[0:], 0x0800)
		binary.BigEndian.PutUint32(h[4:], 2)
		binary.BigEndian.PutUint16(h[8:], 1)
		h[10] = 0
		h[11] = 6
		copy(h[12:], []byte{2, 0, 0, 0, 0, 1})
		return append(h, ip...)
	case "null":
		h := make([]byte, 4)
		bo.PutUint32(h, 2) // AF_INET in the capturing host's byte order
		return append(h, ip...)
	}
	kit.Fatalf("link %q", kind)
	return nil
}

func captureFile(format, link string, frames [][]byte, decoy int, split int) []byte {
	b := &bytes.Buffer{}
	var bo binary.ByteOrder = binary.LittleEndian
	if format == "pcap_be" || format == "pcap_be_ns" || format == "pcapng_be" {
		bo = binary.BigEndian
	}
	w := func(vs ...any) {
		for _, v := range vs {
			_ = binary.Write(b, bo, v)
		}
	}
	lt := linkTypes[link]
	switch format {
	case "pcap_le", "pcap_be", "pcap_le_ns", "pcap_be_ns":
		magic := uint32(0xa1b2c3d4)
		frac := uint32(1000)
		if format == "pcap_le_ns" || format == "pcap_be_ns" {
			magic = 0xa1b23c4d
			frac = 1000000
		}
		w(magic, uint16(2), uint16(4), int32(0), uint32(0), uint32(262144), lt)
		for i, f := range frames {
			w(uint32(1700000000+i/100), uint32(i%100)*frac, uint32(len(f)), uint32(len(f)))
			b.Write(f)
		}
	case "pcapng_le", "pcapng_be":
		// one section, or two when split > 0: each with its own section header, interface description(s) and packets; a section that
		// is followed by another one carries its length (with -1 a reader takes the rest of the file for this section)
		section := func(fr [][]byte, first int, explicit bool) {
			body := &bytes.Buffer{}
			wb := func(vs ...any) {
				for _, v := range vs {
					_ = binary.Write(body, bo, v)
				}
			}
			other := uint16(1)
			if lt == 1 {
				other = 113
			}
			ifid := uint32(0)
			if decoy == 1 {
				wb(uint32(1), uint32(20), other, uint16(0), uint32(262144), uint32(20))
				ifid = 1
			}
			wb(uint32(1), uint32(20), uint16(lt), uint16(0), uint32(262144), uint32(20))
			if decoy == 2 {
				wb(uint32(1), uint32(20), other, uint16(0), uint32(262144), uint32(20))
			}
			if decoy == 3 {
				// a second interface of the SAME link type: the packets of every connection and the fragments of every datagram
				// are spread over the two (a tap with one interface per direction, a merged capture): one conversation all the same
				wb(uint32(1), uint32(20), uint16(lt), uint16(0), uint32(262144), uint32(20))
			}
			for i, f := range fr {
				pad := (4 - len(f)%4) % 4
				tl := uint32(32 + len(f) + pad)
				if decoy == 3 {
					ifid = uint32((first + i + (first+i)/3) % 2)
				}
				wb(uint32(6), tl, ifid, uint32(0x0005f000), uint32((first+i)*1000), uint32(len(f)), uint32(len(f)))
				body.Write(f)
				body.Write(make([]byte, pad))
				wb(tl)
			}
			sl := int64(-1)
			if explicit {
				sl = int64(body.Len())
			}
			w(uint32(0x0a0d0d0a), uint32(28), uint32(0x1a2b3c4d), uint16(1), uint16(0), sl, uint32(28))
			b.Write(body.Bytes())
		}
		if split > 0 && split < len(frames) {
			section(frames[:split], 0, true)
			section(frames[split:], split, decoy == 1) // the last section: either form
		} else {
			section(frames, 0, false)
		}
	default:
		kit.Fatalf("format %q", format)
	}
	return b.Bytes()
}

// frames of a history, in wire order
func (w *world) frames(h *History, rng *rand.Rand, link string, bo binary.ByteOrder) [][]byte {
	type dgInfo struct {
		ippayload []byte
		cuts      []int
		src, dst  [4]byte
		id        uint16
		seen      int
	}
	dgs := map[int]*dgInfo{}
	sentHi := make([][3]int, len(h.Conns)+1) // highest position seen so far per direction (for ack numbers)
	idBase := uint16(rng.Intn(60000))
	var out [][]byte
	for _, p := range h.Wire {
		c, s, o := p.C, p.Dir, 3-p.Dir
		di := dgs[p.Dg]
		if di == nil {
			isn := w.isn[c][s]
			var seq uint32
			var flags byte
			var opts, payload []byte
			ack := w.isn[c][o] + 1 + w.off[c][o][sentHi[c][o]+1]
			switch p.Kind {
			case "syn":
				seq, flags, ack = isn, 0x02, 0
				opts = []byte{2, 4, 0x05, 0xb4} // MSS 1460
			case "synack":
				seq, flags = isn, 0x12
				ack = w.isn[c][o] + 1
				opts = []byte{2, 4, 0x05, 0xb4, 1, 1, 1, 0} // MSS + padding nops + end
			case "ack":
				seq, flags = isn+1+w.off[c][s][sentHi[c][s]+1], 0x10
			case "data":
				seq, flags = isn+1+w.off[c][s][p.From], 0x18
				for q := p.From; q <= p.To; q++ {
					payload = append(payload, w.chunk[c][s][q]...)
				}
				if len(payload) > 65000 {
					kit.Fatalf("segment too large")
				}
			case "fin":
				seq, flags = isn+1+w.off[c][s][p.From], 0x11
			default:
				kit.Fatalf("kind %q", p.Kind)
			}
			seg := tcpSegment(w.ip[c][s], w.ip[c][o], w.port[c][s], w.port[c][o], seq, ack, flags, opts, payload)
			di = &dgInfo{ippayload: seg, src: w.ip[c][s], dst: w.ip[c][o], id: idBase + uint16(p.Dg)}
			if p.Fn > 1 {
				// fn-1 distinct cut points, multiples of 8, strictly inside the IP payload (may split the TCP header)
				max8 := (len(seg) - 1) / 8
				if max8 < p.Fn-1 {
					kit.Fatalf("datagram too small to fragment")
				}
				perm := rng.Perm(max8)
				cuts := make([]int, 0, p.Fn-1)
				for _, x := range perm[:p.Fn-1] {
					cuts = append(cuts, (x+1)*8)
				}
				for i := range cuts {
					for j := i + 1; j < len(cuts); j++ {
						if cuts[j] < cuts[i] {
							cuts[i], cuts[j] = cuts[j], cuts[i]
						}
					}
				}
				di.cuts = cuts
				w.dgram[p.Dg] = ipv4(di.src, di.dst, di.id, seg, 0, false)
			}
			dgs[p.Dg] = di
		}
		if p.Kind == "data" && p.To > sentHi[c][s] {
			sentHi[c][s] = p.To
		}
		var ip []byte
		if p.Fn <= 1 {
			ip = ipv4(di.src, di.dst, di.id, di.ippayload, 0, false)
		} else {
			a, b := 0, len(di.ippayload)
			if p.Fi > 1 {
				a = di.cuts[p.Fi-2]
			}
			if p.Fi < p.Fn {
				b = di.cuts[p.Fi-1]
			}
			ip = ipv4(di.src, di.dst, di.id, di.ippayload[a:b], a, p.Fi < p.Fn)
			di.seen++
			if di.seen == p.Fn && len(di.ippayload) == 20+(b-a) {
				w.coinc = append(w.coinc, p.Dg)
			}
		}
		out = append(out, linkFrame(link, bo, ip))
	}
	return out
}

// ---------------------------------------------------------------- real fq, in-process

func child(v *decode.Value, name string) *decode.Value {
	if v == nil {
		return nil
	}
	c, ok := v.V.(*decode.Compound)
	if !ok {
		return nil
	}
	for _, ch := range c.Children {
		if ch.Name == name {
			return ch
		}
	}
	return nil
}
func children(v *decode.Value) []*decode.Value {
	if v == nil {
		return nil
	}
	if c, ok := v.V.(*decode.Compound); ok {
		return c.Children
	}
	return nil
}
func actual(v *decode.Value) any {
	if v == nil {
		return nil
	}
	if s, ok := v.V.(interface{ ScalarActual() any }); ok {
		return s.ScalarActual() // = jq `toactual`
	}
	return nil
}
func allBytes(v *decode.Value) []byte { // = jq `tobytes` of a root buffer value
	if v == nil {
		return nil
	}
	br, err := bitio.CloneReaderAtSeeker(v.RootReader)
	if err != nil {
		kit.Fatalf("clone: %v", err)
	}
	n, err := bitiox.Len(br)
	if err != nil {
		kit.Fatalf("len: %v", err)
	}
	if n%8 != 0 {
		kit.Fatalf("stream of %d bits", n)
	}
	bs := make([]byte, n/8)
	if _, err := bitio.ReadAtFull(br, bs, n, 0); err != nil && n > 0 {
		kit.Fatalf("read: %v", err)
	}
	return bs
}

type rawSide struct {
	ip      string
	port    uint64
	skipped uint64
	stream  []byte
}
type rawConn struct{ cl, sv rawSide }

func runFq(format string, file []byte) (conns []rawConn, reasm [][]byte, errs string) {
	defer func() {
		// a Go panic that escapes decode.Decode would end fq; it is recorded as the outcome of this capture (no streams reported)
		if r := recover(); r != nil {
			conns, reasm = nil, nil
			errs = fmt.Sprintf("panic: %v\n%s", r, debug.Stack())
		}
	}()
	gname := "pcap"
	if format == "pcapng_le" || format == "pcapng_be" {
		gname = "pcapng"
	}
	g, err := interp.DefaultRegistry.Group(gname)
	if err != nil {
		kit.Fatalf("group: %v", err)
	}
	dv, _, derr := decode.Decode(context.Background(), bitio.NewBitReader(file, -1), g, decode.Options{IsRoot: true, FillGaps: true})
	if dv == nil {
		return nil, nil, fmt.Sprintf("decode failed: %v", derr)
	}
	if derr != nil {
		errs = fmt.Sprintf("decode error: %v", derr)
	}
	var holders []*decode.Value
	if gname == "pcap" {
		holders = []*decode.Value{dv}
	} else {
		holders = children(dv) // sections
	}
	side := func(v *decode.Value) rawSide {
		var r rawSide
		if s, ok := actual(child(v, "ip")).(string); ok {
			r.ip = s
		}
		if u, ok := actual(child(v, "port")).(uint64); ok {
			r.port = u
		} else {
			r.port = 1 << 40
		}
		if u, ok := actual(child(v, "skipped_bytes")).(uint64); ok {
			r.skipped = u
		} else {
			r.skipped = 1 << 40
		}
		r.stream = allBytes(child(v, "stream"))
		return r
	}
	for _, hv := range holders {
		tc := child(hv, "tcp_connections")
		ir := child(hv, "ipv4_reassembled")
		if tc == nil || ir == nil {
			errs += " missing tcp_connections/ipv4_reassembled"
			continue
		}
		for _, cv := range children(tc) {
			conns = append(conns, rawConn{cl: side(child(cv, "client")), sv: side(child(cv, "server"))})
		}
		for _, pv := range children(ir) {
			reasm = append(reasm, allBytes(pv))
		}
	}
	return conns, reasm, errs
}

// ---------------------------------------------------------------- abstraction back to tokens (trusted base)

func (w *world) isEndpoint(c, side int, ip string, port uint64) bool {
	a := w.ip[c][side]
	return ip == fmt.Sprintf("%d.%d.%d.%d", a[0], a[1], a[2], a[3]) && port == uint64(w.port[c][side])
}

// reported (client ip:port, server ip:port) -> connection whose two sides they are, and which side is which
// (0,0,0 when the pair is not the address pair of a connection of the capture)
func (w *world) endpointsOf(cl, sv rawSide) (c, clSide, svSide int) {
	for ci := 1; ci < len(w.ip); ci++ {
		for s := 1; s <= 2; s++ {
			if w.isEndpoint(ci, s, cl.ip, cl.port) && w.isEndpoint(ci, 3-s, sv.ip, sv.port) {
				if c != 0 {
					kit.Fatalf("ambiguous endpoint table")
				}
				c, clSide, svSide = ci, s, 3-s
			}
		}
	}
	return
}

// stream bytes -> tokens of direction (c,side): consecutive chunks starting at some position; 0 = anything else
func (w *world) tokensOf(c, side int, b []byte) []int {
	out := []int{}
	if c == 0 || side == 0 {
		if len(b) > 0 {
			out = append(out, 0)
		}
		return out
	}
	ch := w.chunk[c][side]
	parse := func(p0 int) ([]int, bool) {
		ts := []int{}
		pos := 0
		for p := p0; pos < len(b); p++ {
			if p >= len(ch) || !bytes.HasPrefix(b[pos:], ch[p]) {
				return append(ts, 0), false
			}
			ts = append(ts, tok(c, side, p))
			pos += len(ch[p])
		}
		return ts, true
	}
	if len(b) == 0 {
		return out
	}
	for p0 := 1; p0 < len(ch); p0++ {
		if ts, ok := parse(p0); ok {
			return ts
		}
	}
	ts, _ := parse(1)
	return ts
}

func (w *world) datagramOf(b []byte) int {
	for id, d := range w.dgram {
		if bytes.Equal(d, b) {
			return id
		}
	}
	return 0
}

func clampInt(u uint64) int {
	if u > 1000000000 {
		return 1000000000
	}
	return int(u)
}

func observe(h *History, format, link string, wseed int64, big bool) (Obs, []int, string, int, []byte) {
	rng := rand.New(rand.NewSource(wseed))
	w := buildWorld(h, rng, big)
	var bo binary.ByteOrder = binary.LittleEndian
	if format == "pcap_be" || format == "pcap_be_ns" || format == "pcapng_be" {
		bo = binary.BigEndian
	}
	frames := w.frames(h, rng, link, bo)
	file := captureFile(format, link, frames, rng.Intn(4), h.Split)
	conns, reasm, errs := runFq(format, file)
	obs := Obs{Conns: []ObsConn{}, Reasm: []int{}}
	for _, rc := range conns {
		c1, s1, s2 := w.endpointsOf(rc.cl, rc.sv)
		if os.Getenv("VERIF_DEBUG") != "" && c1 != 0 {
			for _, x := range []struct {
				side int
				b    []byte
			}{{s1, rc.cl.stream}, {s2, rc.sv.stream}} {
				var want []byte
				lens := []int{}
				for _, ch := range w.chunk[c1][x.side][1:] {
					want = append(want, ch...)
					lens = append(lens, len(ch))
				}
				d := 0
				for d < len(want) && d < len(x.b) && want[d] == x.b[d] {
					d++
				}
				fmt.Fprintf(os.Stderr, "debug c=%d side=%d chunklens=%v got=%d bytes, all-sent=%d bytes, first difference at %d\n", c1, x.side, lens, len(x.b), len(want), d)
			}
		}
		oc := ObsConn{C: c1}
		oc.Cl = ObsSide{Side: s1, Toks: w.tokensOf(oc.C, s1, rc.cl.stream), Skipped: clampInt(rc.cl.skipped)}
		oc.Sv = ObsSide{Side: s2, Toks: w.tokensOf(oc.C, s2, rc.sv.stream), Skipped: clampInt(rc.sv.skipped)}
		obs.Conns = append(obs.Conns, oc)
	}
	for _, d := range reasm {
		obs.Reasm = append(obs.Reasm, w.datagramOf(d))
	}
	coinc := append([]int{}, w.coinc...)
	return obs, coinc, errs, len(file), file
}

// ---------------------------------------------------------------- random driver (beyond TLC's constants)

func randomHistory(rng *rand.Rand, big bool) *History {
	h := &History{}
	nc := 1 + rng.Intn(4)
	if big {
		nc = 1 + rng.Intn(2)
	}
	if many {
		nc = 1
	}
	type cs struct {
		n, nxt  [3]int
		fin     [3]bool
		q       []Pkt // handshake packets still to send
		wantFin bool
	}
	isnCls := []string{"low", "wrap", "half"}
	st := make([]*cs, nc+1)
	for c := 1; c <= nc; c++ {
		pick := func() string { // mostly ordinary ISNs; some streams cross 2^31 or 2^32
			switch r := rng.Intn(20); {
			case r < 3:
				return isnCls[1]
			case r < 6:
				return isnCls[2]
			}
			return isnCls[0]
		}
		cn := Conn{Hs: rng.Intn(10) < 7, Isn: [2]string{pick(), pick()}}
		h.Conns = append(h.Conns, cn)
		s := &cs{wantFin: rng.Intn(2) == 0}
		for d := 1; d <= 2; d++ {
			s.n[d] = rng.Intn(25)
			if big {
				s.n[d] = 40 + rng.Intn(6) // with ~1450-byte chunks: 55..66 KiB
			}
			if many {
				s.n[d] = []int{280 + rng.Intn(400), rng.Intn(30)}[d-1]
			}
			s.nxt[d] = 1
		}
		if cn.Hs {
			s.q = []Pkt{{C: c, Dir: 1, Kind: "syn", From: 1, To: 0}, {C: c, Dir: 2, Kind: "synack", From: 1, To: 0}, {C: c, Dir: 1, Kind: "ack", From: 1, To: 0}}
		}
		st[c] = s
	}
	// the senders' view, interleaved
	var ideal []Pkt
	for steps := 0; steps < 20000; steps++ {
		var live []int
		for c := 1; c <= nc; c++ {
			s := st[c]
			if len(s.q) > 0 || s.nxt[1] <= s.n[1] || s.nxt[2] <= s.n[2] || (s.wantFin && (!s.fin[1] || !s.fin[2])) {
				live = append(live, c)
			}
		}
		if len(live) == 0 {
			break
		}
		c := live[rng.Intn(len(live))]
		s := st[c]
		if len(s.q) > 0 {
			ideal = append(ideal, s.q[0])
			s.q = s.q[1:]
			continue
		}
		d := 1 + rng.Intn(2)
		if s.nxt[d] > s.n[d] {
			d = 3 - d
		}
		if s.nxt[d] > s.n[d] {
			// all data sent: FINs (and the final acks)
			d = 1 + rng.Intn(2)
			if s.fin[d] {
				d = 3 - d
			}
			ideal = append(ideal, Pkt{C: c, Dir: d, Kind: "fin", From: s.n[d] + 1, To: s.n[d]})
			s.fin[d] = true
			if rng.Intn(2) == 0 {
				ideal = append(ideal, Pkt{C: c, Dir: 3 - d, Kind: "ack", From: 1, To: 0})
			}
			continue
		}
		switch r := rng.Intn(20); {
		case r == 0 && s.nxt[d] > 1: // retransmission of old data, possibly running into new data
			a := 1 + rng.Intn(s.nxt[d]-1)
			b := a + rng.Intn(3)
			if b > s.n[d] {
				b = s.n[d]
			}
			ideal = append(ideal, Pkt{C: c, Dir: d, Kind: "data", From: a, To: b})
			if b >= s.nxt[d] {
				s.nxt[d] = b + 1
			}
		case r == 1:
			ideal = append(ideal, Pkt{C: c, Dir: d, Kind: "ack", From: 1, To: 0})
		default:
			k := 1
			if rng.Intn(3) == 0 {
				k = 1 + rng.Intn(3)
			}
			b := s.nxt[d] + k - 1
			if b > s.n[d] {
				b = s.n[d]
			}
			ideal = append(ideal, Pkt{C: c, Dir: d, Kind: "data", From: s.nxt[d], To: b})
			s.nxt[d] = b + 1
		}
	}
	// the capture process: omissions, duplicates, fragmentation, local reordering
	nOmit := 0
	if rng.Intn(3) == 0 {
		nOmit = 1 + rng.Intn(2)
	}
	if many && rng.Intn(4) != 0 {
		nOmit = 1
	}
	var wire []Pkt
	dg := 0
	firstData := map[[2]int]bool{}
	synSeen := map[int]bool{}
	for _, p := range ideal {
		isFirst := false
		if p.Kind == "data" {
			k := [2]int{p.C, p.Dir}
			if !firstData[k] {
				isFirst = true
				firstData[k] = true
			}
		}
		if p.Kind == "data" && nOmit > 0 && rng.Intn(len(ideal)/3+1) == 0 && !(isFirst && !h.Conns[p.C-1].Hs) {
			nOmit--
			p.Fi, p.Fn = 1, 1
			h.Omits = append(h.Omits, p)
			continue // not captured
		}
		dg++
		p.Dg, p.Fi, p.Fn = dg, 1, 1
		if p.Kind == "data" && rng.Intn(12) == 0 {
			fn := 2 + rng.Intn(2) // a 21-byte IP payload has only two cut points
			order := rng.Perm(fn)
			for _, i := range order {
				q := p
				q.Fi, q.Fn = i+1, fn
				wire = append(wire, q)
			}
		} else {
			wire = append(wire, p)
		}
		if p.Kind == "data" && rng.Intn(15) == 0 { // duplicate delivery (own datagram)
			dg++
			q := p
			q.Dg, q.Fi, q.Fn = dg, 1, 1
			wire = append(wire, q)
		}
		if p.Kind == "syn" {
			synSeen[p.C] = true
		}
		if p.Kind == "data" && synSeen[p.C] && rng.Intn(10) == 0 {
			// a retransmitted SYN (client) or SYN+ACK (server) recorded after data of that direction: the connection is
			// established, the copy carries nothing and must change nothing
			dg++
			k := "syn"
			if p.Dir == 2 {
				k = "synack"
			}
			wire = append(wire, Pkt{C: p.C, Dir: p.Dir, Kind: k, From: 1, To: 0, Dg: dg, Fi: 1, Fn: 1})
		}
	}
	// non-overlapping adjacent swaps (local reordering); FINs take part only in some histories
	swapFin := rng.Intn(4) == 0
	for i := 0; i+1 < len(wire); i++ {
		a, b := wire[i], wire[i+1]
		ok := func(p Pkt) bool { return p.Kind == "data" || p.Kind == "ack" || (swapFin && p.Kind == "fin") }
		if ok(a) && ok(b) && rng.Intn(8) == 0 {
			wire[i], wire[i+1] = b, a
			h.Swaps = append(h.Swaps, i+1)
			i++
		}
	}
	h.Wire = wire
	// a capture in two sections (pcapng only; ignored by the other containers): connections are independent, so the packets of the
	// first half of the connections can be moved in front of the others; every connection then lies inside one section
	if nc >= 2 && rng.Intn(3) == 0 {
		var first, rest []Pkt
		for _, p := range wire {
			if p.C <= nc/2 {
				first = append(first, p)
			} else {
				rest = append(rest, p)
			}
		}
		if len(first) > 0 && len(rest) > 0 {
			h.Wire = append(first, rest...)
			h.Split = len(first)
			h.Swaps = nil
		}
	}
	return h
}

// ---------------------------------------------------------------- main

func main() {
	if len(os.Args) < 2 {
		kit.Fatalf("usage")
	}
	switch os.Args[1] {
	case "replay":
		out := kit.NewOut(os.Args[3])
		nvar := kit.Atoi(os.Args[4])
		seed := kit.Seed()
		id := 0
		kit.Cases(os.Args[2], func(i int, raw []byte) {
			var h History
			kit.Unmarshal(raw, &h)
			for v := 0; v < nvar; v++ {
				// rotate through every format x link combination; world seed differs per event
				k := (i*nvar + v + int(seed)*7) % (len(fmtNames) * len(linkNames))
				f, l := fmtNames[k%len(fmtNames)], linkNames[(k/len(fmtNames)+k)%len(linkNames)]
				ws := seed*1000003 + int64(id)
				obs, coinc, errs, n, _ := observe(&h, f, l, ws, false)
				out.Emit(Event{ID: id, Src: "tlc", Fmt: f, Link: l, WSeed: ws, Conns: h.Conns, Wire: h.Wire, Omits: nz(h.Omits), Swaps: nzi(h.Swaps), Obs: obs, Coinc: coinc, Err: errs, Bytes: n})
				id++
			}
		})
		out.Close()
	case "rand":
		n := kit.Atoi(os.Args[2])
		out := kit.NewOut(os.Args[3])
		nbig := kit.Atoi(os.Args[4])
		nmany := 0
		if len(os.Args) > 5 {
			nmany = kit.Atoi(os.Args[5])
		}
		seed := kit.Seed()
		rng := rand.New(rand.NewSource(seed))
		for i := 0; i < n; i++ {
			big := i < nbig
			many = !big && i < nbig+nmany
			h := randomHistory(rng, big)
			for len(h.Wire) == 0 { // nothing captured: not a history
				h = randomHistory(rng, big)
			}
			k := rng.Intn(len(fmtNames) * len(linkNames))
			f, l := fmtNames[k%len(fmtNames)], linkNames[k/len(fmtNames)]
			ws := seed*7000003 + int64(i)
			obs, coinc, errs, nb, _ := observe(h, f, l, ws, big)
			out.Emit(Event{ID: i, Src: "rand", Fmt: f, Link: l, WSeed: ws, Big: big, Many: many, Split: h.Split, Conns: h.Conns, Wire: h.Wire, Omits: nz(h.Omits), Swaps: nzi(h.Swaps), Obs: obs, Coinc: coinc, Err: errs, Bytes: nb})
		}
		out.Close()
	case "again": // re-run recorded events: c19 again <events.ndjson> <events-out.ndjson>
		out := kit.NewOut(os.Args[3])
		kit.Cases(os.Args[2], func(_ int, raw []byte) {
			var e Event
			kit.Unmarshal(raw, &e)
			h := History{Conns: e.Conns, Wire: e.Wire, Split: e.Split}
			many = e.Many
			obs, coinc, errs, n, _ := observe(&h, e.Fmt, e.Link, e.WSeed, e.Big)
			e.Obs, e.Coinc, e.Err, e.Bytes = obs, coinc, errs, n
			e.Omits, e.Swaps = nz(e.Omits), nzi(e.Swaps)
			out.Emit(e)
		})
		out.Close()
	case "one": // re-run one recorded event (replay file): c19 one <event.json> <events-out.ndjson> [capture-out]
		raw, err := os.ReadFile(os.Args[2])
		if err != nil {
			kit.Fatalf("read: %v", err)
		}
		var e Event
		kit.Unmarshal(raw, &e)
		h := History{Conns: e.Conns, Wire: e.Wire, Split: e.Split}
		many = e.Many
		obs, coinc, errs, n, file := observe(&h, e.Fmt, e.Link, e.WSeed, e.Big)
		e.Obs, e.Coinc, e.Err, e.Bytes = obs, coinc, errs, n
		e.Omits, e.Swaps = nz(e.Omits), nzi(e.Swaps)
		out := kit.NewOut(os.Args[3])
		out.Emit(e)
		out.Close()
		if len(os.Args) > 4 {
			if err := os.WriteFile(os.Args[4], file, 0o644); err != nil {
				kit.Fatalf("write: %v", err)
			}
		}
	default:
		kit.Fatalf("unknown mode")
	}
}
