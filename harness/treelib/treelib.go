// Package treelib: runs decoder programs (token sequences of DecodeTree.tla) through the real
// decode API and projects real *decode.Value trees to the flat node tables the TLA+ modules use.
package treelib

import (
	"context"
	"fmt"
	"math/rand"

	"github.com/wader/fq/internal/bitiox"
	"github.com/wader/fq/pkg/bitio"
	"github.com/wader/fq/pkg/decode"
	"github.com/wader/fq/pkg/scalar"
)

type Tok struct {
	K     string `json:"k"`
	Name  string `json:"name"`
	N     int64  `json:"n"`
	P     int64  `json:"p"`
	OrRaw bool   `json:"orraw"`
}

type Prog struct {
	Len   int64 `json:"len"`
	Force bool  `json:"force"`
	Prog  []Tok `json:"prog"`
}

// op is the nested form of a token sequence.
type op struct {
	Tok
	Body []op
}

func IsBegin(k string) bool {
	switch k {
	case "struct", "array", "framed", "limited", "seekfn", "fmtrest", "fmtlen", "fmtrange", "bitbuf", "rootstruct", "rootarray":
		return true
	}
	return false
}

func nest(toks []Tok, i int) ([]op, int) {
	var ops []op
	for i < len(toks) {
		t := toks[i]
		if t.K == "end" {
			return ops, i + 1
		}
		o := op{Tok: t}
		i++
		if IsBegin(t.K) {
			o.Body, i = nest(toks, i)
		}
		ops = append(ops, o)
	}
	return ops, i
}

// Node is one row of the flat tree table (ids are 1-based pre-order positions).
type Node struct {
	Name  string        `json:"name"`
	Kind  string        `json:"kind"` // struct array leaf gap synth
	Par   int           `json:"par"`
	Start int64         `json:"start"`
	Len   int64         `json:"len"`
	Root  bool          `json:"root"`
	Err   bool          `json:"err"`
	Kids  []int         `json:"kids"`
	Idx   int           `json:"idx"`
	Blen  int64         `json:"blen"` // bit length of the buffer a root owns (0 otherwise)
	Fill  bool          `json:"fill"` // root produced by a format decode (gap filling applies)
	Bits  []int         `json:"bits"` // actual bits of a raw leaf / gap value (only when requested and small)
	HasB  bool          `json:"hasb"`
	Plink bool          `json:"plink"` // the real Parent pointer is the node it is a child of
	Fmt   bool          `json:"fmt"`   // Format != nil (a format root in the sense of format_root)
	Raw   bool          `json:"raw"`   // a raw-bits scalar (scalar.BitBuf) without symbolic value
	V     *decode.Value `json:"-"`
}

type runner struct {
	rng *rand.Rand
}

func (r *runner) buf(nbits int64) bitio.ReaderAtSeeker {
	b := make([]byte, (nbits+7)/8)
	r.rng.Read(b)
	return bitio.NewBitReader(b, nbits)
}

func (r *runner) run(d *decode.D, ops []op) {
	for _, o := range ops {
		o := o
		body := func(d *decode.D) { r.run(d, o.Body) }
		fg := decode.FormatFn(func(d *decode.D) any { r.run(d, o.Body); return nil })
		switch o.K {
		case "leaf":
			d.FieldRawLen(o.Name, o.N)
		case "synth":
			d.FieldValueUint(o.Name, 7)
		case "struct":
			d.FieldStruct(o.Name, body)
		case "array":
			d.FieldArray(o.Name, body)
		case "framed":
			d.FramedFn(o.N, body)
		case "limited":
			d.LimitedFn(o.N, body)
		case "seek":
			d.SeekAbs(o.P)
		case "seekfn":
			d.SeekAbs(o.P, body)
		case "fmtrest":
			if o.OrRaw {
				d.FieldFormatOrRaw(o.Name, fg, nil)
			} else {
				d.FieldFormat(o.Name, fg, nil)
			}
		case "fmtlen":
			if o.OrRaw {
				d.FieldFormatOrRawLen(o.Name, o.N, fg, nil)
			} else {
				d.FieldFormatLen(o.Name, o.N, fg, nil)
			}
		case "fmtrange":
			d.FieldFormatRange(o.Name, o.P, o.N, fg, nil)
		case "bitbuf":
			d.FieldFormatBitBuf(o.Name, r.buf(o.N), fg, nil)
		case "rootstruct":
			d.FieldStructRootBitBufFn(o.Name, r.buf(o.N), body)
		case "rootarray":
			d.FieldArrayRootBitBufFn(o.Name, r.buf(o.N), body)
		case "fail":
			d.Fatalf("fail")
		case "errorf":
			d.Errorf("errorf")
		default:
			panic("treelib: unknown token " + o.K)
		}
	}
}

// InputBytes returns the input file RunProg would decode for (p, seed).
func InputBytes(p Prog, seed int64) []byte {
	r := &runner{rng: rand.New(rand.NewSource(seed))}
	b := make([]byte, (p.Len+7)/8)
	r.rng.Read(b)
	return b
}

// DecodeFn returns a format function that runs p exactly as RunProg does (same nested buffers for the same seed).
func DecodeFn(p Prog, seed int64) func(d *decode.D) any {
	return func(d *decode.D) any {
		r := &runner{rng: rand.New(rand.NewSource(seed))}
		_ = r.buf(p.Len) // keep the random stream aligned with RunProg
		ops, _ := nest(p.Prog, 0)
		r.run(d, ops)
		return nil
	}
}

// RunProg decodes a random buffer of p.Len bits with the program as its format.
// Returns the (possibly partial) tree; nil if decode returned no value. A Go panic escaping
// decode.Decode is returned as panicMsg (that is a C06-class fault, reported by the caller).
func RunProg(p Prog, seed int64) (root *decode.Value, panicMsg string) {
	r := &runner{rng: rand.New(rand.NewSource(seed))}
	ops, _ := nest(p.Prog, 0)
	g := decode.FormatFn(func(d *decode.D) any { r.run(d, ops); return nil })
	br := r.buf(p.Len)
	defer func() {
		if rec := recover(); rec != nil {
			root = nil
			panicMsg = fmt.Sprintf("%v", rec)
		}
	}()
	dv, _, _ := decode.Decode(context.Background(), br, g, decode.Options{IsRoot: true, FillGaps: true, Force: p.Force})
	return dv, ""
}

func kindOf(v *decode.Value) string {
	if c, ok := v.V.(*decode.Compound); ok {
		if c.IsArray {
			return "array"
		}
		return "struct"
	}
	if s, ok := v.V.(scalar.Scalarable); ok {
		if s.ScalarFlags().IsGap() {
			return "gap"
		}
		if s.ScalarFlags().IsSynthetic() {
			return "synth"
		}
	}
	return "leaf"
}

// ReadBits returns nbits bits of br starting at start as 0/1 ints.
func ReadBits(br bitio.ReaderAtSeeker, start, nbits int64) ([]int, error) {
	out := make([]int, 0, nbits)
	buf := make([]byte, 1)
	for i := int64(0); i < nbits; i++ {
		buf[0] = 0
		if _, err := br.ReadBitsAt(buf, 1, start+i); err != nil {
			return nil, err
		}
		out = append(out, int(buf[0]>>7))
	}
	return out, nil
}

// Flatten projects a real tree. withBits: also record the bits of every raw leaf / gap value
// (read through the value's own reader, not through the buffer) when it is at most maxBits long.
func Flatten(root *decode.Value, withBits bool, maxBits int64) []Node {
	var nodes []Node
	var walk func(v *decode.Value, par int) int
	walk = func(v *decode.Value, par int) int {
		id := len(nodes) + 1
		n := Node{Name: v.Name, Kind: kindOf(v), Par: par, Start: v.Range.Start, Len: v.Range.Len,
			Root: v.IsRoot, Err: v.Err != nil, Idx: int(v.Index), Kids: []int{}, Bits: []int{}, V: v}
		n.Plink = par == 0 || v.Parent == nodes[par-1].V
		n.Fmt = v.Format != nil
		if bb, ok := v.V.(*scalar.BitBuf); ok && bb.Sym == nil {
			n.Raw = true // raw bits rendered as bits (a symbolic mapping would be displayed instead)
		}
		if v.IsRoot {
			if v.RootReader != nil {
				if l, err := bitLen(v.RootReader); err == nil {
					n.Blen = l
				}
			}
			n.Fill = v.Format != nil
		}
		if withBits && (n.Kind == "leaf" || n.Kind == "gap") && v.Range.Len <= maxBits {
			if bb, ok := v.V.(*scalar.BitBuf); ok && bb.Actual != nil {
				if l, err := bitLen(bb.Actual); err == nil {
					if bits, err := ReadBits(bb.Actual, 0, l); err == nil {
						n.Bits = bits
						n.HasB = true
					}
				}
			}
		}
		nodes = append(nodes, n)
		if c, ok := v.V.(*decode.Compound); ok {
			for _, ch := range c.Children {
				cid := walk(ch, id)
				nodes[id-1].Kids = append(nodes[id-1].Kids, cid)
			}
		}
		return id
	}
	walk(root, 0)
	return nodes
}

func bitLen(br bitio.ReaderAtSeeker) (int64, error) { return bitiox.Len(br) }

// BufBits returns, for every root node id, the bits of the buffer it owns (when at most maxBits long).
func BufBits(nodes []Node, maxBits int64) map[string][]int {
	out := map[string][]int{}
	for i, n := range nodes {
		if n.Root && n.V.RootReader != nil && n.Blen <= maxBits {
			if bits, err := ReadBits(n.V.RootReader, 0, n.Blen); err == nil {
				out[fmt.Sprint(i+1)] = bits
			}
		}
	}
	return out
}
