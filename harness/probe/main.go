// probe: binds Probe.tla to pkg/decode.Decode - the loop over the formats of a group and the in-argument precedence.
//
//	probe replay <cases.ndjson> <events.ndjson>   every TLC-emitted scenario run on the real decode.Decode with synthetic formats
//
// A scenario is {fmts: [{beh, def, opt}...], inarg, gdef, gopt}. Each synthetic format logs that it ran, asks D.ArgAs for its own
// argument type (TIn) and for the group's (GIn) and records where the answers came from, then behaves as told (decodes / fails before
// adding a field / fails after adding one). No expectation is computed here: TraceProbe.tla judges the events.
package main

import (
	"context"
	"errors"
	"fmt"
	"os"

	"github.com/wader/fq/internal/verif/kit"
	"github.com/wader/fq/pkg/bitio"
	"github.com/wader/fq/pkg/decode"
)

type TIn struct{ Src string }
type GIn struct{ Src string }

type Fmt struct {
	Beh string `json:"beh"`
	Def bool   `json:"def"`
	Opt bool   `json:"opt"`
}
type Scenario struct {
	Fmts  []Fmt  `json:"fmts"`
	InArg string `json:"inarg"`
	GDef  bool   `json:"gdef"`
	GOpt  bool   `json:"gopt"`
}
type Case struct {
	S Scenario `json:"s"`
}
type Obs struct {
	Ran     int    `json:"ran"`
	Winner  int    `json:"winner"`
	NErr    int    `json:"nerr"`
	HasErr  bool   `json:"haserr"`
	RootErr bool   `json:"rooterr"`
	TArg    string `json:"targ"`
	GArg    string `json:"garg"`
	Order   []int  `json:"order"`
}
type Event struct {
	S   Scenario `json:"s"`
	Obs Obs      `json:"obs"`
}

func run(s Scenario) Obs {
	var order []int
	targ := map[int]string{}
	garg := map[int]string{}
	g := &decode.Group{Name: "verif_group"}
	if s.GDef {
		g.DefaultInArg = GIn{Src: "gdef"}
	}
	for i, f := range s.Fmts {
		i, f := i+1, f
		df := &decode.Format{Name: fmt.Sprintf("verif_f%d", i), Groups: []*decode.Group{g}}
		if f.Def {
			df.DefaultInArg = TIn{Src: fmt.Sprintf("fdef#%d", i)}
		}
		df.DecodeFn = func(d *decode.D) any {
			order = append(order, i)
			var t TIn
			if d.ArgAs(&t) {
				targ[i] = t.Src
			} else {
				targ[i] = "none"
			}
			var gi GIn
			if d.ArgAs(&gi) {
				garg[i] = gi.Src
			} else {
				garg[i] = "none"
			}
			switch f.Beh {
			case "err":
				d.Fatalf("told to fail")
			case "errtree":
				d.FieldU8("a")
				d.Fatalf("told to fail after a field")
			default:
				d.FieldU8("a")
				d.FieldValueUint("who", uint64(i))
			}
			return nil
		}
		g.Formats = append(g.Formats, df)
	}
	opts := decode.Options{IsRoot: true, FillGaps: true}
	switch s.InArg {
	case "T":
		opts.InArg = TIn{Src: "inarg"}
	case "G":
		opts.InArg = GIn{Src: "inarg"}
	}
	// the user's options: a value for format i when the scenario says so (the init value names the format), for the group likewise
	opts.ParseOptsFn = func(init any) any {
		switch v := init.(type) {
		case TIn:
			var i int
			if _, err := fmt.Sscanf(v.Src, "fdef#%d", &i); err == nil && i >= 1 && i <= len(s.Fmts) && s.Fmts[i-1].Opt {
				return TIn{Src: fmt.Sprintf("fopt#%d", i)}
			}
		case GIn:
			if s.GOpt {
				return GIn{Src: "gopt"}
			}
		}
		return nil
	}
	dv, _, err := decode.Decode(context.Background(), bitio.NewBitReader([]byte{1, 2, 3, 4}, -1), g, opts)
	o := Obs{Ran: len(order), Order: order, TArg: "none", GArg: "none"}
	if o.Order == nil {
		o.Order = []int{}
	}
	var fe decode.FormatsError
	if errors.As(err, &fe) {
		o.HasErr = true
		o.NErr = len(fe.Errs)
	} else if err != nil {
		o.HasErr = true
		o.NErr = -1
	}
	if dv != nil {
		// the winner is the format whose decoder built the returned value: the last one that ran
		o.Winner = order[len(order)-1]
		o.RootErr = dv.Err != nil
		t, g2 := targ[o.Winner], garg[o.Winner]
		// strip the format index: the model names the source only
		for _, p := range []string{"fopt", "fdef"} {
			if len(t) > len(p) && t[:len(p)] == p {
				if t != fmt.Sprintf("%s#%d", p, o.Winner) {
					t = "foreign:" + t // an argument meant for another format
				} else {
					t = p
				}
			}
		}
		o.TArg, o.GArg = t, g2
	}
	return o
}

func main() {
	if len(os.Args) < 4 || os.Args[1] != "replay" {
		kit.Fatalf("usage: probe replay <cases.ndjson> <events.ndjson>")
	}
	out := kit.NewOut(os.Args[3])
	kit.Cases(os.Args[2], func(_ int, raw []byte) {
		var c Case
		kit.Unmarshal(raw, &c)
		out.Emit(Event{S: c.S, Obs: run(c.S)})
	})
	out.Close()
}
