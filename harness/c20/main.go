// c20: binds CtxStack*.tla to internal/ctxstack.
//
//	c20 replay <cases.ndjson> <out.ndjson>      apply TLC-emitted operation sequences to a real ctxstack.Stack,
//	                                            record ctx.Err() of EVERY context pushed after EVERY operation
//	c20 rand <n> <out.ndjson>                   seeded random sequential histories beyond TLC's constants (trace events)
//	c20 race <rounds> <iters>                   two goroutines, no synchronisation added by the harness: evaluator
//	                                            push/pop loop vs. a firing trigger (build with -race, reports on stderr)
//	c20 conc <n> <out.ndjson> <late 0|1>        traced concurrent histories (call/ret, ocall/oret, isend/idone)
//	c20 gate <schedule> ...                     see gate_hooks.go (only with build tag verifhooks)
//
// No expectation is computed here: the verdicts are TLC's (GEN expectations, trace validation).
package main

import (
	"context"
	"fmt"
	"math/rand"
	"os"
	"runtime"
	"sync"
	"sync/atomic"
	"time"

	"github.com/wader/fq/internal/ctxstack"
	"github.com/wader/fq/internal/iox"
	"github.com/wader/fq/internal/verif/kit"
)

// ---------------------------------------------------------------- a real Stack with a controllable trigger

type rig struct {
	s       *ctxstack.Stack
	trig    chan struct{} // one send = the trigger function returns once
	ready   chan struct{} // the trigger goroutine called the trigger function (again)
	stopCh  chan struct{} // the Stack's stopCh as handed to the trigger function
	ctxs    []context.Context
	pops    []func()
	sinks   []*sink // what reached the writer behind each context's iox.CtxWriter
	stopped bool
}

type sink struct{ n int }

func (k *sink) Write(p []byte) (int, error) { k.n += len(p); return len(p), nil }

func newRig() *rig {
	r := &rig{trig: make(chan struct{}), ready: make(chan struct{})}
	got := make(chan chan struct{}, 1)
	first := true
	r.s = ctxstack.New(func(stopCh chan struct{}) {
		if first {
			first = false
			got <- stopCh
		}
		select {
		case r.ready <- struct{}{}:
		case <-stopCh:
			return
		}
		select {
		case <-stopCh:
		case <-r.trig:
		}
	})
	r.stopCh = <-got
	r.waitReady()
	return r
}

var progress atomic.Int64 // watchdog counter
var where atomic.Value    // what is running (for the watchdog message)

func (r *rig) waitReady() {
	select {
	case <-r.ready:
	case <-r.stopCh:
	}
}

func (r *rig) push(parent int) {
	p := context.Background()
	if parent > 0 {
		p = r.ctxs[parent-1]
	}
	c, pop := r.s.Push(p)
	r.ctxs = append(r.ctxs, c)
	r.pops = append(r.pops, pop)
	r.sinks = append(r.sinks, &sink{})
}

// wvec: one write of one byte through an iox.CtxWriter bound to every context (as Interp.Eval wires the
// evaluation's output): 1 = accepted and delivered, 0 = refused and nothing delivered, 2 = anything else.
func (r *rig) wvec() []int {
	v := make([]int, len(r.ctxs))
	for i, c := range r.ctxs {
		before := r.sinks[i].n
		n, err := iox.CtxWriter{Writer: r.sinks[i], Ctx: c}.Write([]byte{'x'})
		switch d := r.sinks[i].n - before; {
		case n == 1 && err == nil && d == 1:
			v[i] = 1
		case n == 0 && err != nil && d == 0:
			v[i] = 0
		default:
			v[i] = 2
		}
	}
	return v
}

// interrupt: make the trigger function return once and wait until the trigger goroutine is waiting again.
// After Stop the goroutine is gone: nothing can be delivered.
func (r *rig) interrupt() {
	select {
	case r.trig <- struct{}{}:
		r.waitReady()
	case <-r.stopCh:
	}
}

func (r *rig) stop() {
	if !r.stopped {
		r.stopped = true
		r.s.Stop()
	}
}

func (r *rig) vec() []int {
	v := make([]int, len(r.ctxs))
	for i, c := range r.ctxs {
		if c.Err() != nil {
			v[i] = 1
		}
	}
	return v
}

type op struct {
	Op string `json:"op"`
	A  int    `json:"a"`
}

func (r *rig) apply(o op) {
	switch o.Op {
	case "push":
		r.push(o.A)
	case "fin":
		r.pops[o.A-1]()
	case "intr":
		r.interrupt()
	case "stop":
		r.stop()
	default:
		kit.Fatalf("unknown op %q", o.Op)
	}
	progress.Add(1)
}

// ---------------------------------------------------------------- replay of TLC-emitted sequences

type seqCase struct {
	Ops []op `json:"ops"`
}
type seqOut struct {
	I     int     `json:"i"`
	Got   [][]int `json:"got"`
	W     [][]int `json:"w"`
	Panic string  `json:"panic"`
}

func replayOne(i int, c seqCase) (out seqOut) {
	out.I = i
	out.Got = [][]int{}
	out.W = [][]int{}
	r := newRig()
	defer r.stop()
	defer func() {
		if p := recover(); p != nil {
			out.Panic = fmt.Sprint(p)
		}
	}()
	for _, o := range c.Ops {
		r.apply(o)
		out.Got = append(out.Got, r.vec())
		out.W = append(out.W, r.wvec())
	}
	return out
}

// ---------------------------------------------------------------- random sequential histories

type event struct {
	Op  string `json:"op"`
	O   string `json:"o"`
	A   int    `json:"a"`
	ID  int    `json:"id"`
	Got []int  `json:"got"`
	W   []int  `json:"w"`
}

// genOp picks the next operation from what the harness itself did so far (no model of the stack is needed
// to GENERATE: any context ever pushed may be finished, at any time, any number of times).
// liveGuess is only used by the concurrent driver to avoid late finishes when asked to.
func genOp(rng *rand.Rand, r *rig, maxCtx int) op {
	n := len(r.ctxs)
	for {
		k := rng.Intn(100)
		switch {
		case k < 38 && !r.stopped && n < maxCtx:
			par := 0
			if n > 0 {
				switch rng.Intn(4) {
				case 0, 1:
					par = n // the context pushed last (usually the innermost running one)
				case 2:
					par = 1 + rng.Intn(n) // any earlier context, finished or not
				}
			}
			return op{"push", par}
		case k < 72 && n > 0:
			if rng.Intn(3) == 0 {
				return op{"fin", n - rng.Intn(min(n, 2))} // near the top: in-order finishes are the common case
			}
			return op{"fin", 1 + rng.Intn(n)}
		case k < 96:
			return op{"intr", 0}
		case k >= 96 && !r.stopped && n > 0:
			return op{"stop", 0}
		}
	}
}

func randHistories(n int, path string) {
	out := kit.NewOut(path)
	rng := rand.New(rand.NewSource(kit.Seed()))
	for h := 0; h < n; h++ {
		out.Emit(event{Op: "reset", Got: []int{}, W: []int{}})
		r := newRig()
		nops := 6 + rng.Intn(26)
		maxCtx := 2 + rng.Intn(9)
		for j := 0; j < nops; j++ {
			o := genOp(rng, r, maxCtx)
			where.Store(fmt.Sprintf("rand history %d op %d %v", h, j, o))
			r.apply(o)
			e := event{Op: o.Op, A: o.A, Got: r.vec(), W: r.wvec()}
			if o.Op == "push" {
				e.ID = len(r.ctxs)
			}
			out.Emit(e)
		}
		r.stop()
	}
	out.Close()
}

// ---------------------------------------------------------------- race driver (no harness-side synchronisation)

// One round: the evaluator goroutine (this one) runs a nested push/pop loop, in order and out of order, while a
// second goroutine keeps making the trigger function return.  The only channel between the two sides is the
// trigger channel, exactly as os.InterruptChan() in pkg/interp.
func raceRound(seed int64, iters int) {
	trig := make(chan struct{})
	s := ctxstack.New(func(stopCh chan struct{}) {
		select {
		case <-stopCh:
		case <-trig:
		}
	})
	done := make(chan struct{})
	var wg sync.WaitGroup
	wg.Add(1)
	go func() {
		defer wg.Done()
		for {
			select {
			case trig <- struct{}{}:
			case <-done:
				return
			}
		}
	}()
	rng := rand.New(rand.NewSource(seed))
	for i := 0; i < iters; i++ {
		depth := 1 + rng.Intn(4)
		pops := make([]func(), 0, depth)
		ctx := context.Background()
		for d := 0; d < depth; d++ {
			c, pop := s.Push(ctx)
			if rng.Intn(2) == 0 {
				ctx = c
			}
			pops = append(pops, pop)
		}
		if rng.Intn(4) == 0 { // out of order: an enclosing evaluation finishes first
			pops[rng.Intn(depth)]()
		}
		for d := depth - 1; d >= 0; d-- {
			pops[d]()
		}
		progress.Add(1)
		if i%64 == 0 {
			runtime.Gosched()
		}
	}
	close(done)
	wg.Wait()
	s.Stop()
}

// ---------------------------------------------------------------- traced concurrent histories

type tlog struct {
	mu  sync.Mutex
	out *kit.Out
}

func (t *tlog) emit(e event) {
	if e.Got == nil {
		e.Got = []int{}
	}
	if e.W == nil {
		e.W = []int{}
	}
	t.mu.Lock()
	t.out.Emit(e)
	t.mu.Unlock()
}

func concHistories(n int, path string, late bool) {
	t := &tlog{out: kit.NewOut(path)}
	rng := rand.New(rand.NewSource(kit.Seed() + 7919))
	for h := 0; h < n; h++ {
		t.emit(event{Op: "reset"})
		r := newRig()
		done := make(chan struct{})
		var wg sync.WaitGroup
		wg.Add(1)
		iseed := rng.Int63()
		go func() { // interrupter
			defer wg.Done()
			irng := rand.New(rand.NewSource(iseed))
			for {
				select {
				case <-done:
					return
				default:
				}
				select {
				case <-r.stopCh: // the trigger goroutine is gone, nothing can be delivered any more
					return
				default:
				}
				for k := irng.Intn(12); k > 0; k-- {
					runtime.Gosched()
				}
				t.emit(event{Op: "isend"})
				r.interrupt()
				t.emit(event{Op: "idone"})
			}
		}()
		nops := 6 + rng.Intn(20)
		maxCtx := 2 + rng.Intn(7)
		// harness-side bookkeeping used only to AVOID generating late finishes when late == false
		var live []int
		called := map[int]bool{}
		for j := 0; j < nops; j++ {
			o := genOp(rng, r, maxCtx)
			if o.Op == "intr" {
				o = op{"obs", 0}
			}
			if o.Op == "fin" && !late {
				in := false
				for _, x := range live {
					in = in || x == o.A
				}
				if !in && !called[o.A] {
					continue
				}
			}
			where.Store(fmt.Sprintf("conc history %d op %d %v", h, j, o))
			if o.Op != "obs" {
				e := event{Op: "call", O: o.Op, A: o.A}
				if o.Op == "push" {
					e.ID = len(r.ctxs) + 1
				}
				t.emit(e)
				r.apply(o)
				t.emit(event{Op: "ret"})
				switch o.Op {
				case "push":
					live = append(live, len(r.ctxs))
				case "fin":
					called[o.A] = true
					for i, x := range live {
						if x == o.A {
							live = live[:i]
							break
						}
					}
				}
			}
			for k := rng.Intn(3); k > 0; k-- {
				runtime.Gosched()
			}
			t.emit(event{Op: "ocall"})
			v := r.vec()
			t.emit(event{Op: "oret", Got: v})
			progress.Add(1)
		}
		close(done)
		wg.Wait()
		r.stop()
	}
	t.out.Close()
}

// ---------------------------------------------------------------- main

func watchdog() {
	last := int64(-1)
	for {
		time.Sleep(20 * time.Second)
		p := progress.Load()
		if p == last {
			fmt.Fprintf(os.Stderr, "HANG: no progress for 20s in %v\n", where.Load())
			buf := make([]byte, 1<<16)
			os.Stderr.Write(buf[:runtime.Stack(buf, true)])
			os.Exit(4)
		}
		last = p
	}
}

func main() {
	if len(os.Args) < 2 {
		kit.Fatalf("usage")
	}
	where.Store("start")
	go watchdog()
	switch os.Args[1] {
	case "replay":
		out := kit.NewOut(os.Args[3])
		kit.Cases(os.Args[2], func(i int, raw []byte) {
			var c seqCase
			kit.Unmarshal(raw, &c)
			where.Store(fmt.Sprintf("replay case %d %v", i, c.Ops))
			out.Emit(replayOne(i, c))
		})
		out.Close()
	case "rand":
		randHistories(kit.Atoi(os.Args[2]), os.Args[3])
	case "race":
		rounds, iters := kit.Atoi(os.Args[2]), kit.Atoi(os.Args[3])
		for i := 0; i < rounds; i++ {
			where.Store(fmt.Sprintf("race round %d", i))
			raceRound(kit.Seed()*1000+int64(i), iters)
		}
		fmt.Println("race rounds done", rounds)
	case "conc":
		concHistories(kit.Atoi(os.Args[2]), os.Args[3], os.Args[4] == "1")
	default:
		if !extraMode(os.Args[1:]) {
			kit.Fatalf("unknown mode %q", os.Args[1])
		}
	}
}
