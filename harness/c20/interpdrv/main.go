// c20/interpdrv: the C20 histories at the level of pkg/interp.
//
//	interpdrv nested <runs> <out.ndjson>
//	interpdrv storm <runs>          many short nested evaluations while a free-running goroutine fires interrupts through
//	                                OS.InterruptChan() (build with -race): must end, must not crash, must not race
//
// One run = one in-process `fq -n -r <program>` on a virtual OS.  The program nests <depth> evaluations with the jq
// function eval/1 (Interp.Eval pushes one context per evaluation, the nested one with the enclosing evaluation's
// context as parent):
//
//	level j < depth:  Q, "s<j>", (try eval(<level j+1>) catch "c<j+1>:\(.)"), Q, "a<j>", (range(N) | select(. < 0)), "z<j>"
//	level depth:      Q, "s<depth>", (range(N) | select(. < 0)), "z<depth>"
//	Q = (eval("1, 2") | empty), (try (eval("1, error(\"e\")") | empty) catch empty), (try (eval("nosuchfn_verif(1)") | empty) catch empty), (try (eval("1 +") | empty) catch empty)
//	    short nested evaluations - one finishing normally, one ending with a caught error, one that does not compile, one that does
//	    not parse - before the level goes on
//
// Every level reports on stdout when it starts (s), when the evaluation nested in it ended with an error (c) and when
// it goes on afterwards (a), then runs "forever".  The virtual stdout delivers an interrupt through OS.InterruptChan()
// (or calls Interp.Stop) when the innermost running level has reported, and the run is logged as a history for the
// trace spec TraceCtxStack: push x depth, then intr / fin ... with the cancelled-vector OBSERVED through stdout:
// level k counts as cancelled when "c<k>:context canceled" was printed (k > 1) or Main returned (k = 1), as running
// when a level <= k went on printing.  A line that must not appear (z<k>, anything after Main's evaluation was
// cancelled) is recorded as w = 2, which no specification accepts.
package main

import (
	"bytes"
	"context"
	"encoding/json"
	"fmt"
	"io"
	"io/fs"
	"math/rand"
	"os"
	"runtime"
	"strings"
	"time"

	_ "github.com/wader/fq/format/all"
	"github.com/wader/fq/internal/verif/kit"
	"github.com/wader/fq/pkg/interp"
)

type vfs struct{}

func (vfs) Open(name string) (fs.File, error) { return nil, fmt.Errorf("%s: file not found", name) }

type vin struct{ interp.FileReader }

func (vin) IsTerminal() bool { return false }
func (vin) Size() (int, int) { return 120, 25 }

type vout struct{ io.Writer }

func (vout) Size() (int, int) { return 120, 25 }
func (vout) IsTerminal() bool { return false }

type vos struct {
	args   []string
	stdout io.Writer
	stderr *bytes.Buffer
	intr   chan struct{}
}

func (o *vos) Platform() interp.Platform { return interp.Platform{} }
func (o *vos) Stdin() interp.Input {
	return vin{FileReader: interp.FileReader{R: bytes.NewBuffer(nil)}}
}
func (o *vos) Stdout() interp.Output                             { return vout{o.stdout} }
func (o *vos) Stderr() interp.Output                             { return vout{o.stderr} }
func (o *vos) InterruptChan() chan struct{}                      { return o.intr }
func (o *vos) Environ() []string                                 { return []string{"NO_COLOR=1"} }
func (o *vos) Args() []string                                    { return o.args }
func (o *vos) ConfigDir() (string, error)                        { return "/config", nil }
func (o *vos) FS() fs.FS                                         { return vfs{} }
func (o *vos) History() ([]string, error)                        { return nil, nil }
func (o *vos) Readline(opts interp.ReadlineOpts) (string, error) { return "", io.EOF }

const forever = `(range(1000000000) | select(. < 0))`

// native: a Go function that writes ~20 000 lines straight to the evaluation's output (not a jq generator): an interrupt that lands
// while it writes must stop the output; the last rows of the dump (addresses within 64 bytes of the end) must never be written by a
// cancelled evaluation
const native = `("x" * 300000 | tobytes | hexdump)`
const nativeBytes = 300000

var nativeOut bool // the innermost level writes through the native function when it is interrupted
// short nested evaluations that are over before the level goes on: one runs to its end, one ends with an error that is caught
// (an evaluation abandoned at its first error is finished too: nothing of it may stay on the interrupt stack), one that does not
// compile (unknown function) and one that does not parse - an evaluation that never started is not in progress either
const short = `(eval("1, 2") | empty), (try (eval("1, error(\"e\")") | empty) catch empty), (try (eval("nosuchfn_verif(1)") | empty) catch empty), (try (eval("1 +") | empty) catch empty)`

func program(level, depth int) string {
	if level == depth {
		if nativeOut {
			return fmt.Sprintf(`%s, "s%d", %s, %s, "z%d"`, short, level, native, forever, level)
		}
		return fmt.Sprintf(`%s, "s%d", %s, "z%d"`, short, level, forever, level)
	}
	inner, _ := json.Marshal(program(level+1, depth))
	return fmt.Sprintf(`%s, "s%d", (try eval(%s) catch "c%d:\(.)"), %s, "a%d", %s, "z%d"`, short, level, inner, level+1, short, level, forever, level)
}

type event struct {
	Op  string `json:"op"`
	O   string `json:"o"`
	A   int    `json:"a"`
	ID  int    `json:"id"`
	Got []int  `json:"got"`
	W   []int  `json:"w"`
}

// lineWriter hands complete stdout lines to fn, in the goroutine that writes (the evaluating one).
type lineWriter struct {
	buf []byte
	fn  func(line string)
}

func (w *lineWriter) Write(p []byte) (int, error) {
	w.buf = append(w.buf, p...)
	for {
		i := bytes.IndexByte(w.buf, '\n')
		if i < 0 {
			return len(p), nil
		}
		line := string(w.buf[:i])
		w.buf = w.buf[i+1:]
		w.fn(line)
	}
}

// one run; stopAt > 0: call Interp.Stop instead of the stopAt-th interrupt
func runNested(out *kit.Out, depth int, stopAt int, yield int) (aborted bool) {
	o := &vos{args: []string{"fq", "-n", "-r", program(1, depth)}, stderr: &bytes.Buffer{}, intr: make(chan struct{})}
	top, abort := context.WithCancel(context.Background())
	defer abort()
	var ip *interp.Interp
	cancelled := make([]int, depth) // observed: levels whose evaluation ended without completing
	cseen := make([]bool, depth+1)  // "c<k>:context canceled" lines seen
	bad := 0                        // lines that must not appear, undeliverable interrupts
	pushed := 0                     // levels that reported their start
	alive := 0                      // innermost level known to be running
	nint := 0
	pending := "" // "intr" | "stop": delivered, effect not yet observed
	emit := func(op string, a, id int) {
		g := append([]int{}, cancelled[:pushed]...)
		w := make([]int, pushed)
		for i := range w {
			w[i] = 1 - g[i]
			if bad > 0 {
				w[i] = 2
			}
		}
		out.Emit(event{Op: op, A: a, ID: id, Got: g, W: w})
	}
	deliver := func() {
		nint++
		if stopAt == nint {
			pending = "stop"
			ip.Stop()
			return
		}
		pending = "intr"
		for k := 0; k < yield; k++ {
			runtime.Gosched()
		}
		select {
		case o.intr <- struct{}{}:
		case <-time.After(5 * time.Second): // nobody listens any more although the interpreter was not stopped
			bad++
			abort()
		}
	}
	// settle(k): level k (0 = none) is now known to be the innermost evaluation still running, so the pending
	// interrupt/stop has taken effect and the levels above k ended without completing.
	settle := func(k int) {
		if pending == "" {
			bad++
			return
		}
		for lv := k + 1; lv <= alive; lv++ {
			cancelled[lv-1] = 1
		}
		if k+1 <= alive && k+1 >= 2 && k >= 1 && !cseen[k+1] {
			bad++ // level k went on without having caught the error of the evaluation nested in it
		}
		emit(pending, 0, 0)
		for lv := alive; lv > k; lv-- {
			emit("fin", lv, 0) // Interp.Eval pops an evaluation when its iterator returns the error
		}
		alive = k
		pending = ""
	}
	o.stdout = &lineWriter{fn: func(line string) {
		var k int
		switch {
		case sscan(line, "s%d", &k):
			if k != pushed+1 || k > depth || pending != "" {
				bad++
				return
			}
			pushed, alive = k, k
			emit("push", k-1, k)
			if k == depth && !nativeOut {
				deliver()
			}
		case strings.HasSuffix(line, ":context canceled") && sscan(strings.TrimSuffix(line, ":context canceled"), "c%d", &k):
			if k < 2 || k > depth {
				bad++
				return
			}
			cseen[k] = true
		case sscan(line, "a%d", &k):
			if k < 1 || k >= alive {
				bad++
				return
			}
			settle(k)
			deliver()
		case nativeOut && (strings.HasPrefix(line, "0x") || strings.HasPrefix(line, "    |") || strings.HasPrefix(line, "  ")):
			// rows of the native dump of the innermost level: the first one triggers the interrupt (the writer is then in the middle of
			// its output), the last one must never come
			if alive == depth && pending == "" && nint == 0 {
				deliver()
			}
			var addr int
			if n, _ := fmt.Sscanf(line, "0x%x|", &addr); n == 1 && addr >= nativeBytes-64 {
				bad++ // the output of a cancelled evaluation ran to completion
			}
		default:
			bad++
		}
	}}
	var err error
	ip, err = interp.New(o, interp.DefaultRegistry)
	if err != nil {
		kit.Fatalf("interp.New: %v", err)
	}
	done := make(chan error, 1)
	go func() { done <- ip.Main(top, o.Stdout(), "verif") }()
	select {
	case err = <-done:
	case <-time.After(20 * time.Second):
		// the delivered interrupt/stop had no visible effect: end the run from outside and log what was observed
		abort()
		select {
		case err = <-done:
		case <-time.After(40 * time.Second):
			fmt.Fprintf(os.Stderr, "HANG: interp nested run depth=%d stopAt=%d did not end; stderr=%q\n", depth, stopAt, o.stderr.String())
			os.Exit(4)
		}
		if pending != "" {
			emit(pending, 0, 0) // cancelled-vector unchanged: the specification rejects it
		}
		ip.Stop()
		return true
	}
	if err == nil || pushed != depth {
		kit.Fatalf("nested run depth=%d: Main returned err=%v after %d levels started (driver program broken?) stderr=%q", depth, err, pushed, o.stderr.String())
	}
	settle(0) // Main returned: every evaluation is over
	if stopAt == 0 || stopAt > nint {
		ip.Stop()
	}
	return false
}

// storm: the evaluating goroutine starts and finishes thousands of nested evaluations (Interp.Eval -> Push / pop) while
// another goroutine, not synchronised with it, makes the trigger function return.  Whatever an interrupt hits (a short
// nested evaluation whose error is caught, or the command line evaluation itself) the run must not crash, and as the
// program ends in an endless loop it must be ended by one of the interrupts (an interrupt is never lost).
func runStorm(seed int64) (interrupts int) {
	prog := `"start", ([range(1500) | try (eval("1, 2") | select(. == 1)) catch "x"] | length), ` + forever
	o := &vos{args: []string{"fq", "-n", "-r", prog}, stderr: &bytes.Buffer{}, intr: make(chan struct{})}
	started := make(chan struct{})
	o.stdout = &lineWriter{fn: func(line string) {
		if line == "start" {
			close(started)
		}
	}}
	ip, err := interp.New(o, interp.DefaultRegistry)
	if err != nil {
		kit.Fatalf("interp.New: %v", err)
	}
	done := make(chan error, 1)
	stopIntr := make(chan struct{})
	idone := make(chan int, 1)
	go func() {
		rng := rand.New(rand.NewSource(seed))
		n := 0
		defer func() { idone <- n }()
		select {
		case <-started:
		case <-stopIntr:
			return
		}
		for {
			for k := rng.Intn(200); k > 0; k-- {
				runtime.Gosched()
			}
			select {
			case o.intr <- struct{}{}:
				n++
			case <-stopIntr:
				return
			}
		}
	}()
	go func() { done <- ip.Main(context.Background(), o.Stdout(), "verif") }()
	select {
	case <-done:
	case <-time.After(45 * time.Second):
		fmt.Fprintf(os.Stderr, "HANG: interp storm run did not end; stderr=%q\n", o.stderr.String())
		os.Exit(4)
	}
	close(stopIntr)
	n := <-idone
	ip.Stop()
	return n
}

func sscan(s, format string, k *int) bool {
	var rest string
	n, _ := fmt.Sscanf(s+" ~", format+" %s", k, &rest)
	return n == 2 && rest == "~" && fmt.Sprintf(format, *k) == s
}

func main() {
	if len(os.Args) == 3 && os.Args[1] == "storm" {
		n := 0
		for r := 0; r < kit.Atoi(os.Args[2]); r++ {
			n += runStorm(kit.Seed()*100 + int64(r))
		}
		fmt.Println("storm interrupts delivered", n)
		return
	}
	if len(os.Args) < 4 || os.Args[1] != "nested" {
		kit.Fatalf("usage: interpdrv nested <runs> <out.ndjson> | storm <runs>")
	}
	runs := kit.Atoi(os.Args[2])
	out := kit.NewOut(os.Args[3])
	rng := rand.New(rand.NewSource(kit.Seed()))
	aborted := 0
	for r := 0; r < runs; r++ {
		depth := 1 + r%4
		nativeOut = r%5 == 4 // one run in five: the innermost level is interrupted while a native function writes its output
		stopAt := 0
		if r%3 == 2 {
			stopAt = 1 + rng.Intn(depth)
		}
		out.Emit(event{Op: "reset", Got: []int{}, W: []int{}})
		if runNested(out, depth, stopAt, rng.Intn(50)) {
			if aborted++; aborted >= 3 {
				break // every such run costs 20 s and the specification rejects each of them: enough evidence
			}
		}
	}
	out.Close()
	fmt.Println("interp runs done", runs)
}
