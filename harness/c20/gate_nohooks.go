//go:build !verifhooks

package main

// extraMode: modes that need the verifHook call sites of repo_patches/C20-hooks.diff (absent in this build).
func extraMode(args []string) bool { return false }
