//go:build verifhooks

package main

// c20 gate <schedule.json>
//
// Replays a TLC counterexample of CtxStack.tla (as-built, Locked = FALSE) on the real ctxstack.Stack.  Needs the
// verifHook call sites of repo_patches/C20-hooks.diff; the hook is used as a scheduler gate: a goroutine that reaches a
// hook point blocks until the schedule says it is its turn.  Events (in TLC's order):
//
//	{"k":"op","op":"push"|"fin"|"stop","a":n}      the evaluating goroutine starts an operation (ev_loop step)
//	{"k":"intr"}                                    the trigger function returns (t_wait step with an interrupt)
//	{"k":"gate","who":"EV"|"TR","point":"..."}      that goroutine passes that hook point (p_elem, c_trunc, s_len, t_len, t_len2)
//
// Outcome on stdout: {"outcome":"completed"} or {"outcome":"not_schedulable","step":k,"why":"..."} (with a mutex the
// schedule cannot happen: the goroutine that should pass a gate is blocked on the lock).  If the schedule drives the
// real code into the fault, the process dies with the Go panic, which the runner parses.

import (
	"encoding/json"
	"fmt"
	"os"
	"strings"
	"sync/atomic"
	"time"

	"github.com/wader/fq/internal/ctxstack"
	"github.com/wader/fq/internal/verif/kit"
)

type gateEvent struct {
	K     string `json:"k"`
	Op    string `json:"op"`
	A     int    `json:"a"`
	Who   string `json:"who"`
	Point string `json:"point"`
}

type arrival struct {
	who, point string
	release    chan struct{}
}

const quiesce = 400 * time.Millisecond

func gateMode(path string) {
	raw, err := os.ReadFile(path)
	if err != nil {
		kit.Fatalf("read schedule: %v", err)
	}
	var evs []gateEvent
	kit.Unmarshal(raw, &evs)

	var open atomic.Bool // gates open: hooks pass straight through
	arrive := make(chan arrival)
	ctxstack.SetVerifHook(func(point string) {
		if open.Load() {
			return
		}
		who := "EV"
		if strings.HasPrefix(point, "trigger.") {
			who = "TR"
		}
		a := arrival{who, point, make(chan struct{})}
		arrive <- a
		<-a.release
	})
	r := newRig() // the first call of the trigger function passes no hook point
	evDone := make(chan struct{}, 1)
	waiting := map[string]*arrival{}
	busy := map[string]bool{}
	// wait until `who` blocks at a gate, finishes what it is doing, or neither within the quiescence time
	settle := func(who string) string {
		t := time.After(quiesce)
		for {
			if w := waiting[who]; w != nil {
				return "gate:" + w.point
			}
			if !busy[who] {
				return "idle"
			}
			select {
			case a := <-arrive:
				waiting[a.who] = &a
			case <-evDone:
				busy["EV"] = false
			case <-r.ready:
				busy["TR"] = false
			case <-r.stopCh:
				busy["TR"] = false
			case <-t:
				return "blocked"
			}
		}
	}
	result := map[string]any{"outcome": "completed", "steps": len(evs)}
	fail := func(k int, why string) {
		result = map[string]any{"outcome": "not_schedulable", "step": k, "why": why, "steps": len(evs)}
	}
loop:
	for k, e := range evs {
		progress.Add(1)
		where.Store(fmt.Sprintf("gate step %d %+v", k, e))
		switch e.K {
		case "op":
			if st := settle("EV"); st != "idle" {
				fail(k, "evaluator cannot start "+e.Op+": it is "+st)
				break loop
			}
			busy["EV"] = true
			o := op{e.Op, e.A}
			go func() { r.apply(o); evDone <- struct{}{} }()
			settle("EV")
		case "intr":
			if st := settle("TR"); st != "idle" {
				fail(k, "trigger goroutine cannot take an interrupt: it is "+st)
				break loop
			}
			select {
			case r.trig <- struct{}{}:
				busy["TR"] = true
				settle("TR")
			case <-time.After(quiesce):
				fail(k, "trigger function is not waiting")
				break loop
			}
		case "gate":
			if st := settle(e.Who); st != "gate:"+e.Point {
				fail(k, e.Who+" should pass "+e.Point+" but is "+st)
				break loop
			}
			close(waiting[e.Who].release)
			delete(waiting, e.Who)
			settle(e.Who)
		default:
			kit.Fatalf("bad schedule event %+v", e)
		}
	}
	// open the gates and let everything finish
	open.Store(true)
	for _, w := range waiting {
		close(w.release)
	}
	waiting = map[string]*arrival{}
	deadline := time.After(5 * time.Second)
	for busy["EV"] || busy["TR"] {
		select {
		case a := <-arrive:
			close(a.release)
		case <-evDone:
			busy["EV"] = false
		case <-r.ready:
			busy["TR"] = false
		case <-r.stopCh:
			busy["TR"] = false
		case <-deadline:
			result["after"] = "goroutines still busy 5s after the gates were opened"
			busy["EV"], busy["TR"] = false, false
		}
	}
	b, _ := json.Marshal(result)
	fmt.Println(string(b))
	if !r.stopped {
		go r.stop()
		time.Sleep(50 * time.Millisecond)
	}
}

func extraMode(args []string) bool {
	if args[0] == "gate" && len(args) == 2 {
		gateMode(args[1])
		return true
	}
	return false
}
