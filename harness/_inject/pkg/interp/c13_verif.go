//go:build verif

package interp

// Added to package interp only through the verification overlay (build tag verif); read-only accessor
// used by the C13 inventory: the jq modules an Interp has actually included (after the first evaluation),
// keyed by include file name, with dynamic includes already resolved to their generated source.

import "github.com/wader/gojq"

func (i *Interp) VerifC13Includes() map[string]*gojq.Query { return i.includeCache }

// VerifC13SeedIncludes pre-loads the parse cache of a new Interp with the already parsed (and never
// mutated) builtin modules of another one, so that a fresh Interp per call does not re-parse 6000
// lines of jq each time. Only "@builtin/" modules are shared; evaluation state is not.
func (i *Interp) VerifC13SeedIncludes(m map[string]*gojq.Query) {
	for k, q := range m {
		if len(k) > 9 && k[:9] == "@builtin/" {
			i.includeCache[k] = q
		}
	}
}
