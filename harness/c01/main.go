// c01: binds BitIO.tla to pkg/bitio, internal/bitiox and the byte-level adapters fq stacks under an open file.
//
//	c01 replay <cases.ndjson> <events.ndjson>   histories emitted by TLC: {term, lens: {leaf id: bit length}, reqs: [...]}
//	c01 rand <n> <events.ndjson>                seeded random compositions and histories beyond TLC's constants
//	c01 write <n> <events.ndjson>               bit writers: random WriteBits sequences and the bytes produced
//	c01 buffer <n> <events.ndjson>              bitio.Buffer: random interleavings of WriteBits / ReadBits / Len / Bits / Reset
//	c01 stack <n> <events.ndjson>               the open-file stack over real files (large offsets, block boundaries)
package main

import (
	"bytes"
	"context"
	"encoding/json"
	"errors"
	"fmt"
	"io"
	"math/rand"
	"os"
	"time"

	_ "github.com/wader/fq/format/all"
	"github.com/wader/fq/internal/aheadreadseeker"
	"github.com/wader/fq/internal/bitiox"
	"github.com/wader/fq/internal/ctxreadseeker"
	"github.com/wader/fq/internal/progressreadseeker"
	"github.com/wader/fq/internal/verif/kit"
	"github.com/wader/fq/pkg/bitio"
)

type Term struct {
	T   string  `json:"t"`
	ID  string  `json:"id,omitempty"`
	R   *Term   `json:"r,omitempty"`
	Y   *Term   `json:"y,omitempty"`
	Rs  []*Term `json:"rs,omitempty"`
	Off int64   `json:"off"`
	N   int64   `json:"n"`
	M   int64   `json:"m"`
	OS  bool    `json:"os,omitempty"` // file: a real os.File instead of bytes.Reader
}

// Op is a request and, after execution, the observation.
type Op struct {
	Op   string `json:"op"`
	H    int    `json:"h"`
	H2   int    `json:"h2"`
	U    int    `json:"u"`
	N    int64  `json:"n"`
	Off  int64  `json:"off"`
	Wh   int    `json:"wh"`
	QP   bool   `json:"qp"` // ask the handle for its position after the call
	K    int64  `json:"k"`
	Out  []int  `json:"out"`
	EOF  bool   `json:"eof"`
	Err  bool   `json:"err"`
	Res  int64  `json:"res"`
	PA   int64  `json:"pa"`
	Hang bool   `json:"hang"`
	Msg  string `json:"msg"`
}

// BOp is one call on a bitio.Buffer and what it returned.
type BOp struct {
	Op   string `json:"op"`
	Bits []int  `json:"bits"`
	N    int64  `json:"n"`
	K    int64  `json:"k"`
	Out  []int  `json:"out"`
	EOF  bool   `json:"eof"`
	Err  bool   `json:"err"`
	Res  int64  `json:"res"`
}

type Case struct {
	Term Term             `json:"term"`
	Lens map[string]int64 `json:"lens"`
	Reqs []Op             `json:"reqs"`
}

type Event struct {
	Kind   string           `json:"kind"`
	Term   Term             `json:"term"`
	Leaves map[string][]int `json:"leaves"`
	Ops    []Op             `json:"ops"`
	BOps   []BOp            `json:"bops,omitempty"`
	Chunks [][]int          `json:"chunks"`
	OutB   []int            `json:"outbits"`
	Panic  string           `json:"panic"`
}

type env struct {
	data    map[string][]byte // leaf id -> bytes
	bits    map[string]int64
	cleanup []func()
	tmpdir  string
}

// dirty returns a buffer that is not zero: a reader must write every bit it reports as read
func dirty(n int64) []byte {
	b := make([]byte, n)
	for i := range b {
		b[i] = 0xa5
	}
	return b
}

func bitsOf(b []byte, n int64) []int {
	out := make([]int, n)
	for i := int64(0); i < n; i++ {
		out[i] = int(b[i/8]>>(7-uint(i%8))) & 1
	}
	return out
}

func (e *env) buildBit(t *Term) bitio.ReadAtSeeker {
	switch t.T {
	case "leaf":
		return bitio.NewBitReader(e.data[t.ID], e.bits[t.ID])
	case "section":
		return bitio.NewSectionReader(e.buildBit(t.R), t.Off, t.N)
	case "multi":
		var rs []bitio.ReadAtSeeker
		for _, r := range t.Rs {
			rs = append(rs, e.buildBit(r))
		}
		m, err := bitio.NewMultiReader(rs...)
		if err != nil {
			panic("harness: NewMultiReader: " + err.Error())
		}
		return m
	case "zero":
		return bitiox.NewZeroAtSeeker(t.N)
	case "frombytes":
		return bitio.NewIOBitReadSeeker(e.buildByte(t.Y))
	}
	panic("harness: unknown bit term " + t.T)
}

func (e *env) buildByte(t *Term) io.ReadSeeker {
	switch t.T {
	case "file":
		if t.OS {
			f, err := os.CreateTemp(e.tmpdir, "c01")
			if err != nil {
				panic("harness: tempfile: " + err.Error())
			}
			f.Write(e.data[t.ID])
			f.Seek(0, io.SeekStart)
			e.cleanup = append(e.cleanup, func() { f.Close(); os.Remove(f.Name()) })
			return f
		}
		return bytes.NewReader(e.data[t.ID])
	case "tobytes":
		rs, ok := e.buildBit(t.R).(bitio.ReadSeeker)
		if !ok {
			panic("harness: tobytes over a reader without ReadBits")
		}
		return bitio.NewIOReadSeeker(rs)
	case "ahead":
		return aheadreadseeker.New(e.buildByte(t.Y), int(t.M))
	case "progress":
		// as pkg/interp/binary.go does: precision 1024, total size of the file
		return progressreadseeker.New(e.buildByte(t.Y), 1024, t.N, func(int64, int64) {})
	case "ctx":
		ctx, cancel := context.WithCancel(context.Background())
		e.cleanup = append(e.cleanup, cancel)
		return ctxreadseeker.New(ctx, e.buildByte(t.Y))
	}
	panic("harness: unknown byte term " + t.T)
}

func isByteTerm(t *Term) bool {
	switch t.T {
	case "file", "tobytes", "ahead", "progress", "ctx", "ioreader":
		return true
	}
	return false
}

type handle struct {
	bit  any // bitio.* object
	byt  any // io.* object
	unit int
}

func (e *env) top(t *Term) handle {
	switch t.T {
	case "limit":
		r, ok := e.buildBit(t.R).(bitio.Reader)
		if !ok {
			panic("harness: limit over a reader without ReadBits")
		}
		return handle{bit: bitio.NewLimitReader(r, t.N), unit: 1}
	case "ioreader":
		r, ok := e.buildBit(t.R).(bitio.Reader)
		if !ok {
			panic("harness: ioreader over a reader without ReadBits")
		}
		return handle{byt: bitio.NewIOReader(r), unit: 8}
	}
	if isByteTerm(t) {
		return handle{byt: e.buildByte(t), unit: 8}
	}
	return handle{bit: e.buildBit(t), unit: 1}
}

func exec1(hs map[int]handle, o *Op) {
	h, ok := hs[o.H]
	o.Out = []int{}
	o.PA = -1
	if !ok {
		panic("harness: unknown handle")
	}
	o.U = h.unit
	setErr := func(err error) {
		if err == nil {
			return
		}
		if errors.Is(err, io.EOF) || errors.Is(err, io.ErrUnexpectedEOF) {
			o.EOF = true
		} else {
			o.Err = true
			o.Msg = err.Error()
		}
	}
	if h.unit == 1 {
		switch o.Op {
		case "read":
			r, ok := h.bit.(bitio.Reader)
			if !ok {
				o.Op = "skip"
				return
			}
			buf := dirty(bitio.BitsByteCount(o.N) + 1)
			k, err := r.ReadBits(buf, o.N)
			o.K = k
			if k >= 0 && k <= o.N {
				o.Out = bitsOf(buf, k)
			}
			setErr(err)
		case "readat":
			r, ok := h.bit.(bitio.ReaderAt)
			if !ok {
				o.Op = "skip"
				return
			}
			buf := dirty(bitio.BitsByteCount(o.N) + 1)
			k, err := r.ReadBitsAt(buf, o.N, o.Off)
			o.K = k
			if k >= 0 && k <= o.N {
				o.Out = bitsOf(buf, k)
			}
			setErr(err)
		case "readfull":
			r, ok := h.bit.(bitio.Reader)
			if !ok {
				o.Op = "skip"
				return
			}
			buf := dirty(bitio.BitsByteCount(o.N) + 1)
			_, err := bitio.ReadFull(r, buf, o.N)
			setErr(err)
			if err == nil {
				o.K = o.N
				o.Out = bitsOf(buf, o.N)
			} else {
				o.QP = true
			}
		case "seek":
			s, ok := h.bit.(bitio.Seeker)
			if !ok {
				o.Op = "skip"
				return
			}
			res, err := s.SeekBits(o.Off, o.Wh)
			o.Res = res
			if err != nil {
				o.Err = true
				o.Msg = err.Error()
			}
		case "clone":
			var c any
			var err error
			switch r := h.bit.(type) {
			case bitio.ReadAtSeeker:
				c, err = bitio.CloneReaderAtSeeker(r)
			case bitio.Reader:
				c, err = bitio.CloneReader(r)
			}
			if err != nil || c == nil {
				o.Op = "skip"
				return
			}
			hs[o.H2] = handle{bit: c, unit: 1}
		}
		if o.QP && o.Op != "clone" && o.Op != "skip" {
			if s, ok := h.bit.(bitio.Seeker); ok {
				if p, err := s.SeekBits(0, io.SeekCurrent); err == nil {
					o.PA = p
				}
			}
		}
		return
	}
	switch o.Op {
	case "read":
		r := h.byt.(io.Reader)
		p := dirty(o.N)
		k, err := r.Read(p)
		o.K = int64(k)
		if k >= 0 && int64(k) <= o.N {
			o.Out = bitsOf(p, int64(k)*8)
		}
		setErr(err)
	case "readfull":
		r := h.byt.(io.Reader)
		p := dirty(o.N)
		k, err := io.ReadFull(r, p)
		setErr(err)
		if err == nil {
			o.K = int64(k)
			o.Out = bitsOf(p, int64(k)*8)
		} else {
			o.QP = true
		}
	case "readbyte":
		// io.ByteReader (deflate reads this way); observed as a read of one byte
		br, ok := h.byt.(io.ByteReader)
		if !ok {
			o.Op = "skip"
			return
		}
		b, err := br.ReadByte()
		o.Op, o.N = "read", 1
		setErr(err)
		if err == nil {
			o.K = 1
			o.Out = bitsOf([]byte{b}, 8)
		} else {
			o.Op = "readbyte_failed" // the byte count at a failure is not observable: stop judging this history
		}
	case "seek":
		s, ok := h.byt.(io.Seeker)
		if !ok {
			o.Op = "skip"
			return
		}
		res, err := s.Seek(o.Off, o.Wh)
		o.Res = res
		if err != nil {
			o.Err = true
			o.Msg = err.Error()
		}
	default:
		o.Op = "skip"
		return
	}
	if o.QP {
		if s, ok := h.byt.(io.Seeker); ok {
			if p, err := s.Seek(0, io.SeekCurrent); err == nil {
				o.PA = p
			}
		}
	}
}

// runCase executes a history with a per-call watchdog (a call that never returns is observed as `hang`).
func runCase(c Case, rng *rand.Rand, tmpdir string) Event {
	e := &env{data: map[string][]byte{}, bits: map[string]int64{}, tmpdir: tmpdir}
	ev := Event{Kind: "hist", Term: c.Term, Leaves: map[string][]int{}, Ops: []Op{}, Chunks: [][]int{}, OutB: []int{}}
	for id, n := range c.Lens {
		b := make([]byte, (n+7)/8)
		rng.Read(b)
		if n%8 != 0 { // bits after the logical end are garbage on purpose: they must never be returned
			b[len(b)-1] |= byte(rng.Intn(256)) >> uint(n%8)
		}
		e.data[id] = b
		e.bits[id] = n
		ev.Leaves[id] = bitsOf(b, n)
	}
	defer func() {
		for _, f := range e.cleanup {
			f()
		}
	}()
	type res struct {
		o     Op
		panic string
	}
	reqCh := make(chan Op)
	resCh := make(chan res)
	go func() {
		var hs map[int]handle
		func() {
			defer func() {
				if r := recover(); r != nil {
					resCh <- res{panic: fmt.Sprint(r)}
				}
			}()
			hs = map[int]handle{0: e.top(&c.Term)}
			resCh <- res{}
		}()
		for o := range reqCh {
			func() {
				defer func() {
					if r := recover(); r != nil {
						resCh <- res{o: o, panic: fmt.Sprint(r)}
					}
				}()
				exec1(hs, &o)
				resCh <- res{o: o}
			}()
		}
	}()
	first := <-resCh
	if first.panic != "" {
		ev.Panic = "build: " + first.panic
		close(reqCh)
		return ev
	}
	for _, o := range c.Reqs {
		reqCh <- o
		select {
		case r := <-resCh:
			if r.panic != "" {
				ev.Panic = fmt.Sprintf("%s(n=%d off=%d wh=%d): %s", o.Op, o.N, o.Off, o.Wh, r.panic)
				close(reqCh)
				return ev
			}
			if r.o.Op == "readbyte_failed" {
				close(reqCh)
				return ev
			}
			if r.o.Op != "skip" {
				ev.Ops = append(ev.Ops, r.o)
			}
			if r.o.Op == "readfull" && (r.o.EOF || r.o.Err) && r.o.PA < 0 {
				// the cursor after a failed full read is not determined and this handle cannot report it
				close(reqCh)
				return ev
			}
		case <-time.After(1500 * time.Millisecond):
			o.Hang = true
			o.U = 1
			if isByteTerm(&c.Term) {
				o.U = 8
			}
			o.Out = []int{}
			o.PA = -1
			ev.Ops = append(ev.Ops, o)
			return ev // the goroutine is abandoned
		}
	}
	close(reqCh)
	return ev
}

// ---- random compositions

type gen struct {
	rng  *rand.Rand
	lens map[string]int64
	nid  int
}

func (g *gen) leafBits() int64 {
	switch g.rng.Intn(6) {
	case 0:
		return 0
	case 1:
		return int64(8 * g.rng.Intn(9))
	default:
		return int64(g.rng.Intn(150))
	}
}

func (g *gen) bitTerm(d int) (*Term, int64) {
	k := g.rng.Intn(10)
	if d <= 0 || k < 3 {
		g.nid++
		id := fmt.Sprintf("l%d", g.nid)
		n := g.leafBits()
		g.lens[id] = n
		return &Term{T: "leaf", ID: id}, n
	}
	switch {
	case k < 6:
		r, n := g.bitTerm(d - 1)
		off := int64(0)
		if n > 0 {
			off = g.rng.Int63n(n + 1)
		}
		l := int64(0)
		if n-off > 0 {
			l = g.rng.Int63n(n - off + 1)
		}
		return &Term{T: "section", R: r, Off: off, N: l}, l
	case k < 8:
		m := 1 + g.rng.Intn(3)
		t := &Term{T: "multi"}
		var tot int64
		for i := 0; i < m; i++ {
			if g.rng.Intn(5) == 0 {
				n := int64(g.rng.Intn(40))
				t.Rs = append(t.Rs, &Term{T: "zero", N: n})
				tot += n
				continue
			}
			r, n := g.bitTerm(d - 1)
			t.Rs = append(t.Rs, r)
			tot += n
		}
		return t, tot
	default:
		y, nb := g.byteTerm(d - 1)
		return &Term{T: "frombytes", Y: y}, nb * 8
	}
}

func (g *gen) byteTerm(d int) (*Term, int64) {
	k := g.rng.Intn(10)
	if d <= 0 || k < 3 {
		g.nid++
		id := fmt.Sprintf("f%d", g.nid)
		n := int64(g.rng.Intn(40))
		g.lens[id] = n * 8
		return &Term{T: "file", ID: id, OS: g.rng.Intn(4) == 0}, n
	}
	switch {
	case k < 6:
		r, n := g.bitTerm(d - 1)
		for !g.readable(r) {
			r, n = g.bitTerm(d - 1)
		}
		return &Term{T: "tobytes", R: r}, (n + 7) / 8
	case k < 8:
		y, n := g.byteTerm(d - 1)
		return &Term{T: "ahead", Y: y, M: int64(1 + g.rng.Intn(12))}, n
	case k < 9:
		y, n := g.byteTerm(d - 1)
		return &Term{T: "progress", Y: y, N: n}, n
	default:
		y, n := g.byteTerm(d - 1)
		return &Term{T: "ctx", Y: y}, n
	}
}

func (g *gen) readable(t *Term) bool { return t.T != "zero" }

func (g *gen) history(unit int, total int64, seekable bool) []Op {
	n := 1 + g.rng.Intn(14)
	var ops []Op
	nh := 1
	sizes := []int64{0, 1, 2, 3, 5, 7, 8, 9, 13, 16, 17, 31, 32, 33, 63, 64, 65, 100, 130}
	if unit == 8 {
		sizes = []int64{0, 1, 2, 3, 4, 5, 7, 8, 9, 16, 40}
	}
	for i := 0; i < n; i++ {
		o := Op{H: g.rng.Intn(nh), QP: g.rng.Intn(2) == 0}
		switch k := g.rng.Intn(12); {
		case k < 5:
			o.Op = "read"
			o.N = sizes[g.rng.Intn(len(sizes))]
		case k < 6 && unit == 8 && g.rng.Intn(2) == 0:
			o.Op = "readbyte"
			o.N = 1
		case k < 6:
			o.Op = "readfull"
			o.N = sizes[g.rng.Intn(len(sizes))]
		case k < 8 && unit == 1:
			o.Op = "readat"
			o.N = sizes[g.rng.Intn(len(sizes))]
			o.Off = g.rng.Int63n(total + 3)
		case k < 11 && seekable:
			o.Op = "seek"
			o.Wh = g.rng.Intn(3)
			span := total + 4
			switch o.Wh {
			case 0:
				o.Off = g.rng.Int63n(span+2) - 1
			case 1:
				o.Off = g.rng.Int63n(2*span) - span
			default:
				o.Off = 1 - g.rng.Int63n(span+2)
			}
		case unit == 1 && nh < 3:
			o.Op = "clone"
			o.H2 = nh
			nh++
		default:
			o.Op = "read"
			o.N = sizes[g.rng.Intn(len(sizes))]
		}
		ops = append(ops, o)
	}
	return ops
}

// longCase: a byte or bit view over a long concatenation with sub-reader boundaries off the byte grid, consumed front to back in
// chunks (hundreds of bytes pass through the carry buffers of the adapters, which short histories over short leaves never do)
func longCase(rng *rand.Rand) Case {
	g := &gen{rng: rng, lens: map[string]int64{}}
	t := &Term{T: "multi"}
	var tot int64
	m := 2 + rng.Intn(3)
	for i := 0; i < m; i++ {
		if rng.Intn(6) == 0 {
			n := int64(rng.Intn(40))
			t.Rs = append(t.Rs, &Term{T: "zero", N: n})
			tot += n
			continue
		}
		g.nid++
		id := fmt.Sprintf("l%d", g.nid)
		var n int64
		switch rng.Intn(3) {
		case 0:
			n = int64(rng.Intn(12))
		case 1:
			n = int64(8 * rng.Intn(300))
		default:
			n = int64(rng.Intn(3000))
		}
		g.lens[id] = n
		t.Rs = append(t.Rs, &Term{T: "leaf", ID: id})
		tot += n
	}
	nb := (tot + 7) / 8
	var top *Term
	unit, seekable, total := 8, true, nb
	switch rng.Intn(5) {
	case 0:
		top, seekable = &Term{T: "ioreader", R: t}, false
	case 1:
		top = &Term{T: "tobytes", R: t}
	case 2:
		top, unit, total = &Term{T: "frombytes", Y: &Term{T: "tobytes", R: t}}, 1, nb*8
	case 3:
		top, unit, total = &Term{T: "frombytes", Y: &Term{T: "ahead", Y: &Term{T: "tobytes", R: t}, M: int64(1 + rng.Intn(300))}}, 1, nb*8
	default:
		top, unit, total = t, 1, tot
	}
	sizes := []int64{1, 2, 3, 5, 16, 31, 64, 100, 257, 600}
	if unit == 1 {
		sizes = []int64{7, 64, 129, 1000, 2049, 4000}
	}
	var ops []Op
	var pos int64
	for len(ops) < 40 && pos <= total {
		o := Op{QP: rng.Intn(3) == 0}
		switch k := rng.Intn(10); {
		case k < 7:
			o.Op = "read"
			o.N = sizes[rng.Intn(len(sizes))]
			pos += o.N
		case k < 8:
			o.Op = "readfull"
			o.N = sizes[rng.Intn(len(sizes))]
			pos += o.N
		case seekable:
			o.Op = "seek"
			o.Wh = 1
			o.Off = -int64(rng.Intn(20))
			if unit == 1 {
				o.Off *= 5
			}
			pos += o.Off
		default:
			o.Op = "read"
			o.N = 1
			pos += o.N
		}
		ops = append(ops, o)
	}
	return Case{Term: *top, Lens: g.lens, Reqs: ops}
}

// overCase: a section that reaches beyond the end of what it is a section of (nested in further sections or not): its denotation
// stops at that end. Reads and seeks from the start or the cursor only: SeekBits from the end answers with the declared length.
func overCase(rng *rand.Rand) Case {
	g := &gen{rng: rng, lens: map[string]int64{}}
	t, n := g.bitTerm(2)
	for !g.readable(t) || n == 0 {
		t, n = g.bitTerm(2)
	}
	for w := 1 + rng.Intn(2); w > 0; w-- {
		off := rng.Int63n(n + 1)
		l := n - off + 1 + int64(rng.Intn(20)) // beyond the end
		if w > 1 && rng.Intn(2) == 0 {
			l = rng.Int63n(n - off + 1) // an ordinary section below the reaching one
		}
		t = &Term{T: "section", R: t, Off: off, N: l}
		n = min(l, n-off)
		if n <= 0 {
			n = 0
			break
		}
	}
	var ops []Op
	for _, o := range g.history(1, n, true) {
		if o.Op == "seek" && o.Wh == 2 {
			o.Wh, o.Off = 0, rng.Int63n(n+3)
		}
		ops = append(ops, o)
	}
	return Case{Term: *t, Lens: g.lens, Reqs: ops}
}

func randCase(rng *rand.Rand) Case {
	if rng.Intn(12) == 0 {
		return longCase(rng)
	}
	if rng.Intn(12) == 0 {
		return overCase(rng)
	}
	g := &gen{rng: rng, lens: map[string]int64{}}
	var t *Term
	var total int64
	unit := 1
	seekable := true
	switch rng.Intn(10) {
	case 0, 1, 2, 3:
		t, total = g.bitTerm(3)
		for !g.readable(t) {
			t, total = g.bitTerm(3)
		}
	case 4, 5, 6, 7:
		var nb int64
		t, nb = g.byteTerm(3)
		total, unit = nb, 8
	case 8:
		r, n := g.bitTerm(2)
		for !g.readable(r) {
			r, n = g.bitTerm(2)
		}
		l := int64(0)
		if n > 0 {
			l = rng.Int63n(n + 2)
		}
		t, total, seekable = &Term{T: "limit", R: r, N: l}, min(l, n), false
	default:
		r, n := g.bitTerm(2)
		for !g.readable(r) {
			r, n = g.bitTerm(2)
		}
		t, total, unit, seekable = &Term{T: "ioreader", R: r}, (n+7)/8, 8, false
	}
	return Case{Term: *t, Lens: g.lens, Reqs: g.history(unit, total, seekable)}
}

type job struct {
	Case Case  `json:"case"`
	Seed int64 `json:"seed"`
}

func main() {
	seed := kit.Seed()
	switch os.Args[1] {
	case "gen": // gen <n> <cases.ndjson>: seeded random cases
		n := kit.Atoi(os.Args[2])
		out := kit.NewOut(os.Args[3])
		rng := rand.New(rand.NewSource(seed))
		for i := 0; i < n; i++ {
			out.Emit(randCase(rng))
		}
		out.Close()
	case "run": // run <cases.ndjson> <events.ndjson> <nworkers>: execute cases in isolated workers
		var jobs []json.RawMessage
		var cases []Case
		kit.Cases(os.Args[2], func(i int, raw []byte) {
			var c Case
			kit.Unmarshal(raw, &c)
			cases = append(cases, c)
			b, _ := json.Marshal(job{Case: c, Seed: seed*1000003 + int64(i)})
			jobs = append(jobs, b)
		})
		evs := make([]json.RawMessage, len(jobs))
		self, _ := os.Executable()
		kit.RunPool(self, []string{"worker"}, jobs, kit.Atoi(os.Args[4]), 4000000, 60*time.Second, func(r kit.PoolResult) {
			if r.Outcome == "ok" {
				evs[r.ID] = r.Out
				return
			}
			// the process died (a panic in another goroutine, a fatal error) or stalled as a whole
			msg := r.Msg
			if len(msg) > 3000 {
				msg = msg[:3000]
			}
			ev := Event{Kind: "hist", Term: cases[r.ID].Term, Leaves: map[string][]int{}, Ops: []Op{}, Chunks: [][]int{}, OutB: []int{},
				Panic: r.Outcome + ": " + msg}
			b, _ := json.Marshal(ev)
			evs[r.ID] = b
		})
		out := kit.NewOut(os.Args[3])
		for _, e := range evs {
			out.Emit(e)
		}
		out.Close()
	case "worker":
		tmp, _ := os.MkdirTemp("", "c01")
		defer os.RemoveAll(tmp)
		kit.ServeWorker(func(raw json.RawMessage) any {
			var j job
			kit.Unmarshal(raw, &j)
			return runCase(j.Case, rand.New(rand.NewSource(j.Seed)), tmp)
		})
	case "stack":
		// stack <n> <events>: the stack fq puts under an opened file (ctx -> progress -> read-ahead 512 KiB -> bit reader),
		// through the real command line: byte windows of a 1.5 MiB file in an order that hits, misses and straddles cache blocks.
		n := kit.Atoi(os.Args[2])
		out := kit.NewOut(os.Args[3])
		rng := rand.New(rand.NewSource(seed))
		size := 3*512*1024 + 777
		data := make([]byte, size)
		rng.Read(data)
		type win struct{ A, B int }
		var ws []win
		edges := []int{0, 512 * 1024, 1024 * 1024, 3 * 512 * 1024, size}
		for i := 0; i < n; i++ {
			var a int
			switch rng.Intn(4) {
			case 0:
				a = edges[rng.Intn(len(edges))] - rng.Intn(40)
			case 1:
				a = size - rng.Intn(100)
			default:
				a = rng.Intn(size)
			}
			if a < 0 {
				a = 0
			}
			b := a + rng.Intn(48)
			if b > size {
				b = size
			}
			ws = append(ws, win{a, b})
		}
		arg, _ := json.Marshal(ws)
		res := kit.RunFQ([]string{"-d", "bytes", "-c", "--argjson", "ws", string(arg),
			". as $f | $ws[] | . as $w | [$w.A, $w.B, ($f | tobytes[$w.A:$w.B] | explode)]", "big.bin"}, map[string][]byte{"big.bin": data}, nil)
		dec := json.NewDecoder(bytes.NewReader(res.Stdout))
		k := 0
		for {
			var o []json.RawMessage
			if err := dec.Decode(&o); err != nil {
				break
			}
			var got []int
			json.Unmarshal(o[2], &got)
			if got == nil {
				got = []int{}
			}
			w := ws[k]
			gb := make([]byte, len(got))
			for i, x := range got {
				gb[i] = byte(x)
			}
			out.Emit(map[string]any{"kind": "window", "a": w.A, "b": w.B, "want": bitsOf(data[w.A:w.B], int64(w.B-w.A)*8),
				"got": bitsOf(gb, int64(len(gb))*8), "panic": "", "term": Term{T: "openfile"}, "leaves": map[string][]int{}, "ops": []Op{},
				"chunks": [][]int{}, "outbits": []int{}})
			k++
		}
		if k != len(ws) {
			kit.Fatalf("stack: %d results for %d windows: %s", k, len(ws), res.Stderr)
		}
		out.Close()
	case "write":
		n := kit.Atoi(os.Args[2])
		out := kit.NewOut(os.Args[3])
		rng := rand.New(rand.NewSource(seed))
		for i := 0; i < n; i++ {
			out.Emit(writeCase(rng, i))
		}
		out.Close()
	case "buffer":
		n := kit.Atoi(os.Args[2])
		out := kit.NewOut(os.Args[3])
		rng := rand.New(rand.NewSource(seed))
		for i := 0; i < n; i++ {
			out.Emit(bufferCase(rng, i))
		}
		out.Close()
	default:
		kit.Fatalf("unknown mode %q", os.Args[1])
	}
}

// writeCase: WriteBits sequences through IOBitWriter (+Flush) or bitio.Buffer (+Bits / ReadBits)
func writeCase(rng *rand.Rand, i int) (ev Event) {
	ev = Event{Kind: "write", Leaves: map[string][]int{}, Ops: []Op{}, Chunks: [][]int{}, OutB: []int{}, Term: Term{T: "writer"}}
	defer func() {
		if r := recover(); r != nil {
			ev.Panic = fmt.Sprint(r)
		}
	}()
	nch := 1 + rng.Intn(8)
	var bb bytes.Buffer
	w := bitio.NewIOBitWriter(&bb)
	var b bitio.Buffer
	useBuf := i%3 == 2
	for c := 0; c < nch; c++ {
		n := int64([]int{0, 1, 3, 7, 8, 9, 15, 16, 17, 31, 33, 63, 64, 65, 127, 200}[rng.Intn(16)])
		p := make([]byte, (n+7)/8+1)
		rng.Read(p)
		ev.Chunks = append(ev.Chunks, bitsOf(p, n))
		if useBuf {
			b.WriteBits(p, n)
		} else {
			w.WriteBits(p, n)
		}
	}
	if useBuf {
		bs, _ := b.Bits()
		ev.OutB = bitsOf(bs, int64(len(bs))*8)
	} else {
		w.Flush()
		ev.OutB = bitsOf(bb.Bytes(), int64(bb.Len())*8)
	}
	return ev
}

// bufferCase: bitio.Buffer as a bit queue: interleaved WriteBits / ReadBits / Len / Bits / Reset, every result recorded.
// One case in four is long: large chunks, never drained, so that hundreds of already read bytes stay in front of the unread ones.
func bufferCase(rng *rand.Rand, i int) (ev Event) {
	ev = Event{Kind: "buffer", Leaves: map[string][]int{}, Ops: []Op{}, Chunks: [][]int{}, OutB: []int{}, Term: Term{T: "buffer"}}
	defer func() {
		if r := recover(); r != nil {
			ev.Panic = fmt.Sprint(r)
		}
	}()
	long := i%4 == 3
	nops := 3 + rng.Intn(25)
	wsizes := []int64{0, 1, 3, 7, 8, 9, 15, 16, 17, 31, 33, 63, 64, 65, 127, 200}
	rsizes := []int64{0, 1, 2, 3, 5, 7, 8, 9, 13, 16, 17, 31, 32, 33, 63, 64, 65, 100, 130}
	if long {
		nops = 20 + rng.Intn(30)
		wsizes = []int64{3, 9, 64, 257, 600, 801, 1024, 2047}
		rsizes = []int64{1, 8, 63, 256, 511, 800, 1000}
	}
	var b bitio.Buffer
	var held int64
	for c := 0; c < nops; c++ {
		k := rng.Intn(20)
		switch {
		case k < 8 || (long && held < 16 && k < 16):
			n := wsizes[rng.Intn(len(wsizes))]
			p := make([]byte, (n+7)/8+1)
			rng.Read(p)
			w, err := b.WriteBits(p, n)
			ev.BOps = append(ev.BOps, BOp{Op: "write", Bits: bitsOf(p, n), K: w, Err: err != nil, Out: []int{}})
			held += n
		case k < 16:
			n := rsizes[rng.Intn(len(rsizes))]
			if long && n >= held && held > 1 {
				n = held - 1 // never drained: the buffer is only ever reset by a read that finds it empty
			}
			p := dirty((n+7)/8 + 1)
			r, err := b.ReadBits(p, n)
			o := BOp{Op: "read", Bits: []int{}, N: n, K: r, EOF: errors.Is(err, io.EOF), Err: err != nil && !errors.Is(err, io.EOF), Out: []int{}}
			if r >= 0 && r <= n {
				o.Out = bitsOf(p, r)
				held -= r
			}
			ev.BOps = append(ev.BOps, o)
		case k < 18:
			ev.BOps = append(ev.BOps, BOp{Op: "len", Bits: []int{}, Res: b.Len(), Out: []int{}})
		case k < 19 || long:
			bs, n := b.Bits()
			ev.BOps = append(ev.BOps, BOp{Op: "bits", Bits: []int{}, Res: n, Out: bitsOf(bs, int64(len(bs))*8)})
		default:
			b.Reset()
			held = 0
			ev.BOps = append(ev.BOps, BOp{Op: "reset", Bits: []int{}, Out: []int{}})
		}
	}
	return ev
}
