package main

// Seeded random jobs for trace validation (TraceLaws.tla).  Generators only produce INPUTS; whether an input is in
// a domain, well formed or malformed is decided by the spec.  Go's encoders are used here only to obtain plausible
// texts to damage (hex/base64/UTF-8/UTF-16 inputs of the decode jobs).

import (
	"encoding/base64"
	"encoding/hex"
	"fmt"
	"math/big"
	"math/rand"
	"os"
	"strings"
	"unicode/utf16"
)

type gen struct {
	rng *rand.Rand
}

var hostile = []string{"", "a", "yes", "no", "null", "true", "~", "1", "1e3", "0x10", "-", "- a", "a: b", "#c", " lead", "trail ",
	"multi\nline", "tab\t", "quote\"q", "back\\slash", "é😀", "\u0001", "\u001f", "\u007f", "a,b", "a=b", "a.b", "<x>&amp;", "]]>",
	"'single'", "key with space", " ", "0123", "+1", ".5", "1_000", "2020-01-01", "2020-01-01T00:00:00Z", "@at", "`bt`", "{x}", "[y]",
	"%25", "a b/c?d=e&f#g", "a\r\nb", "c\rd", "\\(x)", "\"", "#", "\ufeffbom", " ", "\u0085", " x", "=", "[", "{", "- ", "? x", "|", ">",
	"!!str", "&a", "*a", "%", "@", "`", "0o17", ".inf", ".nan", "<<", "y", "n", "on", "off", "\x00nul", "line1\nline2\n", "\n", "\t", "''", "\"\"",
	"-1", "1.0", "1e", "0b1", "inf", "nan", "+.inf", "12:30:00", "1:1", "a#b", "a #b", "a: ", ":", "a:", "<!--x-->", "<![CDATA[x]]>", "&#65;", "&lt;"}

func (g *gen) cp() int {
	switch r := g.rng.Intn(100); {
	case r < 45:
		return 32 + g.rng.Intn(95)
	case r < 52:
		return g.rng.Intn(32)
	case r < 55:
		return 127
	case r < 68:
		return 128 + g.rng.Intn(128)
	case r < 80:
		return 256 + g.rng.Intn(0x800-256)
	case r < 88:
		c := 0x800 + g.rng.Intn(0x10000-0x800)
		if c >= 0xd800 && c < 0xe000 {
			c = 0xd7ff
		}
		return c
	case r < 95:
		return 0x10000 + g.rng.Intn(0x100000)
	default:
		return []int{0xfeff, 0xfffd, 0xffff, 0x2028, 0x85, 0xa0, 0xd7ff, 0xe000, 0x10ffff, 0x10000, 0x7ff, 0x800}[g.rng.Intn(12)]
	}
}

func (g *gen) cps(n int) []int {
	out := make([]int, n)
	for i := range out {
		out[i] = g.cp()
	}
	return out
}

func (g *gen) size(exactMax, bigMax int) int {
	switch r := g.rng.Intn(100); {
	case r < 40:
		return g.rng.Intn(6)
	case r < 75:
		return g.rng.Intn(40)
	case r < 97:
		return g.rng.Intn(exactMax + 1)
	default:
		if bigMax <= exactMax {
			return g.rng.Intn(exactMax + 1)
		}
		return g.bigN(bigMax) - g.rng.Intn(3)
	}
}

func (g *gen) bytes(n int) []byte {
	b := make([]byte, n)
	switch g.rng.Intn(4) {
	case 0:
		for i := range b {
			if g.rng.Intn(6) == 0 {
				b[i] = byte(g.rng.Intn(256))
			}
		}
	case 1:
		for i := range b {
			b[i] = 0xff
			if g.rng.Intn(6) == 0 {
				b[i] = byte(g.rng.Intn(256))
			}
		}
	default:
		g.rng.Read(b)
	}
	return b
}

func (g *gen) str() string {
	if g.rng.Intn(3) > 0 {
		return hostile[g.rng.Intn(len(hostile))]
	}
	return strOfCps(g.cps(g.rng.Intn(12)))
}

// xml-friendly text: mostly trimmed strings of XML characters, sometimes not (the spec's domain predicate decides)
func (g *gen) xmlText() string {
	if g.rng.Intn(8) == 0 {
		return g.str()
	}
	pool := []string{"", "t", "text", "a<&>\"'b", "é😀", "x\r\ny", "a  b", "]]>", "1", "multi\nline", "c\rd", "tab\tx", "&amp;", "-"}
	return pool[g.rng.Intn(len(pool))]
}

func (g *gen) xmlName() string {
	if g.rng.Intn(15) == 0 {
		return g.str()
	}
	return []string{"a", "b", "c", "doc", "item", "a.b-c_d", "_x", "B2", "elm"}[g.rng.Intn(9)]
}

func (g *gen) num() any {
	switch g.rng.Intn(12) {
	case 0:
		return 0
	case 1:
		return 1
	case 2:
		return -1
	case 3:
		return g.rng.Intn(100000) - 50000
	case 4:
		bi, _ := new(big.Int).SetString([]string{"9223372036854775807", "9223372036854775808", "-9223372036854775808", "-9223372036854775809",
			"18446744073709551615", "12345678901234567890123", "2147483648", "9007199254740993"}[g.rng.Intn(8)], 10)
		return jqNum(bi)
	case 5:
		bi := new(big.Int).Rand(g.rng, new(big.Int).Lsh(big.NewInt(1), uint(1+g.rng.Intn(200))))
		if g.rng.Intn(2) == 0 {
			bi.Neg(bi)
		}
		return jqNum(bi)
	case 6:
		return []float64{0.5, -2.25, 1e21, 1e-7, 1.5e300, 0.1, 3.14159, -1e-300, 123456.789}[g.rng.Intn(9)]
	case 7:
		return g.rng.NormFloat64() * 1000
	default:
		return g.rng.Intn(300)
	}
}

func (g *gen) val(d int, nullok bool) any {
	c := g.rng.Intn(100)
	if d == 0 || c < 45 {
		switch k := g.rng.Intn(100); {
		case k < 45:
			return g.str()
		case k < 70:
			return g.num()
		case k < 80:
			return g.rng.Intn(2) == 0
		case k < 90 && nullok:
			return nil
		default:
			return g.str()
		}
	}
	n := g.rng.Intn(4)
	if c < 70 {
		out := make([]any, n)
		for i := range out {
			out[i] = g.val(d-1, nullok)
		}
		return out
	}
	out := map[string]any{}
	for i := 0; i < n; i++ {
		out[g.str()] = g.val(d-1, nullok)
	}
	return out
}

func (g *gen) xmlElem(d int) any {
	if d == 0 || g.rng.Intn(3) == 0 {
		return g.xmlText()
	}
	o := map[string]any{}
	if g.rng.Intn(3) == 0 {
		o["#text"] = g.xmlText()
	}
	for i := g.rng.Intn(3); i > 0; i-- {
		o["@"+g.xmlName()] = g.str()
	}
	for i := g.rng.Intn(3); i > 0; i-- {
		if g.rng.Intn(3) == 0 {
			n := 2 + g.rng.Intn(2)
			if g.rng.Intn(10) == 0 {
				n = g.rng.Intn(2)
			}
			a := make([]any, n)
			for k := range a {
				a[k] = g.xmlElem(d - 1)
			}
			o[g.xmlName()] = a
		} else {
			o[g.xmlName()] = g.xmlElem(d - 1)
		}
	}
	return o
}

func (g *gen) xmlArr(d int) any {
	var attrs any
	if g.rng.Intn(2) == 0 {
		o := map[string]any{}
		if g.rng.Intn(2) == 0 {
			o["#text"] = g.xmlText()
		}
		for i := g.rng.Intn(3); i > 0; i-- {
			o[g.xmlName()] = g.str()
		}
		if len(o) > 0 || g.rng.Intn(8) == 0 {
			attrs = o
		}
	}
	kids := []any{}
	if d > 0 {
		for i := g.rng.Intn(3); i > 0; i-- {
			kids = append(kids, g.xmlArr(d-1))
		}
	}
	return []any{g.xmlName(), attrs, kids}
}

// sizes beyond the exact zone: mostly a few KiB, sometimes 16 K, rarely the full 64 KiB
func (g *gen) bigN(max int) int {
	n := 300 + g.rng.Intn(1700)
	switch r := g.rng.Intn(20); {
	case r < 4:
		n = 4096
	case r < 6:
		n = 16000
	case r < 7:
		n = 65536
	}
	if n > max {
		n = max
	}
	return n
}

func (g *gen) bigString() string {
	n := g.bigN(65536)
	var sb strings.Builder
	for sb.Len() < n {
		if g.rng.Intn(4) == 0 {
			sb.WriteString(strOfCps(g.cps(8)))
		} else {
			sb.WriteString("lorem ipsum ")
		}
	}
	return sb.String()
}

// wide: collections of 11..40 members (two-digit indexes, more members than any small example has) for every serialiser
func (g *gen) wide(f string) any {
	n := 11 + g.rng.Intn(30)
	key := func(i int) string { return fmt.Sprintf("k%d", (i*7)%n) } // not in sorted order
	switch f {
	case "csv":
		rows := make([]any, n)
		for i := range rows {
			r := make([]any, n)
			for k := range r {
				r[k] = fmt.Sprintf("c%d.%d", i, k)
			}
			rows[i] = r
		}
		return rows
	case "xml":
		o := map[string]any{}
		for i := 0; i < n; i++ {
			o[fmt.Sprintf("e%d", i)] = g.xmlText()
			if i%5 == 0 {
				o["@a"+fmt.Sprint(i)] = g.str()
			}
		}
		return map[string]any{"doc": o}
	case "xmla", "xmlseq":
		kids := make([]any, n)
		for i := range kids {
			kids[i] = []any{[]string{"a", "b", "c"}[(i*i)%3], nil, []any{}}
			if i%4 == 1 {
				kids[i] = []any{"b", map[string]any{"#text": fmt.Sprint("t", i)}, []any{}}
			}
		}
		return []any{"doc", nil, kids}
	case "urlquery":
		o := map[string]any{}
		for i := 0; i < n; i++ {
			o[key(i)] = fmt.Sprint("v", i)
		}
		vals := make([]any, n)
		for i := range vals {
			vals[i] = fmt.Sprint(i)
		}
		o["many"] = vals
		return o
	case "jsonl":
		a := make([]any, n)
		for i := range a {
			a[i] = map[string]any{"i": i}
		}
		return a
	case "toml":
		o := map[string]any{}
		for i := 0; i < n; i++ {
			o[key(i)] = i
		}
		arr := make([]any, n)
		for i := range arr {
			arr[i] = map[string]any{"n": i}
		}
		o["tables"] = arr
		return o
	default: // json jq yaml and the indented forms
		o := map[string]any{}
		for i := 0; i < n; i++ {
			o[key(i)] = i
		}
		arr := make([]any, n)
		for i := range arr {
			arr[i] = i
		}
		return []any{o, arr}
	}
}

func (g *gen) serJob() M {
	fs := []string{"json", "jq", "yaml", "toml", "csv", "xml", "xmla", "xmlseq", "urlquery", "jsonl", "json_i", "jq_i"}
	f := fs[g.rng.Intn(len(fs))]
	big := g.rng.Intn(100) == 0
	if g.rng.Intn(25) == 0 {
		return M{"k": "ser", "f": f, "v": tag(g.wide(f))}
	}
	var v any
	switch f {
	case "json", "jq", "json_i", "jq_i":
		v = g.val(3, true)
		if big {
			v = []any{g.bigString(), map[string]any{"k": g.bigString()}}
		}
	case "jsonl":
		n := g.rng.Intn(4)
		a := make([]any, n)
		for i := range a {
			a[i] = g.val(2, true)
		}
		v = a
	case "yaml":
		v = g.val(3, true)
		switch v.(type) {
		case []any, map[string]any:
		default:
			if g.rng.Intn(10) > 0 {
				v = []any{v}
			}
		}
		if big {
			v = map[string]any{"k": g.bigString()}
		}
	case "toml":
		v = g.val(3, g.rng.Intn(8) == 0)
		if _, ok := v.(map[string]any); !ok && g.rng.Intn(10) > 0 {
			v = map[string]any{"k": v}
		}
		if m, ok := v.(map[string]any); ok && m["k"] == nil && len(m) == 1 && g.rng.Intn(3) > 0 {
			v = map[string]any{"k": "v"}
		}
		if big {
			v = map[string]any{"k": g.bigString()}
		}
	case "csv":
		rows, w := g.rng.Intn(4), 1+g.rng.Intn(3)
		if big {
			rows, w = 400, 8
		}
		a := make([]any, rows)
		for i := range a {
			ww := w
			if g.rng.Intn(25) == 0 {
				ww = g.rng.Intn(4)
			}
			r := make([]any, ww)
			for k := range r {
				r[k] = g.str()
				if big {
					r[k] = "cell" + g.str()
				}
			}
			a[i] = r
		}
		v = a
	case "xml":
		v = map[string]any{g.xmlName(): g.xmlElem(3)}
		if big {
			v = map[string]any{"a": map[string]any{"b": g.bigString() + "x", "@k": g.bigString()}}
		}
	case "xmla", "xmlseq":
		v = g.xmlArr(3)
	case "urlquery":
		o := map[string]any{}
		for i := g.rng.Intn(4); i > 0; i-- {
			if g.rng.Intn(3) == 0 {
				n := 2 + g.rng.Intn(2)
				if g.rng.Intn(8) == 0 {
					n = g.rng.Intn(2)
				}
				a := make([]any, n)
				for k := range a {
					a[k] = g.str()
				}
				o[g.str()] = a
			} else {
				o[g.str()] = g.str()
			}
		}
		v = o
	}
	return M{"k": "ser", "f": f, "v": tag(v)}
}

func damage(g *gen, s string, junk string) string {
	b := []byte(s)
	switch g.rng.Intn(5) {
	case 0: // drop one byte
		if len(b) > 0 {
			i := g.rng.Intn(len(b))
			b = append(b[:i:i], b[i+1:]...)
		}
	case 1: // insert a foreign byte
		i := g.rng.Intn(len(b) + 1)
		b = append(b[:i:i], append([]byte{junk[g.rng.Intn(len(junk))]}, b[i:]...)...)
	case 2: // replace one byte
		if len(b) > 0 {
			b[g.rng.Intn(len(b))] = junk[g.rng.Intn(len(junk))]
		}
	case 3: // cut the tail
		if len(b) > 0 {
			b = b[:g.rng.Intn(len(b))]
		}
	default: // append
		b = append(b, junk[g.rng.Intn(len(junk))])
	}
	return string(b)
}

const radixTable = "0123456789abcdefghijklmnopqrstuvwxyzABCDEFGHIJKLMNOPQRSTUVWXYZ@_"

func (g *gen) job(i int) M {
	r := g.rng.Intn(100)
	if only := os.Getenv("C14_ONLY"); only == "ser" { // development aid: serialiser jobs only
		r = 99
	}
	switch {
	case r < 15: // binaries: exact up to 256 bytes
		n := g.size(256, 256)*8 - g.rng.Intn(8)
		if n < 0 || g.rng.Intn(3) == 0 {
			n = g.size(256, 256) * 8
		}
		return M{"k": "bin", "x": 1, "bits": bitsOfBytes(g.bytes((n+7)/8), int64(n)), "h": g.rng.Intn(3) == 0}
	case r < 16: // whole bytes at any size: laws only
		return M{"k": "bytes", "x": 0, "inb": ints(g.bytes(g.bigN(65536) - g.rng.Intn(3))), "h": true}
	case r < 22:
		s := hex.EncodeToString(g.bytes(g.size(64, 64)))
		if g.rng.Intn(3) == 0 {
			s = strings.ToUpper(s)
		}
		if g.rng.Intn(2) == 0 {
			s = damage(g, s, "gG xz-0aF")
		}
		return M{"k": "unhex", "txt": ints([]byte(s))}
	case r < 32:
		v := b64Variants[g.rng.Intn(4)]
		enc := map[string]*base64.Encoding{"std": base64.StdEncoding, "url": base64.URLEncoding, "rawstd": base64.RawStdEncoding, "rawurl": base64.RawURLEncoding}
		src := b64Variants[g.rng.Intn(4)]
		if g.rng.Intn(3) > 0 {
			src = v
		}
		s := enc[src].EncodeToString(g.bytes(g.size(64, 64)))
		if g.rng.Intn(2) == 0 {
			s = damage(g, s, "=+/-_!A Q\n")
		}
		j := M{"k": "unb64", "variant": v, "txt": ints([]byte(s)), "dflt": false}
		if v == "std" && g.rng.Intn(3) == 0 {
			j["dflt"] = true
		}
		return j
	case r < 40:
		base := 2 + g.rng.Intn(63)
		n := 1 + g.rng.Intn(40)
		b := make([]byte, n)
		for k := range b {
			b[k] = radixTable[g.rng.Intn(base)]
			if g.rng.Intn(6) == 0 {
				b[k] = '0'
			}
		}
		if g.rng.Intn(4) == 0 { // a digit that is not one of the base, or not a digit at all
			if base < 64 && g.rng.Intn(4) > 0 {
				b[g.rng.Intn(n)] = radixTable[base+g.rng.Intn(64-base)]
			} else {
				b[g.rng.Intn(n)] = "!-+ .G#"[g.rng.Intn(7)]
			}
		}
		return M{"k": "fromradix", "x": 1, "base": base, "txt": ints(b)}
	case r < 48:
		base := 2 + g.rng.Intn(63)
		if g.rng.Intn(3) == 0 {
			base = []int{2, 8, 10, 16, 36, 62, 64}[g.rng.Intn(7)]
		}
		nb, x := g.rng.Intn(260), 1
		if g.rng.Intn(12) == 0 {
			nb, x = 300+g.rng.Intn(3800), 0
		}
		bi := new(big.Int).Rand(g.rng, new(big.Int).Lsh(big.NewInt(1), uint(nb)))
		switch g.rng.Intn(6) {
		case 0:
			bi = new(big.Int).Lsh(big.NewInt(1), uint(nb))
		case 1:
			bi = new(big.Int).Sub(new(big.Int).Lsh(big.NewInt(1), uint(nb)), big.NewInt(1))
		}
		return M{"k": "toradix", "x": x, "base": base, "bits": bitsOfBig(bi)}
	case r < 58:
		n, x := g.rng.Intn(50), 1
		if g.rng.Intn(40) == 0 {
			n, x = g.bigN(16000), 0
		}
		cps := g.cps(n)
		if g.rng.Intn(3) == 0 { // ISO-8859-1 representable
			for k := range cps {
				cps[k] %= 256
			}
		}
		return M{"k": "enc", "x": x, "cps": cps}
	case r < 66:
		en := encNames[g.rng.Intn(4)]
		cps := g.cps(g.rng.Intn(12))
		var b []byte
		switch en {
		case "UTF8":
			b = []byte(strOfCps(cps))
		default:
			us := utf16.Encode([]rune(strOfCps(cps)))
			if g.rng.Intn(3) == 0 && len(us) > 0 { // an unpaired surrogate
				us[g.rng.Intn(len(us))] = uint16(0xd800 + g.rng.Intn(0x800))
			}
			be := en == "UTF16BE"
			if en == "UTF16" {
				switch g.rng.Intn(3) {
				case 0:
					us = append([]uint16{0xfeff}, us...)
				case 1:
					us = append([]uint16{0xfeff}, us...)
					be = true
				}
			}
			for _, u := range us {
				if be {
					b = append(b, byte(u>>8), byte(u))
				} else {
					b = append(b, byte(u), byte(u>>8))
				}
			}
		}
		if g.rng.Intn(2) == 0 {
			b = []byte(damage(g, string(b), "\xff\x80\xc0\xed\xa0\xf4\x90A\x00\xd8\xdc"))
		}
		return M{"k": "dec", "enc": en, "inb": ints(b)}
	case r < 74:
		n, x := g.rng.Intn(40), 1
		if g.rng.Intn(40) == 0 {
			n, x = g.bigN(16000), 0
		}
		cps := g.cps(n)
		for k := range cps {
			if g.rng.Intn(3) == 0 {
				cps[k] = int(" %+/?&=#;,:@$~-_.!*'()[]<>\"\\^`{|}"[g.rng.Intn(33)])
			}
		}
		return M{"k": "url", "x": x, "cps": cps}
	case r < 80:
		n := g.rng.Intn(20)
		b := make([]byte, n)
		for k := range b {
			b[k] = "%%%+0123456789abcdefABCDEFgxz /~"[g.rng.Intn(31)]
		}
		return M{"k": "unurl", "txt": ints(b)}
	default:
		return g.serJob()
	}
}
