// c14: binds Laws.tla to fq's conversion functions (format/text, format/math/radix.jq, format/crypto,
// format/json, yaml, toml, xml, csv).
//
//	c14 replay <jobs.ndjson> <events.ndjson>   run TLC-emitted (or replayed) jobs through real fq
//	c14 rand <n> <events.ndjson>               seeded random jobs (bytes/strings/big integers/values up to 64 KiB)
//
// fq runs in-process through the CLI entry point (interp.Main, `-n <program>`) with a virtual OS; a few hundred
// jobs are evaluated per interpreter run.  Inputs are handed to jq by the harness-registered function
// _c14in($id) and every result is captured as a Go value by _c14s($id; $slot) / _c14e($id; $slot); nothing goes
// through text.  The harness contains NO expectation about any conversion: it projects real values into the
// shapes of Laws.tla (bytes, code points, bit sequences, tagged JSON values).  The one exception is the hash
// family, where Go's crypto packages are the stated oracle (`ref` field).
package main

import (
	"bytes"
	"context"
	"crypto/md5"
	"crypto/sha1"
	"crypto/sha256"
	"crypto/sha512"
	"encoding/json"
	"fmt"
	"hash"
	"io"
	"io/fs"
	"math"
	"math/big"
	"math/rand"
	"os"
	"sort"
	"strconv"
	"strings"

	_ "github.com/wader/fq/format/all"
	"github.com/wader/fq/internal/bitiox"
	"github.com/wader/fq/internal/verif/kit"
	"github.com/wader/fq/pkg/bitio"
	"github.com/wader/fq/pkg/interp"
	"github.com/wader/gojq"
	"golang.org/x/crypto/md4"
	"golang.org/x/crypto/sha3"
)

type M = map[string]any

// ---------------------------------------------------------------- capture functions

var inputs map[int]func() any
var slots map[string]any

type errMark struct{ msg string }

func init() {
	interp.RegisterFunc1("_c14in", func(_ *interp.Interp, _ any, id int) any {
		f, ok := inputs[id]
		if !ok {
			return fmt.Errorf("c14: no input %d", id)
		}
		return f()
	})
	interp.RegisterFunc2("_c14s", func(_ *interp.Interp, c any, id int, name string) any {
		slots[strconv.Itoa(id)+":"+name] = c
		return c
	})
	interp.RegisterFunc2("_c14e", func(_ *interp.Interp, c any, id int, name string) any {
		slots[strconv.Itoa(id)+":"+name] = errMark{fmt.Sprint(c)}
		return nil
	})
}

func slot(id int, name string) (any, bool) {
	v, ok := slots[strconv.Itoa(id)+":"+name]
	return v, ok
}

// ---------------------------------------------------------------- virtual OS / fq runner (as harness/c09)

type vfs struct{}

func (vfs) Open(name string) (fs.File, error) {
	return nil, &fs.PathError{Op: "open", Path: name, Err: fs.ErrNotExist}
}

type vin struct{ interp.FileReader }

func (vin) IsTerminal() bool { return false }
func (vin) Size() (int, int) { return 120, 25 }

type vout struct{ io.Writer }

func (vout) Size() (int, int) { return 120, 25 }
func (vout) IsTerminal() bool { return false }

type vos struct {
	args           []string
	stdout, stderr *bytes.Buffer
}

func (o *vos) Platform() interp.Platform { return interp.Platform{} }
func (o *vos) Stdin() interp.Input {
	return vin{FileReader: interp.FileReader{R: bytes.NewBuffer(nil)}}
}
func (o *vos) Stdout() interp.Output                             { return vout{o.stdout} }
func (o *vos) Stderr() interp.Output                             { return vout{o.stderr} }
func (o *vos) InterruptChan() chan struct{}                      { return nil }
func (o *vos) Environ() []string                                 { return []string{"NO_COLOR=1", "NO_DECODE_PROGRESS=1"} }
func (o *vos) Args() []string                                    { return o.args }
func (o *vos) ConfigDir() (string, error)                        { return "/config", nil }
func (o *vos) FS() fs.FS                                         { return vfs{} }
func (o *vos) History() ([]string, error)                        { return nil, nil }
func (o *vos) Readline(opts interp.ReadlineOpts) (string, error) { return "", io.EOF }

func runFq(prog string) {
	o := &vos{args: []string{"fq", "-n", prog}, stdout: &bytes.Buffer{}, stderr: &bytes.Buffer{}}
	i, err := interp.New(o, interp.DefaultRegistry)
	if err != nil {
		kit.Fatalf("interp.New: %v", err)
	}
	if err := i.Main(context.Background(), o.Stdout(), "verif"); err != nil {
		if len(prog) > 1500 {
			prog = prog[len(prelude):]
			if len(prog) > 600 {
				prog = prog[:600] + "..."
			}
		}
		kit.Fatalf("fq failed: %v\nstderr: %.2000s\nprogram: %s", err, o.stderr.String(), prog)
	}
}

// every job is one call of one of these; each catches its own errors and yields nothing
const prelude = `
def _bin0($n; $b):
  ( ($b | try (to_hex | _c14s($n;"hex") | from_hex | _c14s($n;"unhex")) catch _c14e($n;"hexerr"))
  , ($b | try (to_base64 | _c14s($n;"b64_default")) catch _c14e($n;"b64_default"))
  , (("std","url","rawstd","rawurl") as $v | $b
     | try (to_base64({encoding:$v}) | _c14s($n;"b64_"+$v) | from_base64({encoding:$v}) | _c14s($n;"unb64_"+$v)) catch _c14e($n;"b64err_"+$v))
  | empty);
def _hash($n; $b):
  ( ($b | try (to_md4 | _c14s($n;"h_md4")) catch _c14e($n;"h_md4"))
  , ($b | try (to_md5 | _c14s($n;"h_md5")) catch _c14e($n;"h_md5"))
  , ($b | try (to_sha1 | _c14s($n;"h_sha1")) catch _c14e($n;"h_sha1"))
  , ($b | try (to_sha256 | _c14s($n;"h_sha256")) catch _c14e($n;"h_sha256"))
  , ($b | try (to_sha512 | _c14s($n;"h_sha512")) catch _c14e($n;"h_sha512"))
  , ($b | try (to_sha3_224 | _c14s($n;"h_sha3_224")) catch _c14e($n;"h_sha3_224"))
  , ($b | try (to_sha3_256 | _c14s($n;"h_sha3_256")) catch _c14e($n;"h_sha3_256"))
  , ($b | try (to_sha3_384 | _c14s($n;"h_sha3_384")) catch _c14e($n;"h_sha3_384"))
  , ($b | try (to_sha3_512 | _c14s($n;"h_sha3_512")) catch _c14e($n;"h_sha3_512"))
  | empty);
def _bin($n; $off; $len; $h): (_c14in($n) | tobits | .[$off:$off+$len]) as $b | (_bin0($n; $b), if $h then _hash($n; $b) else empty end);
def _bytes($n; $h): _c14in($n) as $b | (_bin0($n; $b), if $h then _hash($n; $b) else empty end);
def _unhex($n): _c14in($n) | try (from_hex | _c14s($n;"out")) catch _c14e($n;"out") | empty;
def _unb64($n; $v): _c14in($n) | try (from_base64({encoding:$v}) | _c14s($n;"out")) catch _c14e($n;"out") | empty;
def _unb64d($n): _c14in($n) | try (from_base64 | _c14s($n;"out")) catch _c14e($n;"out") | empty;
def _fromradix($n; $base): _c14in($n) | try (from_radix($base) | _c14s($n;"out")) catch _c14e($n;"out") | empty;
def _toradix($n; $base): _c14in($n) | try (to_radix($base) | _c14s($n;"out") | from_radix($base) | _c14s($n;"rt")) catch _c14e($n;"err") | empty;
def _enc1($e): if $e == "UTF8" then to_utf8 elif $e == "UTF16" then to_utf16 elif $e == "UTF16LE" then to_utf16le
  elif $e == "UTF16BE" then to_utf16be elif $e == "ISO8859_1" then to_iso8859_1 else error("enc") end;
def _dec1($e): if $e == "UTF8" then from_utf8 elif $e == "UTF16" then from_utf16 elif $e == "UTF16LE" then from_utf16le
  elif $e == "UTF16BE" then from_utf16be elif $e == "ISO8859_1" then from_iso8859_1 else error("enc") end;
def _enc($n): _c14in($n) as $s | ("UTF8","UTF16","UTF16LE","UTF16BE","ISO8859_1") as $e
  | $s | try (_enc1($e) | _c14s($n;"enc_"+$e) | _dec1($e) | _c14s($n;"rt_"+$e)) catch _c14e($n;"err_"+$e) | empty;
def _decbad($n; $e): _c14in($n) | try (_dec1($e) | _c14s($n;"out")) catch _c14e($n;"out") | empty;
def _url($n): _c14in($n) as $s
  | ( ($s | try (to_urlencode | _c14s($n;"comp") | from_urlencode | _c14s($n;"rtcomp")) catch _c14e($n;"errcomp"))
    , ($s | try (to_urlpath | _c14s($n;"path") | from_urlpath | _c14s($n;"rtpath")) catch _c14e($n;"errpath")) )
  | empty;
def _unurl($n): _c14in($n) as $s
  | ( ($s | try (from_urlencode | _c14s($n;"comp")) catch _c14e($n;"comp"))
    , ($s | try (from_urlpath | _c14s($n;"path")) catch _c14e($n;"path")) )
  | empty;
def _to($f): if $f == "json" then tojson elif $f == "jq" then to_jq elif $f == "jsonl" then to_jsonl elif $f == "yaml" then to_yaml
  elif $f == "toml" then to_toml elif $f == "csv" then to_csv elif $f == "xml" or $f == "xmla" or $f == "xmlseq" then to_xml
  elif $f == "urlquery" then to_urlquery elif $f == "json_i" then tojson({indent:2}) elif $f == "jq_i" then to_jq({indent:2})
  else error("ser") end;
def _from($f): if $f == "json" or $f == "json_i" then fromjson elif $f == "jq" or $f == "jq_i" then from_jq elif $f == "jsonl" then from_jsonl
  elif $f == "yaml" then from_yaml elif $f == "toml" then from_toml elif $f == "csv" then from_csv elif $f == "xml" then from_xml
  elif $f == "xmla" then from_xml({array:true})
  elif $f == "xmlseq" then (from_xml({seq:true}) | to_xml | from_xml({array:true}))
  elif $f == "urlquery" then from_urlquery else error("ser") end;
def _ser($n; $f): _c14in($n) | try (_to($f) | _c14s($n;"txt") | _from($f) | _c14s($n;"rt")) catch _c14e($n;"err") | empty;
def _bad($n; $f): _c14in($n) | try (_from($f) | _c14s($n;"out")) catch _c14e($n;"out") | empty;
`

// ---------------------------------------------------------------- projections (no expectations)

func ints(b []byte) []int {
	out := make([]int, len(b))
	for i, x := range b {
		out[i] = int(x)
	}
	return out
}

func cpsOf(s string) []int {
	out := []int{}
	for _, r := range s {
		out = append(out, int(r))
	}
	return out
}

func strOfCps(cps []int) string {
	var sb strings.Builder
	for _, c := range cps {
		sb.WriteRune(rune(c))
	}
	return sb.String()
}

func bitsOfBytes(buf []byte, n int64) []int {
	out := make([]int, n)
	for i := int64(0); i < n; i++ {
		out[i] = int(buf[i/8]>>(7-uint(i%8))) & 1
	}
	return out
}

// bytes of a binary result (from_hex, from_base64, to_utf8, to_md5, ...); ok=false when it is not one
func binBytes(v any) ([]byte, bool) {
	switch vv := v.(type) {
	case interp.Binary:
		br, err := interp.ToBitReader(vv)
		if err != nil {
			return nil, false
		}
		n, err := bitiox.Len(br)
		if err != nil || n%8 != 0 {
			return nil, false
		}
		buf := make([]byte, n/8)
		if n > 0 {
			if _, err := bitio.ReadAtFull(br, buf, n, 0); err != nil {
				return nil, false
			}
		}
		return buf, true
	}
	return nil, false
}

func plain(v any) any {
	if j, ok := v.(gojq.JQValue); ok {
		return j.JQValueToGoJQ()
	}
	return v
}

func digitsOf(bi *big.Int) []int {
	s := new(big.Int).Abs(bi).String()
	out := make([]int, len(s))
	for i, c := range s {
		out[i] = int(c - '0')
	}
	return out
}

func numVal(v any) M {
	var bi *big.Int
	switch n := v.(type) {
	case int:
		bi = big.NewInt(int64(n))
	case *big.Int:
		bi = n
	case float64:
		if math.IsNaN(n) || math.IsInf(n, 0) {
			return M{"t": "num", "k": "flt", "neg": n < 0, "txt": fmt.Sprint(n)}
		}
		if n == math.Trunc(n) {
			bi, _ = new(big.Float).SetFloat64(n).Int(nil)
		} else {
			return M{"t": "num", "k": "flt", "neg": n < 0, "txt": strconv.FormatFloat(n, 'g', -1, 64)}
		}
	}
	return M{"t": "num", "k": "int", "neg": bi.Sign() < 0, "d": digitsOf(bi)}
}

// tagged form of a jq value (Laws.tla part 2)
func tag(v any) M {
	switch vv := plain(v).(type) {
	case nil:
		return M{"t": "null"}
	case bool:
		return M{"t": "bool", "b": vv}
	case int, *big.Int, float64:
		return numVal(vv)
	case string:
		return M{"t": "str", "cp": cpsOf(vv)}
	case []any:
		es := make([]any, len(vv))
		for i, e := range vv {
			es[i] = tag(e)
		}
		return M{"t": "arr", "e": es}
	case map[string]any:
		ks := make([]string, 0, len(vv))
		for k := range vv {
			ks = append(ks, k)
		}
		sort.Slice(ks, func(i, j int) bool { return lexLess(cpsOf(ks[i]), cpsOf(ks[j])) })
		kk := make([]any, len(ks))
		es := make([]any, len(ks))
		for i, k := range ks {
			kk[i] = cpsOf(k)
			es[i] = tag(vv[k])
		}
		return M{"t": "obj", "ks": kk, "e": es}
	default:
		return M{"t": "other", "go": fmt.Sprintf("%T", v)}
	}
}

func lexLess(a, b []int) bool {
	for i := 0; i < len(a) && i < len(b); i++ {
		if a[i] != b[i] {
			return a[i] < b[i]
		}
	}
	return len(a) < len(b)
}

func asInts(v any) []int {
	a, _ := v.([]any)
	out := make([]int, len(a))
	for i, x := range a {
		f, _ := x.(float64)
		out[i] = int(f)
	}
	return out
}

func bytesOfInts(a []int) []byte {
	out := make([]byte, len(a))
	for i, x := range a {
		out[i] = byte(x)
	}
	return out
}

// untag builds the jq value of a tagged record (numbers in gojq's normal form: int, *big.Int, float64)
func untag(m M) any {
	switch m["t"] {
	case "null":
		return nil
	case "bool":
		return m["b"].(bool)
	case "num":
		if m["k"] == "flt" {
			f, err := strconv.ParseFloat(m["txt"].(string), 64)
			if err != nil {
				kit.Fatalf("bad float %v", m["txt"])
			}
			return f
		}
		var sb strings.Builder
		if neg, _ := m["neg"].(bool); neg {
			sb.WriteByte('-')
		}
		for _, d := range asInts(m["d"]) {
			sb.WriteByte(byte('0' + d))
		}
		bi, ok := new(big.Int).SetString(sb.String(), 10)
		if !ok {
			kit.Fatalf("bad int %v", m)
		}
		if bi.IsInt64() {
			return int(bi.Int64())
		}
		return bi
	case "str":
		return strOfCps(asInts(m["cp"]))
	case "arr":
		es, _ := m["e"].([]any)
		out := make([]any, len(es))
		for i, e := range es {
			out[i] = untag(e.(M))
		}
		return out
	case "obj":
		ks, _ := m["ks"].([]any)
		es, _ := m["e"].([]any)
		out := map[string]any{}
		for i := range ks {
			out[strOfCps(asInts(ks[i]))] = untag(es[i].(M))
		}
		return out
	}
	kit.Fatalf("bad tagged value %v", m)
	return nil
}

// retag normalises a tagged value that came from JSON (float64 digits) to the form tag() writes
func retag(m M) M { return tag(untag(m)) }

func bitsOfBig(bi *big.Int) []int {
	if bi.Sign() == 0 {
		return []int{}
	}
	s := bi.Text(2)
	out := make([]int, len(s))
	for i, c := range s {
		out[i] = int(c - '0')
	}
	return out
}

func bigOfBits(bits []int) *big.Int {
	bi := new(big.Int)
	for _, b := range bits {
		bi.Lsh(bi, 1)
		if b == 1 {
			bi.Or(bi, big.NewInt(1))
		}
	}
	return bi
}

func jqNum(bi *big.Int) any {
	if bi.IsInt64() {
		return int(bi.Int64())
	}
	return bi
}

// natural-number result as a bit sequence; isnat=false for anything else
func natBits(v any) ([]int, bool) {
	switch n := plain(v).(type) {
	case int:
		if n >= 0 {
			return bitsOfBig(big.NewInt(int64(n))), true
		}
	case *big.Int:
		if n.Sign() >= 0 {
			return bitsOfBig(n), true
		}
	case float64:
		if n >= 0 && n == math.Trunc(n) && !math.IsInf(n, 0) {
			bi, _ := new(big.Float).SetFloat64(n).Int(nil)
			return bitsOfBig(bi), true
		}
	}
	return []int{}, false
}

// ---------------------------------------------------------------- jobs

var hashNames = []string{"md4", "md5", "sha1", "sha256", "sha512", "sha3_224", "sha3_256", "sha3_384", "sha3_512"}
var b64Variants = []string{"std", "url", "rawstd", "rawurl"}
var encNames = []string{"UTF8", "UTF16", "UTF16LE", "UTF16BE", "ISO8859_1"}

func refHash(name string, b []byte) []byte {
	var h hash.Hash
	switch name {
	case "md4":
		h = md4.New()
	case "md5":
		h = md5.New()
	case "sha1":
		h = sha1.New()
	case "sha256":
		h = sha256.New()
	case "sha512":
		h = sha512.New()
	case "sha3_224":
		h = sha3.New224()
	case "sha3_256":
		h = sha3.New256()
	case "sha3_384":
		h = sha3.New384()
	case "sha3_512":
		h = sha3.New512()
	}
	h.Write(b)
	return h.Sum(nil)
}

func byteBinary(b []byte) any {
	bin, err := interp.NewBinaryFromBitReader(bitio.NewBitReader(b, -1), 8, 0)
	if err != nil {
		kit.Fatalf("binary: %v", err)
	}
	return bin
}

func str(j M, k string) string { s, _ := j[k].(string); return s }
func num(j M, k string) int    { f, _ := j[k].(float64); return int(f) }
func flag(j M, k string) bool  { b, _ := j[k].(bool); return b }

// prepare registers the input of a job and returns its jq call
func prepare(id int, j M) string {
	switch str(j, "k") {
	case "bin": // exact zone: a binary of len(bits) bits that starts `off` bits into its buffer
		bits := asInts(j["bits"])
		off := id % 8
		if len(bits) == 0 {
			off = 0
		}
		buf := make([]byte, (off+len(bits)+7)/8+1)
		for i := range buf {
			buf[i] = 0xa5 // junk around the window
		}
		for i, b := range bits {
			p := off + i
			if b == 1 {
				buf[p/8] |= 1 << (7 - uint(p%8))
			} else {
				buf[p/8] &^= 1 << (7 - uint(p%8))
			}
		}
		inputs[id] = func() any { return byteBinary(buf) }
		return fmt.Sprintf("_bin(%d;%d;%d;%v)", id, off, len(bits), flag(j, "h"))
	case "bytes": // law zone: whole bytes, any size
		b := bytesOfInts(asInts(j["inb"]))
		inputs[id] = func() any { return byteBinary(b) }
		return fmt.Sprintf("_bytes(%d;%v)", id, flag(j, "h"))
	case "unhex":
		s := string(bytesOfInts(asInts(j["txt"])))
		inputs[id] = func() any { return s }
		return fmt.Sprintf("_unhex(%d)", id)
	case "unb64":
		s := string(bytesOfInts(asInts(j["txt"])))
		inputs[id] = func() any { return s }
		if flag(j, "dflt") {
			return fmt.Sprintf("_unb64d(%d)", id)
		}
		return fmt.Sprintf("_unb64(%d;%q)", id, str(j, "variant"))
	case "fromradix":
		s := string(bytesOfInts(asInts(j["txt"])))
		inputs[id] = func() any { return s }
		return fmt.Sprintf("_fromradix(%d;%d)", id, num(j, "base"))
	case "toradix":
		bi := bigOfBits(asInts(j["bits"]))
		inputs[id] = func() any { return jqNum(new(big.Int).Set(bi)) }
		return fmt.Sprintf("_toradix(%d;%d)", id, num(j, "base"))
	case "enc", "url":
		s := strOfCps(asInts(j["cps"]))
		inputs[id] = func() any { return s }
		return fmt.Sprintf("_%s(%d)", str(j, "k"), id)
	case "dec":
		b := bytesOfInts(asInts(j["inb"]))
		inputs[id] = func() any { return byteBinary(b) }
		return fmt.Sprintf("_decbad(%d;%q)", id, str(j, "enc"))
	case "unurl":
		s := string(bytesOfInts(asInts(j["txt"])))
		inputs[id] = func() any { return s }
		return fmt.Sprintf("_unurl(%d)", id)
	case "ser":
		v := j["v"].(M)
		inputs[id] = func() any { return untag(v) } // a fresh copy per call: some encoders normalise their input in place
		return fmt.Sprintf("_ser(%d;%q)", id, str(j, "f"))
	case "bad":
		s := str(j, "doc")
		inputs[id] = func() any { return s }
		return fmt.Sprintf("_bad(%d;%q)", id, str(j, "f"))
	}
	kit.Fatalf("unknown job kind %v", j["k"])
	return ""
}

func isErr(v any) bool { _, ok := v.(errMark); return ok }

// text result (a jq string) as bytes
func textOf(id int, name string) ([]int, bool) {
	v, ok := slot(id, name)
	if !ok || isErr(v) {
		return []int{}, false
	}
	s, ok := plain(v).(string)
	if !ok {
		return []int{}, false
	}
	return ints([]byte(s)), true
}

func binOf(id int, name string) ([]int, bool) {
	v, ok := slot(id, name)
	if !ok || isErr(v) {
		return []int{}, false
	}
	b, ok := binBytes(v)
	if !ok {
		return []int{}, false
	}
	return ints(b), true
}

func cpsSlot(id int, name string) ([]int, bool) {
	v, ok := slot(id, name)
	if !ok || isErr(v) {
		return []int{}, false
	}
	s, ok := plain(v).(string)
	if !ok {
		return []int{}, false
	}
	return cpsOf(s), true
}

func errText(id int, names ...string) string {
	for _, n := range names {
		if v, ok := slot(id, n); ok {
			if e, ok := v.(errMark); ok {
				if len(e.msg) > 200 {
					return e.msg[:200]
				}
				return e.msg
			}
		}
	}
	return ""
}

// collect turns the captured slots of a job into its event: the job's own fields plus what fq did
func collect(id int, j M) M {
	e := M{}
	for k, v := range j {
		e[k] = v
	}
	switch str(j, "k") {
	case "bin", "bytes":
		var padded []byte
		if str(j, "k") == "bin" {
			bits := asInts(j["bits"])
			padded = make([]byte, (len(bits)+7)/8)
			for i, b := range bits {
				if b == 1 {
					padded[i/8] |= 1 << (7 - uint(i%8))
				}
			}
		} else {
			padded = bytesOfInts(asInts(j["inb"]))
		}
		e["hex"], e["hexok"] = textOf(id, "hex")
		e["unhex"], e["unhexok"] = binOf(id, "unhex")
		e["b64d"], e["b64dok"] = textOf(id, "b64_default")
		b64, ok64, un, unok := M{}, M{}, M{}, M{}
		for _, v := range b64Variants {
			b64[v], ok64[v] = textOf(id, "b64_"+v)
			un[v], unok[v] = binOf(id, "unb64_"+v)
		}
		e["b64"], e["b64ok"], e["unb64"], e["unb64ok"] = b64, ok64, un, unok
		hs := []any{}
		if flag(j, "h") {
			for _, h := range hashNames {
				out, ok := binOf(id, "h_"+h)
				// the stated oracle for hashes: Go's crypto over the zero-padded bytes
				hs = append(hs, M{"h": h, "ok": ok, "out": out, "ref": ints(refHash(h, padded))})
			}
		}
		e["hashes"] = hs
	case "unhex", "unb64":
		e["out"], e["ok"] = binOf(id, "out")
		e["err"] = errText(id, "out")
	case "fromradix":
		v, ok := slot(id, "out")
		e["ok"] = ok && !isErr(v)
		e["bitsout"], e["isnat"] = []int{}, false
		if ok && !isErr(v) {
			e["bitsout"], e["isnat"] = natBits(v)
		}
		e["err"] = errText(id, "out")
	case "toradix":
		e["out"], e["ok"] = textOf(id, "out")
		v, ok := slot(id, "rt")
		e["rtok"] = ok && !isErr(v)
		e["rt"], e["rtnat"] = []int{}, false
		if ok && !isErr(v) {
			e["rt"], e["rtnat"] = natBits(v)
		}
		e["err"] = errText(id, "err")
	case "enc":
		rs := []any{}
		for _, en := range encNames {
			out, ok := binOf(id, "enc_"+en)
			rt, rtok := cpsSlot(id, "rt_"+en)
			rs = append(rs, M{"enc": en, "ok": ok, "out": out, "rtok": rtok, "rt": rt})
		}
		e["r"] = rs
	case "dec":
		e["cpsout"], e["ok"] = cpsSlot(id, "out")
	case "url":
		e["comp"], e["compok"] = textOf(id, "comp")
		e["rtcomp"], e["rtcompok"] = cpsSlot(id, "rtcomp")
		e["path"], e["pathok"] = textOf(id, "path")
		e["rtpath"], e["rtpathok"] = cpsSlot(id, "rtpath")
	case "unurl":
		e["comp"], e["compok"] = textOf(id, "comp")
		e["path"], e["pathok"] = textOf(id, "path")
	case "ser":
		e["v"] = retag(j["v"].(M))
		v, ok := slot(id, "rt")
		e["ok"] = ok && !isErr(v)
		if ok && !isErr(v) {
			e["rt"] = tag(v)
		} else {
			e["rt"] = M{"t": "none"}
		}
		e["err"] = errText(id, "err")
		if t, ok := slot(id, "txt"); ok {
			if s, ok := plain(t).(string); ok {
				e["txtlen"] = len(s)
				if len(s) <= 300 {
					e["doc"] = s
				}
			}
		}
	case "bad":
		v, ok := slot(id, "out")
		e["ok"] = ok && !isErr(v)
		e["got"] = ""
		if ok && !isErr(v) {
			b, _ := json.Marshal(tag(v))
			if len(b) > 300 {
				b = b[:300]
			}
			e["got"] = string(b)
		}
		e["err"] = errText(id, "out")
	}
	return e
}

func cost(j M) int {
	n := 1
	for _, k := range []string{"bits", "inb", "cps", "txt"} {
		if a, ok := j[k].([]any); ok {
			n += len(a) / 64
		}
	}
	if flag(j, "h") {
		n += 2
	}
	return n
}

func evalJobs(js []M, out *kit.Out) {
	inputs = map[int]func() any{}
	slots = map[string]any{}
	calls := make([]string, len(js))
	for i, j := range js {
		calls[i] = prepare(i, j)
	}
	runFq(prelude + strings.Join(calls, ",\n"))
	for i, j := range js {
		out.Emit(collect(i, j))
	}
}

func runAll(next func() (M, bool), out *kit.Out) {
	var cur []M
	budget := 0
	for {
		j, ok := next()
		if ok {
			cur = append(cur, j)
			budget += cost(j)
		}
		if len(cur) > 0 && (!ok || budget >= 1200) {
			evalJobs(cur, out)
			cur, budget = cur[:0], 0
		}
		if !ok {
			break
		}
	}
}

// jobs built in Go go through JSON once so that both sources have identical dynamic types
func norm(j M) M {
	b, err := json.Marshal(j)
	if err != nil {
		kit.Fatalf("marshal job: %v", err)
	}
	var o M
	kit.Unmarshal(b, &o)
	return o
}

func main() {
	if len(os.Args) < 4 {
		kit.Fatalf("usage: c14 replay <jobs> <events> | rand <n> <events>")
	}
	switch os.Args[1] {
	case "replay":
		var all []M
		kit.Cases(os.Args[2], func(_ int, raw []byte) {
			var j M
			kit.Unmarshal(raw, &j)
			all = append(all, j)
		})
		out := kit.NewOut(os.Args[3])
		i := 0
		runAll(func() (M, bool) {
			if i >= len(all) {
				return nil, false
			}
			i++
			return all[i-1], true
		}, out)
		out.Close()
	case "rand":
		n := kit.Atoi(os.Args[2])
		g := &gen{rng: rand.New(rand.NewSource(kit.Seed()*7919 + 14))}
		out := kit.NewOut(os.Args[3])
		i := 0
		runAll(func() (M, bool) {
			if i >= n {
				return nil, false
			}
			i++
			return norm(g.job(i)), true
		}, out)
		out.Close()
	default:
		kit.Fatalf("unknown mode")
	}
}
