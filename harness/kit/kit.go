// Package kit: trace/case I/O shared by the verification harness binaries.
// Compiled into the fq module through `go build -overlay` (see lib/vlib.py).
package kit

import (
	"bufio"
	"encoding/json"
	"fmt"
	"os"
	"strconv"
)

// Cases reads an ndjson file and calls fn for every line.
func Cases(path string, fn func(i int, raw []byte)) {
	f, err := os.Open(path)
	if err != nil {
		Fatalf("open cases: %v", err)
	}
	defer f.Close()
	sc := bufio.NewScanner(f)
	sc.Buffer(make([]byte, 1<<20), 1<<28)
	i := 0
	for sc.Scan() {
		b := sc.Bytes()
		if len(b) == 0 {
			continue
		}
		cp := make([]byte, len(b))
		copy(cp, b)
		fn(i, cp)
		i++
	}
	if err := sc.Err(); err != nil {
		Fatalf("read cases: %v", err)
	}
}

func Unmarshal(raw []byte, v any) {
	if err := json.Unmarshal(raw, v); err != nil {
		Fatalf("bad case %s: %v", raw, err)
	}
}

// Out is an ndjson event writer.
type Out struct {
	f *os.File
	w *bufio.Writer
	N int
}

func NewOut(path string) *Out {
	f, err := os.Create(path)
	if err != nil {
		Fatalf("create out: %v", err)
	}
	return &Out{f: f, w: bufio.NewWriterSize(f, 1<<20)}
}

func (o *Out) Emit(v any) {
	b, err := json.Marshal(v)
	if err != nil {
		Fatalf("marshal event: %v", err)
	}
	o.w.Write(b)
	o.w.WriteByte('\n')
	o.N++
}

func (o *Out) Close() {
	o.w.Flush()
	o.f.Close()
}

// Fatalf: machinery failure (exit 3 -> runner reports inconclusive, never a violation).
func Fatalf(format string, a ...any) {
	fmt.Fprintf(os.Stderr, "harness fatal: "+format+"\n", a...)
	os.Exit(3)
}

func Seed() int64 {
	s, err := strconv.ParseInt(os.Getenv("VERIF_SEED"), 10, 64)
	if err != nil {
		return 1
	}
	return s
}

func Atoi(s string) int {
	n, err := strconv.Atoi(s)
	if err != nil {
		Fatalf("bad int %q", s)
	}
	return n
}
