package kit

// Worker subprocess pool (DESIGN section 3, "process isolation"): jobs that run arbitrary
// inputs through fq are executed in re-executed copies of the harness binary under an
// address-space limit, so that `fatal error: out of memory`, stack overflows and hangs of the
// code under test are observed by the parent instead of killing the run.

import (
	"bufio"
	"bytes"
	"encoding/json"
	"fmt"
	"io"
	"os"
	"os/exec"
	"runtime/debug"
	"strings"
	"sync"
	"syscall"
	"time"
)

type jobLine struct {
	ID   int             `json:"id"`
	Data json.RawMessage `json:"data"`
}

type resLine struct {
	ID      int             `json:"id"`
	Outcome string          `json:"outcome"` // ok | panic
	Msg     string          `json:"msg"`
	Out     json.RawMessage `json:"out"`
}

// ServeWorker is the worker side: one job per stdin line, one result per stdout line.
func ServeWorker(fn func(raw json.RawMessage) any) {
	in := bufio.NewReaderSize(os.Stdin, 1<<20)
	out := bufio.NewWriterSize(os.Stdout, 1<<20)
	for {
		line, err := in.ReadBytes('\n')
		if len(line) > 0 {
			var j jobLine
			if e := json.Unmarshal(line, &j); e != nil {
				Fatalf("worker: bad job: %v", e)
			}
			fmt.Fprintf(out, "S %d\n", j.ID)
			out.Flush()
			res := resLine{ID: j.ID, Outcome: "ok"}
			func() {
				defer func() {
					if r := recover(); r != nil {
						res.Outcome = "panic"
						res.Msg = fmt.Sprintf("%v\n%s", r, debug.Stack())
					}
				}()
				v := fn(j.Data)
				b, e := json.Marshal(v)
				if e != nil {
					panic(fmt.Sprintf("worker: marshal result: %v", e))
				}
				res.Out = b
			}()
			b, _ := json.Marshal(res)
			out.WriteString("E ")
			out.Write(b)
			out.WriteByte('\n')
			out.Flush()
		}
		if err != nil {
			return
		}
	}
}

// PoolResult is what the parent learns about one job.
type PoolResult struct {
	ID      int
	Outcome string // ok | panic | fatal-oom | fatal-stack | fatal | hang
	Msg     string
	Out     json.RawMessage
}

type tailBuf struct {
	mu sync.Mutex
	b  []byte
}

func (t *tailBuf) Write(p []byte) (int, error) {
	t.mu.Lock()
	defer t.mu.Unlock()
	t.b = append(t.b, p...)
	if len(t.b) > 1<<16 {
		// keep head (fatal error line and first goroutine) and tail
		t.b = append(t.b[:1<<15:1<<15], t.b[len(t.b)-(1<<14):]...)
	}
	return len(p), nil
}
func (t *tailBuf) String() string { t.mu.Lock(); defer t.mu.Unlock(); return string(t.b) }

type child struct {
	cmd    *exec.Cmd
	stdin  io.WriteCloser
	stdout *bufio.Reader
	stderr *tailBuf
}

func startChild(self string, args []string, memKB int64) *child {
	// ulimit -v in a shell: os/exec cannot set rlimits itself
	sh := fmt.Sprintf("ulimit -v %d; exec \"$0\" \"$@\"", memKB)
	if memKB <= 0 {
		sh = "exec \"$0\" \"$@\""
	}
	cmd := exec.Command("sh", append([]string{"-c", sh, self}, args...)...)
	cmd.Env = append(os.Environ(), "GOTRACEBACK=single", "GOMAXPROCS=2")
	stdin, err := cmd.StdinPipe()
	if err != nil {
		Fatalf("pool: %v", err)
	}
	so, err := cmd.StdoutPipe()
	if err != nil {
		Fatalf("pool: %v", err)
	}
	tb := &tailBuf{}
	cmd.Stderr = tb
	if err := cmd.Start(); err != nil {
		Fatalf("pool: start worker: %v", err)
	}
	return &child{cmd: cmd, stdin: stdin, stdout: bufio.NewReaderSize(so, 1<<20), stderr: tb}
}

func (c *child) kill() {
	c.stdin.Close()
	_ = c.cmd.Process.Kill()
	_ = c.cmd.Wait()
}

func classifyDeath(stderr string) string {
	switch {
	case strings.Contains(stderr, "out of memory") || strings.Contains(stderr, "cannot allocate memory"):
		return "fatal-oom"
	case strings.Contains(stderr, "stack overflow") || strings.Contains(stderr, "goroutine stack exceeds"):
		return "fatal-stack"
	default:
		return "fatal"
	}
}

// RunPool runs jobs on n worker subprocesses (`self args...`), each limited to memKB of address
// space, each job limited to perJob. onResult is called (serialised) once per job.
func RunPool(self string, args []string, jobs []json.RawMessage, n int, memKB int64, perJob time.Duration, onResult func(PoolResult)) {
	type item struct {
		id  int
		raw json.RawMessage
	}
	ch := make(chan item, len(jobs))
	for i, j := range jobs {
		ch <- item{i, j}
	}
	close(ch)
	var mu sync.Mutex
	var wg sync.WaitGroup
	for w := 0; w < n; w++ {
		wg.Add(1)
		go func() {
			defer wg.Done()
			var c *child
			for it := range ch {
				if c == nil {
					c = startChild(self, args, memKB)
				}
				b, _ := json.Marshal(jobLine{ID: it.id, Data: it.raw})
				res := PoolResult{ID: it.id}
				type rd struct {
					line []byte
					err  error
				}
				_, werr := c.stdin.Write(append(b, '\n'))
				done := make(chan rd, 1)
				go func(c *child) {
					for {
						line, err := c.stdout.ReadBytes('\n')
						if err != nil || bytes.HasPrefix(line, []byte("E ")) {
							done <- rd{line, err}
							return
						}
					}
				}(c)
				timer := time.NewTimer(perJob)
				if werr != nil {
					// worker already dead before the job was delivered
					c.kill()
					res.Outcome, res.Msg = classifyDeath(c.stderr.String()), "worker died before job: "+c.stderr.String()
					c = nil
				} else {
					select {
					case r := <-done:
						if r.err != nil {
							_ = c.cmd.Wait()
							se := c.stderr.String()
							res.Outcome, res.Msg = classifyDeath(se), se
							c.kill()
							c = nil
						} else {
							var rl resLine
							if e := json.Unmarshal(r.line[2:], &rl); e != nil {
								Fatalf("pool: bad result line: %v", e)
							}
							res.Outcome, res.Msg, res.Out = rl.Outcome, rl.Msg, rl.Out
						}
					case <-timer.C:
						// ask the Go runtime for a goroutine dump first, so the stalled frame is known
						_ = c.cmd.Process.Signal(syscall.SIGQUIT)
						time.Sleep(1500 * time.Millisecond)
						c.kill()
						res.Outcome, res.Msg = "hang", c.stderr.String()
						c = nil
					}
				}
				timer.Stop()
				mu.Lock()
				onResult(res)
				mu.Unlock()
			}
			if c != nil {
				c.stdin.Close()
				_ = c.cmd.Wait()
			}
		}()
	}
	wg.Wait()
}
