package kit

// In-process fq command line with a virtual OS (same shape as internal/script.CaseRun).

import (
	"bytes"
	"context"
	"io"
	"io/fs"
	"sort"

	"github.com/wader/fq/pkg/interp"
)

type memFS struct{ files map[string][]byte }
type memFile struct {
	*bytes.Reader
	name string
	size int64
}

func (f memFile) Stat() (fs.FileInfo, error) {
	return interp.FixedFileInfo{FName: f.name, FSize: f.size}, nil
}
func (f memFile) Close() error { return nil }
func (m memFS) Open(name string) (fs.File, error) {
	b, ok := m.files[name]
	if !ok {
		return nil, &fs.PathError{Op: "open", Path: name, Err: fs.ErrNotExist}
	}
	return memFile{Reader: bytes.NewReader(b), name: name, size: int64(len(b))}, nil
}
func (m memFS) ReadDir(name string) ([]fs.DirEntry, error) { return nil, fs.ErrNotExist }

type fqOS struct {
	args           []string
	stdin          []byte
	stdout, stderr *bytes.Buffer
	fsys           fs.FS
	env            []string
}
type fqIn struct{ interp.FileReader }

func (fqIn) IsTerminal() bool { return false }
func (fqIn) Size() (int, int) { return 120, 25 }

type fqOut struct{ io.Writer }

func (fqOut) Size() (int, int) { return 120, 25 }
func (fqOut) IsTerminal() bool { return false }

func (o *fqOS) Platform() interp.Platform { return interp.Platform{} }
func (o *fqOS) Stdin() interp.Input {
	return fqIn{FileReader: interp.FileReader{R: bytes.NewBuffer(o.stdin)}}
}
func (o *fqOS) Stdout() interp.Output                             { return fqOut{o.stdout} }
func (o *fqOS) Stderr() interp.Output                             { return fqOut{o.stderr} }
func (o *fqOS) InterruptChan() chan struct{}                      { return nil }
func (o *fqOS) Environ() []string                                 { return o.env }
func (o *fqOS) Args() []string                                    { return o.args }
func (o *fqOS) ConfigDir() (string, error)                        { return "/config", nil }
func (o *fqOS) FS() fs.FS                                         { return o.fsys }
func (o *fqOS) History() ([]string, error)                        { return nil, nil }
func (o *fqOS) Readline(opts interp.ReadlineOpts) (string, error) { return "", io.EOF }

// FQResult of one in-process fq invocation. Err is what Main returned (nil = exit 0).
type FQResult struct {
	Stdout, Stderr []byte
	Err            error
}

// RunFQ runs `fq args...` in process. files is the virtual file system.
func RunFQ(args []string, files map[string][]byte, stdin []byte) FQResult {
	o := &fqOS{args: append([]string{"fq"}, args...), stdin: stdin, stdout: &bytes.Buffer{}, stderr: &bytes.Buffer{},
		fsys: memFS{files: files}, env: []string{"NO_COLOR=1", "NO_DECODE_PROGRESS=1"}}
	i, err := interp.New(o, interp.DefaultRegistry)
	if err != nil {
		Fatalf("interp.New: %v", err)
	}
	err = i.Main(context.Background(), o.Stdout(), "verif")
	return FQResult{Stdout: o.stdout.Bytes(), Stderr: o.stderr.Bytes(), Err: err}
}

func SortedKeys(m map[string][]byte) []string {
	var ks []string
	for k := range m {
		ks = append(ks, k)
	}
	sort.Strings(ks)
	return ks
}
