package main

// Solitary re-run of one call in a fresh worker process (DESIGN section 3: "a hang is reported only after the same
// job, re-run alone in a fresh worker twice, stalls both times").  Unlike the pool's wall-clock watchdog, the limit
// here is the CPU time the worker has burnt, read from /proc: on a machine with load 60-90 a legitimately slow call
// (7 CPU-seconds for `chunk(1)` over a 64 KiB string) may need a minute of wall time, while a call that never returns
// reaches any CPU budget sooner or later. A worker that burns no CPU at all (blocked) is stopped by the wall cap.

import (
	"bufio"
	"bytes"
	"encoding/json"
	"fmt"
	"os"
	"os/exec"
	"strconv"
	"strings"
	"sync"
	"syscall"
	"time"

	"github.com/wader/fq/internal/verif/kit"
)

type syncBuf struct {
	mu sync.Mutex
	b  bytes.Buffer
}

func (s *syncBuf) Write(p []byte) (int, error) {
	s.mu.Lock()
	defer s.mu.Unlock()
	if s.b.Len() < 1<<18 {
		s.b.Write(p)
	}
	return len(p), nil
}
func (s *syncBuf) String() string { s.mu.Lock(); defer s.mu.Unlock(); return s.b.String() }

// cpuSeconds of a process (utime+stime of all its threads), -1 if it is gone
func cpuSeconds(pid int) float64 {
	b, err := os.ReadFile(fmt.Sprintf("/proc/%d/stat", pid))
	if err != nil {
		return -1
	}
	s := string(b)
	k := strings.LastIndexByte(s, ')')
	if k < 0 {
		return -1
	}
	f := strings.Fields(s[k+1:])
	if len(f) < 13 {
		return -1
	}
	ut, _ := strconv.ParseFloat(f[11], 64)
	st, _ := strconv.ParseFloat(f[12], 64)
	return (ut + st) / 100 // USER_HZ is 100 on Linux
}

func runAlone(self string, raw json.RawMessage, memKB int64, cpuBudget float64, wallCap time.Duration) kit.PoolResult {
	sh := fmt.Sprintf("ulimit -v %d; exec \"$0\" \"$@\"", memKB)
	cmd := exec.Command("sh", "-c", sh, self, "worker")
	// crash: on SIGQUIT the runtime relays the signal to every thread, so the stack of the evaluating goroutine is
	// printed even when it is running on another thread than the one that took the signal
	cmd.Env = append(os.Environ(), "GOTRACEBACK=crash", "GOMAXPROCS=2")
	stdin, err := cmd.StdinPipe()
	if err != nil {
		kit.Fatalf("alone: %v", err)
	}
	so, err := cmd.StdoutPipe()
	if err != nil {
		kit.Fatalf("alone: %v", err)
	}
	se := &syncBuf{}
	cmd.Stderr = se
	if err := cmd.Start(); err != nil {
		kit.Fatalf("alone: start worker: %v", err)
	}
	line, _ := json.Marshal(map[string]any{"id": 0, "data": raw})
	_, _ = stdin.Write(append(line, '\n'))
	type rd struct {
		line []byte
		err  error
	}
	done := make(chan rd, 1)
	go func() {
		r := bufio.NewReaderSize(so, 1<<20)
		for {
			l, err := r.ReadBytes('\n')
			if err != nil || bytes.HasPrefix(l, []byte("E ")) {
				done <- rd{l, err}
				return
			}
		}
	}()
	res := kit.PoolResult{}
	t0 := time.Now()
	tick := time.NewTicker(300 * time.Millisecond)
	defer tick.Stop()
	for {
		select {
		case r := <-done:
			stdin.Close()
			if r.err != nil {
				_ = cmd.Wait()
				msg := se.String()
				res.Outcome, res.Msg = "fatal", msg
				switch {
				case strings.Contains(msg, "out of memory") || strings.Contains(msg, "cannot allocate memory"):
					res.Outcome = "fatal-oom"
				case strings.Contains(msg, "stack overflow") || strings.Contains(msg, "goroutine stack exceeds"):
					res.Outcome = "fatal-stack"
				}
				return res
			}
			var rl struct {
				Outcome string          `json:"outcome"`
				Msg     string          `json:"msg"`
				Out     json.RawMessage `json:"out"`
			}
			if e := json.Unmarshal(r.line[2:], &rl); e != nil {
				kit.Fatalf("alone: bad result line: %v", e)
			}
			_ = cmd.Wait()
			res.Outcome, res.Msg, res.Out = rl.Outcome, rl.Msg, rl.Out
			return res
		case <-tick.C:
			cpu := cpuSeconds(cmd.Process.Pid)
			if (cpu >= 0 && cpu > cpuBudget) || time.Since(t0) > wallCap {
				_ = cmd.Process.Signal(syscall.SIGQUIT)
				time.Sleep(2500 * time.Millisecond)
				stdin.Close()
				_ = cmd.Process.Kill()
				_ = cmd.Wait()
				res.Outcome = "hang"
				res.Msg = fmt.Sprintf("stopped after %.0f CPU-seconds, %.0f s wall\n%s", cpu, time.Since(t0).Seconds(), se.String())
				return res
			}
		}
	}
}
