package main

// Virtual interp.OS for one fq invocation (same shape as internal/script.CaseRun and kit.RunFQ), with
// the knobs C13 needs: terminal or not, a scripted Readline that exercises the completion callback
// and then reports end of input, a fixed history, an in-memory file system.

import (
	"bytes"
	"io"
	"io/fs"

	"github.com/wader/fq/pkg/interp"
)

type memFS struct{ files map[string][]byte }
type memFile struct {
	*bytes.Reader
	name string
	size int64
}

func (f memFile) Stat() (fs.FileInfo, error) {
	return interp.FixedFileInfo{FName: f.name, FSize: f.size}, nil
}
func (f memFile) Close() error { return nil }
func (m memFS) Open(name string) (fs.File, error) {
	b, ok := m.files[name]
	if !ok {
		return nil, &fs.PathError{Op: "open", Path: name, Err: fs.ErrNotExist}
	}
	return memFile{Reader: bytes.NewReader(b), name: name, size: int64(len(b))}, nil
}
func (m memFS) ReadDir(name string) ([]fs.DirEntry, error) { return nil, fs.ErrNotExist }

// tailBuffer keeps only the last part of what is written: a call may legitimately print gigabytes (a padded
// binary in raw mode); the real fq streams that to the terminal, the harness must not hold it in memory.
type tailBuffer struct {
	b []byte
	n int64
}

const tailKeep = 1 << 18

func (t *tailBuffer) Write(p []byte) (int, error) {
	t.n += int64(len(p))
	if len(p) >= tailKeep {
		t.b = append(t.b[:0], p[len(p)-tailKeep:]...)
		return len(p), nil
	}
	t.b = append(t.b, p...)
	if len(t.b) > 2*tailKeep {
		t.b = append(t.b[:0], t.b[len(t.b)-tailKeep:]...)
	}
	return len(p), nil
}
func (t *tailBuffer) Bytes() []byte  { return t.b }
func (t *tailBuffer) String() string { return string(t.b) }

type vOS struct {
	args           []string
	stdin          []byte
	stdout, stderr *tailBuffer
	fsys           fs.FS
	env            []string
	tty            bool
	lines          []string // what Readline returns before EOF
	nread          int
}
type vIn struct {
	interp.FileReader
	tty bool
}

func (i vIn) IsTerminal() bool { return i.tty }
func (vIn) Size() (int, int)   { return 120, 25 }

type vOut struct {
	io.Writer
	tty bool
}

func (vOut) Size() (int, int)   { return 120, 25 }
func (o vOut) IsTerminal() bool { return o.tty }

func (o *vOS) Platform() interp.Platform {
	return interp.Platform{OS: "verif", Arch: "verif", GoVersion: "go"}
}
func (o *vOS) Stdin() interp.Input {
	return vIn{FileReader: interp.FileReader{R: bytes.NewBuffer(o.stdin)}, tty: o.tty}
}
func (o *vOS) Stdout() interp.Output        { return vOut{o.stdout, o.tty} }
func (o *vOS) Stderr() interp.Output        { return vOut{o.stderr, o.tty} }
func (o *vOS) InterruptChan() chan struct{} { return nil }
func (o *vOS) Environ() []string            { return o.env }
func (o *vOS) Args() []string               { return o.args }
func (o *vOS) ConfigDir() (string, error)   { return "/config", nil }
func (o *vOS) FS() fs.FS                    { return o.fsys }
func (o *vOS) History() ([]string, error)   { return []string{"1+1", ".a"}, nil }
func (o *vOS) Readline(opts interp.ReadlineOpts) (string, error) {
	// a user who presses TAB once and then types the scripted line (or ^D when the script is over)
	if opts.CompleteFn != nil {
		opts.CompleteFn(".a", 2)
	}
	if o.nread < len(o.lines) {
		o.nread++
		return o.lines[o.nread-1], nil
	}
	return "", io.EOF
}
