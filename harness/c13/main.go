// c13: totality of every function fq adds to jq (DESIGN section 5, C13).
//
//	c13 inventory <out.json>                                   functions fq registers, read from the running program
//	c13 run <jobs.ndjson> <results.ndjson> <nworkers> <memKB> <perJobSec> [defer]
//	c13 eval1 <expr>                                           (self-checks) one in-process invocation, prints the marker value
//	c13 worker                                                 (internal) isolated worker, see kit.ServeWorker
//
// A job is one fq invocation `fq -r -n EXPR` on a fresh Interp with a virtual OS. EXPR is built by
// checks/c13.py and ends by printing one marker line `\x01C13 [...]` that lists, for each of the
// first outputs of `INPUT | F(ARGS)`, whether it was a result or a caught error. The worker reports
// what it saw; classification into the Outcome.tla vocabulary happens in `run`:
//
//	results | error | mixed      the marker line was printed and Main returned nil
//	exit                         Main returned an error value (halt, halt_error, uncaught error): fq would
//	                             exit with a status, no runtime fault
//	panic | fatal-oom | fatal-stack | fatal | hang     faults (hang only after two solitary re-runs stalled)
package main

import (
	"bytes"
	"context"
	"encoding/json"
	"errors"
	"fmt"
	"os"
	"runtime/pprof"
	"sort"
	"strings"
	"sync"
	"time"

	_ "github.com/wader/fq/format/all"
	"github.com/wader/fq/internal/verif/kit"
	"github.com/wader/fq/pkg/interp"
	"github.com/wader/gojq"
)

// ---------------------------------------------------------------------------------------- inventory

type Fn struct {
	Name   string   `json:"fn"`
	Arity  int      `json:"arity"`
	Cls    string   `json:"cls"` // go | public | internal | generated
	Src    string   `json:"src"`
	Params []string `json:"params"`
	Std    bool     `json:"std"`  // bare gojq (no fq) also defines name/arity: fq overrides a standard name
	Iter   bool     `json:"iter"` // Go iterator function
}

func newInterp(o *vOS) *interp.Interp {
	i, err := interp.New(o, interp.DefaultRegistry)
	if err != nil {
		kit.Fatalf("interp.New: %v", err)
	}
	return i
}

func bareGojqDefines(name string, arity int) bool {
	call := name
	if arity > 0 {
		call += "(" + strings.TrimSuffix(strings.Repeat(".;", arity), ";") + ")"
	}
	q, err := gojq.Parse(call)
	if err != nil {
		return false
	}
	_, err = gojq.Compile(q)
	return err == nil
}

func inventory(outPath string) {
	o := &vOS{args: []string{"fq", "-n", "."}, stdout: &tailBuffer{}, stderr: &tailBuffer{}, fsys: memFS{}, env: []string{"NO_COLOR=1"}}
	i := newInterp(o)
	if err := i.Main(context.Background(), o.Stdout(), "verif"); err != nil {
		kit.Fatalf("inventory: fq -n . failed: %v %s", err, o.stderr.String())
	}
	seen := map[string]bool{}
	var fns []Fn
	add := func(f Fn) {
		k := fmt.Sprintf("%s/%d", f.Name, f.Arity)
		if seen[k] {
			return
		}
		seen[k] = true
		f.Std = bareGojqDefines(f.Name, f.Arity)
		fns = append(fns, f)
	}
	// 1. Go functions, exactly as Interp.Eval hands them to the compiler
	for _, efn := range i.Registry.EnvFuncFns {
		f := efn(i)
		for a := f.MinArity; a <= f.MaxArity; a++ {
			add(Fn{Name: f.Name, Arity: a, Cls: "go", Src: "go", Iter: f.IterFn != nil, Params: []string{}})
		}
	}
	ngo := len(fns)
	// 2. top-level definitions of every jq module the interpreter has really included
	inc := i.VerifC13Includes()
	var files []string
	for fn := range inc {
		files = append(files, fn)
	}
	sort.Strings(files)
	for _, file := range files {
		for _, fd := range inc[file].FuncDefs {
			cls := "public"
			if strings.HasPrefix(fd.Name, "_") {
				cls = "internal"
			}
			if strings.HasSuffix(file, "format_decode.jq") {
				cls = "generated"
			}
			params := fd.Args
			if params == nil {
				params = []string{}
			}
			add(Fn{Name: fd.Name, Arity: len(fd.Args), Cls: cls, Src: file, Params: params})
		}
	}
	if ngo < 20 || len(fns)-ngo < 100 || len(files) < 10 {
		kit.Fatalf("inventory: implausibly small (%d go, %d jq, %d modules)", ngo, len(fns)-ngo, len(files))
	}
	b, _ := json.Marshal(map[string]any{"fns": fns, "modules": files})
	if err := os.WriteFile(outPath, b, 0o644); err != nil {
		kit.Fatalf("write: %v", err)
	}
}

// ---------------------------------------------------------------------------------------- worker

type Job struct {
	Expr  string            `json:"expr"`
	TTY   bool              `json:"tty"`
	Stdin string            `json:"stdin"`
	Lines []string          `json:"lines"`
	Files map[string]string `json:"files"`
	Repl  bool              `json:"repl"` // pass -i
	// parent only: this call already stalled once in an earlier run; skip the pool and go straight to the solitary re-runs
	Confirm bool `json:"confirm"`
	// parent only: "fn/arity", groups the stalls of one function
	Key string `json:"key"`
}

type Res struct {
	Done    bool            `json:"done"`   // Main returned nil
	Marker  json.RawMessage `json:"marker"` // the list printed on the marker line, if any
	ExitMsg string          `json:"exitmsg"`
	Code    int             `json:"code"`
	Stderr  string          `json:"stderr"`
	Ms      int64           `json:"ms"`
}

// parsed builtin modules of the first successful invocation of this worker process (see VerifC13SeedIncludes)
var parsed map[string]*gojq.Query

// the program's last output is the string "\x01C13 <json list>"; fq prints it as a JSON string on its own line
const markerPrefix = "\"\\u0001C13 "

func cut(s string, n int) string {
	if len(s) > n {
		return s[:n]
	}
	return s
}

func work(raw json.RawMessage) any {
	var j Job
	kit.Unmarshal(raw, &j)
	files := map[string][]byte{}
	for k, v := range j.Files {
		files[k] = []byte(v)
	}
	args := []string{"fq", "-n"}
	if j.Repl {
		args = append(args, "-i")
	}
	args = append(args, j.Expr)
	o := &vOS{args: args, stdin: []byte(j.Stdin), stdout: &tailBuffer{}, stderr: &tailBuffer{},
		fsys: memFS{files: files}, env: []string{"NO_COLOR=1", "NO_DECODE_PROGRESS=1"}, tty: j.TTY, lines: j.Lines}
	t0 := time.Now()
	i := newInterp(o)
	defer i.Stop()
	if parsed != nil && os.Getenv("C13_NOSEED") == "" {
		i.VerifC13SeedIncludes(parsed)
	}
	err := i.Main(context.Background(), o.Stdout(), "verif")
	if parsed == nil && err == nil {
		parsed = i.VerifC13Includes()
	}
	res := Res{Done: err == nil, Ms: time.Since(t0).Milliseconds(), Stderr: cut(o.stderr.String(), 300)}
	if err != nil {
		res.ExitMsg = cut(err.Error(), 300)
		res.Code = 1
		var ex interp.Exiter
		if errors.As(err, &ex) {
			res.Code = ex.ExitCode()
		}
	}
	out := o.stdout.Bytes()
	if k := bytes.LastIndex(out, []byte(markerPrefix)); k >= 0 {
		line := out[k+len(markerPrefix):]
		if e := bytes.IndexByte(line, '\n'); e >= 0 {
			line = line[:e]
		}
		var str string
		if json.Unmarshal(append([]byte{'"'}, line...), &str) == nil && json.Valid([]byte(str)) {
			res.Marker = json.RawMessage(str)
		}
	}
	return res
}

// ---------------------------------------------------------------------------------------- parent

// compactStack drops the file:line rows of a Go traceback (keeps the function rows) so that deep stacks still show
// the fq frames inside the size budget of an event.
func compactStack(msg string, n int) string {
	if len(msg) <= n {
		return msg
	}
	// a SIGQUIT dump lists every goroutine: keep the head and the block of the evaluating goroutine
	if k := strings.Index(msg, "(*Interp).Main("); k >= 0 && strings.HasPrefix(msg, "stopped after") {
		if g := strings.LastIndex(msg[:k], "\ngoroutine "); g >= 0 {
			head := msg
			if e := strings.Index(msg, "\n\n"); e >= 0 {
				head = msg[:e]
			}
			msg = head + "\n" + msg[g:]
		}
	}
	var b strings.Builder
	for _, l := range strings.Split(msg, "\n") {
		if strings.HasPrefix(l, "\t") {
			continue
		}
		if k := strings.LastIndexByte(l, '('); k > 0 && strings.HasSuffix(l, ")") && !strings.HasPrefix(l, "goroutine ") {
			l = l[:k] + "(...)"
		}
		if b.Len()+len(l) > n {
			break
		}
		b.WriteString(l)
		b.WriteByte('\n')
	}
	return b.String()
}

func faultClass(outcome, msg string) string {
	// kit.RunPool calls every death it cannot name "fatal"; a Go panic on another goroutine is still a panic
	if outcome == "fatal" && (strings.HasPrefix(msg, "panic: ") || strings.Contains(msg, "\npanic: ")) &&
		!strings.Contains(msg, "fatal error: ") {
		return "panic"
	}
	return outcome
}

func classify(r kit.PoolResult) (string, string, Res) {
	var res Res
	switch r.Outcome {
	case "ok":
		if err := json.Unmarshal(r.Out, &res); err != nil {
			kit.Fatalf("bad worker result: %v", err)
		}
		if !res.Done {
			return "exit", fmt.Sprintf("exit %d: %s", res.Code, res.ExitMsg), res
		}
		if res.Marker == nil {
			// Main returned nil but the program did not reach its last line: treated like an exit (status 0)
			return "exit", "exit 0 without marker: " + res.Stderr, res
		}
		var m []string
		if err := json.Unmarshal(res.Marker, &m); err != nil {
			kit.Fatalf("bad marker %s", res.Marker)
		}
		nr, ne, first := 0, 0, ""
		for _, s := range m {
			if strings.HasPrefix(s, "E") {
				ne++
				if first == "" {
					first = s[1:]
				}
			} else {
				nr++
			}
		}
		switch {
		case ne == 0:
			return "results", fmt.Sprintf("%d", nr), res
		case nr == 0:
			return "error", first, res
		default:
			return "mixed", first, res
		}
	default:
		return faultClass(r.Outcome, r.Msg), r.Msg, res
	}
}

// deferStalls: report a first stall as outcome "stall" without the solitary re-runs (the caller hands the job to
// its next run with confirm = true, so that the re-runs overlap useful work)
func runAll(jobsPath, outPath string, n int, memKB int64, sec int, deferStalls bool) {
	var jobs []json.RawMessage
	kit.Cases(jobsPath, func(_ int, raw []byte) { jobs = append(jobs, raw) })
	self, _ := os.Executable()
	per := time.Duration(sec) * time.Second
	type rec struct {
		Outcome string `json:"outcome"`
		Msg     string `json:"msg"`
		Ms      int64  `json:"ms"`
		Retried int    `json:"retried"`
		Stalls  int    `json:"stalls"`
		// hang not re-run itself: another call of the same function is a confirmed hang in this run
		Attributed bool `json:"attributed"`
	}
	recs := make([]rec, len(jobs))
	// A stall counts as a hang only if the same call, alone in a fresh worker, stalls twice more (DESIGN section 3).
	// A re-run that completes shows that the call terminates; its outcome is then the observation.
	// Confirmation starts as soon as the stall is seen and runs beside the pool (each re-run has its own process).
	var mu sync.Mutex
	var wg sync.WaitGroup
	sem := make(chan struct{}, 4)
	// solitary re-runs: CPU budget instead of wall clock (see alone.go); 25 CPU-seconds is three times the slowest
	// legitimate call seen (quadratic jq helpers over the 64 KiB string, 7-8 CPU-seconds)
	cpuBudget := 1.25 * float64(sec)
	wallCap := 10 * per
	nhung := 0
	// Stalls of one function are confirmed one after the other; once one call of a function is a confirmed hang, the
	// later stalls of the same function are attributed to it (Attributed = true, same finding signature) instead of
	// spending two more solitary re-runs each.
	keyOf := func(id int) string {
		var j Job
		kit.Unmarshal(jobs[id], &j)
		return j.Key
	}
	keyMu := map[string]*sync.Mutex{}
	keyHung := map[string]string{} // key -> goroutine dump of the confirmed hang
	confirm := func(id int) {
		defer wg.Done()
		key := keyOf(id)
		mu.Lock()
		km := keyMu[key]
		if km == nil {
			km = &sync.Mutex{}
			keyMu[key] = km
		}
		mu.Unlock()
		km.Lock()
		defer km.Unlock()
		mu.Lock()
		dump, already := keyHung[key]
		if already && key != "" {
			recs[id].Outcome, recs[id].Msg, recs[id].Attributed = "hang", dump, true
			mu.Unlock()
			return
		}
		mu.Unlock()
		sem <- struct{}{}
		defer func() { <-sem }()
		stalls, tries := 0, 2
		var done *rec
		last := ""
		// the two solitary re-runs, each in its own fresh worker, side by side
		var rw sync.WaitGroup
		var rmu sync.Mutex
		for k := 0; k < 2; k++ {
			rw.Add(1)
			go func() {
				defer rw.Done()
				r := runAlone(self, jobs[id], memKB, cpuBudget, wallCap)
				oc, msg, res := classify(r)
				rmu.Lock()
				defer rmu.Unlock()
				if oc == "hang" {
					stalls++
					// keep the dump that shows the evaluating goroutine
					if last == "" || (!strings.Contains(last, "(*Interp).Main(") && strings.Contains(msg, "(*Interp).Main(")) {
						last = msg
					}
				} else if done == nil {
					done = &rec{Outcome: oc, Msg: compactStack(msg, 8000), Ms: res.Ms}
				}
			}()
		}
		rw.Wait()
		mu.Lock()
		defer mu.Unlock()
		if done != nil {
			done.Retried, done.Stalls = tries, stalls+1
			recs[id] = *done
		} else {
			recs[id].Outcome, recs[id].Msg = "hang", compactStack(last, 8000)
			recs[id].Retried, recs[id].Stalls = tries, stalls+1
			keyHung[key] = compactStack(last, 8000)
		}
	}
	// A process death (or a recovered panic) in a worker that has already served other calls can be an artefact of
	// that history (address space used up by an earlier call that legitimately needed gigabytes, package-level state):
	// the fault counts as observed on a solitary re-run in a fresh worker, which is the deterministic setting of
	// DESIGN section 3, and that re-run is the confirmation G1 asks for.
	reconfirmFatal := func(id int) {
		defer wg.Done()
		sem <- struct{}{}
		defer func() { <-sem }()
		r := runAlone(self, jobs[id], memKB, cpuBudget, wallCap)
		oc, msg, res := classify(r)
		mu.Lock()
		defer mu.Unlock()
		recs[id] = rec{Outcome: oc, Msg: compactStack(msg, 8000), Ms: res.Ms, Retried: 1}
		if oc == "hang" {
			recs[id].Stalls = 1
			wg.Add(1)
			go confirm(id)
		}
	}
	var poolJobs []json.RawMessage
	var poolIDs []int
	for id, raw := range jobs {
		var j Job
		kit.Unmarshal(raw, &j)
		if j.Confirm {
			recs[id] = rec{Outcome: "hang", Stalls: 0}
			wg.Add(1)
			go confirm(id)
			continue
		}
		poolJobs = append(poolJobs, raw)
		poolIDs = append(poolIDs, id)
	}
	kit.RunPool(self, []string{"worker"}, poolJobs, n, memKB, per, func(r kit.PoolResult) {
		r.ID = poolIDs[r.ID]
		oc, msg, res := classify(r)
		if oc == "hang" && deferStalls {
			oc = "stall"
		}
		mu.Lock()
		recs[r.ID] = rec{Outcome: oc, Msg: compactStack(msg, 8000), Ms: res.Ms}
		mu.Unlock()
		if oc == "hang" {
			nhung++
			if nhung > 300 {
				kit.Fatalf("%d calls stalled: machine too loaded or watchdog too short", nhung)
			}
			wg.Add(1)
			go confirm(r.ID)
		} else if strings.HasPrefix(oc, "fatal") || oc == "panic" {
			wg.Add(1)
			go reconfirmFatal(r.ID)
		}
	})
	wg.Wait()
	out := kit.NewOut(outPath)
	for id, r := range recs {
		out.Emit(map[string]any{"id": id, "outcome": r.Outcome, "msg": r.Msg, "ms": r.Ms, "retried": r.Retried, "stalls": r.Stalls, "attributed": r.Attributed})
	}
	out.Close()
}

func main() {
	if len(os.Args) < 2 {
		kit.Fatalf("usage: c13 inventory|run|worker")
	}
	switch os.Args[1] {
	case "worker":
		kit.ServeWorker(work)
	case "prof":
		// prof <out.pprof> <n> <expr>: CPU profile of n in-process invocations (development aid)
		f, _ := os.Create(os.Args[2])
		_ = pprof.StartCPUProfile(f)
		b, _ := json.Marshal(Job{Expr: os.Args[4], TTY: true})
		for k := 0; k < kit.Atoi(os.Args[3]); k++ {
			work(b)
		}
		pprof.StopCPUProfile()
		f.Close()
	case "inventory":
		inventory(os.Args[2])
	case "eval1":
		// eval1 EXPR: one in-process invocation (harness self-checks only); prints the marker list
		b, _ := json.Marshal(Job{Expr: os.Args[2]})
		res, _ := work(b).(Res)
		if !res.Done || res.Marker == nil {
			kit.Fatalf("eval1: %s %s", res.ExitMsg, res.Stderr)
		}
		fmt.Println(string(res.Marker))
	case "run":
		runAll(os.Args[2], os.Args[3], kit.Atoi(os.Args[4]), int64(kit.Atoi(os.Args[5])), kit.Atoi(os.Args[6]), len(os.Args) > 7 && os.Args[7] == "defer")
	default:
		kit.Fatalf("unknown mode %s", os.Args[1])
	}
}
