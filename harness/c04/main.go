// c04: binds Gaps.tla to pkg/ranges.Gaps.
//
//	c04 replay <cases.ndjson> <events.ndjson>   run real Gaps on TLC-emitted inputs
//	c04 rand <n> <events.ndjson>                seeded random inputs beyond TLC's constants
package main

import (
	"math/rand"
	"os"

	"github.com/wader/fq/internal/verif/kit"
	"github.com/wader/fq/pkg/ranges"
)

type rec struct {
	S int64 `json:"s"`
	L int64 `json:"l"`
}
type gcase struct {
	Total  int64 `json:"total"`
	Ranges []rec `json:"ranges"`
}
type event struct {
	Total  int64      `json:"total"`
	Ranges [][2]int64 `json:"ranges"`
	Gaps   [][2]int64 `json:"gaps"`
}

func runReal(total int64, rs [][2]int64) event {
	in := make([]ranges.Range, len(rs))
	for i, r := range rs {
		in[i] = ranges.Range{Start: r[0], Len: r[1]}
	}
	gs := ranges.Gaps(ranges.Range{Start: 0, Len: total}, in) // sorts `in` in place
	ev := event{Total: total, Ranges: rs, Gaps: [][2]int64{}}
	if ev.Ranges == nil {
		ev.Ranges = [][2]int64{}
	}
	for _, g := range gs {
		ev.Gaps = append(ev.Gaps, [2]int64{g.Start, g.Len})
	}
	return ev
}

func main() {
	switch os.Args[1] {
	case "replay":
		out := kit.NewOut(os.Args[3])
		kit.Cases(os.Args[2], func(_ int, raw []byte) {
			var c gcase
			kit.Unmarshal(raw, &c)
			rs := make([][2]int64, len(c.Ranges))
			for i, r := range c.Ranges {
				rs[i] = [2]int64{r.S, r.L}
			}
			out.Emit(runReal(c.Total, rs))
		})
		out.Close()
	case "rand":
		n := kit.Atoi(os.Args[2])
		out := kit.NewOut(os.Args[3])
		rng := rand.New(rand.NewSource(kit.Seed()))
		for i := 0; i < n; i++ {
			total := int64(rng.Intn(48))
			k := rng.Intn(9)
			rs := make([][2]int64, k)
			for j := range rs {
				s := int64(0)
				if total > 0 {
					s = rng.Int63n(total + 1)
				}
				var l int64
				switch rng.Intn(4) {
				case 0:
					l = 0
				case 1:
					l = 1
				default:
					l = rng.Int63n(total - s + 1)
				}
				if s+l > total {
					l = total - s
				}
				rs[j] = [2]int64{s, l}
			}
			out.Emit(runReal(total, rs))
		}
		out.Close()
	default:
		kit.Fatalf("unknown mode")
	}
}
