// tree: binds DecodeTree.tla to the real decode API (C03, C04 tree arm, C05, C12).
//
//	tree prog <cases.ndjson> <events.ndjson>     run TLC-emitted decoder programs
//	tree randprog <n> <events.ndjson>            seeded random programs beyond TLC's constants
package main

import (
	"math/rand"
	"os"

	"fmt"

	"github.com/wader/fq/internal/verif/kit"
	"github.com/wader/fq/internal/verif/ref"
	"github.com/wader/fq/internal/verif/treelib"
)

type event struct {
	Len   int64            `json:"len"`
	Force bool             `json:"force"`
	Prog  []treelib.Tok    `json:"prog"`
	Nodes []treelib.Node   `json:"nodes"`
	Bufs  map[string][]int `json:"bufs"`
	Panic string           `json:"panic"`
	Nil   bool             `json:"nil"`
}

func runOne(p treelib.Prog, seed int64, out *kit.Out) {
	root, pm := treelib.RunProg(p, seed)
	ev := event{Len: p.Len, Force: p.Force, Prog: p.Prog, Nodes: []treelib.Node{}, Bufs: map[string][]int{}, Panic: pm}
	if ev.Prog == nil {
		ev.Prog = []treelib.Tok{}
	}
	if root == nil {
		ev.Nil = true
	} else {
		ev.Nodes = treelib.Flatten(root, true, 256)
		ev.Bufs = treelib.BufBits(ev.Nodes, 256)
	}
	out.Emit(ev)
}

var names = []string{"a", "b", "c"}

func gen(rng *rand.Rand, depth int, n int, L int64, toks *[]treelib.Tok) {
	for i := 0; i < n; i++ {
		nm := names[rng.Intn(len(names))]
		k := rng.Intn(20)
		w := int64([]int{1, 2, 3, 5, 8, 13}[rng.Intn(6)])
		fl := int64(rng.Intn(int(L) + 4))
		sp := int64(rng.Intn(int(L) + 6))
		begin := func(t treelib.Tok, m int) {
			*toks = append(*toks, t)
			gen(rng, depth-1, rng.Intn(m), L, toks)
			*toks = append(*toks, treelib.Tok{K: "end"})
		}
		switch {
		case k < 6 || depth == 0 && k != 6 && k != 9 && k < 18:
			*toks = append(*toks, treelib.Tok{K: "leaf", Name: nm, N: w})
		case k == 6:
			*toks = append(*toks, treelib.Tok{K: "synth", Name: nm})
		case k == 7:
			begin(treelib.Tok{K: "struct", Name: nm}, 4)
		case k == 8:
			begin(treelib.Tok{K: "array", Name: nm}, 4)
		case k == 9:
			*toks = append(*toks, treelib.Tok{K: "seek", P: sp})
		case k == 10:
			begin(treelib.Tok{K: "framed", N: fl}, 3)
		case k == 11:
			begin(treelib.Tok{K: "limited", N: fl}, 3)
		case k == 12:
			begin(treelib.Tok{K: "fmtlen", Name: nm, N: fl, OrRaw: rng.Intn(2) == 0}, 4)
		case k == 13:
			begin(treelib.Tok{K: "fmtrest", Name: nm, OrRaw: rng.Intn(2) == 0}, 4)
		case k == 14:
			begin(treelib.Tok{K: "fmtrange", Name: nm, N: fl, P: sp}, 3)
		case k == 15:
			begin(treelib.Tok{K: "bitbuf", Name: nm, N: int64(rng.Intn(24))}, 4)
		case k == 16:
			begin(treelib.Tok{K: []string{"rootstruct", "rootarray"}[rng.Intn(2)], Name: nm, N: int64(rng.Intn(24))}, 4)
		case k == 17:
			begin(treelib.Tok{K: "seekfn", P: sp}, 3)
		case k == 18:
			if rng.Intn(4) == 0 {
				*toks = append(*toks, treelib.Tok{K: "fail"})
			}
		case k == 19:
			if rng.Intn(3) == 0 {
				*toks = append(*toks, treelib.Tok{K: "errorf"})
			}
		}
	}
}

func main() {
	seed := kit.Seed()
	switch os.Args[1] {
	case "prog":
		out := kit.NewOut(os.Args[3])
		kit.Cases(os.Args[2], func(i int, raw []byte) {
			var p treelib.Prog
			kit.Unmarshal(raw, &p)
			runOne(p, seed*1000003+int64(i), out)
		})
		out.Close()
	case "randprog":
		n := kit.Atoi(os.Args[2])
		out := kit.NewOut(os.Args[3])
		rng := rand.New(rand.NewSource(seed))
		for i := 0; i < n; i++ {
			L := int64(rng.Intn(41))
			var toks []treelib.Tok
			gen(rng, 3, 1+rng.Intn(6), L, &toks)
			runOne(treelib.Prog{Len: L, Force: rng.Intn(4) == 0, Prog: toks}, seed*7919+int64(i), out)
		}
		out.Close()
	case "deepgen":
		// deepgen <n> <cases.ndjson>: programs nested 20..120 levels deep (structs, arrays, nested formats, one nested buffer half way
		// down); every level reads a leaf before and after its child. Depth-dependent paths: post-processing, range computation through
		// many levels, gap filling inside and outside the nested buffer, long paths on the jq side.
		n := kit.Atoi(os.Args[2])
		out := kit.NewOut(os.Args[3])
		rng := rand.New(rand.NewSource(seed))
		for i := 0; i < n; i++ {
			depths := []int{20, 35, 60, 90, 120}
			if len(os.Args) > 4 { // deepgen <n> <cases> <k>: only the k shallowest depths (what the TLC trace specs take in reasonable time)
				depths = depths[:kit.Atoi(os.Args[4])]
			}
			depth := depths[i%len(depths)]
			out.Emit(deepProg(rng, depth, i))
		}
		out.Close()
	case "bigprog":
		// bigprog <n> <events.ndjson>: trees of 1000..5000 leaves with skipped bits and re-read (overlapping) bits:
		// size-dependent paths of gap filling and post-processing. Too large for TLC: judged by harness/ref (cross-checked elsewhere).
		n := kit.Atoi(os.Args[2])
		out := kit.NewOut(os.Args[3])
		rng := rand.New(rand.NewSource(seed))
		for i := 0; i < n; i++ {
			if i%4 == 3 { // every fourth case: deep instead of wide (60..120 levels, and far beyond 1000 and 2000 levels), same judge
				dp := deepProg(rng, []int{60, 1100, 90, 2600, 120, 1700}[(i/4)%6], i)
				root, pm := treelib.RunProg(dp, seed*31+int64(i))
				ev := map[string]any{"what": fmt.Sprintf("program nested %d levels deep, buffer %d bits", len(dp.Prog)/4, dp.Len), "panic": pm, "nnodes": 0, "refwhy": "ok", "refgap": "ok"}
				if root != nil {
					nodes := treelib.Flatten(root, false, 0)
					ev["nnodes"], ev["refwhy"], ev["refgap"] = len(nodes), ref.Why(nodes), ref.GapSig(nodes)
				}
				out.Emit(ev)
				continue
			}
			leaves := 1000 + rng.Intn(4000)
			ws := []int64{1, 1, 2, 3, 8}
			var toks []treelib.Tok
			total := int64(0)
			skip := ws[rng.Intn(len(ws))]   // bits never read
			rescan := ws[rng.Intn(len(ws))] // bits read twice
			skipAt, rescanAt := rng.Intn(leaves), rng.Intn(leaves)
			toks = append(toks, treelib.Tok{K: "array", Name: "a"})
			for k := 0; k < leaves; k++ {
				w := ws[rng.Intn(len(ws))]
				if k == skipAt && rng.Intn(4) != 0 {
					toks = append(toks, treelib.Tok{K: "seek", P: total + skip})
					total += skip
				}
				if k == rescanAt && total >= rescan && rng.Intn(4) != 0 {
					toks = append(toks, treelib.Tok{K: "seekfn", P: total - rescan}, treelib.Tok{K: "leaf", Name: "r", N: rescan}, treelib.Tok{K: "end"})
				}
				toks = append(toks, treelib.Tok{K: "leaf", Name: names[rng.Intn(3)], N: w})
				total += w
			}
			toks = append(toks, treelib.Tok{K: "end"})
			L := total + int64(rng.Intn(3))*skip // sometimes an undecoded tail
			root, pm := treelib.RunProg(treelib.Prog{Len: L, Prog: toks}, seed*31+int64(i))
			ev := map[string]any{"what": fmt.Sprintf("array of %d leaves, %d bits skipped at leaf %d, %d bits re-read at leaf %d, buffer %d bits (decoded %d)", leaves, skip, skipAt, rescan, rescanAt, L, total),
				"panic": pm, "nnodes": 0, "refwhy": "ok", "refgap": "ok"}
			if root != nil {
				nodes := treelib.Flatten(root, false, 0)
				ev["nnodes"], ev["refwhy"], ev["refgap"] = len(nodes), ref.Why(nodes), ref.GapSig(nodes)
			}
			out.Emit(ev)
		}
		out.Close()
	default:
		kit.Fatalf("unknown mode %q", os.Args[1])
	}
}

// deepProg: a program nested depth levels deep (see mode deepgen)
func deepProg(rng *rand.Rand, depth int, i int) treelib.Prog {
	ws := []int64{1, 2, 3, 8}
	w := make([]int64, depth)
	for k := range w {
		w[k] = ws[rng.Intn(len(ws))]
	}
	root := depth / 2
	inner := int64(2) // the innermost leaf
	for k := root; k < depth; k++ {
		inner += w[k] + 1
	}
	var toks []treelib.Tok
	outer := int64(0)
	for k := 0; k < depth; k++ {
		switch {
		case k == root:
			toks = append(toks, treelib.Tok{K: "rootstruct", Name: "b", N: inner + int64(rng.Intn(3))})
		case k%7 == 3:
			toks = append(toks, treelib.Tok{K: "fmtrest", Name: "b"})
		case k%2 == 1:
			toks = append(toks, treelib.Tok{K: "array", Name: "b"})
		default:
			toks = append(toks, treelib.Tok{K: "struct", Name: "b"})
		}
		toks = append(toks, treelib.Tok{K: "leaf", Name: "a", N: w[k]})
		if k < root {
			outer += w[k] + 1
		}
	}
	toks = append(toks, treelib.Tok{K: "leaf", Name: "c", N: 2})
	for k := depth - 1; k >= 0; k-- {
		toks = append(toks, treelib.Tok{K: "leaf", Name: "d", N: 1}, treelib.Tok{K: "end"})
	}
	return treelib.Prog{Len: outer + int64(rng.Intn(4)), Force: i%7 == 6, Prog: toks}
}
