// c15: binds Container.tla to fq's container decoders (gzip, zip, tar, png incl. zlib streams in zTXt, gif, wav, bzip2).
//
//	c15 replay <scenarios.ndjson> <events.ndjson>   instantiate TLC-emitted scenarios, decode with real fq, report
//
// Every scenario is turned into a file by an INDEPENDENT WRITER - Go's compress/gzip, compress/zlib, archive/zip,
// archive/tar, image/png, image/gif, hash/crc32, a hand-written RIFF/WAV writer and the bzip2 command line tool
// (when installed).  These writers are the oracle for bytes (evidence: assumptions / trusted_base).  The file is decoded by
// real fq in-process (`decode("<format>")` on a binary handed over by _c15in) and the jq-visible report - member names,
// sizes, header fields, payloads via `tobytes`, checksum validity marks - is captured as Go values by _c15s.
// For corruption scenarios the bytes of the chosen third of the chosen region are flipped one at a time (every byte when the
// third has at most 6 bytes - quick - or 16 bytes - thorough -, otherwise that many positions at a stride incl. both ends)
// and every flipped file is decoded again.  The harness holds NO expectation: Container.tla / TraceContainer.tla
// judge the events.  Payloads are compared by length + SHA-256 (payloads up to 64 bytes also verbatim).
package main

import (
	"archive/tar"
	"archive/zip"
	"bytes"
	"compress/flate"
	"compress/gzip"
	"compress/zlib"
	"context"
	"crypto/sha256"
	"encoding/binary"
	"encoding/hex"
	"fmt"
	"hash/crc32"
	"image"
	"image/color"
	"image/gif"
	"image/png"
	"io"
	"io/fs"
	"math/big"
	"math/rand"
	"os"
	"os/exec"
	"strings"
	"time"

	_ "github.com/wader/fq/format/all"
	"github.com/wader/fq/internal/bitiox"
	"github.com/wader/fq/internal/verif/kit"
	"github.com/wader/fq/pkg/bitio"
	"github.com/wader/fq/pkg/interp"
	"github.com/wader/gojq"
)

type M = map[string]any

// ---------------------------------------------------------------- fq in-process

var inputs map[int][]byte
var reports map[int]any

func init() {
	interp.RegisterFunc1("_c15in", func(_ *interp.Interp, _ any, id int) any {
		b, ok := inputs[id]
		if !ok {
			return fmt.Errorf("c15: no input %d", id)
		}
		bin, err := interp.NewBinaryFromBitReader(bitio.NewBitReader(b, -1), 8, 0)
		if err != nil {
			return err
		}
		return bin
	})
	// _c15s($id): store the report; binaries inside it are replaced by {len, sha, small}
	interp.RegisterFunc1("_c15s", func(_ *interp.Interp, c any, id int) any {
		reports[id] = freeze(c)
		return nil
	})
}

func digest(b []byte) M {
	h := sha256.Sum256(b)
	small := []int{}
	if len(b) <= 64 {
		for _, x := range b {
			small = append(small, int(x))
		}
	}
	return M{"len": len(b), "sha": hex.EncodeToString(h[:]), "small": small}
}

func freeze(v any) any {
	switch vv := v.(type) {
	case interp.Binary:
		br, err := interp.ToBitReader(vv)
		if err != nil {
			return M{"len": -1, "sha": "unreadable", "small": []int{}}
		}
		n, err := bitiox.Len(br)
		if err != nil {
			return M{"len": -1, "sha": "unreadable", "small": []int{}}
		}
		buf := make([]byte, (n+7)/8)
		if n > 0 {
			if _, err := bitio.ReadAtFull(br, buf, n, 0); err != nil {
				return M{"len": -1, "sha": "unreadable", "small": []int{}}
			}
		}
		return digest(buf)
	case gojq.JQValue:
		return freeze(vv.JQValueToGoJQ())
	case []any:
		out := make([]any, len(vv))
		for i, e := range vv {
			out[i] = freeze(e)
		}
		return out
	case map[string]any:
		out := M{}
		for k, e := range vv {
			out[k] = freeze(e)
		}
		return out
	case *big.Int:
		if vv.IsInt64() {
			return int(vv.Int64())
		}
		return vv.String()
	default:
		return v
	}
}

type vfs struct{}

func (vfs) Open(name string) (fs.File, error) {
	return nil, &fs.PathError{Op: "open", Path: name, Err: fs.ErrNotExist}
}

type vin struct{ interp.FileReader }

func (vin) IsTerminal() bool { return false }
func (vin) Size() (int, int) { return 120, 25 }

type vout struct{ io.Writer }

func (vout) Size() (int, int) { return 120, 25 }
func (vout) IsTerminal() bool { return false }

type vos struct {
	args           []string
	stdout, stderr *bytes.Buffer
}

func (o *vos) Platform() interp.Platform { return interp.Platform{} }
func (o *vos) Stdin() interp.Input {
	return vin{FileReader: interp.FileReader{R: bytes.NewBuffer(nil)}}
}
func (o *vos) Stdout() interp.Output                             { return vout{o.stdout} }
func (o *vos) Stderr() interp.Output                             { return vout{o.stderr} }
func (o *vos) InterruptChan() chan struct{}                      { return nil }
func (o *vos) Environ() []string                                 { return []string{"NO_COLOR=1", "NO_DECODE_PROGRESS=1"} }
func (o *vos) Args() []string                                    { return o.args }
func (o *vos) ConfigDir() (string, error)                        { return "/config", nil }
func (o *vos) FS() fs.FS                                         { return vfs{} }
func (o *vos) History() ([]string, error)                        { return nil, nil }
func (o *vos) Readline(opts interp.ReadlineOpts) (string, error) { return "", io.EOF }

// the jq-visible report of a decoded container; every access is guarded so that a partial tree still reports
const prelude = `
def _mark: if . == null then "none" else (._description as $d | if $d == "valid" then "valid" elif $d == "invalid" then "invalid" else "none" end) end;
def _b: try tobytes catch null;
def _s: if . == null then "<missing>" else tostring end;
def _a: if . == null then "<missing>" else (toactual | tostring) end;
def _rep_gzip:
  { members: [.members[]? | {name: (.name | if . == null then "" else tostring end), size: .isize, payload: (.uncompressed | _b),
      h: ["comment=" + (.comment | if . == null then "" else tostring end), "extra=" + ((.extra_fields | _b | if . == null then "" else to_hex end)),
          "mtime=" + (.mtime|_a), "method=" + (.compression_method|_a)]}]
  , hdr: ["concatenated=" + ((.uncompressed | _b | if . == null then "<missing>" else (to_sha256 | to_hex) end))]
  , marks: [.members[]? | .crc32 | _mark] };
def _rep_zip:
  . as $r
  | { members: [.local_files | to_entries[]? | .key as $i | .value
        | {name: (.file_name|_s), size: ($r.central_directories[$i].uncompressed_size), payload: ((.uncompressed // .compressed) | _b),
           h: ["cdname=" + ($r.central_directories[$i].file_name|_s), "method=" + (.compression_method|_a),
               "csize=" + ($r.central_directories[$i].compressed_size|_s), "datadesc=" + (.flags.data_descriptor|_s),
               "ddsize=" + (if .data_indicator then (.data_indicator.uncompressed_size|_s) else "-" end),
               "moddate=" + (.last_modification | "\(.year|_s)-\(.month|_s)-\(.day|_s) \(.hour|_s):\(.minute|_s):\(.second|_s)"),
               "cdmoddate=" + ($r.central_directories[$i].last_modification | "\(.year|_s)-\(.month|_s)-\(.day|_s)")]}]
    , hdr: ["comment=" + (.end_of_central_directory_record.comment|_s), "records=" + (.end_of_central_directory_record.nr_of_central_directory_records|_s)]
    , marks: [.local_files[]? | (if .data_indicator then .data_indicator.crc32_uncompressed else .crc32_uncompressed end) | _mark] };
def _rep_tar:
  { members: [.files[]? | {name: ((if ((.prefix // "") | tostring) != "" then (.prefix|tostring) + "/" else "" end) + (.name|_s)), size: .size, payload: (.data | _b),
      h: ["typeflag=" + (.typeflag|_s), "mode=" + (.mode|_s), "mtime=" + (.mtime|_s), "uname=" + (.uname|_s)]}]
  , hdr: ["end_marker=" + (if .end_marker then "yes" else "no" end)]
  , marks: [.files[]? | .chksum | _mark] };
def _rep_png:
  (.chunks // []) as $c
  | { members: ([{name: "IDAT", size: ([$c[] | select(.type == "IDAT") | .length] | add // 0), payload: ([$c[] | select(.type == "IDAT") | .data | _b] | _b), h: []}]
                + [$c[] | select(.type == "zTXt") | {name: (.keyword|_s), size: (.uncompressed.text | if . == null then -1 else (tobytes | length) end), payload: (.uncompressed.text | _b), h: []}])
    , hdr: ( ($c[0] // {}) | ["width=" + (.width|_s), "height=" + (.height|_s), "bit_depth=" + (.bit_depth|_s), "color_type=" + (.color_type|_a), "interlace=" + (.interlace_method|_a)])
           + ["chunks=" + ([$c[] | .type | _s] | join(","))]
           + ["trns=" + ([$c[] | select(.type == "tRNS") | (.alpha, .r, .g, .b) | select(. != null) | _s] | join(","))]
    , marks: [$c[] | .crc | _mark] };
def _rep_gif:
  { members: []
  , hdr: ["header=" + (.header|_s), "width=" + (.width|_s), "height=" + (.height|_s), "gcp=" + (.gcp_follows|_s), "bit_depth=" + (.bit_depth|_s),
          "images=" + ([.blocks[]? | select(.separator_character? != null) | "\(.width)x\(.height)+\(.left)+\(.top)"] | join(",")),
          "terminator=" + (.terminator|_s)]
  , marks: [] };
def _rep_wav:
  (.chunks // []) as $c
  | { members: [$c[] | select(.id == "data") | {name: "data", size: .size, payload: (.samples | _b), h: []}]
               + [$c[] | select(.id == "LIST") | {name: "LIST", size: .size, payload: ([(.type|_b), (.chunks[]? | _b)] | _b), h: []}]
    , hdr: ( ([$c[] | select(.id == "fmt")][0] // {})
             | ["audio_format=" + (.audio_format|_a), "num_channels=" + (.num_channels|_s), "sample_rate=" + (.sample_rate|_s), "byte_rate=" + (.byte_rate|_s),
                "block_align=" + (.block_align|_s), "bits_per_sample=" + (.bits_per_sample|_s)] )
           + ["riff_size=" + (.size|_s), "format=" + (.format|_s), "chunks=" + ([$c[] | .id | _s] | join(","))]
    , marks: [] };
def _rep_bzip2:
  { members: [{name: "", size: (.uncompressed | _b | if . == null then -1 else length end), payload: (.uncompressed | _b), h: ["level=" + (.hundred_k_blocksize|_s)]}]
  , hdr: []
  , marks: [(.block.crc | _mark), (.footer.crc | _mark)] };
def _rep($k): if $k == "gzip" then _rep_gzip elif $k == "zip" then _rep_zip elif $k == "tar" then _rep_tar elif $k == "png" then _rep_png
  elif $k == "gif" then _rep_gif elif $k == "wav" then _rep_wav elif $k == "bzip2" then _rep_bzip2 else error("kind") end;
def _job($n; $k):
  ( try
      ( _c15in($n) | decode($k)
      | (._error | if . == null then null else (.error // "error" | tostring) end) as $e
      | (try _rep($k) catch {members: [], hdr: ["report failed: " + tostring], marks: []})
      | . + {err: ($e != null), errtxt: ($e // "")} )
    catch {members: [], hdr: [], marks: [], err: true, errtxt: ("decode raised: " + tostring)}
  | _c15s($n) | empty );
`

type fqJob struct {
	kind string
	data []byte
}

// decodeAll decodes every file in one interpreter run and returns the reports
func decodeAll(jobs []fqJob) []M {
	out := make([]M, len(jobs))
	for start := 0; start < len(jobs); {
		end, bytesN := start, 0
		for end < len(jobs) && (end == start || (end-start < 400 && bytesN < 24<<20)) {
			bytesN += len(jobs[end].data)
			end++
		}
		inputs = map[int][]byte{}
		reports = map[int]any{}
		calls := make([]string, 0, end-start)
		for i := start; i < end; i++ {
			inputs[i] = jobs[i].data
			calls = append(calls, fmt.Sprintf("_job(%d;%q)", i, jobs[i].kind))
		}
		o := &vos{args: []string{"fq", "-n", prelude + strings.Join(calls, ",\n")}, stdout: &bytes.Buffer{}, stderr: &bytes.Buffer{}}
		ip, err := interp.New(o, interp.DefaultRegistry)
		if err != nil {
			kit.Fatalf("interp.New: %v", err)
		}
		if err := ip.Main(context.Background(), o.Stdout(), "verif"); err != nil {
			kit.Fatalf("fq failed: %v\nstderr: %.2000s", err, o.stderr.String())
		}
		for i := start; i < end; i++ {
			r, ok := reports[i].(M)
			if !ok {
				kit.Fatalf("no report for job %d (%s)", i, jobs[i].kind)
			}
			out[i] = r
		}
		start = end
	}
	return out
}

// ---------------------------------------------------------------- scenario instantiation (independent writers)

type member struct {
	name    string
	payload []byte
	h       []string
}

type span struct{ off, n int } // byte range in the file

type built struct {
	data    []byte
	members []member
	hdr     []string
	// regions per target member (index 0-based): where the covered payload / header / stored checksum / an uncovered byte live
	payload, header, checksum, uncovered []span
}

var payloadClasses = []string{"empty", "incompressible", "compressible", "big", "flat"}

func payloadOf(p, i int) string { return payloadClasses[(p+i-2)%len(payloadClasses)] } // i is 1-based, as in Container.tla

func makePayload(rng *rand.Rand, class string) []byte {
	switch class {
	case "empty":
		return []byte{}
	case "incompressible":
		b := make([]byte, 1+rng.Intn(3000))
		rng.Read(b)
		return b
	case "compressible":
		n := 1 + rng.Intn(5000)
		pat := []byte("the quick brown fox jumps over the lazy dog 0123456789 ")
		b := make([]byte, n)
		for i := range b {
			b[i] = pat[i%len(pat)]
		}
		return b
	case "flat": // more than 64 KiB of one byte: inflates to several hundred times the size it is stored in
		n := 70000 + rng.Intn(200000)
		b := make([]byte, n)
		c := byte(rng.Intn(3)) * 0x41
		for i := range b {
			b[i] = c
		}
		return b
	default: // big: more than 64 KiB, half random half flat
		n := 65537 + rng.Intn(5000)
		b := make([]byte, n)
		rng.Read(b[:n/2])
		for i := n / 2; i < n; i++ {
			b[i] = byte('a' + (i/1000)%3)
		}
		return b
	}
}

func makeName(class string, i int, slash bool) string {
	switch class {
	case "unicode":
		return fmt.Sprintf("é😀-%d.txt", i)
	case "long":
		if slash { // can be split into ustar prefix + name
			return strings.Repeat("d", 70) + "/" + strings.Repeat("n", 60) + fmt.Sprintf("%d", i)
		}
		return strings.Repeat("n", 130) + fmt.Sprintf("%d", i)
	default:
		return []string{"a.txt", "dir/b.bin", "c"}[(i-1)%3]
	}
}

func has(opt []string, s string) bool {
	for _, o := range opt {
		if o == s {
			return true
		}
	}
	return false
}

var fixedTime = time.Unix(1700000000, 0).UTC()

var zipModTimes = []time.Time{
	time.Date(1980, 1, 1, 0, 0, 0, 0, time.UTC), time.Date(2023, 11, 14, 22, 13, 20, 0, time.UTC), time.Date(2043, 12, 31, 23, 59, 58, 0, time.UTC),
	time.Date(2044, 1, 1, 0, 0, 2, 0, time.UTC), time.Date(2107, 12, 31, 12, 30, 30, 0, time.UTC), time.Date(2061, 7, 28, 9, 7, 4, 0, time.UTC),
}

func buildGzip(rng *rand.Rand, n, p int, method string, opt []string) built {
	var b built
	level := map[string]int{"store": gzip.NoCompression, "fast": gzip.BestSpeed, "default": gzip.DefaultCompression, "best": gzip.BestCompression, "huffman": gzip.HuffmanOnly}[method]
	var all bytes.Buffer
	var cat []byte
	for i := 1; i <= n; i++ {
		pl := makePayload(rng, payloadOf(p, i))
		var mb bytes.Buffer
		w, err := gzip.NewWriterLevel(&mb, level)
		if err != nil {
			kit.Fatalf("gzip: %v", err)
		}
		hdrLen := 10
		m := member{payload: pl}
		comment, extra := "", []byte{}
		if has(opt, "extra") {
			extra = []byte{'A', 'p', 4, 0, 1, 2, 3, byte(i)}
			w.Extra = extra
			hdrLen += 2 + len(extra)
		}
		if has(opt, "name") {
			m.name = fmt.Sprintf("member-%d.bin", i)
			w.Name = m.name
			hdrLen += len(m.name) + 1
		}
		if has(opt, "comment") {
			comment = fmt.Sprintf("comment %d", i)
			w.Comment = comment
			hdrLen += len(comment) + 1
		}
		w.ModTime = fixedTime
		w.Write(pl)
		w.Close()
		m.h = []string{"comment=" + comment, "extra=" + hex.EncodeToString(extra), fmt.Sprintf("mtime=%d", fixedTime.Unix()), "method=8"}
		base, ml := all.Len(), mb.Len()
		all.Write(mb.Bytes())
		b.members = append(b.members, m)
		b.payload = append(b.payload, span{base + hdrLen, ml - 8 - hdrLen})
		b.header = append(b.header, span{base + 4, 4}) // mtime: no header crc is written, so not covered
		b.checksum = append(b.checksum, span{base + ml - 8, 4})
		b.uncovered = append(b.uncovered, span{base + 4, 4})
		cat = append(cat, pl...)
	}
	h := sha256.Sum256(cat)
	b.hdr = []string{"concatenated=" + hex.EncodeToString(h[:])}
	b.data = all.Bytes()
	return b
}

func buildZip(rng *rand.Rand, n, p int, method, nameClass string, opt []string) built {
	var b built
	var buf bytes.Buffer
	w := zip.NewWriter(&buf)
	zm := map[string]uint16{"store": zip.Store, "deflate": zip.Deflate}[method]
	comment := ""
	if has(opt, "comment") {
		comment = "archive comment"
		w.SetComment(comment)
	}
	for i := 1; i <= n; i++ {
		pl := makePayload(rng, payloadOf(p, i))
		name := makeName(nameClass, i, false)
		// modification dates across the whole MS-DOS range (1980..2107), one class per member position
		mod := zipModTimes[(i+n)%len(zipModTimes)]
		fh := &zip.FileHeader{Name: name, Method: zm}
		fh.SetModTime(mod) // also fills the legacy MS-DOS fields, which CreateRaw writes as given
		if has(opt, "datadesc") {
			fw, err := w.CreateHeader(fh) // streaming: sizes and crc follow the data in a data descriptor
			if err != nil {
				kit.Fatalf("zip: %v", err)
			}
			fw.Write(pl)
		} else {
			comp := pl
			if zm == zip.Deflate {
				var cb bytes.Buffer
				fl, _ := flate.NewWriter(&cb, flate.DefaultCompression)
				fl.Write(pl)
				fl.Close()
				comp = cb.Bytes()
			}
			fh.CRC32 = crc32.ChecksumIEEE(pl)
			fh.CompressedSize64 = uint64(len(comp))
			fh.UncompressedSize64 = uint64(len(pl))
			fw, err := w.CreateRaw(fh) // sizes and crc in the local header, no data descriptor
			if err != nil {
				kit.Fatalf("zip raw: %v", err)
			}
			fw.Write(comp)
		}
		b.members = append(b.members, member{name: name, payload: pl})
	}
	if err := w.Close(); err != nil {
		kit.Fatalf("zip close: %v", err)
	}
	b.data = buf.Bytes()
	b.hdr = []string{"comment=" + comment, fmt.Sprintf("records=%d", n)}
	// locate the regions with the independent reader
	zr, err := zip.NewReader(bytes.NewReader(b.data), int64(len(b.data)))
	if err != nil {
		kit.Fatalf("zip reread: %v", err)
	}
	for i, f := range zr.File {
		off, err := f.DataOffset()
		if err != nil {
			kit.Fatalf("zip offset: %v", err)
		}
		cs := int(f.CompressedSize64)
		lh := int(off) - 30 - len(f.Name) - len(f.Extra)
		dd := f.Flags&8 != 0
		mt := zipModTimes[(i+1+n)%len(zipModTimes)] // what the writer was given for member i+1 (DOS time: 2 s resolution, all values even)
		b.members[i].h = []string{"cdname=" + f.Name, fmt.Sprintf("method=%d", f.Method),
			fmt.Sprintf("csize=%d", cs), fmt.Sprintf("datadesc=%v", dd), "ddsize=-",
			fmt.Sprintf("moddate=%d-%d-%d %d:%d:%d", mt.Year(), int(mt.Month()), mt.Day(), mt.Hour(), mt.Minute(), mt.Second()),
			fmt.Sprintf("cdmoddate=%d-%d-%d", mt.Year(), int(mt.Month()), mt.Day())}
		if dd {
			b.members[i].h[4] = fmt.Sprintf("ddsize=%d", len(b.members[i].payload))
			b.checksum = append(b.checksum, span{int(off) + cs + 4, 4})
		} else {
			b.checksum = append(b.checksum, span{lh + 14, 4})
		}
		b.payload = append(b.payload, span{int(off), cs})
		b.header = append(b.header, span{lh + 10, 4}) // modification time/date: no checksum covers zip headers
		b.uncovered = append(b.uncovered, span{lh + 10, 4})
	}
	return b
}

func buildTar(rng *rand.Rand, n, p int, method, nameClass string) built {
	var b built
	var buf bytes.Buffer
	w := tar.NewWriter(&buf)
	format := map[string]tar.Format{"ustar": tar.FormatUSTAR, "gnu": tar.FormatGNU, "pax": tar.FormatPAX}[method]
	for i := 1; i <= n; i++ {
		pl := makePayload(rng, payloadOf(p, i))
		name := makeName(nameClass, i, method == "ustar")
		h := &tar.Header{Name: name, Mode: 0o644, Size: int64(len(pl)), ModTime: fixedTime, Typeflag: tar.TypeReg, Uname: "user", Format: format}
		if err := w.WriteHeader(h); err != nil {
			kit.Fatalf("tar header (%s, %s): %v", method, nameClass, err)
		}
		hdrEnd := buf.Len()
		w.Write(pl)
		w.Flush()
		b.members = append(b.members, member{name: name, payload: pl,
			h: []string{"typeflag=0", fmt.Sprintf("mode=%d", 0o644), fmt.Sprintf("mtime=%d", fixedTime.Unix()), "uname=user"}})
		b.header = append(b.header, span{hdrEnd - 512, 148})         // name .. mtime (the fields before chksum)
		b.checksum = append(b.checksum, span{hdrEnd - 512 + 148, 6}) // the octal digits of chksum
		b.payload = append(b.payload, span{hdrEnd, len(pl)})
		b.uncovered = append(b.uncovered, span{hdrEnd, len(pl)})
	}
	w.Close()
	b.data = buf.Bytes()
	b.hdr = []string{"end_marker=yes"}
	return b
}

type pngChunk struct {
	typ       string
	off, dlen int // offset of the length field, data length
}

func walkPNG(data []byte) []pngChunk {
	var cs []pngChunk
	for off := 8; off+12 <= len(data); {
		l := int(binary.BigEndian.Uint32(data[off:]))
		cs = append(cs, pngChunk{string(data[off+4 : off+8]), off, l})
		off += 12 + l
	}
	return cs
}

func buildPNG(rng *rand.Rand, p int, method string, opt []string) built {
	var b built
	wd, ht := 1, 1
	switch payloadClasses[p-1] {
	case "incompressible":
		wd, ht = 13+rng.Intn(20), 7+rng.Intn(20)
	case "compressible":
		wd, ht = 40+rng.Intn(20), 30
	case "big":
		wd, ht = 300, 120+rng.Intn(20) // > 64 KiB of raw samples for rgb and wider
	case "flat":
		wd, ht = 400, 200 // a calm picture: the IDAT stream inflates to several hundred times its size
	}
	noisy := payloadClasses[p-1] == "incompressible" || payloadClasses[p-1] == "big"
	r := image.Rect(0, 0, wd, ht)
	var img image.Image
	px := func(x, y int) uint16 {
		if noisy {
			return uint16(rng.Intn(65536))
		}
		return uint16((x/8 + y/8) * 4000)
	}
	bitDepth, colorType := 8, ""
	switch method {
	case "gray":
		m := image.NewGray(r)
		for y := 0; y < ht; y++ {
			for x := 0; x < wd; x++ {
				m.SetGray(x, y, color.Gray{uint8(px(x, y))})
			}
		}
		img, colorType = m, "0"
	case "gray16":
		m := image.NewGray16(r)
		for y := 0; y < ht; y++ {
			for x := 0; x < wd; x++ {
				m.SetGray16(x, y, color.Gray16{px(x, y)})
			}
		}
		img, colorType, bitDepth = m, "0", 16
	case "rgb": // opaque NRGBA is written as colour type 2
		m := image.NewNRGBA(r)
		for y := 0; y < ht; y++ {
			for x := 0; x < wd; x++ {
				m.SetNRGBA(x, y, color.NRGBA{uint8(px(x, y)), uint8(px(x, y) >> 3), uint8(px(x, y) >> 5), 255})
			}
		}
		img, colorType = m, "2"
	case "rgba":
		m := image.NewNRGBA(r)
		for y := 0; y < ht; y++ {
			for x := 0; x < wd; x++ {
				m.SetNRGBA(x, y, color.NRGBA{uint8(px(x, y)), uint8(px(x, y) >> 3), uint8(px(x, y) >> 5), uint8(100 + (x+y)%100)})
			}
		}
		img, colorType = m, "6"
	case "rgba64":
		m := image.NewNRGBA64(r)
		for y := 0; y < ht; y++ {
			for x := 0; x < wd; x++ {
				m.SetNRGBA64(x, y, color.NRGBA64{px(x, y), px(x, y) / 2, px(x, y) / 3, uint16(30000 + (x+y)%100)})
			}
		}
		img, colorType, bitDepth = m, "6", 16
	default: // palette
		pal := make(color.Palette, 256)
		for i := range pal {
			pal[i] = color.RGBA{uint8(i), uint8(255 - i), uint8(i * 7), 255}
		}
		m := image.NewPaletted(r, pal)
		for y := 0; y < ht; y++ {
			for x := 0; x < wd; x++ {
				m.SetColorIndex(x, y, uint8(px(x, y)))
			}
		}
		img, colorType = m, "3"
	}
	enc := png.Encoder{CompressionLevel: png.DefaultCompression}
	if has(opt, "best") {
		enc.CompressionLevel = png.BestCompression
	}
	var buf bytes.Buffer
	if err := enc.Encode(&buf, img); err != nil {
		kit.Fatalf("png: %v", err)
	}
	data := buf.Bytes()
	ztxt := []byte{}
	if has(opt, "ztxt") { // a zlib stream inside the png: keyword 0 method zlib(text), crc by hash/crc32
		ztxt = makePayload(rng, payloadClasses[p%len(payloadClasses)])
		for i := range ztxt { // text chunk: keep it printable latin-1
			ztxt[i] = 32 + ztxt[i]%90
		}
		var zb bytes.Buffer
		zw := zlib.NewWriter(&zb)
		zw.Write(ztxt)
		zw.Close()
		body := append([]byte("Comment\x00\x00"), zb.Bytes()...)
		chunk := make([]byte, 0, len(body)+12)
		chunk = binary.BigEndian.AppendUint32(chunk, uint32(len(body)))
		chunk = append(chunk, "zTXt"...)
		chunk = append(chunk, body...)
		chunk = binary.BigEndian.AppendUint32(chunk, crc32.ChecksumIEEE(chunk[4:]))
		ihdrEnd := 8 + 12 + 13
		data = append(append(append([]byte{}, data[:ihdrEnd]...), chunk...), data[ihdrEnd:]...)
	}
	// a transparency key (tRNS) for grayscale and truecolour images: Go's encoder writes none, the chunk is made here. The samples are
	// 2 bytes each whatever the bit depth (PNG specification 11.3.2.1); values fit the image's bit depth.
	trns := ""
	if colorType == "0" || colorType == "2" {
		lim := 1 << uint(bitDepth)
		vals := []int{5 % lim}
		if colorType == "2" {
			vals = []int{1 % lim, (lim - 2 + lim) % lim, 3 % lim}
		}
		var body []byte
		var ss []string
		for _, v := range vals {
			body = binary.BigEndian.AppendUint16(body, uint16(v))
			ss = append(ss, fmt.Sprint(v))
		}
		trns = strings.Join(ss, ",")
		chunk := binary.BigEndian.AppendUint32(nil, uint32(len(body)))
		chunk = append(chunk, "tRNS"...)
		chunk = append(chunk, body...)
		chunk = binary.BigEndian.AppendUint32(chunk, crc32.ChecksumIEEE(chunk[4:]))
		ihdrEnd := 8 + 12 + 13
		data = append(append(append([]byte{}, data[:ihdrEnd]...), chunk...), data[ihdrEnd:]...)
		if _, err := png.Decode(bytes.NewReader(data)); err != nil { // an independent reader accepts the file
			kit.Fatalf("png with tRNS rejected by image/png: %v", err)
		}
	}
	b.data = data
	cs := walkPNG(data)
	var idat []byte
	names := []string{}
	idatLen := 0
	first := -1
	for i, c := range cs {
		names = append(names, c.typ)
		if c.typ == "IDAT" {
			idat = append(idat, data[c.off+8:c.off+8+c.dlen]...)
			idatLen += c.dlen
			if first < 0 {
				first = i
			}
		}
	}
	b.members = []member{{name: "IDAT", payload: idat, h: []string{}}}
	if has(opt, "ztxt") {
		b.members = append(b.members, member{name: "Comment", payload: ztxt, h: []string{}})
	}
	b.hdr = []string{fmt.Sprintf("width=%d", wd), fmt.Sprintf("height=%d", ht), fmt.Sprintf("bit_depth=%d", bitDepth), "color_type=" + colorType, "interlace=0",
		"chunks=" + strings.Join(names, ","), "trns=" + trns}
	c := cs[first]
	if has(opt, "ztxt") { // the zlib stream is the payload under test
		for _, x := range cs {
			if x.typ == "zTXt" {
				c = x
			}
		}
	}
	b.payload = []span{{c.off + 8, c.dlen}}
	b.header = []span{{8 + 8, 13}}               // IHDR data
	b.checksum = []span{{c.off + 8 + c.dlen, 4}} // crc of the chunk under test
	b.uncovered = []span{{c.off, 4}}             // its length field is outside the crc
	return b
}

func buildGIF(rng *rand.Rand, n, p int, method string) built {
	var b built
	wd, ht := 1, 1
	switch payloadClasses[p-1] {
	case "incompressible":
		wd, ht = 13+rng.Intn(20), 7+rng.Intn(20)
	case "compressible":
		wd, ht = 64, 48
	case "big", "flat":
		wd, ht = 320, 210
	}
	ncol := 2
	if method == "pal256" {
		ncol = 256
	}
	pal := make(color.Palette, ncol)
	for i := range pal {
		pal[i] = color.RGBA{uint8(i * 255 / (ncol - 1)), uint8(255 - i), uint8(i * 3), 255}
	}
	g := &gif.GIF{Config: image.Config{ColorModel: pal, Width: wd, Height: ht}}
	images := []string{}
	for i := 0; i < n; i++ {
		fw, fh, fx, fy := wd, ht, 0, 0
		if i > 0 && wd > 4 && ht > 4 { // later frames cover a part of the canvas
			fw, fh, fx, fy = wd/2, ht/2, wd/4, ht/4
		}
		m := image.NewPaletted(image.Rect(fx, fy, fx+fw, fy+fh), pal)
		for k := range m.Pix {
			if payloadClasses[p-1] == "flat" {
				m.Pix[k] = uint8(i % ncol)
			} else if payloadClasses[p-1] == "compressible" {
				m.Pix[k] = uint8((k / 16) % ncol)
			} else {
				m.Pix[k] = uint8(rng.Intn(ncol))
			}
		}
		g.Image = append(g.Image, m)
		g.Delay = append(g.Delay, 10)
		images = append(images, fmt.Sprintf("%dx%d+%d+%d", fw, fh, fx, fy))
	}
	var buf bytes.Buffer
	if err := gif.EncodeAll(&buf, g); err != nil {
		kit.Fatalf("gif: %v", err)
	}
	b.data = buf.Bytes()
	depth := 1
	if ncol == 256 {
		depth = 8
	}
	b.hdr = []string{"header=GIF89a", fmt.Sprintf("width=%d", wd), fmt.Sprintf("height=%d", ht), "gcp=true", fmt.Sprintf("bit_depth=%d", depth),
		"images=" + strings.Join(images, ","), "terminator=59"}
	b.uncovered = []span{{len(b.data) / 2, 1}}
	return b
}

// hand-written RIFF/WAVE writer (PCM)
func buildWAV(rng *rand.Rand, p int, method string, opt []string) built {
	var b built
	bits := map[string]int{"pcm8": 8, "pcm16": 16, "pcm24": 24}[method]
	ch := 1
	if has(opt, "stereo") {
		ch = 2
	}
	rate := 8000
	frame := ch * bits / 8
	samples := makePayload(rng, payloadClasses[p-1])
	samples = samples[:len(samples)/frame*frame]
	le16 := func(v int) []byte { return []byte{byte(v), byte(v >> 8)} }
	le32 := func(v int) []byte { return []byte{byte(v), byte(v >> 8), byte(v >> 16), byte(v >> 24)} }
	chunk := func(id string, body []byte) []byte {
		out := append([]byte(id), le32(len(body))...)
		out = append(out, body...)
		if len(body)%2 == 1 {
			out = append(out, 0) // word alignment
		}
		return out
	}
	fmtBody := append(append(append(append(append(le16(1), le16(ch)...), le32(rate)...), le32(rate*frame)...), le16(frame)...), le16(bits)...)
	body := append([]byte("WAVE"), chunk("fmt ", fmtBody)...)
	ids := []string{"fmt"}
	var list []byte
	if has(opt, "list") {
		list = append([]byte("INFO"), chunk("ISFT", []byte("c15 writer\x00"))...)
		body = append(body, chunk("LIST", list)...)
		ids = append(ids, "LIST")
	}
	dataOff := 8 + len(body) + 8
	body = append(body, chunk("data", samples)...)
	ids = append(ids, "data")
	b.data = append(append([]byte("RIFF"), le32(len(body))...), body...)
	b.members = []member{{name: "data", payload: samples, h: []string{}}}
	if has(opt, "list") {
		b.members = append(b.members, member{name: "LIST", payload: list, h: []string{}})
	}
	b.hdr = []string{"audio_format=1", fmt.Sprintf("num_channels=%d", ch), fmt.Sprintf("sample_rate=%d", rate), fmt.Sprintf("byte_rate=%d", rate*frame),
		fmt.Sprintf("block_align=%d", frame), fmt.Sprintf("bits_per_sample=%d", bits), fmt.Sprintf("riff_size=%d", len(body)), "format=WAVE", "chunks=" + strings.Join(ids, ",")}
	b.uncovered = []span{{dataOff, len(samples)}}
	return b
}

var bzip2Path, bzip2Err = exec.LookPath("bzip2")

func buildBzip2(rng *rand.Rand, p int, method string) (built, bool) {
	var b built
	if bzip2Err != nil {
		return b, false
	}
	pl := makePayload(rng, payloadClasses[p-1])
	lvl := map[string]string{"fast": "-1", "best": "-9"}[method]
	cmd := exec.Command(bzip2Path, lvl, "-c")
	cmd.Stdin = bytes.NewReader(pl)
	out, err := cmd.Output()
	if err != nil {
		kit.Fatalf("bzip2: %v", err)
	}
	b.data = out
	b.members = []member{{name: "", payload: pl, h: []string{"level=" + fmt.Sprint(int(lvl[1]))}}}
	b.hdr = []string{}
	b.payload = []span{{14, len(out) - 14 - 10}}
	b.header = []span{{3, 1}}
	b.checksum = []span{{10, 4}}
	b.uncovered = []span{{3, 1}}
	return b, true
}

// ---------------------------------------------------------------- events

func memberRec(name string, size any, d M, h any) M {
	cps := []int{}
	for _, r := range name {
		cps = append(cps, int(r))
	}
	if h == nil {
		h = []string{}
	}
	return M{"name": cps, "size": size, "sha": d["sha"], "small": d["small"], "h": h}
}

func writtenRecs(ms []member) []any {
	out := []any{}
	for _, m := range ms {
		out = append(out, memberRec(m.name, len(m.payload), digest(m.payload), m.h))
	}
	return out
}

// reportRec normalises a captured report into the event shape (members as records comparable with writtenRecs)
func reportRec(r M) M {
	ms := []any{}
	if a, ok := r["members"].([]any); ok {
		for _, x := range a {
			m, _ := x.(M)
			name, _ := m["name"].(string)
			d, ok := m["payload"].(M)
			if !ok {
				d = M{"sha": "<missing>", "small": []int{}}
			}
			size := -1
			switch s := m["size"].(type) {
			case int:
				size = s
			}
			ms = append(ms, memberRec(name, size, d, m["h"]))
		}
	}
	marks := []any{}
	if a, ok := r["marks"].([]any); ok {
		marks = a
	}
	hdr := []any{}
	if a, ok := r["hdr"].([]any); ok {
		hdr = a
	}
	errtxt, _ := r["errtxt"].(string)
	if len(errtxt) > 160 {
		errtxt = errtxt[:160]
	}
	err, _ := r["err"].(bool)
	return M{"err": err, "errtxt": errtxt, "members": ms, "hdr": hdr, "marks": marks}
}

func sameReport(a, b M) bool {
	return fmt.Sprint(a["members"]) == fmt.Sprint(b["members"]) && fmt.Sprint(a["hdr"]) == fmt.Sprint(b["hdr"]) &&
		fmt.Sprint(a["marks"]) == fmt.Sprint(b["marks"]) && a["err"] == b["err"]
}

func str(j M, k string) string { s, _ := j[k].(string); return s }
func num(j M, k string) int    { f, _ := j[k].(float64); return int(f) }

func main() {
	if len(os.Args) < 4 || os.Args[1] != "replay" {
		kit.Fatalf("usage: c15 replay <scenarios> <events>")
	}
	thorough := os.Getenv("VERIF_TIER") == "thorough"
	type item struct {
		s       M
		b       built
		offs    []int
		skipped string
	}
	var items []*item
	kit.Cases(os.Args[2], func(idx int, raw []byte) {
		var c M
		kit.Unmarshal(raw, &c)
		items = append(items, &item{s: c["s"].(M)})
	})
	// instantiate scenario idx (lazily, batch by batch)
	prepare := func(idx int) {
		it := items[idx]
		s := it.s
		rng := rand.New(rand.NewSource(kit.Seed()*1000003 + int64(idx)))
		kind, n, p, method, name := str(s, "kind"), num(s, "n"), num(s, "p"), str(s, "method"), str(s, "name")
		opt := []string{}
		if a, ok := s["opt"].([]any); ok {
			for _, o := range a {
				opt = append(opt, o.(string))
			}
		}
		switch kind {
		case "gzip":
			it.b = buildGzip(rng, n, p, method, opt)
		case "zip":
			it.b = buildZip(rng, n, p, method, name, opt)
		case "tar":
			it.b = buildTar(rng, n, p, method, name)
		case "png":
			it.b = buildPNG(rng, p, method, opt)
		case "gif":
			it.b = buildGIF(rng, n, p, method)
		case "wav":
			it.b = buildWAV(rng, p, method, opt)
		case "bzip2":
			var ok bool
			if it.b, ok = buildBzip2(rng, p, method); !ok {
				it.skipped = "bzip2 tool not installed"
			}
		default:
			kit.Fatalf("unknown kind %q", kind)
		}
		if it.skipped != "" {
			return
		}
		// corruption: the bytes of one third of the chosen region of the target member
		region, pos, target := str(s, "region"), str(s, "pos"), num(s, "target")
		var spans []span
		switch region {
		case "payload":
			spans = it.b.payload
		case "header":
			spans = it.b.header
		case "checksum":
			spans = it.b.checksum
		case "uncovered":
			spans = it.b.uncovered
		}
		if region != "none" && len(spans) > 0 {
			sp := spans[(target-1)%len(spans)]
			lo, hi := sp.off, sp.off+sp.n
			if region == "payload" || region == "header" {
				third := (sp.n + 2) / 3
				switch pos {
				case "first":
					hi = lo + third
				case "middle":
					lo, hi = lo+third, lo+2*third
				default:
					lo = lo + 2*third
				}
				if hi > sp.off+sp.n {
					hi = sp.off + sp.n
				}
				if lo >= hi && sp.n > 0 { // tiny regions: every class sees at least one byte
					lo, hi = sp.off+sp.n-1, sp.off+sp.n
					if pos == "first" {
						lo, hi = sp.off, sp.off+1
					}
				}
			}
			limit := 6
			if thorough {
				limit = 16
			}
			cnt := hi - lo
			if cnt <= limit {
				for o := lo; o < hi; o++ {
					it.offs = append(it.offs, o)
				}
			} else { // a stride that keeps both ends
				for k := 0; k < limit; k++ {
					it.offs = append(it.offs, lo+k*(cnt-1)/(limit-1))
				}
			}
		}
	}

	// decode in batches of scenarios (intact file first, then every flipped file) so that memory stays bounded
	out := kit.NewOut(os.Args[3])
	for lo := 0; lo < len(items); {
		hi, vol := lo, 0
		for hi < len(items) && (hi == lo || (hi-lo < 64 && vol < 96<<20)) {
			prepare(hi)
			vol += len(items[hi].b.data) * (1 + len(items[hi].offs))
			hi++
		}
		var jobs []fqJob
		type ref struct{ item, flip int }
		var refs []ref
		for i := lo; i < hi; i++ {
			it := items[i]
			if it.skipped != "" {
				continue
			}
			jobs = append(jobs, fqJob{str(it.s, "kind"), it.b.data})
			refs = append(refs, ref{i, -1})
			for k, o := range it.offs {
				d := append([]byte{}, it.b.data...)
				d[o] ^= 1 << uint(o%8)
				jobs = append(jobs, fqJob{str(it.s, "kind"), d})
				refs = append(refs, ref{i, k})
			}
		}
		reps := decodeAll(jobs)
		intact := map[int]M{}
		flips := map[int][]any{}
		for j, r := range refs {
			rep := reportRec(reps[j])
			if r.flip < 0 {
				intact[r.item] = rep
				continue
			}
			ninv := 0
			for _, m := range rep["marks"].([]any) {
				if m == "invalid" {
					ninv++
				}
			}
			flips[r.item] = append(flips[r.item], M{"off": items[r.item].offs[r.flip], "err": rep["err"], "ninvalid": ninv,
				"same": sameReport(rep, intact[r.item]), "errtxt": rep["errtxt"]})
		}
		for i := lo; i < hi; i++ {
			it := items[i]
			if it.skipped != "" {
				out.Emit(M{"s": it.s, "skipped": it.skipped})
				continue
			}
			fl := flips[i]
			if fl == nil {
				fl = []any{}
			}
			hdr := []any{}
			for _, h := range it.b.hdr {
				hdr = append(hdr, h)
			}
			out.Emit(M{"s": it.s, "skipped": "", "bytes": len(it.b.data), "written": writtenRecs(it.b.members), "hdr": hdr, "intact": intact[i], "flips": fl})
			it.b = built{} // release
		}
		lo = hi
	}
	out.Close()
}
