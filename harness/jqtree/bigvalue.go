package main

// bigvalue <n> <events.ndjson>: values of 32 KiB .. 70 KiB that start and end OFF a byte boundary, observed through every real
// output path of fq (raw stdout of `tobytes`, the bits_format renderings, explode).  A value this size passes through the 32 KiB
// copy chunks of io.Copy and the carry buffers of the byte views several times; the programs of the tree arm stay far below.
// The event carries the file packed 24 bits per integer and the observed byte strings; TraceBigValue.tla computes every byte
// that the property requires and compares.  Nothing is computed here except decoding hex / base64 text back to bytes and the md5
// of fq's OWN `string` rendering (consistency of two renderings, not an oracle of the value).

import (
	"crypto/md5"
	"encoding/base64"
	"encoding/hex"
	"encoding/json"
	"fmt"
	"math/rand"
	"sync"

	"github.com/wader/fq/internal/verif/kit"
	"github.com/wader/fq/pkg/decode"
	"github.com/wader/fq/pkg/interp"
)

type bigRec struct{ pre, n int64 }

var (
	bigMu   sync.Mutex
	bigRecs = map[string]bigRec{}
)

func init() {
	interp.RegisterFormat(&decode.Group{Name: "verifbig"}, &decode.Format{
		Description: "verification decoder: one big raw field off the byte grid",
		DecodeFn: func(d *decode.D) any {
			bigMu.Lock()
			r, ok := bigRecs[d.Options.Description]
			bigMu.Unlock()
			if !ok {
				d.Fatalf("verifbig: no record for %q", d.Options.Description)
			}
			if r.pre > 0 {
				d.FieldRawLen("pre", r.pre)
			}
			d.FieldRawLen("big", r.n)
			return nil
		},
	})
}

type bigEvent struct {
	Kind   string `json:"kind"`
	What   string `json:"what"`
	FW     []int  `json:"fw"`    // the file, 24 bits per integer, most significant first, the last one zero padded on the right
	FBits  int64  `json:"fbits"` // bits in the file
	Pre    int64  `json:"pre"`   // the decoder put the value at [pre, pre+n)
	N      int64  `json:"n"`
	S      int64  `json:"s"` // what fq reports: ._start, ._stop
	E      int64  `json:"e"`
	Raw    []int  `json:"raw"`    // stdout of `fq '.big | tobytes'`
	Expl   []int  `json:"expl"`   // .big | tobytes | explode
	BitsSz int64  `json:"bitssz"` // .big | tobits | .size
	Hex    []int  `json:"hex"`    // bits_format renderings turned back into bytes
	B64    []int  `json:"b64"`
	Str    []int  `json:"str"`
	Md5Of  []int  `json:"md5of"`
	Md5Str []int  `json:"md5str"` // md5 (crypto/md5) of the bytes of the `string` rendering
	Err    string `json:"err"`
}

const bigJQ = `.big as $v | {s: $v._start, e: $v._stop, bitssz: ($v | tobits | .size), expl: ($v | tobytes | explode),
  hex: ($v | tovalue({bits_format: "hex"})), b64: ($v | tovalue({bits_format: "base64"})),
  str: ($v | tovalue({bits_format: "string"}) | tobytes | explode), md5: ($v | tovalue({bits_format: "md5"}))}`

func bigValue(n int, outPath string) {
	out := kit.NewOut(outPath)
	rng := rand.New(rand.NewSource(kit.Seed()*48611 + 5))
	for i := 0; i < n; i++ {
		pre := int64(rng.Intn(8))
		if i%4 == 3 {
			pre = 8*int64(rng.Intn(3)) + int64(rng.Intn(8)) // sometimes a few bytes further in
		}
		chunks := int64(1 + rng.Intn(2))
		nbits := 8*(32768*chunks+int64(rng.Intn(3000))) + int64(rng.Intn(8))
		if i%5 == 0 {
			nbits = 8*32768*chunks + int64(1+rng.Intn(7)) // just over a chunk boundary
		}
		tail := int64(rng.Intn(24))
		fbits := pre + nbits + tail
		data := make([]byte, (fbits+7)/8)
		rng.Read(data)
		if rng.Intn(3) == 0 { // long runs of ones: a cleared or shifted bit shows
			for k := range data {
				if rng.Intn(16) != 0 {
					data[k] = 0xff
				}
			}
		}
		name := fmt.Sprintf("big%04d", i)
		bigMu.Lock()
		bigRecs[name] = bigRec{pre, nbits}
		bigMu.Unlock()
		ev := bigEvent{Kind: "bigvalue", What: fmt.Sprintf("raw field of %d bits at bit %d of a %d byte file", nbits, pre, len(data)), FBits: int64(len(data)) * 8, Pre: pre, N: nbits,
			FW: []int{}, Raw: []int{}, Expl: []int{}, Hex: []int{}, B64: []int{}, Str: []int{}, Md5Of: []int{}, Md5Str: []int{}}
		for k := 0; k < len(data); k += 3 {
			w := 0
			for b := 0; b < 3; b++ {
				w <<= 8
				if k+b < len(data) {
					w |= int(data[k+b])
				}
			}
			ev.FW = append(ev.FW, w)
		}
		files := map[string][]byte{name: data}
		r := kit.RunFQ([]string{"-d", "verifbig", ".big | tobytes", name}, files, nil)
		ev.Raw = ints(r.Stdout)
		r2 := kit.RunFQ([]string{"-d", "verifbig", "-c", bigJQ, name}, files, nil)
		var o struct {
			S, E, BitsSz  int64
			Expl, Str     []int
			Hex, B64, Md5 string
		}
		if err := json.Unmarshal(r2.Stdout, &o); err != nil {
			ev.Err = fmt.Sprintf("observation: %v; stderr: %.200s", err, r2.Stderr)
		} else {
			ev.S, ev.E, ev.BitsSz = o.S, o.E, o.BitsSz
			if o.Expl != nil {
				ev.Expl = o.Expl
			}
			if o.Str != nil {
				ev.Str = o.Str
			}
			sb := make([]byte, len(ev.Str))
			for k, x := range ev.Str {
				sb[k] = byte(x)
			}
			sum := md5.Sum(sb)
			ev.Md5Str = ints(sum[:])
			if b, err := hex.DecodeString(o.Hex); err == nil {
				ev.Hex = ints(b)
			} else {
				ev.Err = "hex rendering does not parse"
			}
			if b, err := base64.StdEncoding.DecodeString(o.B64); err == nil {
				ev.B64 = ints(b)
			} else {
				ev.Err = "base64 rendering does not parse"
			}
			if b, err := hex.DecodeString(o.Md5); err == nil {
				ev.Md5Of = ints(b)
			} else {
				ev.Err = "md5 rendering does not parse"
			}
		}
		out.Emit(ev)
	}
	out.Close()
}
