// jqtree: decode trees observed through the real jq layer (C05 tobits/tobytes/bits_format, C12 paths and navigation).
//
//	jqtree prog <cases.ndjson> <events.ndjson>      programs emitted by TLC (len must be a multiple of 8)
//	jqtree randprog <n> <events.ndjson>
//	jqtree files <jobs.ndjson> <events.ndjson>      real sample files under real formats (jobs: {file, format})
//	jqtree pathexpr <cases.ndjson> <events.ndjson>  path arrays through path_to_expr | expr_to_path
package main

import (
	"bytes"
	"context"
	"crypto/md5"
	"encoding/base64"
	"encoding/hex"
	"encoding/json"
	"fmt"
	"math/rand"
	"os"
	"strings"
	"sync"

	_ "github.com/wader/fq/format/all"
	"github.com/wader/fq/internal/verif/kit"
	"github.com/wader/fq/internal/verif/treelib"
	"github.com/wader/fq/pkg/bitio"
	"github.com/wader/fq/pkg/decode"
	"github.com/wader/fq/pkg/interp"
)

type progRec struct {
	p    treelib.Prog
	seed int64
}

var (
	progMu sync.Mutex
	progs  = map[string]progRec{} // by virtual file name
)

func init() {
	interp.RegisterFormat(&decode.Group{Name: "verifprog"}, &decode.Format{
		Description: "verification decoder program",
		DecodeFn: func(d *decode.D) any {
			progMu.Lock()
			pr, ok := progs[d.Options.Description]
			progMu.Unlock()
			if !ok {
				d.Fatalf("verifprog: no program for %q", d.Options.Description)
			}
			return treelib.DecodeFn(pr.p, pr.seed)(d)
		},
	})
}

type PathEl struct {
	K string `json:"k"`
	I int    `json:"i"`
	S string `json:"s"`
}
type PathObs struct {
	Ok   bool     `json:"ok"`
	Null bool     `json:"null"`
	V    []PathEl `json:"v"`
}
type IntsObs struct {
	Ok bool  `json:"ok"`
	V  []int `json:"v"`
}
type rawFmt struct {
	Ok bool            `json:"ok"`
	V  json.RawMessage `json:"v"`
}
type jqObs struct {
	File  string   `json:"file"`
	P     []PathEl `json:"p"`
	S     int64    `json:"s"`
	E     int64    `json:"e"`
	N     string   `json:"n"`
	Bits  IntsObs  `json:"bits"`
	Bytes IntsObs  `json:"bytes"`
	Gp    struct {
		Ok bool   `json:"ok"`
		S  int64  `json:"s"`
		E  int64  `json:"e"`
		N  string `json:"n"`
	} `json:"gp"`
	Par  PathObs            `json:"par"`
	Via  PathObs            `json:"via"`
	Root PathObs            `json:"root"`
	Br   PathObs            `json:"br"`
	Fr   PathObs            `json:"fr"`
	Rf   map[string]*rawFmt `json:"rf"`
}

// Renderings of a raw field, each turned back into the bytes it encodes (trusted: encoding/hex, encoding/base64, crypto/md5).
type Rend struct {
	Has    bool   `json:"has"`
	Hex    []int  `json:"hex"`
	B64    []int  `json:"b64"`
	Str    []int  `json:"str"`
	Arr    []int  `json:"arr"`
	Trunc  []int  `json:"trunc"`
	Snip   []int  `json:"snip"`
	SnipSz string `json:"snipsz"`
	Md5Of  []int  `json:"md5of"`  // 16 bytes reported
	Md5Ref []int  `json:"md5ref"` // md5 (Go) of the bytes of the `string` rendering
	Bad    string `json:"bad"`    // a rendering that could not be parsed back at all
}

type Obs struct {
	P     []PathEl `json:"p"`
	S     int64    `json:"s"`
	E     int64    `json:"e"`
	N     string   `json:"n"`
	Bits  IntsObs  `json:"bits"`
	Bytes IntsObs  `json:"bytes"`
	GpOk  bool     `json:"gpok"`
	GpS   int64    `json:"gps"`
	GpE   int64    `json:"gpe"`
	GpN   string   `json:"gpn"`
	Par   PathObs  `json:"par"`
	Via   PathObs  `json:"via"`
	Root  PathObs  `json:"root"`
	Br    PathObs  `json:"br"`
	Fr    PathObs  `json:"fr"`
	R     Rend     `json:"r"`
}

type event struct {
	Kind   string           `json:"kind"` // tree | slice
	Want   []int            `json:"want"`
	Got    []int            `json:"got"`
	What   string           `json:"what"`
	Len    int64            `json:"len"`
	Force  bool             `json:"force"`
	Prog   []treelib.Tok    `json:"prog"`
	Nodes  []treelib.Node   `json:"nodes"`
	Bufs   map[string][]int `json:"bufs"`
	Obs    []Obs            `json:"obs"`
	RawOut []int            `json:"rawout"` // stdout of `fq tobytes FILE` (non-terminal)
	RawOk  bool             `json:"rawok"`
	JqErr  string           `json:"jqerr"`
}

func bitsOfBytes(b []byte) []int {
	o := make([]int, 0, len(b)*8)
	for _, x := range b {
		for i := 7; i >= 0; i-- {
			o = append(o, int(x>>uint(i))&1)
		}
	}
	return o
}

func ints(b []byte) []int {
	o := make([]int, len(b))
	for i, x := range b {
		o[i] = int(x)
	}
	return o
}

func str(r *rawFmt) (string, bool) {
	if r == nil || !r.Ok {
		return "", false
	}
	var s string
	if json.Unmarshal(r.V, &s) != nil {
		return "", false
	}
	return s, true
}
func intsOf(r *rawFmt) ([]int, bool) {
	if r == nil || !r.Ok {
		return nil, false
	}
	var v []int
	if string(r.V) == "null" { // empty byte_array is rendered as null ([]any(nil))
		return []int{}, true
	}
	if json.Unmarshal(r.V, &v) != nil {
		return nil, false
	}
	if v == nil {
		v = []int{}
	}
	return v, true
}

func rend(o jqObs) Rend {
	r := Rend{Has: true, Hex: []int{}, B64: []int{}, Str: []int{}, Arr: []int{}, Trunc: []int{}, Snip: []int{}, Md5Of: []int{}, Md5Ref: []int{}}
	bad := func(s string) { r.Bad += s + ";" }
	if s, ok := str(o.Rf["hex"]); ok {
		if b, err := hex.DecodeString(s); err == nil {
			r.Hex = ints(b)
		} else {
			bad("hex")
		}
	} else {
		bad("hex")
	}
	if s, ok := str(o.Rf["b64"]); ok {
		if b, err := base64.StdEncoding.DecodeString(s); err == nil {
			r.B64 = ints(b)
		} else {
			bad("b64")
		}
	} else {
		bad("b64")
	}
	if v, ok := intsOf(o.Rf["str"]); ok {
		r.Str = v
	} else {
		bad("str")
	}
	if v, ok := intsOf(o.Rf["arr"]); ok {
		r.Arr = v
	} else {
		bad("arr")
	}
	if v, ok := intsOf(o.Rf["trunc"]); ok {
		r.Trunc = v
	} else {
		bad("trunc")
	}
	if s, ok := str(o.Rf["md5"]); ok {
		if b, err := hex.DecodeString(s); err == nil && len(b) == 16 {
			r.Md5Of = ints(b)
		} else {
			bad("md5")
		}
	} else {
		bad("md5")
	}
	sb := make([]byte, len(r.Str))
	for i, x := range r.Str {
		sb[i] = byte(x)
	}
	sum := md5.Sum(sb)
	r.Md5Ref = ints(sum[:])
	if s, ok := str(o.Rf["snip"]); ok && strings.HasPrefix(s, "<") && strings.Contains(s, ">") {
		k := strings.Index(s, ">")
		r.SnipSz = s[1:k]
		if b, err := base64.StdEncoding.DecodeString(s[k+1:]); err == nil {
			r.Snip = ints(b)
		} else {
			bad("snip")
		}
	} else {
		bad("snip")
	}
	return r
}

type item struct {
	name  string
	data  []byte
	fmt   string
	force bool
	ev    event
	root  *decode.Value
}

// observe runs the jq observation program and the raw `tobytes` output over a batch of items sharing format+force.
func observe(items []*item) {
	if len(items) == 0 {
		return
	}
	files := map[string][]byte{}
	var names []string
	for _, it := range items {
		files[it.name] = it.data
		names = append(names, it.name)
	}
	args := []string{"-d", items[0].fmt, "-c"}
	if items[0].force {
		args = append(args, "-o", "force=true")
	}
	res := kit.RunFQ(append(append(args, obsJQ), names...), files, nil)
	by := map[string][]jqObs{}
	dec := json.NewDecoder(bytes.NewReader(res.Stdout))
	for {
		var o jqObs
		if err := dec.Decode(&o); err != nil {
			break
		}
		by[o.File] = append(by[o.File], o)
	}
	for _, it := range items {
		for k, o := range by[it.name] {
			ob := Obs{P: o.P, S: o.S, E: o.E, N: o.N, Bits: o.Bits, Bytes: o.Bytes, GpOk: o.Gp.Ok, GpS: o.Gp.S, GpE: o.Gp.E, GpN: o.Gp.N,
				Par: o.Par, Via: o.Via, Root: o.Root, Br: o.Br, Fr: o.Fr,
				R: Rend{Hex: []int{}, B64: []int{}, Str: []int{}, Arr: []int{}, Trunc: []int{}, Snip: []int{}, Md5Of: []int{}, Md5Ref: []int{}}}
			if k < len(it.ev.Nodes) && it.ev.Nodes[k].Raw && o.Rf != nil {
				ob.R = rend(o)
			}
			fix := func(p *PathObs) {
				if p.V == nil {
					p.V = []PathEl{}
				}
			}
			if ob.P == nil {
				ob.P = []PathEl{}
			}
			if ob.Bits.V == nil {
				ob.Bits.V = []int{}
			}
			if ob.Bytes.V == nil {
				ob.Bytes.V = []int{}
			}
			fix(&ob.Par)
			fix(&ob.Via)
			fix(&ob.Root)
			fix(&ob.Br)
			fix(&ob.Fr)
			it.ev.Obs = append(it.ev.Obs, ob)
		}
		if len(by[it.name]) == 0 {
			it.ev.JqErr = strings.TrimSpace(string(res.Stderr))
			if len(it.ev.JqErr) > 300 {
				it.ev.JqErr = it.ev.JqErr[:300]
			}
		}
	}
	// raw stdout of tobytes, one file per run (stdout is the raw bytes)
	for _, it := range items {
		if os.Getenv("VERIF_RAWOUT") == "0" {
			it.ev.RawOut, it.ev.RawOk = ints(it.data), true // not observed in this run (C12)
			continue
		}
		a := []string{"-d", it.fmt}
		if it.force {
			a = append(a, "-o", "force=true")
		}
		r := kit.RunFQ(append(a, "tobytes", it.name), map[string][]byte{it.name: it.data}, nil)
		it.ev.RawOut = ints(r.Stdout)
		it.ev.RawOk = r.Err == nil || len(r.Stdout) > 0
	}
}

func progItem(i int, p treelib.Prog, seed int64) *item {
	name := fmt.Sprintf("p%06d", i)
	progMu.Lock()
	progs[name] = progRec{p, seed}
	progMu.Unlock()
	it := &item{name: name, data: treelib.InputBytes(p, seed), fmt: "verifprog", force: p.Force}
	it.ev = event{What: name, Len: p.Len, Force: p.Force, Prog: p.Prog, Nodes: []treelib.Node{}, Bufs: map[string][]int{}, Obs: []Obs{}, RawOut: []int{}}
	if it.ev.Prog == nil {
		it.ev.Prog = []treelib.Tok{}
	}
	root, pm := treelib.RunProg(p, seed)
	if pm != "" || root == nil {
		return nil
	}
	it.ev.Nodes = treelib.Flatten(root, false, 0)
	it.ev.Bufs = treelib.BufBits(it.ev.Nodes, 4096)
	return it
}

func runBatches(items []*item, out *kit.Out) {
	for _, it := range items {
		it.ev.Kind, it.ev.Want, it.ev.Got = "tree", []int{}, []int{}
	}
	// parallel over batches of 40 sharing (format, force)
	groups := map[string][]*item{}
	for _, it := range items {
		k := fmt.Sprintf("%s/%v", it.fmt, it.force)
		groups[k] = append(groups[k], it)
	}
	var batches [][]*item
	for _, g := range groups {
		for i := 0; i < len(g); i += 40 {
			j := i + 40
			if j > len(g) {
				j = len(g)
			}
			batches = append(batches, g[i:j])
		}
	}
	ch := make(chan []*item, len(batches))
	for _, b := range batches {
		ch <- b
	}
	close(ch)
	var wg sync.WaitGroup
	for w := 0; w < 12; w++ {
		wg.Add(1)
		go func() {
			defer wg.Done()
			for b := range ch {
				observe(b)
			}
		}()
	}
	wg.Wait()
	for _, it := range items {
		out.Emit(it.ev)
	}
}

// field names; one in four is spelled like a key every decode value answers (_len, _description): such a field is a child like any
// other - listed by keys, reached by its path - whatever the wrapper does with names that start with an underscore
var names = []string{"a", "b", "c", "a", "b", "c", "_len", "_description"}

func gen(rng *rand.Rand, depth int, n int, L int64, toks *[]treelib.Tok) {
	for i := 0; i < n; i++ {
		nm := names[rng.Intn(len(names))]
		k := rng.Intn(18)
		w := int64([]int{1, 2, 3, 5, 8, 13}[rng.Intn(6)])
		fl := int64(rng.Intn(int(L) + 4))
		sp := int64(rng.Intn(int(L) + 6))
		begin := func(t treelib.Tok, m int) {
			*toks = append(*toks, t)
			gen(rng, depth-1, rng.Intn(m), L, toks)
			*toks = append(*toks, treelib.Tok{K: "end"})
		}
		switch {
		case k < 6 || depth == 0:
			*toks = append(*toks, treelib.Tok{K: "leaf", Name: nm, N: w})
		case k == 6:
			*toks = append(*toks, treelib.Tok{K: "synth", Name: nm})
		case k == 7:
			begin(treelib.Tok{K: "struct", Name: nm}, 4)
		case k == 8:
			begin(treelib.Tok{K: "array", Name: nm}, 5)
		case k == 9:
			*toks = append(*toks, treelib.Tok{K: "seek", P: sp})
		case k == 10:
			begin(treelib.Tok{K: "framed", N: fl}, 3)
		case k == 11:
			begin(treelib.Tok{K: "limited", N: fl}, 3)
		case k == 12:
			begin(treelib.Tok{K: "fmtlen", Name: nm, N: fl, OrRaw: rng.Intn(2) == 0}, 4)
		case k == 13:
			begin(treelib.Tok{K: "fmtrest", Name: nm, OrRaw: rng.Intn(2) == 0}, 4)
		case k == 14:
			begin(treelib.Tok{K: "fmtrange", Name: nm, N: fl, P: sp}, 3)
		case k == 15:
			begin(treelib.Tok{K: "bitbuf", Name: nm, N: int64(rng.Intn(40))}, 4)
		case k == 16:
			begin(treelib.Tok{K: []string{"rootstruct", "rootarray"}[rng.Intn(2)], Name: nm, N: int64(rng.Intn(40))}, 4)
		case k == 17:
			if rng.Intn(5) == 0 {
				*toks = append(*toks, treelib.Tok{K: "fail"})
			}
		}
	}
}

type fileJob struct {
	File   string `json:"file"`
	Format string `json:"format"`
}

func main() {
	seed := kit.Seed()
	switch os.Args[1] {
	case "prog":
		out := kit.NewOut(os.Args[3])
		var items []*item
		kit.Cases(os.Args[2], func(i int, raw []byte) {
			var p treelib.Prog
			kit.Unmarshal(raw, &p)
			if p.Len%8 != 0 {
				kit.Fatalf("jqtree: program length must be a multiple of 8")
			}
			if it := progItem(i, p, seed*1000003+int64(i)); it != nil {
				items = append(items, it)
			}
		})
		runBatches(items, out)
		out.Close()
	case "randprog":
		n := kit.Atoi(os.Args[2])
		out := kit.NewOut(os.Args[3])
		rng := rand.New(rand.NewSource(seed))
		var items []*item
		for i := 0; i < n; i++ {
			L := int64(8 * rng.Intn(7))
			var toks []treelib.Tok
			gen(rng, 3, 1+rng.Intn(6), L, &toks)
			if it := progItem(1000000+i, treelib.Prog{Len: L, Force: rng.Intn(5) == 0, Prog: toks}, seed*7919+int64(i)); it != nil {
				items = append(items, it)
			}
		}
		runBatches(items, out)
		out.Close()
	case "files":
		out := kit.NewOut(os.Args[3])
		var items []*item
		kit.Cases(os.Args[2], func(i int, raw []byte) {
			var j fileJob
			kit.Unmarshal(raw, &j)
			data, err := os.ReadFile(j.File)
			if err != nil {
				kit.Fatalf("read %s: %v", j.File, err)
			}
			group, err := interp.DefaultRegistry.Group(j.Format)
			if err != nil {
				kit.Fatalf("format %s: %v", j.Format, err)
			}
			dv, _, _ := decode.Decode(context.Background(), bitio.NewBitReader(data, -1), group, decode.Options{IsRoot: true, FillGaps: true})
			if dv == nil {
				return
			}
			it := &item{name: fmt.Sprintf("f%05d", i), data: data, fmt: j.Format}
			it.ev = event{What: j.File + " -d " + j.Format, Prog: []treelib.Tok{}, Nodes: treelib.Flatten(dv, false, 0), Obs: []Obs{}, RawOut: []int{}}
			it.ev.Bufs = treelib.BufBits(it.ev.Nodes, 1<<15)
			items = append(items, it)
		})
		runBatches(items, out)
		out.Close()
	case "bigvalue":
		bigValue(kit.Atoi(os.Args[2]), os.Args[3])
	case "bigarr":
		// bigarr <events>: arrays of 300 / 40 000 / 70 000 elements (a cbor array of small integers): the last path component of every
		// element is its position, also far beyond 2^15 and 2^16, and the way back through parent leads to the same element
		out := kit.NewOut(os.Args[2])
		for _, n := range []int{300, 40000, 70000} {
			head := fmt.Sprintf("153, %d, %d", n>>8, n&255)
			if n > 65535 {
				head = fmt.Sprintf("154, 0, %d, %d, %d", n>>16, (n>>8)&255, n&255)
			}
			prog := fmt.Sprintf(`[%s, (range(%d) | . %% 24)] | tobytes | cbor | .elements as $e
| [($e | length), ([range(0; %d) as $i | $e[$i] | (topath | last) | select(. != $i)] | length), ($e[%d] | topath | last), ($e[%d] | parent | .[%d] | topath | last)]`, head, n, n, n-1, n-1, n-1)
			res := kit.RunFQ([]string{"-n", "-c", prog}, nil, nil)
			ev := event{Kind: "bigarr", What: fmt.Sprintf("cbor array of %d elements: topath | last of every element", n), Len: int64(n), Want: []int{}, Got: []int{},
				Prog: []treelib.Tok{}, Nodes: []treelib.Node{}, Bufs: map[string][]int{}, Obs: []Obs{}, RawOut: []int{}}
			if err := json.Unmarshal(bytes.TrimSpace(res.Stdout), &ev.Got); err != nil {
				ev.JqErr = "bigarr: " + strings.TrimSpace(string(res.Stderr)) + " " + err.Error()
			}
			out.Emit(ev)
		}
		out.Close()
	case "slice":
		// slice <n> <events>: the root of a decode of a SLICED binary must give back exactly the slice (C05: "the root value yields the whole input")
		n := kit.Atoi(os.Args[2])
		out := kit.NewOut(os.Args[3])
		rng := rand.New(rand.NewSource(seed))
		payloads := []string{`[1,2]`, `{"a":[true,null,"x"]}`, `"str"`, `123`, `[]`, `{"k":{"n":-1.5}}`}
		type sc struct {
			Pre, Post int
			Pay       string
		}
		var cases []sc
		var progs []string
		for i := 0; i < n; i++ {
			c := sc{Pre: rng.Intn(10), Post: rng.Intn(6), Pay: payloads[rng.Intn(len(payloads))]}
			cases = append(cases, c)
		}
		arg, _ := json.Marshal(cases)
		prog := `$cs[] | . as $c | (("x" * $c.Pre) + $c.Pay + ("y" * $c.Post)) as $s
| try ($s | tobytes[$c.Pre:($c.Pre + ($c.Pay | length))] | json | {ok: true, got: (tobytes | explode), bits: (tobits | explode)}) catch {ok: false, got: [], bits: []}`
		_ = progs
		res := kit.RunFQ([]string{"-n", "-c", "--argjson", "cs", string(arg), prog}, nil, nil)
		dec := json.NewDecoder(bytes.NewReader(res.Stdout))
		k := 0
		for {
			var o struct {
				Ok   bool  `json:"ok"`
				Got  []int `json:"got"`
				Bits []int `json:"bits"`
			}
			if err := dec.Decode(&o); err != nil {
				break
			}
			c := cases[k]
			gb := make([]byte, len(o.Got))
			for i, x := range o.Got {
				gb[i] = byte(x)
			}
			ev := event{Kind: "slice", What: fmt.Sprintf("%q | tobytes[%d:%d] | json | tobytes", strings.Repeat("x", c.Pre)+c.Pay+strings.Repeat("y", c.Post), c.Pre, c.Pre+len(c.Pay)),
				Want: bitsOfBytes([]byte(c.Pay)), Got: bitsOfBytes(gb), Prog: []treelib.Tok{}, Nodes: []treelib.Node{}, Bufs: map[string][]int{}, Obs: []Obs{}, RawOut: []int{}}
			if !o.Ok {
				ev.JqErr = "decode of slice failed"
			}
			out.Emit(ev)
			k++
		}
		if k != len(cases) {
			kit.Fatalf("slice: %d results for %d cases: %s", k, len(cases), res.Stderr)
		}
		out.Close()
	case "pathexpr":
		// cases: {"p": [path elements]}; one fq run evaluates all of them
		out := kit.NewOut(os.Args[3])
		var paths [][]PathEl
		kit.Cases(os.Args[2], func(_ int, raw []byte) {
			var c struct {
				P []PathEl `json:"p"`
			}
			kit.Unmarshal(raw, &c)
			if c.P == nil {
				c.P = []PathEl{}
			}
			paths = append(paths, c.P)
		})
		var plain []any
		for _, p := range paths {
			a := []any{}
			for _, el := range p {
				if el.K == "i" {
					a = append(a, el.I)
				} else {
					a = append(a, el.S)
				}
			}
			plain = append(plain, a)
		}
		arg, _ := json.Marshal(plain)
		prog := `def _pe: map(if type == "number" then {k: "i", i: ., s: ""} else {k: "s", i: 0, s: .} end);
$ps[] | . as $p | try {ok: true, expr: ($p | path_to_expr), back: ($p | path_to_expr | expr_to_path | _pe)} catch {ok: false, expr: (try ($p | path_to_expr) catch ""), back: []}`
		res := kit.RunFQ([]string{"-n", "-c", "--argjson", "ps", string(arg), prog}, nil, nil)
		dec := json.NewDecoder(bytes.NewReader(res.Stdout))
		n := 0
		for {
			var o struct {
				Ok   bool     `json:"ok"`
				Expr string   `json:"expr"`
				Back []PathEl `json:"back"`
			}
			if err := dec.Decode(&o); err != nil {
				break
			}
			if o.Back == nil {
				o.Back = []PathEl{}
			}
			out.Emit(map[string]any{"p": paths[n], "ok": o.Ok, "expr": o.Expr, "back": o.Back})
			n++
		}
		if n != len(paths) {
			kit.Fatalf("pathexpr: %d results for %d paths: %s", n, len(paths), res.Stderr)
		}
		out.Close()
	default:
		kit.Fatalf("unknown mode %q", os.Args[1])
	}
}
