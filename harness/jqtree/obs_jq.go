package main

// jq observation program (kept as a Go string: go:embed cannot see overlay files)
const obsJQ = `# per-node observations of a decode tree through the real jq layer (C05, C12)
def _pe: map(if type == "number" then {k: "i", i: ., s: ""} else {k: "s", i: 0, s: .} end);
def _ok(f): try {ok: true, v: f} catch {ok: false, v: []};
def _path(f): try (f | if _is_decode_value then {ok: true, null: false, v: (topath | _pe)}
                        elif . == null then {ok: true, null: true, v: []} else error("not a decode value") end)
              catch {ok: false, null: false, v: []};
# the values of the tree itself (recurse would also enter plain JSON arrays and objects held by a scalar)
def _dwalk: ., (.[]? | select(_is_decode_value) | _dwalk);
def _fmt($f): try {ok: true, v: tovalue({bits_format: $f})} catch {ok: false, v: null};
def _fmtb($f): try {ok: true, v: (tovalue({bits_format: $f}) | tobytes | explode)} catch {ok: false, v: null};
def _obs($r):
  . as $v
  | ($v | topath) as $p
  | {file: input_filename,
     p: ($p | _pe),
     s: $v._start, e: $v._stop, n: $v._name,
     bits: _ok($v | tobits | explode),
     bytes: _ok($v | tobytes | explode),
     gp: (try ($r | getpath($p) | {ok: true, s: ._start, e: ._stop, n: ._name}) catch {ok: false, s: 0, e: 0, n: ""}),
     par: _path($v | parent),
     via: _path($v | parent | if _is_decode_value | not then null elif type == "array" then .[$v._index] else .[$v._name] end),
     root: _path($v | root), br: _path($v | buffer_root), fr: _path($v | format_root),
     rf: (if ($v | type) as $t | $t == "object" or $t == "array" then null else
            {hex: ($v | _fmt("hex")), b64: ($v | _fmt("base64")), str: ($v | _fmtb("string")), arr: ($v | _fmt("byte_array")),
             md5: ($v | _fmt("md5")), trunc: ($v | _fmtb("truncate")), snip: ($v | _fmt("snippet"))} end)
    };
. as $r | [_dwalk] | .[] | _obs($r)
`
