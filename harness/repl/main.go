// repl: the interactive read-eval-print loop of pkg/interp (repl.jq, _readline, the options stack, slurps) driven through a
// scripted interp.OS.Readline on a virtual OS, for Repl.tla / TraceRepl.tla.
//
//	repl run <scripts.ndjson> <out.ndjson>
//
// One script = one in-process `fq -i -n -c -M <init>`: the values of <init> are the inputs of the outermost loop.  Every call of
// Readline is one step: the harness records the PROMPT fq asks for (the REPL's own projection of its state: nesting level and a
// summary of the level's inputs) and the stdout lines written since the previous call, then answers with the next script line:
//
//	{"k":"line","t":TEXT}   the user typed TEXT
//	{"k":"sigint"}          ctrl-C at the prompt (Readline returns interp.ErrInterrupt)
//	{"k":"eof"}             ctrl-D (interp.ErrEOF)
//	{"k":"run","t":TEXT}    the user typed TEXT, which prints the marker "go" and then never ends; when the marker appears on
//	                        stdout an interrupt is delivered through OS.InterruptChan() - the evaluation of that line, and
//	                        nothing else, has to end.  Whether the interrupt was delivered is recorded (a line that never prints
//	                        the marker, e.g. at a level without inputs, returns by itself).
//
// After the script every further Readline answers ctrl-D, so all levels unwind and Main returns.  No jq text is interpreted
// here and nothing is compared here: lines in, prompts and output lines out.
package main

import (
	"bytes"
	"context"
	"encoding/json"
	"errors"
	"fmt"
	"io"
	"io/fs"
	"os"
	"strconv"
	"sync"
	"sync/atomic"
	"time"

	_ "github.com/wader/fq/format/all"
	"github.com/wader/fq/internal/verif/kit"
	"github.com/wader/fq/pkg/interp"
)

type line struct {
	K string `json:"k"`
	T string `json:"t"`
}

type script struct {
	ID    int      `json:"id"`
	Init  string   `json:"init"`
	Args  []string `json:"args"` // extra command line arguments (before the program)
	Lines []line   `json:"lines"`
}

type step struct {
	Prompt string   `json:"prompt"`
	Out    []string `json:"out"`  // stdout lines since the previous Readline call
	Intr   bool     `json:"intr"` // an interrupt was delivered while the PREVIOUS line was evaluated
}

type result struct {
	ID     int      `json:"id"`
	Steps  []step   `json:"steps"`
	Tail   []string `json:"tail"` // stdout after the last Readline call
	Exit   int      `json:"exit"`
	Err    string   `json:"err"`
	Stderr string   `json:"stderr"`
	Hang   bool     `json:"hang"`
	At     int      `json:"at"`   // number of script lines handed out when the session ended or stopped moving
	Lost   bool     `json:"lost"` // an interrupt could not be delivered: nobody listened on InterruptChan
}

type vfs struct{}

func (vfs) Open(name string) (fs.File, error) { return nil, fmt.Errorf("%s: file not found", name) }

type vin struct{ interp.FileReader }

func (vin) IsTerminal() bool { return false }
func (vin) Size() (int, int) { return 120, 25 }

type vout struct{ io.Writer }

func (vout) Size() (int, int) { return 120, 25 }
func (vout) IsTerminal() bool { return false }

type vos struct {
	args   []string
	stdout io.Writer
	stderr *bytes.Buffer
	intr   chan struct{}
	rl     func(opts interp.ReadlineOpts) (string, error)
}

func (o *vos) Platform() interp.Platform { return interp.Platform{} }
func (o *vos) Stdin() interp.Input {
	return vin{FileReader: interp.FileReader{R: bytes.NewBuffer(nil)}}
}
func (o *vos) Stdout() interp.Output                             { return vout{o.stdout} }
func (o *vos) Stderr() interp.Output                             { return vout{o.stderr} }
func (o *vos) InterruptChan() chan struct{}                      { return o.intr }
func (o *vos) Environ() []string                                 { return []string{"NO_COLOR=1"} }
func (o *vos) Args() []string                                    { return o.args }
func (o *vos) ConfigDir() (string, error)                        { return "/config", nil }
func (o *vos) FS() fs.FS                                         { return vfs{} }
func (o *vos) History() ([]string, error)                        { return nil, nil }
func (o *vos) Readline(opts interp.ReadlineOpts) (string, error) { return o.rl(opts) }

type lineWriter struct {
	mu  sync.Mutex
	buf []byte
	fn  func(line string)
}

func (w *lineWriter) Write(p []byte) (int, error) {
	w.mu.Lock()
	defer w.mu.Unlock()
	w.buf = append(w.buf, p...)
	for {
		i := bytes.IndexByte(w.buf, '\n')
		if i < 0 {
			return len(p), nil
		}
		l := string(w.buf[:i])
		w.buf = w.buf[i+1:]
		w.fn(l)
	}
}

var idle = 6 * time.Second

func runScript(sc script) result {
	res := result{ID: sc.ID, Steps: []step{}, Tail: []string{}}
	args := append([]string{"fq", "-i", "-n", "-c", "-M"}, sc.Args...)
	args = append(args, sc.Init)
	o := &vos{args: args, stderr: &bytes.Buffer{}, intr: make(chan struct{})}
	top, abort := context.WithCancel(context.Background())
	defer abort()
	var cur []string // stdout lines since the last Readline call
	var last atomic.Int64 // time of the last sign of life (a stdout line, a Readline call)
	last.Store(time.Now().UnixNano())
	armed := false   // the line being evaluated is a "run" line: deliver an interrupt at the marker
	delivered := false
	o.stdout = &lineWriter{fn: func(l string) {
		cur = append(cur, l)
		last.Store(time.Now().UnixNano())
		if armed && l == `"go"` {
			armed = false
			select {
			case o.intr <- struct{}{}:
				delivered = true
				last.Store(time.Now().UnixNano())
			case <-time.After(5 * time.Second):
				res.Lost = true
				abort()
			}
		}
	}}
	next := 0
	o.rl = func(opts interp.ReadlineOpts) (string, error) {
		res.Steps = append(res.Steps, step{Prompt: opts.Prompt, Out: append([]string{}, cur...), Intr: delivered})
		last.Store(time.Now().UnixNano())
		cur = nil
		armed, delivered = false, false
		if next >= len(sc.Lines) {
			return "", interp.ErrEOF
		}
		l := sc.Lines[next]
		next++
		switch l.K {
		case "line":
			return l.T, nil
		case "run":
			armed = true
			return l.T, nil
		case "sigint":
			return "", interp.ErrInterrupt
		case "eof":
			return "", interp.ErrEOF
		}
		kit.Fatalf("script %d: unknown line kind %q", sc.ID, l.K)
		return "", nil
	}
	ip, err := interp.New(o, interp.DefaultRegistry)
	if err != nil {
		kit.Fatalf("interp.New: %v", err)
	}
	done := make(chan error, 1)
	go func() { done <- ip.Main(top, o.Stdout(), "verif") }()
	// a session that shows no sign of life (no output line, no prompt) for `idle` is reported as not ending; the time is generous
	// because the only thing a healthy session does silently is to wind up one cancelled loop
	tick := time.NewTicker(100 * time.Millisecond)
	defer tick.Stop()
wait:
	for {
		select {
		case err = <-done:
			break wait
		case <-tick.C:
			if time.Since(time.Unix(0, last.Load())) < idle {
				continue
			}
			res.Hang = true
			abort()
			select {
			case err = <-done:
			case <-time.After(30 * time.Second):
				fmt.Fprintf(os.Stderr, "HANG: repl script %d did not end even after its context was cancelled; stderr=%q\n", sc.ID, o.stderr.String())
				os.Exit(4)
			}
			break wait
		}
	}
	res.At = next
	ip.Stop()
	res.Tail = append(res.Tail, cur...)
	if err != nil {
		res.Err = err.Error()
		var ex interp.Exiter
		if errors.As(err, &ex) {
			res.Exit = ex.ExitCode()
		} else {
			res.Exit = -1
		}
	}
	res.Stderr = o.stderr.String()
	if len(res.Stderr) > 400 {
		res.Stderr = res.Stderr[:400]
	}
	return res
}

func main() {
	if len(os.Args) != 4 || os.Args[1] != "run" {
		kit.Fatalf("usage: repl run <scripts.ndjson> <out.ndjson>   (REPL_IDLE_S: seconds without a sign of life that count as a stall)")
	}
	if v, err := strconv.Atoi(os.Getenv("REPL_IDLE_S")); err == nil && v > 0 {
		idle = time.Duration(v) * time.Second
	}
	out := kit.NewOut(os.Args[3])
	n := 0
	kit.Cases(os.Args[2], func(i int, raw []byte) {
		var sc script
		if err := json.Unmarshal(raw, &sc); err != nil {
			kit.Fatalf("script %d: %v", i, err)
		}
		out.Emit(runScript(sc))
		n++
	})
	out.Close()
	fmt.Println("repl scripts done", n)
}
