package main

// Seeded random tagged command lines for trace validation (TraceCLI.tla).
// The driver only BUILDS command lines of documented shape and tags every token with what it is meant to be;
// TraceCLI.tla re-checks every tag against the symbols (WellTaggedTok) and computes the required outcome itself.

import (
	"math/rand"
)

type optInfo struct {
	short string
	longs []string // documented long name first, then aliases
}

var boolOpts = map[string]optInfo{
	"null_input":        {"n", []string{"null-input"}},
	"slurp":             {"s", []string{"slurp"}},
	"string_input":      {"R", []string{"raw-input"}},
	"raw_string":        {"r", []string{"raw-output"}},
	"join_output":       {"j", []string{"join-output"}},
	"compact":           {"c", []string{"compact-output"}},
	"null_output":       {"", []string{"raw-output0", "nul-output"}},
	"monochrome_output": {"M", []string{"monochrome-output"}},
	"value_output":      {"V", []string{"value-output"}},
}
var valuedOpts = map[string]optInfo{
	"decode_group": {"d", []string{"decode"}},
	"include_path": {"L", []string{"include-path"}},
	"option":       {"o", []string{"option"}},
	"expr_file":    {"f", []string{"from-file"}},
}

var progTexts = map[string]string{
	"id": ".", "failB": ".+1", "nocompile": "(", "collect": "[inputs]",
	"haltB": "if type==\"string\" then (\"bye\\n\"|halt_error(7)) else . end",
	"dup":   ".,.", "none": "empty", "wrap": "[.]", "var": "$x",
	"emitfailB": ".,(if type==\"string\" then error(\"x\") else empty end)",
	"failnullB": "if type==\"string\" then error(null) else . end",
	"tryB":      "try (if type==\"string\" then error(\"x\") else . end)",
	"optB":      "(if type==\"string\" then error(\"x\") else . end)?",
	"labelB":    "label $f | if type==\"string\" then break $f else . end",
	"defB":      "def f: if type==\"string\" then error(\"x\") else . end; f",
}

type unit struct{ toks []tok } // a flag with its value tokens: must stay together

func mkFlagShort(names []string, inl bool, val []string) tok {
	sym := []string{"-"}
	for _, n := range names {
		if o, ok := boolOpts[n]; ok {
			sym = append(sym, o.short)
		} else {
			sym = append(sym, valuedOpts[n].short)
		}
	}
	if inl {
		sym = append(append(sym, "="), val...)
	}
	if val == nil {
		val = []string{}
	}
	return tok{K: "flag", Names: names, Form: "short", Inl: inl, Val: val, Sym: sym}
}

func mkFlagLong(name, spell string, inl bool, val []string) tok {
	sym := []string{"-", "-", spell}
	if inl {
		sym = append(append(sym, "="), val...)
	}
	if val == nil {
		val = []string{}
	}
	return tok{K: "flag", Names: []string{name}, Form: "long", Spell: spell, Inl: inl, Val: val, Sym: sym}
}
func mkVal(sym ...string) tok { return tok{K: "val", Names: []string{}, Val: []string{}, Sym: sym} }
func mkPos(sym ...string) tok { return tok{K: "pos", Names: []string{}, Val: []string{}, Sym: sym} }
func mkDD() tok               { return tok{K: "dd", Names: []string{}, Val: []string{}, Sym: []string{"-", "-"}} }
func mkBad(cls string, sym ...string) tok {
	return tok{K: "bad", Names: []string{}, Val: []string{}, Cls: cls, Sym: sym}
}

func pick[T any](rng *rand.Rand, xs []T) T { return xs[rng.Intn(len(xs))] }

func randCase(rng *rand.Rand, id int) e2eCase {
	// ---- intent
	var bools []string
	for _, b := range []struct {
		n string
		p float64
	}{{"null_input", 0.15}, {"slurp", 0.2}, {"string_input", 0.2}, {"raw_string", 0.25}, {"join_output", 0.15},
		{"compact", 0.3}, {"null_output", 0.1}, {"monochrome_output", 0.1}, {"value_output", 0.1}} {
		if rng.Float64() < b.p {
			bools = append(bools, b.n)
		}
	}
	// inputs
	nIn := rng.Intn(9)
	if rng.Float64() < 0.1 {
		nIn = 0
	}
	kinds := []string{"A", "B", "C", "O", "A", "B", "A", "B", "C", "T", "U", "U", "M", "M", "D", "E"}
	if rng.Float64() < 0.06 { // mostly empty / unreadable inputs
		kinds = []string{"E", "E", "M", "D"}
	}
	var ins []string
	hasU := false
	for i := 0; i < nIn; i++ {
		k := pick(rng, kinds)
		if k == "U" || k == "E" {
			hasU = true
		}
		ins = append(ins, k)
	}
	stdin := pick(rng, []string{"A", "B", "U", "C", "E"})
	if nIn == 0 && (stdin == "U" || stdin == "E") {
		hasU = true
	}
	// program
	prog := pick(rng, []string{"id", "id", "failB", "failB", "nocompile", "collect", "haltB", "dup", "none", "wrap", "var", "var", "emitfailB", "failnullB", "tryB", "optB", "labelB", "defB"})
	useFile := rng.Float64() < 0.12
	progFile := pick(rng, []string{"id.jq", "fail.jq", "id.jq", "fail.jq", "nope.jq"})

	var units []unit
	// valued flags
	addValued := func(name string, val []string) {
		o := valuedOpts[name]
		switch rng.Intn(4) {
		case 0:
			units = append(units, unit{[]tok{mkFlagShort([]string{name}, false, nil), mkVal(val...)}})
		case 1:
			units = append(units, unit{[]tok{mkFlagShort([]string{name}, true, val)}})
		case 2:
			units = append(units, unit{[]tok{mkFlagLong(name, o.longs[0], false, nil), mkVal(val...)}})
		default:
			units = append(units, unit{[]tok{mkFlagLong(name, o.longs[0], true, val)}})
		}
	}
	if rng.Float64() < 0.2 {
		g := "probe"
		if !hasU && rng.Float64() < 0.6 {
			g = "json"
		}
		addValued("decode_group", []string{g})
	}
	if rng.Float64() < 0.1 {
		addValued("include_path", []string{"x"})
	}
	for rng.Float64() < 0.12 {
		addValued("option", []string{"compact", "=", pick(rng, []string{"true", "false"})})
	}
	if useFile {
		addValued("expr_file", []string{progFile})
	}
	// bindings
	nb := 0
	if prog == "var" {
		nb = rng.Intn(3)
	} else if rng.Float64() < 0.1 {
		nb = 1
	}
	for i := 0; i < nb; i++ {
		name := pick(rng, []string{"x", "x", "x", "y"})
		switch rng.Intn(3) {
		case 0:
			units = append(units, unit{[]tok{mkFlagLong("arg", "arg", false, nil), mkVal(name), mkVal(pick(rng, []string{"v", "w"}))}})
		case 1:
			js := pick(rng, [][]string{{"1"}, {"[1,2]"}, {"\"", "s", "\""}, {"1"}, {"{"}})
			units = append(units, unit{[]tok{mkFlagLong("argjson", "argjson", false, nil), mkVal(name), mkVal(js...)}})
		default:
			spell := pick(rng, []string{"raw-file", "raw-file", "raw-file", "rawfile"})
			f := pick(rng, []string{"raw.txt", "raw.txt", "a.json", "missing", "dir"})
			units = append(units, unit{[]tok{mkFlagLong("raw_file", spell, false, nil), mkVal(name), mkVal(f)}})
		}
	}
	// bool flags: random grouping into combined short groups / long forms
	rng.Shuffle(len(bools), func(i, j int) { bools[i], bools[j] = bools[j], bools[i] })
	for i := 0; i < len(bools); {
		o := boolOpts[bools[i]]
		if o.short == "" || rng.Float64() < 0.25 {
			units = append(units, unit{[]tok{mkFlagLong(bools[i], pick(rng, o.longs), false, nil)}})
			i++
			continue
		}
		grp := []string{bools[i]}
		i++
		for i < len(bools) && boolOpts[bools[i]].short != "" && rng.Float64() < 0.5 {
			grp = append(grp, bools[i])
			i++
		}
		units = append(units, unit{[]tok{mkFlagShort(grp, false, nil)}})
	}
	// a combined group may end in one valued flag: merge a bool-only short group with a following short valued unit
	rng.Shuffle(len(units), func(i, j int) { units[i], units[j] = units[j], units[i] })
	for i := 0; i+1 < len(units); i++ {
		a, b := units[i].toks, units[i+1].toks
		if len(a) == 1 && a[0].K == "flag" && a[0].Form == "short" && !a[0].Inl && b[0].Form == "short" && len(b[0].Names) == 1 && rng.Float64() < 0.4 {
			if _, isBool := boolOpts[a[0].Names[len(a[0].Names)-1]]; !isBool {
				continue
			}
			if _, isVal := valuedOpts[b[0].Names[0]]; !isVal {
				continue
			}
			names := append(append([]string{}, a[0].Names...), b[0].Names[0])
			merged := mkFlagShort(names, b[0].Inl, b[0].Val)
			units[i+1].toks = append([]tok{merged}, b[1:]...)
			units = append(units[:i], units[i+1:]...)
		}
	}
	// argument error injection
	switch {
	case rng.Float64() < 0.05:
		units = append(units, unit{[]tok{pick(rng, []tok{
			mkBad("unknown", "-", "X"), mkBad("unknown", "-", "-", "nope"), mkBad("unknown", "-", "n", "X"), mkBad("unknown", "-", "c", "r", "Z"),
			mkBad("boolval", "-", "n", "=", "1"), mkBad("boolval", "-", "-", "slurp", "=", "x"), mkBad("boolval", "-", "r", "c", "=", "1"),
			mkBad("boolval", "-", "-", "raw-output0", "=", "1")})}})
		rng.Shuffle(len(units), func(i, j int) { units[i], units[j] = units[j], units[i] })
	}
	// ---- positionals and layout
	var pos []tok
	if !useFile {
		pos = append(pos, mkPos(progTexts[prog]))
	}
	fileStart := len(pos)
	for _, k := range ins {
		pos = append(pos, mkPos(kindFile[k]))
	}
	// choose for every unit the positional slot it is placed before (0..len(pos)); optional "--" at slot dd
	dd := -1
	if rng.Float64() < 0.2 {
		dd = rng.Intn(len(pos) + 1)
		if rng.Float64() < 0.3 && len(pos) > fileStart { // a flag look-alike file name after --
			pos = append(pos, mkPos("-", "n"))
			ins = append(ins, "M")
		}
	}
	maxSlot := len(pos)
	if dd >= 0 {
		maxSlot = dd
	}
	slots := make([][]tok, len(pos)+1)
	missingTail := rng.Float64() < 0.03
	for ui, u := range units {
		s := 0
		if rng.Float64() < 0.35 {
			s = rng.Intn(maxSlot + 1)
		}
		_ = ui
		slots[s] = append(slots[s], u.toks...)
	}
	var toks []tok
	var fidx []int
	for i := 0; i <= len(pos); i++ {
		toks = append(toks, slots[i]...)
		if i == dd {
			toks = append(toks, mkDD())
		}
		if i < len(pos) {
			toks = append(toks, pos[i])
			if i >= fileStart {
				fidx = append(fidx, len(toks))
			}
		}
	}
	if missingTail && dd < 0 {
		toks = append(toks, pick(rng, []tok{mkFlagShort([]string{"decode_group"}, false, nil), mkFlagLong("arg", "arg", false, nil),
			mkFlagShort([]string{"compact", "option"}, false, nil)}))
	}
	if fidx == nil {
		fidx = []int{}
	}
	// solo runs are only needed where independence applies: a per-input program, no -n, no --slurp
	perInput := map[string]bool{"id": true, "failB": true, "dup": true, "none": true, "wrap": true, "var": true, "emitfailB": true, "failnullB": true, "tryB": true, "optB": true, "labelB": true, "defB": true}
	solo := (useFile || perInput[prog]) && len(fidx) > 0
	for _, b := range bools {
		if b == "null_input" || b == "slurp" {
			solo = false
		}
	}
	return e2eCase{ID: id, Fam: "rand", Group: "", Toks: toks, Fidx: fidx, Stdin: stdin, Solo: solo}
}

func randCases(n int, seed int64) []e2eCase {
	rng := rand.New(rand.NewSource(seed))
	cs := make([]e2eCase, n)
	for i := range cs {
		cs[i] = randCase(rng, i)
	}
	return cs
}
