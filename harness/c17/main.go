// c17: binds CLI.tla to the real fq command line (pkg/interp Main + args.jq/options.jq/init.jq).
//
//	c17 replay <cases.ndjson> <events.ndjson>  TLC-emitted tagged command lines through in-process Main (+ one solo run per input)
//	c17 parse <vectors.ndjson> <out.ndjson>    the real _args_parse on raw argument vectors
//	c17 rand <n> <events.ndjson>               seeded random tagged command lines (rand.go), same replay
//	c17 fixtures <dir>                         write the fixture files to a real directory
//	c17 run <cases.ndjson> <events.ndjson>     ad-hoc {id, argv, files, dirs, stdin} (probing / replay files)
//
// The harness contains no oracle: it records exit code, stdout and stderr of real runs.
package main

import (
	"bytes"
	"context"
	"encoding/json"
	"fmt"
	"io"
	"io/fs"
	"os"
	"path/filepath"
	"runtime"
	"strings"
	"sync"
	"sync/atomic"
	"syscall"

	_ "github.com/wader/fq/format/all"
	"github.com/wader/fq/internal/verif/kit"
	"github.com/wader/fq/pkg/interp"
)

// ---- virtual file system: regular files, directories (open works, read fails EISDIR as on a real OS), missing

type memFS struct {
	files map[string]string
	dirs  map[string]bool
}

type memFile struct {
	*bytes.Reader
	name string
	size int64
}

func (f memFile) Stat() (fs.FileInfo, error) {
	return interp.FixedFileInfo{FName: f.name, FSize: f.size}, nil
}
func (f memFile) Close() error { return nil }

type memDir struct{ name string }

func (d memDir) Stat() (fs.FileInfo, error) {
	return interp.FixedFileInfo{FName: d.name, FMode: fs.ModeDir | 0o755, FIsDir: true}, nil
}
func (d memDir) Read([]byte) (int, error) {
	return 0, &fs.PathError{Op: "read", Path: d.name, Err: syscall.EISDIR}
}
func (d memDir) Close() error { return nil }

func (m memFS) Open(name string) (fs.File, error) {
	if m.dirs[name] {
		return memDir{name}, nil
	}
	b, ok := m.files[name]
	if !ok {
		return nil, &fs.PathError{Op: "open", Path: name, Err: fs.ErrNotExist}
	}
	return memFile{Reader: bytes.NewReader([]byte(b)), name: name, size: int64(len(b))}, nil
}

// ---- virtual OS

type vin struct {
	interp.FileReader
	term bool
}

func (i vin) IsTerminal() bool { return i.term }
func (vin) Size() (int, int)   { return 120, 25 }

type vout struct{ io.Writer }

func (vout) Size() (int, int) { return 120, 25 }
func (vout) IsTerminal() bool { return false }

type vos struct {
	args           []string
	stdin          *string
	stdout, stderr *bytes.Buffer
	fsys           fs.FS
}

func (o *vos) Platform() interp.Platform {
	return interp.Platform{OS: "vos", Arch: "varch", GoVersion: "vgo"}
}
func (o *vos) Stdin() interp.Input {
	s := ""
	if o.stdin != nil {
		s = *o.stdin
	}
	return vin{FileReader: interp.FileReader{R: bytes.NewBufferString(s)}, term: o.stdin == nil}
}
func (o *vos) Stdout() interp.Output        { return vout{o.stdout} }
func (o *vos) Stderr() interp.Output        { return vout{o.stderr} }
func (o *vos) InterruptChan() chan struct{} { return nil }
func (o *vos) Environ() []string            { return []string{"NO_COLOR=1", "NO_DECODE_PROGRESS=1"} }
func (o *vos) Args() []string               { return o.args }
func (o *vos) ConfigDir() (string, error)   { return "/config", nil }
func (o *vos) FS() fs.FS                    { return o.fsys }
func (o *vos) History() ([]string, error)   { return nil, nil }
func (o *vos) Readline(opts interp.ReadlineOpts) (string, error) {
	return "", io.EOF
}

type result struct {
	Exit   int    `json:"exit"`
	Stdout string `json:"stdout"`
	Stderr string `json:"stderr"`
}

// runMain: one real command line. argv excludes argv[0].
func runMain(fsys fs.FS, argv []string, stdin *string) result {
	o := &vos{args: append([]string{"fq"}, argv...), stdin: stdin, stdout: &bytes.Buffer{}, stderr: &bytes.Buffer{}, fsys: fsys}
	i, err := interp.New(o, interp.DefaultRegistry)
	if err != nil {
		kit.Fatalf("interp.New: %v", err)
	}
	defer i.Stop()
	code := 0
	// same mapping as pkg/cli.Main
	if err := i.Main(context.Background(), o.Stdout(), "vtest"); err != nil {
		if ex, ok := err.(interp.Exiter); ok {
			code = ex.ExitCode()
		} else {
			code = 1
		}
	}
	return result{Exit: code, Stdout: o.stdout.String(), Stderr: o.stderr.String()}
}

// ---- fixtures: the file universe of CLI.tla (KindContent / FileKind / RawFileContent / ProgFileTag)

var fixtureFiles = map[string]string{
	"a.json":    "1\n",
	"b.json":    "\"s\"\n",
	"c.json":    "[1,2]\n",
	"o.json":    "{\"a\":\"x\"}\n",
	"t.json":    "7",
	"bad.bin":   "garbage\n",
	"empty.txt": "",
	"raw.txt":   "raw\n",
	"id.jq":     ".\n",
	"fail.jq":   ".+1\n",
}
var fixtureDirs = []string{"dir"}
var kindFile = map[string]string{"A": "a.json", "B": "b.json", "C": "c.json", "O": "o.json", "T": "t.json", "U": "bad.bin", "E": "empty.txt", "D": "dir", "M": "missing"}

func fixtureFS() memFS { return mkfs(fixtureFiles, fixtureDirs) }

func stdinOf(kind string) *string {
	s, ok := fixtureFiles[kindFile[kind]]
	if !ok {
		s = ""
	}
	return &s
}

// byte 0 (from --raw-output0) travels as the marker <NUL> (CLI.tla: NUL)
func visible(s string) string { return strings.ReplaceAll(s, "\x00", "<NUL>") }

// ---- tagged tokens (CLI.tla: Tok)

type tok struct {
	K     string   `json:"k"`
	Names []string `json:"names"`
	Form  string   `json:"form"`
	Spell string   `json:"spell"`
	Inl   bool     `json:"inl"`
	Val   []string `json:"val"`
	Cls   string   `json:"cls"`
	Sym   []string `json:"sym"`
}

func (t tok) str() string { return strings.Join(t.Sym, "") }

type e2eCase struct {
	ID    int    `json:"id"`
	Fam   string `json:"fam"`
	Group string `json:"group"`
	Toks  []tok  `json:"toks"`
	Fidx  []int  `json:"fidx"` // 1-based indices of the tokens that are input files
	Stdin string `json:"stdin"`
	Solo  bool   `json:"solo"` // also run every input file alone (cases where independence applies)
}

type soloRes struct {
	Exit   int    `json:"exit"`
	Stdout string `json:"stdout"`
}

type e2eEvent struct {
	ID     int       `json:"id"`
	Fam    string    `json:"fam"`
	Group  string    `json:"group"`
	Toks   []tok     `json:"toks"`
	Fidx   []int     `json:"fidx"`
	Stdin  string    `json:"stdin"`
	Argv   []string  `json:"argv"`
	Exit   int       `json:"exit"`
	Stdout string    `json:"stdout"`
	Stderr string    `json:"stderr"`
	Solo   []soloRes `json:"solo"`
}

type soloCache struct {
	mu sync.Mutex
	m  map[string]soloRes
}

// runCase: the command line as given, then once per input file with all other input files removed
func runE2E(c e2eCase, cache *soloCache) e2eEvent {
	argv := make([]string, len(c.Toks))
	for i, t := range c.Toks {
		argv[i] = t.str()
	}
	fsys := fixtureFS()
	r := runMain(fsys, argv, stdinOf(c.Stdin))
	ev := e2eEvent{ID: c.ID, Fam: c.Fam, Group: c.Group, Toks: c.Toks, Fidx: c.Fidx, Stdin: c.Stdin, Argv: argv,
		Exit: r.Exit, Stdout: visible(r.Stdout), Stderr: r.Stderr, Solo: []soloRes{}}
	if ev.Fidx == nil {
		ev.Fidx = []int{}
	}
	isFile := map[int]bool{}
	for _, k := range c.Fidx {
		isFile[k] = true
	}
	for _, k := range c.Fidx {
		if !c.Solo {
			break
		}
		var sargv []string
		for i, a := range argv {
			if isFile[i+1] && i+1 != k {
				continue
			}
			sargv = append(sargv, a)
		}
		key := strings.Join(sargv, "\x01") + "\x02" + c.Stdin
		cache.mu.Lock()
		sr, ok := cache.m[key]
		cache.mu.Unlock()
		if !ok {
			r := runMain(fsys, sargv, stdinOf(c.Stdin))
			sr = soloRes{Exit: r.Exit, Stdout: visible(r.Stdout)}
			cache.mu.Lock()
			cache.m[key] = sr
			cache.mu.Unlock()
		}
		ev.Solo = append(ev.Solo, sr)
	}
	return ev
}

func replayAll(cases []e2eCase, outPath string) {
	evs := make([]e2eEvent, len(cases))
	cache := &soloCache{m: map[string]soloRes{}}
	var wg sync.WaitGroup
	next := int64(-1)
	nw := runtime.NumCPU()
	for w := 0; w < nw; w++ {
		wg.Add(1)
		go func() {
			defer wg.Done()
			for {
				i := int(atomic.AddInt64(&next, 1))
				if i >= len(cases) {
					return
				}
				evs[i] = runE2E(cases[i], cache)
			}
		}()
	}
	wg.Wait()
	out := kit.NewOut(outPath)
	for _, e := range evs {
		out.Emit(e)
	}
	out.Close()
}

// ---- the real _args_parse of args.jq on many vectors in one interpreter

type parseOut struct {
	Argv   []string        `json:"argv"`
	Ok     bool            `json:"ok"`
	Parsed json.RawMessage `json:"parsed,omitempty"`
	Rest   []string        `json:"rest,omitempty"`
	Err    string          `json:"err,omitempty"`
}

const parseProg = `$vs[] | . as $v | try (_args_parse($v; _opt_cli_opts) | {argv: $v, ok: true, parsed: (.parsed // {}), rest}) catch {argv: $v, ok: false, err: .}`

func parseBatch(vs [][]string) []parseOut {
	b, _ := json.Marshal(vs)
	r := runMain(fixtureFS(), []string{"--null-input", "--compact-output", "--argjson", "vs", string(b), parseProg}, stdinOf("A"))
	if r.Exit != 0 { // the argument parser under test is too broken to carry its own test vectors: not a machinery error
		fmt.Fprintf(os.Stderr, "parse batch failed exit=%d stderr=%.300s\n", r.Exit, r.Stderr)
		os.Exit(4)
	}
	var res []parseOut
	for _, line := range strings.Split(strings.TrimSpace(r.Stdout), "\n") {
		if line == "" {
			continue
		}
		var po parseOut
		kit.Unmarshal([]byte(line), &po)
		res = append(res, po)
	}
	if len(res) != len(vs) {
		kit.Fatalf("parse batch: %d results for %d vectors", len(res), len(vs))
	}
	return res
}

func parseAll(vs [][]string, outPath string) {
	const bs = 500
	nb := (len(vs) + bs - 1) / bs
	res := make([][]parseOut, nb)
	var wg sync.WaitGroup
	next := int64(-1)
	for w := 0; w < runtime.NumCPU(); w++ {
		wg.Add(1)
		go func() {
			defer wg.Done()
			for {
				i := int(atomic.AddInt64(&next, 1))
				if i >= nb {
					return
				}
				hi := (i + 1) * bs
				if hi > len(vs) {
					hi = len(vs)
				}
				res[i] = parseBatch(vs[i*bs : hi])
			}
		}()
	}
	wg.Wait()
	out := kit.NewOut(outPath)
	for _, rb := range res {
		for _, r := range rb {
			out.Emit(r)
		}
	}
	out.Close()
}

type runCase struct {
	ID    string            `json:"id"`
	Argv  []string          `json:"argv"`
	Files map[string]string `json:"files"`
	Dirs  []string          `json:"dirs"`
	Stdin *string           `json:"stdin"`
}

type runEvent struct {
	ID   string   `json:"id"`
	Argv []string `json:"argv"`
	result
}

func mkfs(files map[string]string, dirs []string) memFS {
	m := memFS{files: files, dirs: map[string]bool{}}
	for _, d := range dirs {
		m.dirs[d] = true
	}
	return m
}

func main() {
	if len(os.Args) < 2 {
		kit.Fatalf("usage")
	}
	switch os.Args[1] {
	case "run":
		out := kit.NewOut(os.Args[3])
		kit.Cases(os.Args[2], func(_ int, raw []byte) {
			var c runCase
			kit.Unmarshal(raw, &c)
			r := runMain(mkfs(c.Files, c.Dirs), c.Argv, c.Stdin)
			out.Emit(runEvent{ID: c.ID, Argv: c.Argv, result: r})
		})
		out.Close()
	case "replay":
		var cases []e2eCase
		kit.Cases(os.Args[2], func(_ int, raw []byte) {
			var c e2eCase
			kit.Unmarshal(raw, &c)
			cases = append(cases, c)
		})
		replayAll(cases, os.Args[3])
	case "parse":
		var vs [][]string
		kit.Cases(os.Args[2], func(_ int, raw []byte) {
			var v struct {
				Argv []string `json:"argv"`
			}
			kit.Unmarshal(raw, &v)
			if v.Argv == nil {
				v.Argv = []string{}
			}
			vs = append(vs, v.Argv)
		})
		parseAll(vs, os.Args[3])
	case "fixtures":
		// write the fixture universe to a real directory (for the runs of the real fq binary)
		dir := os.Args[2]
		for name, content := range fixtureFiles {
			if err := os.WriteFile(filepath.Join(dir, name), []byte(content), 0o644); err != nil {
				kit.Fatalf("fixtures: %v", err)
			}
		}
		for _, d := range fixtureDirs {
			if err := os.MkdirAll(filepath.Join(dir, d), 0o755); err != nil {
				kit.Fatalf("fixtures: %v", err)
			}
		}
		for k := range kindFile {
			if err := os.WriteFile(filepath.Join(dir, "stdin_"+k), []byte(*stdinOf(k)), 0o644); err != nil {
				kit.Fatalf("fixtures: %v", err)
			}
		}
	case "rand":
		n := kit.Atoi(os.Args[2])
		replayAll(randCases(n, kit.Seed()), os.Args[3])
	default:
		kit.Fatalf("unknown mode")
	}
}
