// c17: binds CLI.tla to the real fq command line (pkg/interp Main + args.jq/options.jq/init.jq).
//
//	c17 run <cases.ndjson> <events.ndjson>   run every case {id, argv, files, dirs, stdin} through in-process Main
//	c17 rand <n> <events.ndjson>             seeded random tagged vectors (see rand.go)
//
// The harness contains no oracle: it records exit code, stdout and stderr of real runs.
package main

import (
	"bytes"
	"context"
	"io"
	"io/fs"
	"os"
	"syscall"

	_ "github.com/wader/fq/format/all"
	"github.com/wader/fq/internal/verif/kit"
	"github.com/wader/fq/pkg/interp"
)

// ---- virtual file system: regular files, directories (open works, read fails EISDIR as on a real OS), missing

type memFS struct {
	files map[string]string
	dirs  map[string]bool
}

type memFile struct {
	*bytes.Reader
	name string
	size int64
}

func (f memFile) Stat() (fs.FileInfo, error) {
	return interp.FixedFileInfo{FName: f.name, FSize: f.size}, nil
}
func (f memFile) Close() error { return nil }

type memDir struct{ name string }

func (d memDir) Stat() (fs.FileInfo, error) {
	return interp.FixedFileInfo{FName: d.name, FMode: fs.ModeDir | 0o755, FIsDir: true}, nil
}
func (d memDir) Read([]byte) (int, error) {
	return 0, &fs.PathError{Op: "read", Path: d.name, Err: syscall.EISDIR}
}
func (d memDir) Close() error { return nil }

func (m memFS) Open(name string) (fs.File, error) {
	if m.dirs[name] {
		return memDir{name}, nil
	}
	b, ok := m.files[name]
	if !ok {
		return nil, &fs.PathError{Op: "open", Path: name, Err: fs.ErrNotExist}
	}
	return memFile{Reader: bytes.NewReader([]byte(b)), name: name, size: int64(len(b))}, nil
}

// ---- virtual OS

type vin struct {
	interp.FileReader
	term bool
}

func (i vin) IsTerminal() bool { return i.term }
func (vin) Size() (int, int)   { return 120, 25 }

type vout struct{ io.Writer }

func (vout) Size() (int, int)  { return 120, 25 }
func (vout) IsTerminal() bool { return false }

type vos struct {
	args           []string
	stdin          *string
	stdout, stderr *bytes.Buffer
	fsys           fs.FS
}

func (o *vos) Platform() interp.Platform { return interp.Platform{OS: "vos", Arch: "varch", GoVersion: "vgo"} }
func (o *vos) Stdin() interp.Input {
	s := ""
	if o.stdin != nil {
		s = *o.stdin
	}
	return vin{FileReader: interp.FileReader{R: bytes.NewBufferString(s)}, term: o.stdin == nil}
}
func (o *vos) Stdout() interp.Output        { return vout{o.stdout} }
func (o *vos) Stderr() interp.Output        { return vout{o.stderr} }
func (o *vos) InterruptChan() chan struct{} { return nil }
func (o *vos) Environ() []string            { return []string{"NO_COLOR=1", "NO_DECODE_PROGRESS=1"} }
func (o *vos) Args() []string               { return o.args }
func (o *vos) ConfigDir() (string, error)   { return "/config", nil }
func (o *vos) FS() fs.FS                    { return o.fsys }
func (o *vos) History() ([]string, error)   { return nil, nil }
func (o *vos) Readline(opts interp.ReadlineOpts) (string, error) {
	return "", io.EOF
}

type result struct {
	Exit   int    `json:"exit"`
	Stdout string `json:"stdout"`
	Stderr string `json:"stderr"`
}

// runMain: one real command line. argv excludes argv[0].
func runMain(fsys fs.FS, argv []string, stdin *string) result {
	o := &vos{args: append([]string{"fq"}, argv...), stdin: stdin, stdout: &bytes.Buffer{}, stderr: &bytes.Buffer{}, fsys: fsys}
	i, err := interp.New(o, interp.DefaultRegistry)
	if err != nil {
		kit.Fatalf("interp.New: %v", err)
	}
	defer i.Stop()
	code := 0
	// same mapping as pkg/cli.Main
	if err := i.Main(context.Background(), o.Stdout(), "vtest"); err != nil {
		if ex, ok := err.(interp.Exiter); ok {
			code = ex.ExitCode()
		} else {
			code = 1
		}
	}
	return result{Exit: code, Stdout: o.stdout.String(), Stderr: o.stderr.String()}
}

type runCase struct {
	ID    string            `json:"id"`
	Argv  []string          `json:"argv"`
	Files map[string]string `json:"files"`
	Dirs  []string          `json:"dirs"`
	Stdin *string           `json:"stdin"`
}

type runEvent struct {
	ID   string   `json:"id"`
	Argv []string `json:"argv"`
	result
}

func mkfs(files map[string]string, dirs []string) memFS {
	m := memFS{files: files, dirs: map[string]bool{}}
	for _, d := range dirs {
		m.dirs[d] = true
	}
	return m
}

func main() {
	if len(os.Args) < 2 {
		kit.Fatalf("usage")
	}
	switch os.Args[1] {
	case "run":
		out := kit.NewOut(os.Args[3])
		kit.Cases(os.Args[2], func(_ int, raw []byte) {
			var c runCase
			kit.Unmarshal(raw, &c)
			r := runMain(mkfs(c.Files, c.Dirs), c.Argv, c.Stdin)
			out.Emit(runEvent{ID: c.ID, Argv: c.Argv, result: r})
		})
		out.Close()
	default:
		kit.Fatalf("unknown mode")
	}
}
