package main

// The harness-defined format `verif_c08`: a decoder that is driven by a VALUE DESCRIPTION (the abstract decode
// value of spec/DecodeValueView.tla, as JSON) passed as the format option `descr`, reading the scalar payloads
// from the input bytes (produced from the same description by encode()). The tree it builds is a real
// *decode.Value tree; fq's interp wraps it with the real makeDecodeValueOut.

import (
	"encoding/json"
	"fmt"
	"math"
	"math/big"
	"strconv"
	"unicode/utf8"

	"github.com/wader/fq/internal/bitiox"
	"github.com/wader/fq/pkg/bitio"
	"github.com/wader/fq/pkg/decode"
	"github.com/wader/fq/pkg/interp"
	"github.com/wader/fq/pkg/scalar"
)

// J is a tagged JSON value; every field is always present so that TLC sees homogeneous records.
// t: null bool num str arr obj none ; s: canonical text of a scalar ; k: object keys ; e: elements / member values
type J struct {
	T string   `json:"t"`
	S string   `json:"s"`
	K []string `json:"k"`
	E []J      `json:"e"`
}

func jn(t, s string) J { return J{T: t, S: s, K: []string{}, E: []J{}} }

// jnum: a number travels as magnitude text in s and the sign in k (<<"-">> when negative), so that the spec can
// take absolute values and negate without string surgery
func jnum(text string) J {
	text = canonNum(text)
	if len(text) > 0 && text[0] == '-' {
		return J{T: "num", S: text[1:], K: []string{"-"}, E: []J{}}
	}
	return J{T: "num", S: text, K: []string{}, E: []J{}}
}

func numText(j J) string {
	if len(j.K) == 1 && j.K[0] == "-" {
		return "-" + j.S
	}
	return j.S
}

var jNone = jn("none", "")
var jNull = jn("null", "null")

// V is the abstract decode value (DecodeValueView.tla): struct with ORDERED fields, array, or scalar.
type V struct {
	T     string   `json:"t"`     // struct array scalar
	Names []string `json:"names"` // struct: field names in input order
	Kids  []V      `json:"kids"`
	Kind  string   `json:"kind"` // uint sint big flt str bool null any raw
	A     J        `json:"a"`    // actual (raw: the string reading of the bits, invalid UTF-8 as U+FFFD)
	Sym   J        `json:"sym"`  // symbolic value or {t:none}
	Desc  string   `json:"desc"`
	Gap   bool     `json:"gap"`
	Syn   bool     `json:"syn"`  // synthetic (FieldValue*): no bits
	Bits  string   `json:"bits"` // raw: the bits as '0'/'1' text
	Inv   bool     `json:"inv"`  // raw: the bytes are not valid UTF-8
	NRoot bool     `json:"nroot"` // the value is the root of a nested buffer (struct, array or raw bits)
}

func (v *V) fix() {
	if v.Names == nil {
		v.Names = []string{}
	}
	if v.Kids == nil {
		v.Kids = []V{}
	}
	fixJ(&v.A)
	fixJ(&v.Sym)
	for i := range v.Kids {
		v.Kids[i].fix()
	}
}

func fixJ(j *J) {
	if j.T == "" {
		j.T = "none"
	}
	if j.K == nil {
		j.K = []string{}
	}
	if j.E == nil {
		j.E = []J{}
	}
	for i := range j.E {
		fixJ(&j.E[i])
	}
}

// ---------------------------------------------------------------- numbers

// canonNum: canonical text of a JSON number (trusted base: number spelling only). Integers of any size in
// plain decimal, everything else as the shortest float64 round-trip text.
func canonNum(s string) string {
	if bi, ok := new(big.Int).SetString(s, 10); ok {
		return bi.String()
	}
	f, err := strconv.ParseFloat(s, 64)
	if err != nil {
		return s
	}
	if f == math.Trunc(f) && math.Abs(f) < 1e17 {
		return new(big.Int).SetInt64(int64(f)).String()
	}
	return strconv.FormatFloat(f, 'g', -1, 64)
}

func isIntText(s string) bool {
	_, ok := new(big.Int).SetString(s, 10)
	return ok
}

// goOf: the Go value a tagged JSON atom stands for, typed the way decoders type sym values.
func goOf(j J) any {
	switch j.T {
	case "none", "null":
		return nil
	case "bool":
		return j.S == "true"
	case "str":
		return j.S
	case "num":
		if bi, ok := new(big.Int).SetString(numText(j), 10); ok {
			if bi.IsUint64() {
				return bi.Uint64()
			}
			if bi.IsInt64() {
				return bi.Int64()
			}
			return bi
		}
		f, _ := strconv.ParseFloat(numText(j), 64)
		return f
	case "arr":
		a := make([]any, len(j.E))
		for i, e := range j.E {
			a[i] = plainOf(e)
		}
		return a
	case "obj":
		m := map[string]any{}
		for i, k := range j.K {
			m[k] = plainOf(j.E[i])
		}
		return m
	}
	panic("goOf: " + j.T)
}

// plainOf: gojq-typed plain value (inside any-kind arrays/objects)
func plainOf(j J) any {
	v := goOf(j)
	switch x := v.(type) {
	case uint64:
		if x <= math.MaxInt {
			return int(x)
		}
		return new(big.Int).SetUint64(x)
	case int64:
		return int(x)
	}
	return v
}

// jOfGo: tagged JSON of a Go scalar value found in a real decode tree (corpus arm, self check).
func jOfGo(v any) (J, bool) {
	switch x := v.(type) {
	case nil:
		return jNull, true
	case bool:
		return jn("bool", strconv.FormatBool(x)), true
	case string:
		return jn("str", string([]rune(x))), true
	case int:
		return jnum(strconv.Itoa(x)), true
	case int64:
		return jnum(strconv.FormatInt(x, 10)), true
	case uint64:
		return jnum(strconv.FormatUint(x, 10)), true
	case *big.Int:
		return jnum(x.String()), true
	case float64:
		if math.IsNaN(x) || math.IsInf(x, 0) {
			return J{}, false
		}
		return jnum(strconv.FormatFloat(x, 'g', -1, 64)), true
	case float32:
		return jOfGo(float64(x))
	case []any:
		j := jn("arr", "")
		for _, e := range x {
			ej, ok := jOfGo(e)
			if !ok {
				return J{}, false
			}
			j.E = append(j.E, ej)
		}
		return j, true
	case map[string]any:
		j := jn("obj", "")
		ks := make([]string, 0, len(x))
		for k := range x {
			ks = append(ks, k)
		}
		sortStrings(ks)
		for _, k := range ks {
			ej, ok := jOfGo(x[k])
			if !ok {
				return J{}, false
			}
			j.K = append(j.K, k)
			j.E = append(j.E, ej)
		}
		return j, true
	}
	return J{}, false
}

func sortStrings(a []string) {
	for i := 1; i < len(a); i++ {
		for j := i; j > 0 && a[j] < a[j-1]; j-- {
			a[j], a[j-1] = a[j-1], a[j]
		}
	}
}

// ---------------------------------------------------------------- encoder: description -> input bits

type bitw struct{ b []byte }

func (w *bitw) bit(x bool) {
	if x {
		w.b = append(w.b, '1')
	} else {
		w.b = append(w.b, '0')
	}
}
func (w *bitw) uintBits(x *big.Int, n int) { // low n bits of x (two's complement for negatives), MSB first
	m := new(big.Int).Set(x)
	if m.Sign() < 0 {
		m.Add(m, new(big.Int).Lsh(big.NewInt(1), uint(n)))
	}
	for i := n - 1; i >= 0; i-- {
		w.bit(m.Bit(i) == 1)
	}
}
func (w *bitw) bytes() ([]byte, int64) {
	n := int64(len(w.b))
	out := make([]byte, (n+7)/8)
	for i, c := range w.b {
		if c == '1' {
			out[i/8] |= 0x80 >> uint(i%8)
		}
	}
	return out, n
}

func widthU(x *big.Int) int {
	switch {
	case x.BitLen() <= 8:
		return 8
	case x.BitLen() <= 16:
		return 16
	default:
		return 64
	}
}
func widthS(x *big.Int) int {
	if x.IsInt64() && x.Int64() >= -128 && x.Int64() <= 127 {
		return 8
	}
	return 64
}
func widthBig(x *big.Int) int {
	if x.BitLen() < 71 {
		return 72
	}
	return 128
}

func numOf(j J) *big.Int {
	bi, ok := new(big.Int).SetString(numText(j), 10)
	if !ok {
		panic("c08 descr: not an integer: " + numText(j))
	}
	return bi
}

func encode(v *V, w *bitw) {
	if v.NRoot {
		return // its bits live in a buffer of its own (encodeOwn)
	}
	encodeOwn(v, w)
}

func encodeOwn(v *V, w *bitw) {
	switch v.T {
	case "struct", "array":
		for i := range v.Kids {
			encode(&v.Kids[i], w)
		}
		return
	}
	if v.Syn {
		return
	}
	switch v.Kind {
	case "uint":
		x := numOf(v.A)
		w.uintBits(x, widthU(x))
	case "sint":
		x := numOf(v.A)
		w.uintBits(x, widthS(x))
	case "big":
		x := numOf(v.A)
		w.uintBits(x, widthBig(x))
	case "flt":
		f, err := strconv.ParseFloat(numText(v.A), 64)
		if err != nil {
			panic("c08 descr: bad float " + v.A.S)
		}
		w.uintBits(new(big.Int).SetUint64(math.Float64bits(f)), 64)
	case "str":
		for _, c := range []byte(v.A.S) {
			w.uintBits(big.NewInt(int64(c)), 8)
		}
	case "bool":
		w.bit(v.A.S == "true")
	case "raw":
		for _, c := range v.Bits {
			w.bit(c == '1')
		}
	case "null", "any":
		// always synthetic
	default:
		panic("c08 descr: kind " + v.Kind)
	}
}

// ---------------------------------------------------------------- decoder

type C08In struct {
	Descr string `doc:"value description (JSON)"`
}

var c08Group = &decode.Group{Name: "verif_c08"}

func init() {
	interp.RegisterFormat(c08Group, &decode.Format{
		Description:  "verification harness: description-driven decoder (C08)",
		DecodeFn:     c08Decode,
		DefaultInArg: C08In{},
	})
}

func c08Decode(d *decode.D) any {
	var in C08In
	d.ArgAs(&in)
	if in.Descr == "" {
		d.Fatalf("verif_c08: no descr option")
	}
	var v V
	if err := json.Unmarshal([]byte(in.Descr), &v); err != nil {
		d.Fatalf("verif_c08: bad descr: %v", err)
	}
	v.fix()
	if v.T != "struct" {
		d.Fatalf("verif_c08: root must be a struct")
	}
	for i := range v.Kids {
		decodeField(d, v.Names[i], &v.Kids[i])
	}
	return nil
}

func symGo(v *V) any {
	if v.Sym.T == "none" {
		return nil
	}
	return goOf(v.Sym)
}

func ownBuffer(v *V) bitio.ReaderAtSeeker {
	w := &bitw{}
	encodeOwn(v, w)
	bs, n := w.bytes()
	return bitio.NewBitReader(bs, n)
}

func decodeField(d *decode.D, name string, v *V) {
	if v.NRoot {
		switch {
		case v.T == "struct": // the way gzip / zip / ogg nest a format in a buffer of its own
			d.FieldFormatBitBuf(name, ownBuffer(v), decode.FormatFn(func(d *decode.D) any {
				for i := range v.Kids {
					decodeField(d, v.Names[i], &v.Kids[i])
				}
				return nil
			}), nil)
		case v.T == "array":
			d.FieldArrayRootBitBufFn(name, ownBuffer(v), func(d *decode.D) {
				for i := range v.Kids {
					decodeField(d, "e", &v.Kids[i])
				}
			})
		case v.Kind == "raw":
			d.FieldRootBitBuf(name, ownBuffer(v))
		default:
			d.Fatalf("verif_c08: only structs, arrays and raw bits can be nested roots")
		}
		return
	}
	switch v.T {
	case "struct":
		d.FieldStruct(name, func(d *decode.D) {
			for i := range v.Kids {
				decodeField(d, v.Names[i], &v.Kids[i])
			}
		})
		return
	case "array":
		d.FieldArray(name, func(d *decode.D) {
			for i := range v.Kids {
				decodeField(d, "e", &v.Kids[i])
			}
		})
		return
	}
	sym := symGo(v)
	switch v.Kind {
	case "uint":
		var ms []scalar.UintMapper
		x := numOf(v.A)
		if sym != nil {
			switch s := sym.(type) { // the typed map mappers where they exist, else the generic one
			case string:
				ms = append(ms, scalar.UintMapSymStr{x.Uint64(): s})
			case uint64:
				ms = append(ms, scalar.UintMapSymUint{x.Uint64(): s})
			case int64:
				ms = append(ms, scalar.UintMapSymSint{x.Uint64(): s})
			case float64:
				ms = append(ms, scalar.UintMapSymFlt{x.Uint64(): s})
			case bool:
				ms = append(ms, scalar.UintMapSymBool{x.Uint64(): s})
			default:
				ms = append(ms, scalar.UintSym(sym))
			}
		}
		if v.Desc != "" {
			ms = append(ms, scalar.UintDescription(v.Desc))
		}
		if v.Syn {
			d.FieldValueUint(name, x.Uint64(), ms...)
		} else {
			d.FieldU(name, widthU(x), ms...)
		}
	case "sint":
		var ms []scalar.SintMapper
		x := numOf(v.A)
		if sym != nil {
			switch s := sym.(type) {
			case string:
				ms = append(ms, scalar.SintMapSymStr{x.Int64(): s})
			case bool:
				ms = append(ms, scalar.SintMapSymBool{x.Int64(): s})
			default:
				ms = append(ms, scalar.SintSym(sym))
			}
		}
		if v.Desc != "" {
			ms = append(ms, scalar.SintDescription(v.Desc))
		}
		if v.Syn {
			d.FieldValueSint(name, x.Int64(), ms...)
		} else {
			d.FieldS(name, widthS(x), ms...)
		}
	case "big":
		var ms []scalar.BigIntMapper
		x := numOf(v.A)
		if sym != nil {
			ms = append(ms, scalar.BigIntSym(sym))
		}
		if v.Desc != "" {
			ms = append(ms, scalar.BigIntDescription(v.Desc))
		}
		switch {
		case v.Syn:
			d.FieldValueBigInt(name, x, ms...)
		case x.Sign() < 0:
			d.FieldSBigInt(name, widthBig(x), ms...)
		default:
			d.FieldUBigInt(name, widthBig(x), ms...)
		}
	case "flt":
		var ms []scalar.FltMapper
		if sym != nil {
			ms = append(ms, scalar.FltSym(sym))
		}
		if v.Desc != "" {
			ms = append(ms, scalar.FltDescription(v.Desc))
		}
		if v.Syn {
			f, _ := strconv.ParseFloat(numText(v.A), 64)
			d.FieldValueFlt(name, f, ms...)
		} else {
			d.FieldF64(name, ms...)
		}
	case "str":
		var ms []scalar.StrMapper
		if sym != nil {
			switch s := sym.(type) {
			case string:
				ms = append(ms, scalar.StrMapSymStr{v.A.S: s})
			case uint64:
				ms = append(ms, scalar.StrMapSymUint{v.A.S: s})
			default:
				ms = append(ms, scalar.StrSym(sym))
			}
		}
		if v.Desc != "" {
			ms = append(ms, scalar.StrDescription(v.Desc))
		}
		if v.Syn {
			d.FieldValueStr(name, v.A.S, ms...)
		} else {
			d.FieldUTF8(name, len([]byte(v.A.S)), ms...)
		}
	case "bool":
		var ms []scalar.BoolMapper
		if sym != nil {
			switch s := sym.(type) {
			case string:
				ms = append(ms, scalar.BoolMapSymStr{v.A.S == "true": s})
			default:
				ms = append(ms, scalar.BoolSym(sym))
			}
		}
		if v.Desc != "" {
			ms = append(ms, scalar.BoolDescription(v.Desc))
		}
		if v.Syn {
			d.FieldValueBool(name, v.A.S == "true", ms...)
		} else {
			d.FieldBool(name, ms...)
		}
	case "null", "any":
		var ms []scalar.AnyMapper
		if sym != nil {
			ms = append(ms, scalar.AnySym(sym))
		}
		if v.Desc != "" {
			ms = append(ms, scalar.AnyDescription(v.Desc))
		}
		d.FieldValueAny(name, goOf(v.A), ms...)
	case "raw":
		if v.Gap {
			d.SeekRel(int64(len(v.Bits))) // left undecoded: the real gap filler must produce the field
			return
		}
		var ms []scalar.BitBufMapper
		if sym != nil {
			ms = append(ms, scalar.BitBufSym(sym))
		}
		if v.Desc != "" {
			ms = append(ms, scalar.BitBufDescription(v.Desc))
		}
		d.FieldRawLen(name, int64(len(v.Bits)), ms...)
	default:
		d.Fatalf("verif_c08: kind %q", v.Kind)
	}
}

// ---------------------------------------------------------------- describe: real *decode.Value -> description

type descOpts struct {
	maxNodes int
	n        int
}

// describe projects a real decode tree node to the abstract value. ok=false when the node is outside the
// described universe (NaN, Binary sym, too large, ...).
func describe(dv *decode.Value, o *descOpts) (V, bool) {
	o.n++
	if o.maxNodes > 0 && o.n > o.maxNodes {
		return V{}, false
	}
	out := V{Names: []string{}, Kids: []V{}, A: jNone, Sym: jNone, NRoot: dv.IsRoot && dv.Parent != nil}
	switch vv := dv.V.(type) {
	case *decode.Compound:
		if vv.IsArray {
			out.T = "array"
		} else {
			out.T = "struct"
		}
		for _, c := range vv.Children {
			k, ok := describe(c, o)
			if !ok {
				return V{}, false
			}
			if !vv.IsArray {
				out.Names = append(out.Names, c.Name)
			}
			out.Kids = append(out.Kids, k)
		}
		return out, true
	case scalar.Scalarable:
		out.T = "scalar"
		out.Desc = vv.ScalarDescription()
		out.Gap = vv.ScalarFlags().IsGap()
		out.Syn = vv.ScalarFlags().IsSynthetic()
		var ok bool
		if s := vv.ScalarSym(); s != nil {
			if out.Sym, ok = jOfGo(s); !ok {
				return V{}, false
			}
		}
		act := vv.ScalarActual()
		switch vv.(type) {
		case *scalar.Uint:
			out.Kind = "uint"
		case *scalar.Sint:
			out.Kind = "sint"
		case *scalar.BigInt:
			out.Kind = "big"
		case *scalar.Flt:
			out.Kind = "flt"
		case *scalar.Str:
			out.Kind = "str"
		case *scalar.Bool:
			out.Kind = "bool"
		case *scalar.Any:
			if act == nil {
				out.Kind = "null"
			} else {
				out.Kind = "any"
			}
		case *scalar.BitBuf:
			out.Kind = "raw"
			br, isBr := act.(bitio.ReaderAtSeeker)
			if !isBr {
				return V{}, false
			}
			n, err := bitiox.Len(br)
			if err != nil || n > 4096 {
				return V{}, false
			}
			bs, err := readBits(br, n)
			if err != nil {
				return V{}, false
			}
			out.Bits = bs
			out.A = jn("str", rawText(bs))
			out.Inv = !rawValid(bs)
			return out, true
		default:
			return V{}, false
		}
		if out.A, ok = jOfGo(act); !ok {
			return V{}, false
		}
		return out, true
	}
	return V{}, false
}

func readBits(br bitio.ReaderAtSeeker, n int64) (string, error) {
	c, err := bitio.CloneReader(br)
	if err != nil {
		return "", err
	}
	buf := make([]byte, (n+7)/8)
	if n > 0 {
		if _, err := bitio.ReadFull(c, buf, n); err != nil {
			return "", err
		}
	}
	sb := make([]byte, n)
	for i := int64(0); i < n; i++ {
		if buf[i/8]&(0x80>>uint(i%8)) != 0 {
			sb[i] = '1'
		} else {
			sb[i] = '0'
		}
	}
	return string(sb), nil
}

// rawText: the string reading of raw bits: zero padded to whole bytes, invalid UTF-8 replaced by U+FFFD per byte
// (trusted base: this is Go's []rune(string) conversion, the one place the description of a raw field needs it).
func rawText(bits string) string {
	w := &bitw{b: []byte(bits)}
	b, _ := w.bytes()
	return string([]rune(string(b)))
}

func rawValid(bits string) bool {
	w := &bitw{b: []byte(bits)}
	b, _ := w.bytes()
	return utf8.Valid(b)
}

func eqV(a, b *V) string {
	if a.T != b.T || a.NRoot != b.NRoot {
		return fmt.Sprintf("t %s/%s nroot %v/%v", a.T, b.T, a.NRoot, b.NRoot)
	}
	if a.T == "scalar" {
		if a.Kind != b.Kind || !eqJ(a.A, b.A) || !eqJ(a.Sym, b.Sym) || a.Bits != b.Bits || a.Inv != b.Inv || a.Desc != b.Desc || a.Gap != b.Gap || a.Syn != b.Syn {
			ja, _ := json.Marshal(a)
			jb, _ := json.Marshal(b)
			return fmt.Sprintf("scalar %s / %s", ja, jb)
		}
		return ""
	}
	if len(a.Kids) != len(b.Kids) {
		return "kids"
	}
	for i := range a.Kids {
		if a.T == "struct" && a.Names[i] != b.Names[i] {
			return "name " + a.Names[i] + "/" + b.Names[i]
		}
		if s := eqV(&a.Kids[i], &b.Kids[i]); s != "" {
			return s
		}
	}
	return ""
}

func eqJ(a, b J) bool {
	x, _ := json.Marshal(a)
	y, _ := json.Marshal(b)
	return string(x) == string(y)
}
