package main

// Seeded random descriptions beyond TLC's constants, and the corpus arm (sampled nodes of real sample decodes).

import (
	"encoding/json"
	"fmt"
	"math/rand"
	"os"
	"path/filepath"
	"strings"

	"github.com/wader/fq/internal/verif/kit"
	"github.com/wader/fq/pkg/interp"
)

// ---------------------------------------------------------------- random values

var uintPool = []string{"0", "1", "5", "255", "256", "65535", "65536", "2147483648", "4294967296", "9007199254740992", "9007199254740993",
	"9223372036854775807", "9223372036854775808", "18446744073709551615"}
var sintPool = []string{"-1", "-5", "7", "-128", "127", "-129", "-2147483649", "-9007199254740993", "9223372036854775807", "-9223372036854775808"}
var bigPool = []string{"18446744073709551616", "18446744073709551617", "-18446744073709551616", "1267650600228229401496703205376", "5", "-5", "0",
	"-9223372036854775808", "9223372036854775808"}
var fltPool = []string{"1.5", "-0.5", "3", "0", "1e300", "1e-7", "0.1", "123456789.125", "9007199254740992", "-2.25"}
var strPool = []string{"", "abc", "åb", "日本", "a b", "12", "-3.5", "true", "null", "A", "x\"y\\z", "a\nb", "cab", "abcabc",
	// number texts around and beyond the 64 bit integers (tonumber has to give the exact integer) and beyond float64
	"9223372036854775807", "9223372036854775808", "-9223372036854775809", "18446744073709551615", "123456789012345678901234567890", "1e400", "0x10", " 12"}
var namePool = []string{"a", "b", "c", "zz", "x1", "name", "type", "B", "a_b", "0"}

func pick(r *rand.Rand, p []string) string { return p[r.Intn(len(p))] }

func randSym(r *rand.Rand) J {
	switch r.Intn(9) {
	case 0, 1, 2, 3:
		return jNone
	case 4:
		return jn("str", pick(r, strPool[1:]))
	case 5:
		return jnum(pick(r, uintPool))
	case 6:
		return jnum(pick(r, sintPool))
	case 7:
		return jnum(pick(r, fltPool))
	default:
		if r.Intn(2) == 0 {
			return jn("bool", "true")
		}
		return jn("bool", "false")
	}
}

func randBits(r *rand.Rand) string {
	var bs []byte
	switch r.Intn(4) {
	case 0: // ascii
		bs = []byte(pick(r, strPool[1:]))
	case 1: // invalid utf-8
		bs = []byte{0xff, 'a', 0xc3}
		bs = bs[:1+r.Intn(3)]
	case 2:
		bs = []byte{0xe5, 0x97, 0xa5, 0x80, 'b'}[:1+r.Intn(5)]
	default:
		bs = make([]byte, 1+r.Intn(4))
		r.Read(bs)
	}
	var sb strings.Builder
	for _, b := range bs {
		fmt.Fprintf(&sb, "%08b", b)
	}
	s := sb.String()
	if r.Intn(3) == 0 && len(s) > 8 { // not byte aligned
		s = s[:len(s)-1-r.Intn(7)]
	}
	return s
}

func randScalar(r *rand.Rand) V {
	v := V{T: "scalar", Names: []string{}, Kids: []V{}, A: jNone, Sym: randSym(r)}
	if r.Intn(6) == 0 {
		v.Desc = pick(r, []string{"five things", "d", "a description"})
	}
	canSyn := true
	switch r.Intn(9) {
	case 0:
		v.Kind, v.A = "uint", jnum(pick(r, uintPool))
	case 1:
		v.Kind, v.A = "sint", jnum(pick(r, sintPool))
	case 2:
		v.Kind, v.A = "big", jnum(pick(r, bigPool))
	case 3:
		v.Kind, v.A = "flt", jnum(pick(r, fltPool))
	case 4:
		v.Kind, v.A = "str", jn("str", pick(r, strPool))
	case 5:
		v.Kind, v.A = "bool", jn("bool", pick(r, []string{"true", "false"}))
	case 6:
		v.Kind, v.A, v.Syn, canSyn = "null", jNull, true, false
	case 7:
		v.Kind, v.Syn, canSyn = "any", true, false
		switch r.Intn(3) {
		case 0:
			v.A = J{T: "arr", K: []string{}, E: []J{jnum(pick(r, uintPool)), jn("str", pick(r, strPool)), jNull}[:r.Intn(4)]}
		case 1:
			v.A = J{T: "obj", K: []string{"k"}, E: []J{jnum(pick(r, sintPool))}}
		default:
			v.A = J{T: "obj", K: []string{"a", "b"}, E: []J{jn("str", pick(r, strPool)), jnum("1")}}
		}
	default:
		canSyn = false
		v.Kind = "raw"
		v.Bits = randBits(r)
		v.A = jn("str", rawText(v.Bits))
		v.Inv = !rawValid(v.Bits)
	}
	if canSyn && r.Intn(8) == 0 {
		v.Syn = true
	}
	return v
}

func randValue(r *rand.Rand, depth int) V {
	if depth == 0 || r.Intn(3) == 0 {
		return randScalar(r)
	}
	n := r.Intn(5)
	if r.Intn(2) == 0 {
		v := V{T: "array", Names: []string{}, Kids: []V{}, A: jNone, Sym: jNone}
		for i := 0; i < n; i++ {
			v.Kids = append(v.Kids, randValue(r, depth-1))
		}
		return v
	}
	v := V{T: "struct", Names: []string{}, Kids: []V{}, A: jNone, Sym: jNone}
	perm := r.Perm(len(namePool))
	for i := 0; i < n; i++ {
		v.Names = append(v.Names, namePool[perm[i]])
		k := randValue(r, depth-1)
		if r.Intn(6) == 0 && hasBits(&k) && (k.T != "scalar" || k.Kind == "raw") && k.Sym.T == "none" && k.Desc == "" {
			k.NRoot = true // a nested buffer of its own (as gzip's uncompressed, zip members, ogg packets)
		}
		v.Kids = append(v.Kids, k)
	}
	return v
}

// hasBits: every direct child of a nested root must own bits (an empty nested buffer gets a zero-length gap field)
func hasBits(v *V) bool {
	if v.T == "scalar" {
		return !v.Syn && !(v.Kind == "str" && v.A.S == "") && !(v.Kind == "raw" && len(v.Bits) == 0)
	}
	if len(v.Kids) == 0 {
		return false
	}
	for i := range v.Kids {
		if !hasBits(&v.Kids[i]) || v.Kids[i].NRoot {
			return false
		}
	}
	return true
}

// a root struct with real gap fields: non-synthetic scalars with undecoded stretches (>= 8 bits, never adjacent) between them
func randGapRoot(r *rand.Rand) V {
	v := V{T: "struct", Names: []string{}, Kids: []V{}, A: jNone, Sym: jNone}
	perm := r.Perm(len(namePool))
	n := 1 + r.Intn(4)
	g := 0
	gapNext := r.Intn(2) == 0
	for i := 0; i < n; i++ {
		if gapNext {
			bits := randBits(r)
			for len(bits) < 8 {
				bits += "1"
			}
			v.Names = append(v.Names, fmt.Sprintf("gap%d", g))
			v.Kids = append(v.Kids, V{T: "scalar", Names: []string{}, Kids: []V{}, Kind: "raw", A: jn("str", rawText(bits)), Sym: jNone, Gap: true, Bits: bits, Inv: !rawValid(bits)})
			g++
		}
		var s V
		for {
			s = randScalar(r)
			if !s.Syn && !(s.Kind == "str" && s.A.S == "") {
				break
			}
		}
		v.Names = append(v.Names, namePool[perm[i]])
		v.Kids = append(v.Kids, s)
		gapNext = r.Intn(2) == 0
	}
	if g == 0 {
		bits := "0110000101100010"
		v.Names = append(v.Names, "gap0")
		v.Kids = append(v.Kids, V{T: "scalar", Names: []string{}, Kids: []V{}, Kind: "raw", A: jn("str", "ab"), Sym: jNone, Gap: true, Bits: bits})
	}
	return v
}

func randValues(n int) []V {
	r := rand.New(rand.NewSource(kit.Seed()*7919 + 17))
	var out []V
	for i := 0; i < n; i++ {
		var v V
		switch {
		case i%10 == 9:
			v = randGapRoot(r)
		case i%3 == 0:
			v = randScalar(r)
		default:
			v = randValue(r, 1+r.Intn(3))
		}
		v.fix()
		out = append(out, v)
	}
	return out
}

// ---------------------------------------------------------------- corpus arm

func init() {
	// `_c08_describe`: the abstract description of the REAL decode value it is applied to (null when outside the
	// described universe), taken from the *decode.Value the interp wrapper holds - not from any JQValue method.
	interp.RegisterFunc0("_c08_describe", func(_ *interp.Interp, c any) any {
		dvv, ok := c.(interp.DecodeValue)
		if !ok {
			return nil
		}
		d, ok := describe(dvv.DecodeValue(), &descOpts{maxNodes: 14})
		if !ok || dupNames(&d) {
			return nil
		}
		b, _ := json.Marshal(d)
		if len(b) > 6000 {
			return nil
		}
		return string(b)
	})
}

func dupNames(v *V) bool {
	seen := map[string]bool{}
	for i := range v.Kids {
		if v.T == "struct" {
			if seen[v.Names[i]] {
				return true
			}
			seen[v.Names[i]] = true
		}
		if dupNames(&v.Kids[i]) {
			return true
		}
	}
	return false
}

type corpusJob struct {
	File   string  `json:"file"`
	Format string  `json:"format"`
	Picks  []int   `json:"picks"`
	Paths  [][]any `json:"paths"` // explicit node paths (confirmation runs) instead of sampled ones
}

func corpus(jobsPath string, qs []Query, out *kit.Out) {
	prog := program0(qs) + `
. as $root | [path(..)] as $ps | ($ps | length) as $n
| (if ($paths | length) > 0 then $paths[] else ([$picks[] | $ps[. % $n]] | unique | .[]) end) as $p
| $root | getpath($p)
| _c08_describe as $d
| if $d == null then empty else [$p, $d, _c08run, (tovalue | _c08run)] | tojson end
`
	stats := map[string]int{}
	kit.Cases(jobsPath, func(_ int, raw []byte) {
		var j corpusJob
		kit.Unmarshal(raw, &j)
		b, err := os.ReadFile(j.File)
		if err != nil {
			kit.Fatalf("read %s: %v", j.File, err)
		}
		if j.Picks == nil {
			j.Picks = []int{}
		}
		if j.Paths == nil {
			j.Paths = [][]any{}
		}
		pj, _ := json.Marshal(j.Picks)
		paj, _ := json.Marshal(j.Paths)
		name := filepath.Base(j.File)
		so, se, code := runFq(map[string][]byte{name: b}, "-r", "-d", j.Format, "--argjson", "picks", string(pj), "--argjson", "paths", string(paj), prog, name)
		if code != 0 || strings.TrimSpace(se) != "" {
			stats["files_failed"]++
			fmt.Fprintf(os.Stderr, "c08 corpus: %s (%s): code %d: %s\n", j.File, j.Format, code, tail(strings.TrimSpace(se), 300))
			return
		}
		stats["files"]++
		for _, line := range strings.Split(strings.TrimRight(so, "\n"), "\n") {
			if line == "" {
				continue
			}
			r := parseLine(line)
			if r.T != "arr" || len(r.E) != 4 {
				kit.Fatalf("corpus: unexpected result shape")
			}
			var v V
			if err := json.Unmarshal([]byte(r.E[1].S), &v); err != nil {
				kit.Fatalf("corpus: bad description: %v", err)
			}
			v.fix()
			pb, _ := json.Marshal(plain(r.E[0]))
			stats["nodes"]++
			emitPairs(qs, &v, fmt.Sprintf("%s -d %s %s", j.File, j.Format, pb), J{T: "arr", E: []J{r.E[2], r.E[3]}}, out)
		}
	})
	sb, _ := json.Marshal(stats)
	fmt.Println(string(sb))
}
