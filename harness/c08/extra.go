package main

import "github.com/wader/fq/internal/verif/kit"

func randValues(n int) []V { return nil }

func corpus(jobs string, qs []Query, out *kit.Out) {}
