package main

// Runs the real fq interpreter in-process with a virtual OS (args, files, captured stdout/stderr).

import (
	"bytes"
	"context"
	"fmt"
	"io"
	"io/fs"

	"github.com/wader/fq/pkg/interp"
)

type mfs struct{ files map[string][]byte }
type mfile struct {
	*bytes.Reader
	name string
	size int64
}

func (f mfile) Stat() (fs.FileInfo, error) {
	return interp.FixedFileInfo{FName: f.name, FSize: f.size}, nil
}
func (f mfile) Close() error { return nil }
func (m mfs) Open(name string) (fs.File, error) {
	b, ok := m.files[name]
	if !ok {
		return nil, &fs.PathError{Op: "open", Path: name, Err: fs.ErrNotExist}
	}
	return mfile{Reader: bytes.NewReader(b), name: name, size: int64(len(b))}, nil
}

type vos struct {
	args           []string
	stdout, stderr *bytes.Buffer
	fsys           fs.FS
}

type vin struct{ interp.FileReader }

func (vin) IsTerminal() bool { return false }
func (vin) Size() (int, int) { return 120, 25 }

type vout struct{ io.Writer }

func (vout) Size() (int, int) { return 120, 25 }
func (vout) IsTerminal() bool { return false }

func (o *vos) Platform() interp.Platform { return interp.Platform{} }
func (o *vos) Stdin() interp.Input {
	return vin{FileReader: interp.FileReader{R: bytes.NewBuffer(nil)}}
}
func (o *vos) Stdout() interp.Output                             { return vout{o.stdout} }
func (o *vos) Stderr() interp.Output                             { return vout{o.stderr} }
func (o *vos) InterruptChan() chan struct{}                      { return nil }
func (o *vos) Environ() []string                                 { return []string{"NO_COLOR=1", "NO_DECODE_PROGRESS=1"} }
func (o *vos) Args() []string                                    { return o.args }
func (o *vos) ConfigDir() (string, error)                        { return "/config", nil }
func (o *vos) FS() fs.FS                                         { return o.fsys }
func (o *vos) History() ([]string, error)                        { return nil, nil }
func (o *vos) Readline(opts interp.ReadlineOpts) (string, error) { return "", io.EOF }

// runFq: `fq args...` with the given virtual files; returns stdout, stderr, exit code (-2: non-exit error, -3: panic).
func runFq(files map[string][]byte, args ...string) (stdout string, stderr string, code int) {
	o := &vos{args: append([]string{"fq"}, args...), stdout: &bytes.Buffer{}, stderr: &bytes.Buffer{}, fsys: mfs{files: files}}
	defer func() {
		if r := recover(); r != nil {
			stdout, stderr, code = o.stdout.String(), o.stderr.String()+fmt.Sprintf("\nPANIC: %v", r), -3
		}
	}()
	i, err := interp.New(o, interp.DefaultRegistry)
	if err != nil {
		return "", err.Error(), -2
	}
	err = i.Main(context.Background(), o.Stdout(), "verif")
	if err != nil {
		if ex, ok := err.(interp.Exiter); ok {
			code = ex.ExitCode()
		} else {
			code = -2
		}
	}
	return o.stdout.String(), o.stderr.String(), code
}
