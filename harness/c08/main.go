// c08: binds spec/DecodeValueView.tla to the real decode value wrappers of pkg/interp.
//
//	c08 eval <cases.ndjson> <events.ndjson>     line 1 {"queries":[{id,text}..]}, then one value description per line;
//	                                            every query is applied to the REAL decode value built from the description
//	                                            and to `tovalue` of it, through the real fq interpreter
//	c08 rand <n> <queries.ndjson> <events.ndjson>   seeded random descriptions beyond TLC's constants
//	c08 corpus <jobs.ndjson> <queries.ndjson> <events.ndjson>  the same pair on sampled nodes of real sample decodes
//	c08 formats
package main

import (
	"bytes"
	"context"
	"encoding/json"
	"fmt"
	"io"
	"os"
	"strings"

	_ "github.com/wader/fq/format/all"
	"github.com/wader/fq/internal/verif/kit"
	"github.com/wader/fq/pkg/bitio"
	"github.com/wader/fq/pkg/decode"
	"github.com/wader/fq/pkg/interp"
)

type Query struct {
	ID   string `json:"id"`
	Text string `json:"text"`
}

type Res struct {
	Err bool `json:"err"` // an error was raised (message text is not compared)
	Out []J  `json:"out"` // outputs produced before it
}

type Event struct {
	V    V      `json:"v"`
	Src  string `json:"src"` // where the value came from (gen / rand / corpus file:path)
	Q    string `json:"q"`   // query id
	Text string `json:"text"`
	DV   Res    `json:"dv"`
	JV   Res    `json:"jv"`
}

// every output is serialised INSIDE the try (lazy values such as binaries can fail only when they are read)
const errMark = "\x00c08-error"

// program: one jq program evaluating every query on `.` and on `tovalue`
func program(qs []Query, prelude string) string {
	return program0(qs) + prelude + "\n| [_c08run, (tovalue | _c08run)] | tojson\n"
}

func program0(qs []Query) string {
	var sb strings.Builder
	sb.WriteString("def _c08run: [\n")
	for i, q := range qs {
		if i > 0 {
			sb.WriteString(",\n")
		}
		fmt.Fprintf(&sb, "  [try ((%s) | tojson) catch %s]", q.Text, jqString(errMark))
	}
	sb.WriteString("\n];\n")
	return sb.String()
}

// parseJ: JSON text -> tagged value, object member order as written, numbers canonical
func parseJ(dec *json.Decoder) J {
	tok, err := dec.Token()
	if err != nil {
		kit.Fatalf("parse fq output: %v", err)
	}
	switch t := tok.(type) {
	case nil:
		return jNull
	case bool:
		if t {
			return jn("bool", "true")
		}
		return jn("bool", "false")
	case json.Number:
		return jnum(string(t))
	case string:
		return jn("str", t)
	case json.Delim:
		switch t {
		case '[':
			j := jn("arr", "")
			for dec.More() {
				j.E = append(j.E, parseJ(dec))
			}
			dec.Token()
			return j
		case '{':
			j := jn("obj", "")
			for dec.More() {
				k, _ := dec.Token()
				j.K = append(j.K, k.(string))
				j.E = append(j.E, parseJ(dec))
			}
			dec.Token()
			return j
		}
	}
	kit.Fatalf("parse fq output: unexpected token %v", tok)
	return J{}
}

func jqString(s string) string {
	b, _ := json.Marshal(s)
	return string(b)
}

func parseLine(line string) J {
	dec := json.NewDecoder(strings.NewReader(line))
	dec.UseNumber()
	return parseJ(dec)
}

func toRes(j J) Res {
	r := Res{Out: []J{}}
	for _, o := range j.E {
		if o.T != "str" {
			kit.Fatalf("unexpected output element %s", o.T)
		}
		if o.S == errMark {
			r.Err = true
			break
		}
		r.Out = append(r.Out, parseLine(o.S))
	}
	return r
}

type vcase struct {
	Bytes []int  `json:"bytes"`
	NBits int64  `json:"nbits"`
	Descr string `json:"descr"`
	Sel   bool   `json:"sel"`
}

// rootOf: the root struct handed to the decoder, and whether the value under test is `.v` of it
func rootOf(v *V) (V, bool) {
	if v.T == "struct" && hasGapKid(v) {
		return *v, false
	}
	if v.NRoot { // a field in front, so that the nested buffer does not sit at position 0 of its parent
		pad := V{T: "scalar", Names: []string{}, Kids: []V{}, Kind: "uint", A: jnum("5"), Sym: jNone}
		return V{T: "struct", Names: []string{"p", "v"}, Kids: []V{pad, *v}, A: jNone, Sym: jNone}, true
	}
	return V{T: "struct", Names: []string{"v"}, Kids: []V{*v}, A: jNone, Sym: jNone}, true
}

func hasGapKid(v *V) bool {
	for _, k := range v.Kids {
		if k.T == "scalar" && k.Gap {
			return true
		}
	}
	return false
}

// selfCheck: decode directly with the real decode API and require the real tree to be the described one
func selfCheck(root *V, bs []byte, nbits int64, sel bool) string {
	descr, _ := json.Marshal(root)
	dv, _, err := decode.Decode(context.Background(), bitio.NewBitReader(bs, nbits), c08Group,
		decode.Options{IsRoot: true, FillGaps: true, InArg: C08In{Descr: string(descr)}})
	if dv == nil || err != nil {
		return fmt.Sprintf("self check: decode failed: %v (%s)", err, descr)
	}
	got, ok := describe(dv, &descOpts{})
	if !ok {
		return fmt.Sprintf("self check: real tree cannot be described (%s)", descr)
	}
	want := root
	if sel { // only the value under test (an all-synthetic value leaves an empty buffer, which gets a 0-bit gap0)
		k := len(root.Kids) - 1
		want = &root.Kids[k]
		if len(got.Kids) <= k || got.Names[k] != "v" {
			return fmt.Sprintf("self check: no field v (%s)", descr)
		}
		got = got.Kids[k]
	}
	if d := eqV(want, &got); d != "" {
		g, _ := json.Marshal(got)
		return fmt.Sprintf("self check: real tree differs from description: %s\n want %s\n got  %s", d, descr, g)
	}
	return ""
}

const chunk = 150

// evalValues: strict = a description the real decoder does not reproduce is a machinery error (TLC-emitted values);
// otherwise the value is skipped and counted (random values)
func evalValues(qs []Query, vals0 []V, src string, out *kit.Out, strict bool) int {
	type built struct {
		c vcase
		v *V
	}
	var all []built
	skipped := 0
	for i := range vals0 {
		root, sel := rootOf(&vals0[i])
		w := &bitw{}
		encode(&root, w)
		bs, n := w.bytes()
		if msg := selfCheck(&root, bs, n, sel); msg != "" {
			if strict {
				kit.Fatalf("%s", msg)
			}
			skipped++
			continue
		}
		ints := make([]int, len(bs))
		for k, b := range bs {
			ints[k] = int(b)
		}
		d, _ := json.Marshal(root)
		all = append(all, built{vcase{Bytes: ints, NBits: n, Descr: string(d), Sel: sel}, &vals0[i]})
	}
	for lo := 0; lo < len(all); lo += chunk {
		hi := lo + chunk
		if hi > len(all) {
			hi = len(all)
		}
		var cases []vcase
		for i := lo; i < hi; i++ {
			cases = append(cases, all[i].c)
		}
		cj, _ := json.Marshal(cases)
		prog := program(qs, `$cases[] | . as $c | ($c.bytes | tobytes | tobits | .[0:$c.nbits] | verif_c08({descr: $c.descr}))
| if ._error then error("verif_c08 decode failed: \(._error | tojson)") end
| if $c.sel then .v end`)
		so, se, code := runFq(nil, "-n", "-r", "--argjson", "cases", string(cj), prog)
		if code != 0 || strings.TrimSpace(se) != "" {
			kit.Fatalf("fq run failed (code %d): %s", code, tail(se, 2000))
		}
		lines := strings.Split(strings.TrimRight(so, "\n"), "\n")
		if len(lines) != hi-lo {
			kit.Fatalf("fq produced %d lines for %d values", len(lines), hi-lo)
		}
		for i, line := range lines {
			emitPairs(qs, all[lo+i].v, src, parseLine(line), out)
		}
	}
	return skipped
}

func emitPairs(qs []Query, v *V, src string, j J, out *kit.Out) {
	if j.T != "arr" || len(j.E) != 2 || len(j.E[0].E) != len(qs) || len(j.E[1].E) != len(qs) {
		kit.Fatalf("unexpected result shape")
	}
	for qi, q := range qs {
		out.Emit(Event{V: *v, Src: src, Q: q.ID, Text: q.Text, DV: toRes(j.E[0].E[qi]), JV: toRes(j.E[1].E[qi])})
	}
}

func tail(s string, n int) string {
	if len(s) > n {
		return s[len(s)-n:]
	}
	return s
}

func readCases(path string) ([]Query, []V) {
	var qs []Query
	var vals []V
	kit.Cases(path, func(i int, raw []byte) {
		if i == 0 {
			var h struct {
				Queries []Query `json:"queries"`
			}
			kit.Unmarshal(raw, &h)
			qs = h.Queries
			return
		}
		var v V
		kit.Unmarshal(raw, &v)
		v.fix()
		vals = append(vals, v)
	})
	if len(qs) == 0 {
		kit.Fatalf("no queries")
	}
	return qs, vals
}

func main() {
	if len(os.Args) < 2 {
		kit.Fatalf("usage")
	}
	switch os.Args[1] {
	case "eval":
		qs, vals := readCases(os.Args[2])
		out := kit.NewOut(os.Args[3])
		evalValues(qs, vals, "gen", out, true)
		out.Close()
	case "rand":
		n := kit.Atoi(os.Args[2])
		qs, _ := readCases(os.Args[3])
		out := kit.NewOut(os.Args[4])
		sk := evalValues(qs, randValues(n), "rand", out, false)
		fmt.Printf("{\"skipped\":%d}\n", sk)
		out.Close()
	case "corpus":
		qs, _ := readCases(os.Args[3])
		out := kit.NewOut(os.Args[4])
		corpus(os.Args[2], qs, out)
		out.Close()
	case "formats":
		for name := range interp.DefaultRegistry.Groups() {
			fmt.Println(name)
		}
	case "explore": // development aid: print every differing pair
		qs, vals := readCases(os.Args[2])
		tmp := os.Args[2] + ".events"
		out := kit.NewOut(tmp)
		evalValues(qs, vals, "explore", out, true)
		out.Close()
		kit.Cases(tmp, func(_ int, raw []byte) {
			var e Event
			kit.Unmarshal(raw, &e)
			a, _ := json.Marshal(e.DV)
			b, _ := json.Marshal(e.JV)
			if !bytes.Equal(a, b) {
				fmt.Printf("%-28s %-40s dv=%s jv=%s\n", e.Text, short(&e.V), shortR(e.DV), shortR(e.JV))
			}
		})
	default:
		kit.Fatalf("unknown mode")
	}
	_ = io.EOF
}

func plain(j J) any {
	switch j.T {
	case "arr":
		a := []any{}
		for _, e := range j.E {
			a = append(a, plain(e))
		}
		return a
	case "obj":
		var ps []string
		for i, k := range j.K {
			b, _ := json.Marshal(plain(j.E[i]))
			ps = append(ps, fmt.Sprintf("%q:%s", k, b))
		}
		return json.RawMessage("{" + strings.Join(ps, ",") + "}")
	case "str":
		return j.S
	case "num":
		return json.RawMessage(numText(j))
	}
	return json.RawMessage(j.S)
}

func shortR(r Res) string {
	var parts []string
	for _, o := range r.Out {
		b, _ := json.Marshal(plain(o))
		parts = append(parts, string(b))
	}
	s := strings.Join(parts, " ")
	if r.Err {
		s += " ERR"
	}
	return s
}

func short(v *V) string {
	switch v.T {
	case "struct":
		var p []string
		for i := range v.Kids {
			p = append(p, v.Names[i]+":"+short(&v.Kids[i]))
		}
		return "{" + strings.Join(p, ",") + "}"
	case "array":
		var p []string
		for i := range v.Kids {
			p = append(p, short(&v.Kids[i]))
		}
		return "[" + strings.Join(p, ",") + "]"
	}
	s := v.Kind + "(" + numText(v.A)
	if v.Sym.T != "none" {
		s += "~" + v.Sym.T + ":" + numText(v.Sym)
	}
	if v.Gap {
		s += " gap"
	}
	if v.Syn {
		s += " syn"
	}
	return s + ")"
}
