// c16: binds the Wire_* specifications to fq's real decoders and torepr.
//
//	c16 replay <cases.ndjson> <events.ndjson>   TLC-emitted cases (format, value, bytes, cuts, trails) through real fq
//	c16 text <n> <events.ndjson>                text formats: seeded values through Go's independent encoders / round trip
//	c16 cli <cases.ndjson> <out.ndjson>         a sample of cases through the real command line `fq -d F ... file`
//
// All decoding runs inside the real interpreter (interp.Main with a virtual OS): the program below calls
// `decode($format)` - the function `fq -d FORMAT` ends up in - then `._error`, `torepr` and the gap fields.
// Two native helper functions (registered by this harness only) feed jobs in and take raw Go values out, so
// nothing passes through JSON text (inf, -0, invalid UTF-8 and big integers stay exact).
// The harness does NOT judge: it projects fq's values to the tagged form of WireBytes.tla; TLC (TraceWire) compares.
package main

import (
	"bytes"
	"context"
	"encoding/json"
	"fmt"
	"io"
	"io/fs"
	"math"
	"math/big"
	"os"
	"runtime"
	"runtime/debug"
	"sort"
	"sync"

	_ "github.com/wader/fq/format/all"
	"github.com/wader/fq/internal/verif/kit"
	"github.com/wader/fq/pkg/bitio"
	"github.com/wader/fq/pkg/interp"
	"github.com/wader/gojq"
)

// ---------------------------------------------------------------- virtual OS

type mfs struct{ files map[string][]byte }
type mfile struct {
	*bytes.Reader
	name string
	size int64
}

func (f mfile) Stat() (fs.FileInfo, error) {
	return interp.FixedFileInfo{FName: f.name, FSize: f.size}, nil
}
func (f mfile) Close() error { return nil }
func (m mfs) Open(name string) (fs.File, error) {
	b, ok := m.files[name]
	if !ok {
		return nil, &fs.PathError{Op: "open", Path: name, Err: fs.ErrNotExist}
	}
	return mfile{Reader: bytes.NewReader(b), name: name, size: int64(len(b))}, nil
}

type vin struct{ interp.FileReader }

func (vin) IsTerminal() bool { return false }
func (vin) Size() (int, int) { return 120, 25 }

type vout struct{ io.Writer }

func (vout) Size() (int, int) { return 120, 25 }
func (vout) IsTerminal() bool { return false }

type vos struct {
	args           []string
	stdout, stderr *bytes.Buffer
	fsys           fs.FS
	jobs           chan *job // worker state for the native helpers
}

func (o *vos) Platform() interp.Platform { return interp.Platform{} }
func (o *vos) Stdin() interp.Input {
	return vin{FileReader: interp.FileReader{R: bytes.NewBuffer(nil)}}
}
func (o *vos) Stdout() interp.Output                             { return vout{o.stdout} }
func (o *vos) Stderr() interp.Output                             { return vout{o.stderr} }
func (o *vos) InterruptChan() chan struct{}                      { return nil }
func (o *vos) Environ() []string                                 { return []string{"NO_COLOR=1", "NO_DECODE_PROGRESS=1"} }
func (o *vos) Args() []string                                    { return o.args }
func (o *vos) ConfigDir() (string, error)                        { return "/config", nil }
func (o *vos) FS() fs.FS                                         { return o.fsys }
func (o *vos) History() ([]string, error)                        { return nil, nil }
func (o *vos) Readline(opts interp.ReadlineOpts) (string, error) { return "", io.EOF }

// ---------------------------------------------------------------- jobs through the interpreter

const (
	kFull  = 0 // torepr + error + gaps
	kTrunc = 1 // error only
)

type job struct {
	f    string
	data []byte
	kind int
	// results
	done    bool
	tree    bool
	err     bool
	errmsg  string
	repr    any
	reprErr string
	hasRepr bool
	gaps    [][2]int64
	noTree  string
}

var (
	curJobMu sync.Mutex
	curJob   = map[*vos]*job{}
)

type jobIter struct{ o *vos }

func (it jobIter) Next() (any, bool) {
	j, ok := <-it.o.jobs
	if !ok {
		return nil, false
	}
	curJobMu.Lock()
	curJob[it.o] = j
	curJobMu.Unlock()
	b, err := interp.NewBinaryFromBitReader(bitio.NewBitReader(j.data, -1), 8, 0)
	if err != nil {
		kit.Fatalf("binary: %v", err)
	}
	return map[string]any{"f": j.f, "k": j.kind, "b": b}, true
}

func init() {
	interp.RegisterIter0("_c16_jobs", func(i *interp.Interp, c any) gojq.Iter {
		return jobIter{o: i.OS.(*vos)}
	})
	interp.RegisterFunc0("_c16_emit", func(i *interp.Interp, c any) any {
		o := i.OS.(*vos)
		curJobMu.Lock()
		j := curJob[o]
		curJobMu.Unlock()
		m, ok := c.(map[string]any)
		if !ok || j == nil {
			kit.Fatalf("emit: unexpected %T", c)
		}
		j.done = true
		j.tree, _ = m["tree"].(bool)
		if !j.tree {
			j.noTree, _ = m["msg"].(string)
			return true
		}
		j.err, _ = m["err"].(bool)
		if s, ok := m["errmsg"].(string); ok {
			j.errmsg = s
		}
		if r, ok := m["repr"].(map[string]any); ok {
			if e, ok := r["e"]; ok {
				j.reprErr = fmt.Sprint(e)
			} else {
				j.repr = r["v"]
				j.hasRepr = true
			}
		}
		if gs, ok := m["gaps"].([]any); ok {
			for _, g := range gs {
				if p, ok := g.([]any); ok && len(p) == 2 {
					j.gaps = append(j.gaps, [2]int64{toI64(p[0]), toI64(p[1])})
				}
			}
		}
		return true
	})
}

func toI64(v any) int64 {
	switch v := v.(type) {
	case int:
		return int64(v)
	case *big.Int:
		return v.Int64()
	case float64:
		return int64(v)
	}
	return -1
}

// The jq program every worker runs.  `fq -d FORMAT` applies decode(FORMAT) to each input, which is defined in
// decode.jq as _decode(FORMAT; {progress: null} + options + {}); the option object is computed once per worker
// here (recomputing it per call costs 10x the decode).  The `cli` mode cross-checks a sample against the real
// `fq -d FORMAT file` command line.
const prog = `
def _c16_one($j; $o):
  try
    ( $j.b
    | if $j.k == 1 then
        ( _decode($j.f; $o) | {tree: true, err: (._error != null)} )
      else
        ( _decode($j.f; $o)
        | { tree: true
          , err: (._error != null)
          , errmsg: (._error | if . == null then null else (.error | tostring) end)
          , repr: (try {v: torepr} catch {e: tostring})
          , gaps: [.. | select(._gap?) | [._start, ._stop]]
          }
        )
      end
    )
  catch {tree: false, msg: tostring};
({progress: null} + options) as $o | _c16_jobs | _c16_one(.; $o) | _c16_emit | empty
`

// text formats have no torepr: the value itself is the representation
const progText = `
def _c16_one($j; $o):
  try
    ( $j.b
    | if $j.k == 1 then
        ( _decode($j.f; $o) | {tree: true, err: (._error != null)} )
      else
        ( _decode($j.f; $o)
        | { tree: true
          , err: (._error != null)
          , errmsg: (._error | if . == null then null else (.error | tostring) end)
          , repr: (try {v: tovalue} catch {e: tostring})
          , gaps: []
          }
        )
      end
    )
  catch {tree: false, msg: tostring};
({progress: null} + options) as $o | _c16_jobs | _c16_one(.; $o) | _c16_emit | empty
`

func runJobs(jobs []*job, program string) {
	n := runtime.NumCPU()
	if n > 16 {
		n = 16
	}
	if n > len(jobs) {
		n = len(jobs)
	}
	if n == 0 {
		return
	}
	ch := make(chan *job, 1024)
	var wg sync.WaitGroup
	for w := 0; w < n; w++ {
		wg.Add(1)
		go func() {
			defer wg.Done()
			o := &vos{args: []string{"fq", "-n", program}, stdout: &bytes.Buffer{}, stderr: &bytes.Buffer{}, fsys: mfs{}, jobs: ch}
			i, err := interp.New(o, interp.DefaultRegistry)
			if err != nil {
				kit.Fatalf("interp.New: %v", err)
			}
			if err := i.Main(context.Background(), o.Stdout(), "verif"); err != nil {
				kit.Fatalf("interp.Main: %v stderr=%s", err, o.stderr.String())
			}
			if o.stderr.Len() > 0 {
				kit.Fatalf("interp stderr: %s", o.stderr.String())
			}
		}()
	}
	for _, j := range jobs {
		ch <- j
	}
	close(ch)
	wg.Wait()
	for k, j := range jobs {
		if !j.done {
			kit.Fatalf("job %d (%s % x) produced no result", k, j.f, j.data)
		}
	}
}

// ---------------------------------------------------------------- projection to tagged values (WireBytes.tla)

const runMin = 8

// rle: maximal runs of >= runMin equal bytes become [-n, b]
func rle(b []byte) []int {
	out := []int{}
	for i := 0; i < len(b); {
		j := i
		for j < len(b) && b[j] == b[i] {
			j++
		}
		if j-i >= runMin {
			out = append(out, -(j - i), int(b[i]))
		} else {
			for k := i; k < j; k++ {
				out = append(out, int(b[k]))
			}
		}
		i = j
	}
	return out
}

func unrle(xs []int) []byte {
	var out []byte
	for i := 0; i < len(xs); i++ {
		if xs[i] < 0 {
			if i+1 >= len(xs) {
				kit.Fatalf("bad run marker")
			}
			out = append(out, bytes.Repeat([]byte{byte(xs[i+1])}, -xs[i])...)
			i++
		} else {
			out = append(out, byte(xs[i]))
		}
	}
	return out
}

func plain(b []byte) []int {
	out := make([]int, len(b))
	for i, x := range b {
		out[i] = int(x)
	}
	return out
}

type M = map[string]any

func projInt(n *big.Int) M {
	return M{"t": "int", "neg": n.Sign() < 0, "mag": plain(new(big.Int).Abs(n).Bytes())}
}

func project(v any) M {
	switch v := v.(type) {
	case nil:
		return M{"t": "null"}
	case bool:
		return M{"t": "bool", "b": v}
	case int:
		return projInt(big.NewInt(int64(v)))
	case *big.Int:
		return projInt(v)
	case float64:
		var b [8]byte
		u := math.Float64bits(v)
		for i := 0; i < 8; i++ {
			b[i] = byte(u >> (56 - 8*i))
		}
		return M{"t": "f64", "bits": plain(b[:])}
	case string:
		return M{"t": "str", "s": rle([]byte(v))}
	case []any:
		allNil := len(v) >= runMin
		for _, x := range v {
			if x != nil {
				allNil = false
				break
			}
		}
		if allNil {
			return M{"t": "nulls", "n": len(v)}
		}
		a := make([]any, len(v))
		for i, x := range v {
			a[i] = project(x)
		}
		return M{"t": "arr", "a": a}
	case map[string]any:
		keys := make([]string, 0, len(v))
		for k := range v {
			keys = append(keys, k)
		}
		sort.Strings(keys)
		ks := make([]any, len(keys))
		vs := make([]any, len(keys))
		for i, k := range keys {
			ks[i] = rle([]byte(k))
			vs[i] = project(v[k])
		}
		return M{"t": "map", "k": ks, "v": vs}
	case gojq.JQValue:
		return M{"t": "other", "go": fmt.Sprintf("%T", v), "inner": project(v.JQValueToGoJQ())}
	}
	return M{"t": "other", "go": fmt.Sprintf("%T", v)}
}

func b2i(b bool) int {
	if b {
		return 1
	}
	return 0
}

func gotOf(j *job) M {
	if !j.tree {
		return M{"t": "none"}
	}
	if !j.hasRepr {
		return M{"t": "error", "msg": j.reprErr}
	}
	return project(j.repr)
}

// ---------------------------------------------------------------- replay of TLC cases

type wcase struct {
	F      string          `json:"f"`
	Part   string          `json:"part"`
	Kind   string          `json:"kind"`
	Val    json.RawMessage `json:"val"`
	Bytes  []int           `json:"bytes"`
	Cuts   []int           `json:"cuts"`
	Trails [][]int         `json:"trails"`
}

type caseJobs struct {
	c      wcase
	data   []byte
	full   *job
	truncs []*job
	trails []*job
}

func replay(casesPath, outPath string) {
	out := kit.NewOut(outPath)
	var cs []*caseJobs
	var jobs []*job
	id, ncases, ndecodes := 0, 0, 0
	// cases are processed in batches so that memory stays bounded in the thorough tier
	flush := func() {
		runJobs(jobs, prog)
		for _, cj := range cs {
			ev := M{"id": id, "f": cj.c.F, "part": cj.c.Part, "kind": cj.c.Kind, "val": cj.c.Val, "n": len(cj.data),
				"tree": b2i(cj.full.tree), "err": b2i(cj.full.err), "errmsg": cj.full.errmsg + cj.full.noTree, "got": gotOf(cj.full)}
			id++
			tr := [][3]int{}
			for k, j := range cj.truncs {
				tr = append(tr, [3]int{cj.c.Cuts[k], b2i(j.tree), b2i(j.err)})
			}
			ev["truncs"] = tr
			tl := []M{}
			for k, j := range cj.trails {
				lo := int64(len(cj.data)) * 8
				hi := int64(len(j.data)) * 8
				gap, exact := false, false
				for _, g := range j.gaps {
					if g[0] <= lo && g[1] >= hi { // the trailing bytes lie inside a gap field
						gap = true
					}
					if g[0] == lo && g[1] == hi {
						exact = true
					}
				}
				tl = append(tl, M{"trail": cj.c.Trails[k], "tree": b2i(j.tree), "err": b2i(j.err), "got": gotOf(j), "gap": b2i(gap), "gapx": b2i(exact)})
			}
			ev["trails"] = tl
			out.Emit(ev)
		}
		ncases += len(cs)
		ndecodes += len(jobs)
		cs, jobs = nil, nil
	}
	kit.Cases(casesPath, func(_ int, raw []byte) {
		cj := &caseJobs{}
		kit.Unmarshal(raw, &cj.c)
		cj.data = unrle(cj.c.Bytes)
		cj.full = &job{f: cj.c.F, data: cj.data, kind: kFull}
		jobs = append(jobs, cj.full)
		for _, cut := range cj.c.Cuts {
			if cut < 0 || cut >= len(cj.data) {
				kit.Fatalf("bad cut %d for %d bytes", cut, len(cj.data))
			}
			j := &job{f: cj.c.F, data: cj.data[:cut], kind: kTrunc}
			cj.truncs = append(cj.truncs, j)
			jobs = append(jobs, j)
		}
		for _, t := range cj.c.Trails {
			d := append(append([]byte{}, cj.data...), unrle(t)...)
			j := &job{f: cj.c.F, data: d, kind: kFull}
			cj.trails = append(cj.trails, j)
			jobs = append(jobs, j)
		}
		cs = append(cs, cj)
		if len(jobs) >= 60000 {
			flush()
		}
	})
	flush()
	out.Close()
	fmt.Printf("cases=%d decodes=%d\n", ncases, ndecodes)
}

func main() {
	debug.SetGCPercent(400)
	debug.SetMemoryLimit(6 << 30)
	if len(os.Args) < 2 {
		kit.Fatalf("usage")
	}
	switch os.Args[1] {
	case "replay":
		replay(os.Args[2], os.Args[3])
	case "text":
		textMode(kit.Atoi(os.Args[2]), os.Args[3])
	case "cli":
		cliMode(os.Args[2], os.Args[3])
	default:
		kit.Fatalf("unknown mode %q", os.Args[1])
	}
}
