package main

// Text formats (property C16, second half).  Independent encoders: encoding/json (json, jsonl), encoding/xml (xml),
// encoding/csv (csv).  yaml and toml have no encoder that is independent of fq's decoder library, so they are
// checked by the round-trip law `v | to_yaml | from_yaml == v` only (the encoding is made by fq itself).
// As in replay mode the harness does not judge: events go to TraceWire (Repr = identity for text formats).

import (
	"bytes"
	"context"
	"encoding/csv"
	"encoding/json"
	"encoding/xml"
	"fmt"
	"math/big"
	"math/rand"
	"sort"
	"strings"

	"github.com/wader/fq/internal/verif/kit"
	"github.com/wader/fq/pkg/interp"
	"github.com/wader/gojq"
)

var strPool = []string{"", "a", "ab", "é😀", "with \"quotes\" \\ and \n newline\ttab", "<tag attr='1'>&amp;</tag>", "  ",
	"1", "null", "true", "x y", strings.Repeat("x", 300), "#hash", "k:v", "[1]", "é"}

func pow2(n uint) *big.Int { return new(big.Int).Lsh(big.NewInt(1), n) }

var intPool = []*big.Int{big.NewInt(0), big.NewInt(1), big.NewInt(-1), big.NewInt(255), big.NewInt(1 << 31), big.NewInt(-(1 << 31) - 1),
	new(big.Int).Add(pow2(53), big.NewInt(1)), new(big.Int).Sub(pow2(63), big.NewInt(1)), new(big.Int).Neg(pow2(63)), pow2(63),
	new(big.Int).Sub(pow2(64), big.NewInt(1)), new(big.Int).Exp(big.NewInt(10), big.NewInt(30), nil)}
var fltPool = []float64{1.5, -2.25, 0.1, 1e300, 5e-324, 1e21, 1e-7, 3.4028234663852886e+38, 123456789.125, 9007199254740992}

func genScalar(r *rand.Rand, nums bool) any {
	switch r.Intn(6) {
	case 0:
		return nil
	case 1:
		return r.Intn(2) == 0
	case 2:
		if nums {
			return intPool[r.Intn(len(intPool))]
		}
		return big.NewInt(int64(r.Intn(2000) - 1000))
	case 3:
		if nums {
			return fltPool[r.Intn(len(fltPool))]
		}
		return 1.5
	default:
		return strPool[r.Intn(len(strPool))]
	}
}

func genVal(r *rand.Rand, d int, nums bool) any {
	if d == 0 || r.Intn(10) < 4 {
		return genScalar(r, nums)
	}
	if r.Intn(2) == 0 {
		a := make([]any, r.Intn(4))
		for i := range a {
			a[i] = genVal(r, d-1, nums)
		}
		return a
	}
	m := map[string]any{}
	for i, n := 0, r.Intn(4); i < n; i++ {
		m[strPool[r.Intn(len(strPool))]] = genVal(r, d-1, nums)
	}
	return m
}

func genContainer(r *rand.Rand, d int, nums bool) any {
	for {
		v := genVal(r, d, nums)
		switch v.(type) {
		case []any, map[string]any:
			return v
		}
	}
}

// projection of a SOURCE value (same tagged form as fq's values)
func projectSrc(v any) M { return project(v) }

func marshalJSON(r *rand.Rand, v any) []byte {
	var bb bytes.Buffer
	e := json.NewEncoder(&bb)
	e.SetEscapeHTML(r.Intn(2) == 0)
	if r.Intn(3) == 0 {
		e.SetIndent("", strings.Repeat(" ", 1+r.Intn(3)))
	}
	if err := e.Encode(v); err != nil {
		kit.Fatalf("json encode: %v", err)
	}
	b := bb.Bytes()
	if r.Intn(2) == 0 {
		b = bytes.TrimRight(b, "\n")
	}
	return b
}

type tcase struct {
	kind   string
	f      string
	want   M
	data   []byte
	cuts   []int
	trails [][]byte
	note   string
	full   *job
	truncs []*job
	tjobs  []*job
}

func allCuts(n int) []int {
	var cs []int
	if n <= 64 {
		for i := 0; i < n; i++ {
			cs = append(cs, i)
		}
		return cs
	}
	for i := 0; i <= 12; i++ {
		cs = append(cs, i)
	}
	return append(cs, n/2, n-3, n-2, n-1)
}

// ---- xml: a small element tree, its encoding by encoding/xml and the value fq documents for it (xml.md, object mode)
type xnode struct {
	name  string
	attrs [][2]string
	text  string
	kids  []*xnode
}

func genX(r *rand.Rand, d int) *xnode {
	n := &xnode{name: []string{"a", "b", "c", "item"}[r.Intn(4)]}
	seen := map[string]bool{}
	for i, k := 0, r.Intn(3); i < k; i++ {
		an := []string{"id", "k", "lang"}[r.Intn(3)]
		if !seen[an] {
			seen[an] = true
			n.attrs = append(n.attrs, [2]string{an, []string{"", "1", "a b", "é<&>\"'"}[r.Intn(4)]})
		}
	}
	if d > 0 && r.Intn(2) == 0 {
		for i, k := 0, 1+r.Intn(3); i < k; i++ {
			n.kids = append(n.kids, genX(r, d-1))
		}
	} else if r.Intn(3) > 0 {
		n.text = []string{"text", "é😀", "a<b&c>d", "1", "x y"}[r.Intn(5)]
	}
	return n
}

func (n *xnode) encode(e *xml.Encoder) {
	st := xml.StartElement{Name: xml.Name{Local: n.name}}
	for _, a := range n.attrs {
		st.Attr = append(st.Attr, xml.Attr{Name: xml.Name{Local: a[0]}, Value: a[1]})
	}
	if err := e.EncodeToken(st); err != nil {
		kit.Fatalf("xml: %v", err)
	}
	if n.text != "" {
		_ = e.EncodeToken(xml.CharData(n.text))
	}
	for _, k := range n.kids {
		k.encode(e)
	}
	_ = e.EncodeToken(st.End())
}

// documented mapping (format/xml/xml.md): attributes "@name", text "#text", repeated children become arrays,
// an element with only text is the string, an empty element is ""
func (n *xnode) value() any {
	m := map[string]any{}
	for _, a := range n.attrs {
		m["@"+a[0]] = a[1]
	}
	for _, k := range n.kids {
		kv := k.value()
		if e, ok := m[k.name]; ok {
			if ea, ok := e.([]any); ok {
				m[k.name] = append(ea, kv)
			} else {
				m[k.name] = []any{e, kv}
			}
		} else {
			m[k.name] = kv
		}
	}
	if n.text != "" {
		m["#text"] = n.text
	}
	if len(m) == 0 {
		return ""
	}
	if len(m) == 1 && n.text != "" {
		return n.text
	}
	return m
}

func textMode(n int, outPath string) {
	r := rand.New(rand.NewSource(kit.Seed()))
	var cs []*tcase
	// fixed boundary documents first, then seeded random ones
	for i := 0; i < n; i++ {
		// json
		var v any
		if i < len(intPool) {
			v = []any{intPool[i]}
		} else if i < len(intPool)+len(fltPool) {
			v = map[string]any{"f": fltPool[i-len(intPool)]}
		} else if i%7 == 0 {
			v = genScalar(r, true)
		} else {
			v = genVal(r, 3, true)
		}
		data := marshalJSON(r, v)
		c := &tcase{f: "json", want: projectSrc(v), data: data}
		switch v.(type) {
		case []any, map[string]any, string:
			// every proper prefix of a container or string document is incomplete (numbers are not: "12" -> "1")
			c.cuts = allCuts(len(bytes.TrimRight(data, "\n")))
		}
		// a closing bracket or brace after the document is trailing data too (a decoder that asks "is there more in this
		// container?" takes it for the end of input); so are separators
		c.trails = [][]byte{[]byte(" x"), []byte("\n{}"), []byte(" 1"), []byte("]"), []byte(" }"), []byte("\n]x"), []byte(","), []byte(":1")}
		cs = append(cs, c)

		// jsonl: one value per line
		lines := make([]any, 1+r.Intn(4))
		var lb bytes.Buffer
		for k := range lines {
			lines[k] = genVal(r, 2, true)
			b, err := json.Marshal(lines[k])
			if err != nil {
				kit.Fatalf("json: %v", err)
			}
			lb.Write(b)
			if k < len(lines)-1 || r.Intn(2) == 0 {
				lb.WriteByte('\n')
			}
		}
		c = &tcase{f: "jsonl", want: projectSrc(lines), data: lb.Bytes()}
		c.trails = [][]byte{[]byte("\n{"), []byte(" x"), []byte("\n]"), []byte("}")}
		switch lines[len(lines)-1].(type) {
		case []any, map[string]any, string:
			t := bytes.TrimRight(lb.Bytes(), "\n")
			c.cuts = []int{len(t) - 1}
		}
		cs = append(cs, c)

		if i%2 == 0 {
			// csv: fields must survive fq's documented reader options (comment '#', leading space trimmed): the
			// generator keeps out rows starting with '#', fields with leading blanks and rows that are one empty field
			rows := make([][]string, 1+r.Intn(4))
			want := make([]any, len(rows))
			// RFC 4180: every record has the same number of fields.  Every 5th document is ragged on purpose: that is
			// outside fq's csv domain (encoding/csv reader, FieldsPerRecord = 0) and must be REPORTED (kind "reject")
			ragged := i%10 == 4
			width := 1 + r.Intn(4)
			for k := range rows {
				w := width
				if ragged && k == len(rows)-1 {
					w = width + 1
				}
				rows[k] = make([]string, w)
				wr := make([]any, len(rows[k]))
				for q := range rows[k] {
					f := []string{"a", "", "b c", "with,comma", "with \"quote\"", "line\nbreak", "é😀", "1", "x#y", "tail "}[r.Intn(10)]
					if q == 0 && len(rows[k]) == 1 && f == "" {
						f = "a"
					}
					rows[k][q] = f
					wr[q] = f
				}
				want[k] = wr
			}
			if ragged && len(rows) < 2 {
				ragged = false
			}
			var cb bytes.Buffer
			w := csv.NewWriter(&cb)
			w.UseCRLF = r.Intn(4) == 0
			if err := w.WriteAll(rows); err != nil {
				kit.Fatalf("csv: %v", err)
			}
			if w.UseCRLF {
				for k := range want {
					for q, f := range want[k].([]any) {
						// encoding/csv documents that \r\n inside quoted fields is read back as \n
						want[k].([]any)[q] = strings.ReplaceAll(f.(string), "\r\n", "\n")
					}
				}
			}
			cc := &tcase{f: "csv", want: projectSrc(want), data: cb.Bytes(), note: "no truncation/trailing arm: any prefix or suffix of csv is csv"}
			if ragged {
				cc.kind = "reject"
			}
			cs = append(cs, cc)

			// xml
			x := genX(r, 2)
			var xb bytes.Buffer
			if r.Intn(2) == 0 {
				xb.WriteString(xml.Header)
			}
			e := xml.NewEncoder(&xb)
			if r.Intn(3) == 0 {
				e.Indent("", "  ")
			}
			x.encode(e)
			if err := e.Flush(); err != nil {
				kit.Fatalf("xml flush: %v", err)
			}
			c = &tcase{f: "xml", want: projectSrc(map[string]any{x.name: x.value()}), data: xb.Bytes()}
			c.cuts = allCuts(len(xb.Bytes()))
			c.trails = [][]byte{[]byte("<b/>"), []byte("x"), []byte("</a>")}
			cs = append(cs, c)
		}
	}
	var jobs []*job
	for _, c := range cs {
		c.full = &job{f: c.f, data: c.data, kind: kFull}
		jobs = append(jobs, c.full)
		for _, cut := range c.cuts {
			j := &job{f: c.f, data: c.data[:cut], kind: kTrunc}
			c.truncs = append(c.truncs, j)
			jobs = append(jobs, j)
		}
		for _, t := range c.trails {
			j := &job{f: c.f, data: append(append([]byte{}, c.data...), t...), kind: kTrunc}
			c.tjobs = append(c.tjobs, j)
			jobs = append(jobs, j)
		}
	}
	runJobs(jobs, progText)

	out := kit.NewOut(outPath)
	id := 0
	for _, c := range cs {
		if c.kind == "" {
			c.kind = "ok"
		}
		ev := M{"id": id, "f": c.f, "part": "text", "kind": c.kind, "val": c.want, "n": len(c.data), "src": string(c.data),
			"tree": b2i(c.full.tree), "err": b2i(c.full.err), "errmsg": c.full.errmsg + c.full.noTree, "got": gotOf(c.full)}
		tr := [][3]int{}
		for k, j := range c.truncs {
			tr = append(tr, [3]int{c.cuts[k], b2i(j.tree), b2i(j.err)})
		}
		ev["truncs"] = tr
		tl := []M{}
		for k, j := range c.tjobs {
			tl = append(tl, M{"trail": plain(c.trails[k]), "tree": b2i(j.tree), "err": b2i(j.err), "got": M{"t": "none"}, "gap": 0, "gapx": 0})
		}
		ev["trails"] = tl
		out.Emit(ev)
		id++
	}

	// yaml / toml: round-trip law through fq's own encoder, plus trailing data
	rt := roundTrip(r, n/2)
	for _, ev := range rt {
		ev["id"] = id
		out.Emit(ev)
		id++
	}
	out.Close()
	fmt.Printf("text cases=%d decodes=%d roundtrip=%d\n", len(cs), len(jobs), len(rt))
}

// ---------------------------------------------------------------- yaml/toml round trip inside one fq run

type rtJob struct {
	f    string
	v    any
	res  map[string]any
	done bool
}

var rtJobs []*rtJob

func init() {
	interp.RegisterIter0("_c16_rt_jobs", func(i *interp.Interp, c any) gojq.Iter {
		k := 0
		return iterFunc(func() (any, bool) {
			if k >= len(rtJobs) {
				return nil, false
			}
			j := rtJobs[k]
			k++
			return map[string]any{"i": k - 1, "f": j.f, "v": j.v}, true
		})
	})
	interp.RegisterFunc0("_c16_rt_emit", func(i *interp.Interp, c any) any {
		m, ok := c.(map[string]any)
		if !ok {
			kit.Fatalf("rt emit: %T", c)
		}
		idx, _ := m["i"].(int)
		rtJobs[idx].res = m
		rtJobs[idx].done = true
		return true
	})
}

type iterFunc func() (any, bool)

func (f iterFunc) Next() (any, bool) { return f() }

const progRT = `
({progress: null} + options) as $o
| _c16_rt_jobs
| . as $j
| ( try
      ( ($j.v | if $j.f == "yaml" then to_yaml else to_toml end) as $text
      | { i: $j.i, text: $text
        , full: (try ($text | _decode($j.f; $o) | {tree: true, err: (._error != null), v: tovalue}) catch {tree: false, msg: tostring})
        , trail: (try (($text + (if $j.f == "yaml" then "\n---\n1\n" else "\n= 1\n" end)) | _decode($j.f; $o) | {tree: true, err: (._error != null)}) catch {tree: false})
        }
      )
    catch {i: $j.i, encerr: tostring}
  )
| _c16_rt_emit | empty
`

// documented domain of fq's from_yaml/from_toml: root object (non-empty for toml) or array, integers inside int64;
// toml has no null and nested tables inside arrays are the library's business: scalars only inside toml arrays
func genRT(r *rand.Rand, d int, toml bool) any {
	sc := func() any {
		switch r.Intn(5) {
		case 0:
			return r.Intn(2) == 0
		case 1:
			return []int{0, 1, -1, 255, 1 << 31, -(1 << 31) - 1, 1<<53 + 1, 1<<63 - 1, -1 << 63}[r.Intn(9)]
		case 2:
			return []float64{1.5, -2.25, 0.1, 1e300, 1e-7}[r.Intn(5)]
		case 3:
			if !toml {
				return nil
			}
			return "nil"
		default:
			return strPool[r.Intn(len(strPool))]
		}
	}
	if d == 0 || r.Intn(10) < 4 {
		return sc()
	}
	if r.Intn(2) == 0 {
		a := make([]any, r.Intn(4))
		for i := range a {
			if toml {
				a[i] = sc()
			} else {
				a[i] = genRT(r, d-1, toml)
			}
		}
		return a
	}
	m := map[string]any{}
	for i, n := 0, 1+r.Intn(3); i < n; i++ {
		m[[]string{"a", "b", "key with space", "é", "k1", "x.y"}[r.Intn(6)]] = genRT(r, d-1, toml)
	}
	return m
}

func roundTrip(r *rand.Rand, n int) []M {
	rtJobs = nil
	for i := 0; i < n; i++ {
		for _, f := range []string{"yaml", "toml"} {
			var v any
			for {
				v = genRT(r, 3, f == "toml")
				if m, ok := v.(map[string]any); ok && len(m) > 0 {
					break
				}
				if _, ok := v.([]any); ok && f == "yaml" {
					break
				}
			}
			rtJobs = append(rtJobs, &rtJob{f: f, v: v})
		}
	}
	o := &vos{args: []string{"fq", "-n", progRT}, stdout: &bytes.Buffer{}, stderr: &bytes.Buffer{}, fsys: mfs{}}
	i, err := interp.New(o, interp.DefaultRegistry)
	if err != nil {
		kit.Fatalf("interp.New: %v", err)
	}
	if err := i.Main(context.Background(), o.Stdout(), "verif"); err != nil {
		kit.Fatalf("interp.Main rt: %v %s", err, o.stderr.String())
	}
	var evs []M
	for _, j := range rtJobs {
		if !j.done {
			kit.Fatalf("rt job without result")
		}
		if e, ok := j.res["encerr"]; ok {
			// fq's own encoder refused the value: outside the round-trip law's domain, recorded, not judged
			evs = append(evs, M{"f": j.f, "part": "text", "kind": "skip", "val": project(j.v), "errmsg": fmt.Sprint(e)})
			continue
		}
		full, _ := j.res["full"].(map[string]any)
		trail, _ := j.res["trail"].(map[string]any)
		tree, _ := full["tree"].(bool)
		errb, _ := full["err"].(bool)
		got := M{"t": "none"}
		if tree {
			got = project(full["v"])
		}
		ttree, _ := trail["tree"].(bool)
		terr, _ := trail["err"].(bool)
		text, _ := j.res["text"].(string)
		evs = append(evs, M{"f": j.f, "part": "text", "kind": "ok", "val": project(j.v), "n": len(text), "src": text,
			"tree": b2i(tree), "err": b2i(errb), "errmsg": fmt.Sprint(full["msg"]), "got": got, "truncs": [][3]int{},
			"trails": []M{{"trail": []int{}, "tree": b2i(ttree), "err": b2i(terr), "got": M{"t": "none"}, "gap": 0, "gapx": 0}}})
	}
	return evs
}

// ---------------------------------------------------------------- the real command line on a sample

// cliMode: `fq -d FORMAT -c 'torepr' file` for each case of a (small) case file, one fq run per format with all
// files as arguments.  Output: per case the JSON text fq printed (or null), for comparison with the in-process path.
func cliMode(casesPath, outPath string) {
	type item struct {
		id   int
		f    string
		data []byte
	}
	byF := map[string][]item{}
	kit.Cases(casesPath, func(i int, raw []byte) {
		var c wcase
		kit.Unmarshal(raw, &c)
		byF[c.F] = append(byF[c.F], item{id: i, f: c.F, data: unrle(c.Bytes)})
	})
	out := kit.NewOut(outPath)
	fs := make([]string, 0, len(byF))
	for f := range byF {
		fs = append(fs, f)
	}
	sort.Strings(fs)
	for _, f := range fs {
		files := map[string][]byte{}
		args := []string{"fq", "-d", f, "-c", `[input_filename, (._error != null), (try torepr catch "REPR-ERROR")]`}
		for _, it := range byF[f] {
			name := fmt.Sprintf("c%d", it.id)
			files[name] = it.data
			args = append(args, name)
		}
		o := &vos{args: args, stdout: &bytes.Buffer{}, stderr: &bytes.Buffer{}, fsys: mfs{files: files}}
		i, err := interp.New(o, interp.DefaultRegistry)
		if err != nil {
			kit.Fatalf("interp.New: %v", err)
		}
		rc := 0
		if err := i.Main(context.Background(), o.Stdout(), "verif"); err != nil {
			if ex, ok := err.(interp.Exiter); ok {
				rc = ex.ExitCode()
			} else {
				rc = -1
			}
		}
		seen := map[string]bool{}
		for _, line := range strings.Split(o.stdout.String(), "\n") {
			if line == "" {
				continue
			}
			var a []json.RawMessage
			if err := json.Unmarshal([]byte(line), &a); err != nil || len(a) != 3 {
				kit.Fatalf("cli output line %q: %v", line, err)
			}
			var name string
			_ = json.Unmarshal(a[0], &name)
			seen[name] = true
			out.Emit(M{"id": kit.Atoi(name[1:]), "f": f, "tree": 1, "err": string(a[1]) == "true", "repr": a[2], "rc": rc})
		}
		for _, it := range byF[f] {
			if !seen[fmt.Sprintf("c%d", it.id)] {
				out.Emit(M{"id": it.id, "f": f, "tree": 0, "rc": rc})
			}
		}
	}
	out.Close()
}
