// corpus: decodes (mutated) sample files with real registered formats in isolated workers and
// reports the projected tree (C03/C04/C05 corpus arm) or just the outcome (C06).
//
//	corpus run <jobs.ndjson> <results.ndjson> <nworkers> <memKB> <perJobSec>
//	corpus worker
//	corpus formats                                  list registered format names, one per line
package main

import (
	"bytes"
	"context"
	"encoding/json"
	"fmt"
	"io"
	"os"
	"sort"
	"strings"
	"time"

	_ "github.com/wader/fq/format/all"
	"github.com/wader/fq/internal/bitiox"
	"github.com/wader/fq/internal/verif/kit"
	"github.com/wader/fq/internal/verif/ref"
	"github.com/wader/fq/internal/verif/treelib"
	"github.com/wader/fq/pkg/bitio"
	"github.com/wader/fq/pkg/decode"
	"github.com/wader/fq/pkg/interp"
	"github.com/wader/fq/pkg/scalar"
)

type Mut struct {
	Kind string `json:"kind"` // none trunc flip set sat dup del field field2
	Off  int    `json:"off"`
	N    int    `json:"n"`
	Val  int    `json:"val"`
	Off2 int    `json:"off2"` // field2: a second bit field overwritten together with the first
	N2   int    `json:"n2"`
	Val2 int    `json:"val2"`
}

type Job struct {
	File     string `json:"file"`
	Format   string `json:"format"`
	Force    bool   `json:"force"`
	Mut      Mut    `json:"mut"`
	MaxNodes int    `json:"maxnodes"` // include the node table when the tree has at most this many nodes
	Tree     bool   `json:"tree"`     // judge the tree (ref predicates, bits); false: outcome only
	Fields   bool   `json:"fields"`   // list the numeric leaf fields of the top-level buffer (for field-targeted mutation)
	CLI      bool   `json:"cli"`      // run the fq command line in process instead of decode.Decode
}

type Res struct {
	HasTree  bool           `json:"hastree"`
	RootErr  bool           `json:"rooterr"`
	ErrClass string         `json:"errclass"` // "", formats, io, other
	ErrMsg   string         `json:"errmsg"`
	NNodes   int            `json:"nnodes"`
	NRoots   int            `json:"nroots"`
	Size     int            `json:"size"`
	RefWhy   string         `json:"refwhy"`
	RefGap   string         `json:"refgap"`
	RefBits  string         `json:"refbits"`
	Single   bool           `json:"single"`      // the group has exactly one format
	Fields   [][2]int64     `json:"fields"`      // [start bit, bit length] of numeric leaf fields
	FNames   []string       `json:"fnames"`      // their names
	Exit     int            `json:"exit"`        // command line runs: exit status
	Stdout   bool           `json:"stdout_tree"` // command line runs: something was printed on stdout
	Nodes    []treelib.Node `json:"nodes"`
	Bufs     map[string][]int `json:"bufs"`
}

var fileCache = map[string][]byte{}

func load(path string) []byte {
	if b, ok := fileCache[path]; ok {
		return b
	}
	b, err := os.ReadFile(path)
	if err != nil {
		panic("harness: cannot read " + path)
	}
	if len(fileCache) > 64 {
		fileCache = map[string][]byte{}
	}
	fileCache[path] = b
	return b
}

func mutate(b []byte, m Mut) []byte {
	switch m.Kind {
	case "", "none":
		return b
	case "trunc":
		if m.N > len(b) {
			return b
		}
		return b[:m.N]
	}
	c := append([]byte(nil), b...)
	switch m.Kind {
	case "flip": // one bit
		if m.Off < len(c) {
			c[m.Off] ^= 1 << uint(m.N&7)
		}
	case "set": // one byte
		if m.Off < len(c) {
			c[m.Off] = byte(m.Val)
		}
	case "sat": // saturate an aligned window of n bytes with val (ff / 7f.. / 80..)
		for i := 0; i < m.N && m.Off+i < len(c); i++ {
			v := byte(m.Val)
			if i > 0 {
				if m.Val == 0x7f {
					v = 0xff
				} else if m.Val == 0x80 {
					v = 0
				}
			}
			c[m.Off+i] = v
		}
	case "field2": // two bit fields at once (a reserved code in one header field together with an unusual value in another)
		c = mutate(c, Mut{Kind: "field", Off: m.Off, N: m.N, Val: m.Val})
		c = mutate(c, Mut{Kind: "field", Off: m.Off2, N: m.N2, Val: m.Val2})
	case "field": // overwrite the bit field [off, off+n) (bit positions) with a boundary pattern
		for i := 0; i < m.N; i++ {
			bit := 0
			switch m.Val {
			case 1: // value 1
				if i == m.N-1 {
					bit = 1
				}
			case 2: // all ones
				bit = 1
			case 3: // most significant bit only
				if i == 0 {
					bit = 1
				}
			case 4: // all ones but the most significant
				if i != 0 {
					bit = 1
				}
			case 5: // value 2
				if i == m.N-2 {
					bit = 1
				}
			}
			p := m.Off + i
			if p/8 < len(c) {
				if bit == 1 {
					c[p/8] |= 1 << uint(7-p%8)
				} else {
					c[p/8] &^= 1 << uint(7-p%8)
				}
			}
		}
	case "dup": // duplicate block [off, off+n)
		if m.Off+m.N <= len(c) {
			c = append(c[:m.Off+m.N:m.Off+m.N], c[m.Off:]...)
		}
	case "del": // remove block
		if m.Off+m.N <= len(c) {
			c = append(c[:m.Off:m.Off], c[m.Off+m.N:]...)
		}
	}
	return c
}

func sameBits(v *decode.Value) (bool, bool) {
	bb, ok := v.V.(*scalar.BitBuf)
	if !ok || bb.Actual == nil || v.IsRoot || v.RootReader == nil {
		return true, false
	}
	want, err := bitiox.Range(v.RootReader, v.Range.Start, v.Range.Len)
	if err != nil {
		return true, false // range problems are C03's business
	}
	a, err := bitio.CloneReaderAtSeeker(bb.Actual)
	if err != nil {
		return true, false
	}
	al, _ := bitiox.Len(a)
	if al != v.Range.Len {
		return false, true
	}
	ab, err1 := io.ReadAll(bitio.NewIOReader(a))
	wb, err2 := io.ReadAll(bitio.NewIOReader(want))
	if err1 != nil || err2 != nil {
		return true, false
	}
	return bytes.Equal(ab, wb), true
}

func work(raw json.RawMessage) any {
	var j Job
	kit.Unmarshal(raw, &j)
	data := mutate(load(j.File), j.Mut)
	group, err := interp.DefaultRegistry.Group(j.Format)
	if err != nil {
		panic("harness: unknown format " + j.Format)
	}
	if j.CLI {
		args := []string{"-d", j.Format}
		if j.Force {
			args = append(args, "-o", "force=true")
		}
		r := kit.RunFQ(append(args, "._start", "f"), map[string][]byte{"f": data}, nil)
		res := Res{Size: len(data), Nodes: []treelib.Node{}, Bufs: map[string][]int{}, Single: len(group.Formats) == 1}
		res.Stdout = len(bytes.TrimSpace(r.Stdout)) > 0
		if r.Err != nil {
			res.Exit = 1
			if ex, ok := r.Err.(interp.Exiter); ok {
				res.Exit = ex.ExitCode()
			}
			res.ErrMsg = r.Err.Error()
		}
		return res
	}
	br := bitio.NewBitReader(data, -1)
	dv, _, derr := decode.Decode(context.Background(), br, group, decode.Options{IsRoot: true, FillGaps: true, Force: j.Force})
	res := Res{Size: len(data), Nodes: []treelib.Node{}, Bufs: map[string][]int{}, Single: len(group.Formats) == 1}
	if derr != nil {
		res.ErrMsg = derr.Error()
		if len(res.ErrMsg) > 300 {
			res.ErrMsg = res.ErrMsg[:300]
		}
		switch derr.(type) {
		case decode.FormatsError:
			res.ErrClass = "formats"
		case decode.IOError:
			res.ErrClass = "io"
		default:
			res.ErrClass = "other"
		}
	}
	if dv == nil {
		return res
	}
	res.HasTree = true
	res.RootErr = dv.Err != nil
	if j.Fields {
		res.Fields = [][2]int64{}
		_ = dv.WalkRootPreOrder(func(v *decode.Value, _ *decode.Value, _ int, _ int) error {
			switch v.V.(type) {
			case *scalar.Uint, *scalar.Sint:
				if v.Range.Len >= 1 && v.Range.Len <= 64 {
					res.Fields = append(res.Fields, [2]int64{v.Range.Start, v.Range.Len})
					res.FNames = append(res.FNames, v.Name)
				}
			}
			return nil
		})
		return res
	}
	if !j.Tree {
		return res
	}
	small := false
	nodes := treelib.Flatten(dv, false, 0)
	res.NNodes = len(nodes)
	for _, n := range nodes {
		if n.Root {
			res.NRoots++
		}
	}
	res.RefWhy = ref.Why(nodes)
	res.RefGap = ref.GapSig(nodes)
	res.RefBits = "ok"
	checked := 0
	for _, n := range nodes {
		if n.Kind == "leaf" || n.Kind == "gap" {
			if ok, did := sameBits(n.V); did {
				checked++
				if !ok {
					if n.Kind == "gap" {
						res.RefBits = "gaps.gap_bits_differ_from_buffer_range"
					} else {
						res.RefBits = "bits.value_bits_differ_from_buffer_range"
					}
					break
				}
			}
		}
	}
	small = len(nodes) <= j.MaxNodes
	if small {
		tot := int64(0)
		for _, n := range nodes {
			if n.Root {
				tot += n.Blen
			}
		}
		if tot <= 1<<14 {
			nodes = treelib.Flatten(dv, true, 512)
			res.Bufs = treelib.BufBits(nodes, 1<<14)
		}
		res.Nodes = nodes
	}
	return res
}

func main() {
	switch os.Args[1] {
	case "worker":
		kit.ServeWorker(work)
	case "ref":
		// ref <events.ndjson> <out.ndjson>: ref.Why / ref.GapSig on node tables from a file (cross-check against TLC)
		out := kit.NewOut(os.Args[3])
		kit.Cases(os.Args[2], func(_ int, raw []byte) {
			var e struct {
				Nodes []treelib.Node `json:"nodes"`
			}
			kit.Unmarshal(raw, &e)
			out.Emit(map[string]string{"why": ref.Why(e.Nodes), "gap": ref.GapSig(e.Nodes)})
		})
		out.Close()
	case "formats":
		var names []string
		for n := range interp.DefaultRegistry.Groups() {
			names = append(names, n)
		}
		sort.Strings(names)
		fmt.Println(strings.Join(names, "\n"))
	case "run":
		var jobs []json.RawMessage
		kit.Cases(os.Args[2], func(_ int, raw []byte) { jobs = append(jobs, raw) })
		out := kit.NewOut(os.Args[3])
		n, mem, sec := kit.Atoi(os.Args[4]), kit.Atoi(os.Args[5]), kit.Atoi(os.Args[6])
		self, _ := os.Executable()
		kit.RunPool(self, []string{"worker"}, jobs, n, int64(mem), time.Duration(sec)*time.Second, func(r kit.PoolResult) {
			msg := r.Msg
			if len(msg) > 6000 {
				msg = msg[:6000]
			}
			out.Emit(map[string]any{"id": r.ID, "outcome": r.Outcome, "msg": msg, "res": r.Out})
		})
		out.Close()
	default:
		kit.Fatalf("unknown mode")
	}
}
