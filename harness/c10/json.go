// json.go: JSON half of C10. Values (from the TLC-emitted universe plus seeded big integers, floats and
// escape-heavy strings) go through fq's JSON output paths; the output is parsed back with encoding/json
// (UseNumber) and both sides are projected to the tagged form JsonEq of Dump.tla compares. Numbers travel as
// canonical text: an integer-valued number as its exact decimal digits, any other as the shortest float64 text.
package main

import (
	"encoding/json"
	"fmt"
	"io"
	"math"
	"math/big"
	"math/rand"
	"sort"
	"strconv"
	"strings"

	"github.com/wader/fq/internal/verif/kit"
)

// T is the tagged form of a JSON value (all fields always present so TLC sees homogeneous records).
type T struct {
	T  string  `json:"t"`  // null bool num str arr obj
	S  string  `json:"s"`  // bool: true/false; num: canonical text
	CP []int   `json:"cp"` // str: code points
	E  []T     `json:"e"`  // arr: elements; obj: values in key order
	K  [][]int `json:"k"`  // obj: keys (code points), sorted
}

func mk(t string) T { return T{T: t, CP: []int{}, E: []T{}, K: [][]int{}} }

func cps(s string) []int {
	out := []int{}
	for _, r := range s {
		out = append(out, int(r))
	}
	return out
}

// canonNum: exact digits when the number is an integer, else shortest float64 text.
func canonNum(text string) string {
	r, ok := new(big.Rat).SetString(text)
	if !ok {
		return "?" + text
	}
	if r.IsInt() {
		return r.Num().String()
	}
	f, err := strconv.ParseFloat(text, 64)
	if err != nil {
		return "?" + text
	}
	return strconv.FormatFloat(f, 'g', -1, 64)
}

// proj: tagged form of a value as produced by encoding/json with UseNumber.
func proj(v any) T {
	switch x := v.(type) {
	case nil:
		return mk("null")
	case bool:
		t := mk("bool")
		t.S = strconv.FormatBool(x)
		return t
	case json.Number:
		t := mk("num")
		t.S = canonNum(string(x))
		return t
	case string:
		t := mk("str")
		t.CP = cps(x)
		return t
	case []any:
		t := mk("arr")
		for _, e := range x {
			t.E = append(t.E, proj(e))
		}
		return t
	case map[string]any:
		t := mk("obj")
		ks := make([]string, 0, len(x))
		for k := range x {
			ks = append(ks, k)
		}
		sort.Strings(ks)
		for _, k := range ks {
			t.K = append(t.K, cps(k))
			t.E = append(t.E, proj(x[k]))
		}
		return t
	}
	kit.Fatalf("proj: unexpected %T", v)
	return T{}
}

// text: the JSON text of a tagged value handed to fq (numbers verbatim from T.S).
func (t T) text() string {
	str := func(cp []int) string {
		rs := make([]rune, len(cp))
		for i, c := range cp {
			rs[i] = rune(c)
		}
		b, _ := json.Marshal(string(rs))
		return string(b)
	}
	switch t.T {
	case "null":
		return "null"
	case "bool", "num":
		return t.S
	case "str":
		return str(t.CP)
	case "arr":
		ps := []string{}
		for _, e := range t.E {
			ps = append(ps, e.text())
		}
		return "[" + strings.Join(ps, ",") + "]"
	case "obj":
		ps := []string{}
		for i, e := range t.E {
			ps = append(ps, str(t.K[i])+":"+e.text())
		}
		return "{" + strings.Join(ps, ",") + "}"
	}
	kit.Fatalf("text: bad tag %q", t.T)
	return ""
}

// norm: number texts to canonical form, object keys sorted (the expected side).
func (t T) norm() T {
	n := t
	n.E = []T{}
	if t.T == "num" {
		n.S = canonNum(t.S)
	}
	idx := make([]int, len(t.E))
	for i := range idx {
		idx[i] = i
	}
	if t.T == "obj" {
		key := func(i int) string { return string(func() []rune { r := []rune{}; for _, c := range t.K[i] { r = append(r, rune(c)) }; return r }()) }
		sort.Slice(idx, func(a, b int) bool { return key(idx[a]) < key(idx[b]) })
		n.K = [][]int{}
		for _, i := range idx {
			n.K = append(n.K, t.K[i])
		}
	}
	for _, i := range idx {
		n.E = append(n.E, t.E[i].norm())
	}
	return n
}

type JEvent struct {
	Kind  string `json:"kind"` // "json"
	Mode  string `json:"mode"`
	Idx   int    `json:"idx"`
	Text  string `json:"text"` // input JSON text (for the reader; not used by the spec)
	Valid bool   `json:"valid"`
	Val   T      `json:"val"`
	Out   T      `json:"out"`
}

func num(s string) T { t := mk("num"); t.S = s; return t }
func str(s string) T { t := mk("str"); t.CP = cps(s); return t }
func arr(e ...T) T   { t := mk("arr"); t.E = e; return t }
func obj(kv ...any) T {
	t := mk("obj")
	for i := 0; i < len(kv); i += 2 {
		t.K = append(t.K, cps(kv[i].(string)))
		t.E = append(t.E, kv[i+1].(T))
	}
	return t
}

func extraValues(rng *rand.Rand, n int) []T {
	one := big.NewInt(1)
	var vs []T
	for _, bits := range []uint{31, 32, 53, 62, 63, 64, 65, 127, 128, 300} {
		p := new(big.Int).Lsh(one, bits)
		for _, d := range []int64{-1, 0, 1} {
			x := new(big.Int).Add(p, big.NewInt(d))
			vs = append(vs, num(x.String()), num(new(big.Int).Neg(x).String()))
		}
		r := new(big.Int).Rand(rng, p)
		r.SetBit(r, int(bits)-1, 1).SetBit(r, 0, 1)
		vs = append(vs, num(r.String()), arr(num(r.String()), obj("n", num(new(big.Int).Neg(r).String()))))
	}
	for _, f := range []float64{0.1, -0.5, 1.0 / 3, 1e-7, 5e-324, 2.2250738585072014e-308, 1.7976931348623157e308, 1e21, 1e22, 123456789012345680000,
		-1e-300, 3.141592653589793, 9007199254740993.0, 0.000001, 0.0000009999, 1e20, 4.35, 100.5, -2.5e-10} {
		vs = append(vs, num(strconv.FormatFloat(f, 'g', -1, 64)))
	}
	vs = append(vs, num("1.0"), num("-0"), num("0.0"), num("1e2"), num("1E+2"), num("12.50"), num("0.1e1"))
	for _, s := range []string{"", "a\"b\\c/d", "\x00\x01\x1f\x7f", "\b\f\n\r\t", "é ü ß", "  ", "😀 𝄞", "<>&'", "\\u0041 \\n", "日本語", "�", "tab\there", strings.Repeat("x", 300)} {
		vs = append(vs, str(s), obj(s, str(s)), arr(str(s), str(s+"\"")))
	}
	// deep nesting: the indentation of indented output grows past every fixed-size stock of spaces an encoder may keep; a sibling follows the
	// deep member so that the separators and the closing brackets at every level are written after the long indent
	for _, depth := range []int{9, 17, 31, 32, 33, 34, 40, 65, 70, 100} {
		v := arr(num("1"), str("leaf"))
		for k := 0; k < depth; k++ {
			if (k+depth)%2 == 0 {
				v = obj("a", v, "b", num(strconv.Itoa(k)))
			} else {
				v = arr(v, num(strconv.Itoa(k)), mk("null"))
			}
		}
		vs = append(vs, v)
	}
	for i := 0; i < n; i++ { // random strings over a nasty alphabet, random float bit patterns, random wide integers
		al := []rune{'a', '"', '\\', '/', 0, 1, 0x1b, 0x7f, 0x80, 0xff, 0x2028, 0xd7ff, 0xe000, 0xfffd, 0x10000, 0x10ffff, 'é', '\n', ' ', '{', ']'}
		rs := make([]rune, rng.Intn(12))
		for k := range rs {
			rs[k] = al[rng.Intn(len(al))]
		}
		f := math.Float64frombits(rng.Uint64())
		for math.IsNaN(f) || math.IsInf(f, 0) {
			f = math.Float64frombits(rng.Uint64())
		}
		bi := new(big.Int).Rand(rng, new(big.Int).Lsh(one, uint(1+rng.Intn(320))))
		if rng.Intn(2) == 0 {
			bi.Neg(bi)
		}
		vs = append(vs, obj("s", str(string(rs)), "f", num(strconv.FormatFloat(f, 'g', -1, 64)), "i", num(bi.String()), string(rs)+"k", arr(mk("null"), num(bi.String()))))
	}
	return vs
}

func jsonCases(casesPath, outPath string) {
	var vals []T
	kit.Cases(casesPath, func(_ int, raw []byte) {
		var t T
		kit.Unmarshal(raw, &t)
		vals = append(vals, t)
	})
	rng := rand.New(rand.NewSource(kit.Seed()))
	vals = append(vals, extraValues(rng, 60)...)
	texts := make([]string, len(vals))
	for i, v := range vals {
		texts[i] = v.text()
	}
	all := "[" + strings.Join(texts, ",\n") + "]"
	tj, _ := json.Marshal(texts)
	files := memFS{"vals.json": []byte(all)}
	modes := []struct {
		name string
		args []string
	}{
		{"argjson default (indented)", []string{"-n", "--argjson", "v", all, "$v[]"}},
		{"argjson -c", []string{"-n", "-c", "--argjson", "v", all, "$v[]"}},
		{"argjson -C (coloured, indented)", []string{"-n", "-C", "--argjson", "v", all, "$v[]"}},
		{"argjson -C -c", []string{"-n", "-C", "-c", "--argjson", "v", all, "$v[]"}},
		{"tojson -r", []string{"-n", "-r", "--argjson", "v", all, "$v[] | tojson"}},
		{"@json -r", []string{"-n", "-r", "--argjson", "v", all, "$v[] | @json"}},
		{"tojson({indent:8}) -r", []string{"-n", "-r", "--argjson", "v", all, "$v[] | tojson({indent: 8})"}},
		{"tojson({indent:3}) -r", []string{"-n", "-r", "--argjson", "v", all, "$v[] | tojson({indent: 3})"}},
		{"-d json tovalue|tojson({indent:7})", []string{"-d", "json", "-r", ".[] | tovalue | tojson({indent: 7})", "vals.json"}},
		{"fromjson", []string{"-n", "-c", "--argjson", "t", string(tj), "$t[] | fromjson"}},
		{"-d json -V", []string{"-d", "json", "-V", ".[]", "vals.json"}},
		{"-d json -V -c", []string{"-d", "json", "-V", "-c", ".[]", "vals.json"}},
		{"-d json -V -C", []string{"-d", "json", "-V", "-C", ".[]", "vals.json"}},
		{"-d json tovalue|tojson", []string{"-d", "json", "-r", ".[] | tovalue | tojson", "vals.json"}},
		{"-d json tojson", []string{"-d", "json", "-r", ".[] | tojson", "vals.json"}},
	}
	out := kit.NewOut(outPath)
	for _, m := range modes {
		txt := ansiRe.ReplaceAllString(runFq(files, m.args...), "")
		dec := json.NewDecoder(strings.NewReader(txt))
		dec.UseNumber()
		n := 0
		for ; n < len(vals); n++ {
			var v any
			if err := dec.Decode(&v); err != nil {
				break
			}
			out.Emit(JEvent{Kind: "json", Mode: m.name, Idx: n, Text: texts[n], Valid: true, Val: vals[n].norm(), Out: proj(v)})
		}
		var rest any
		if err := dec.Decode(&rest); n < len(vals) || err != io.EOF { // not valid JSON from here on / extra output
			out.Emit(JEvent{Kind: "json", Mode: m.name, Idx: n, Text: fmt.Sprintf("output stops being JSON after %d of %d values", n, len(vals)), Valid: false, Val: mk("null"), Out: mk("null")})
		}
	}
	out.Close()
	fmt.Printf("json values %d modes %d events %d\n", len(vals), len(modes), out.N)
}
