package main

import (
	"bytes"
	"compress/gzip"
	"fmt"
	"math/rand"
	"os"
	"path/filepath"
	"sort"

	"github.com/wader/fq/internal/verif/kit"
	"github.com/wader/fq/internal/verif/treelib"
	"github.com/wader/fq/pkg/decode"
)

var bases = []int{2, 8, 10, 16, 36}

// gcase is one case emitted by DumpGen.tla.
type gcase struct {
	S  int64 `json:"s"`  // first bit of the range
	N  int64 `json:"n"`  // bits
	L  int   `json:"L"`  // line_bytes
	D  int   `json:"D"`  // display_bytes
	AB int   `json:"ab"` // addrbase
	SB int   `json:"sb"` // sizebase
	BB int64 `json:"bb"` // buffer length in bits
}

func randBuf(rng *rand.Rand, bits int64) []byte {
	b := make([]byte, (bits+7)/8)
	if rng.Intn(3) == 0 {
		for i := range b { // counting buffer: a wrong address shows as a wrong byte
			b[i] = byte(i)
		}
	} else {
		rng.Read(b)
	}
	if bits%8 != 0 { // the buffer ends inside its last byte: the bits beyond do not exist (read as zero)
		b[len(b)-1] &= 0xff << (8 - bits%8)
	}
	return b
}

func pickCmd(rng *rand.Rand, d int) string {
	if d == 0 {
		return []string{"dd", "ddv", "hd", "d", "dv"}[rng.Intn(5)]
	}
	return []string{"d", "dv", "hd"}[rng.Intn(3)]
}

func emitAll(js []*job, outPath string) {
	runJobs(js)
	out := kit.NewOut(outPath)
	dumps := 0
	for _, j := range js {
		if j.want != nil && j.target != j.want { // navigation by name reached another value (duplicate field names): not a dump of the intended value
			continue
		}
		debugText(j)
		j.events(out)
		dumps++
	}
	out.Close()
	fmt.Printf("dumps %d events %d\n", dumps, out.N)
}

func binCases(casesPath, outPath string) {
	var js []*job
	kit.Cases(casesPath, func(i int, raw []byte) {
		var c gcase
		kit.Unmarshal(raw, &c)
		rng := rand.New(rand.NewSource(kit.Seed()*1000003 + int64(i)))
		j := &job{ID: i, Kind: "bin", Cmd: pickCmd(rng, c.D), A: c.S, B: c.S + c.N, buf: randBuf(rng, c.BB), bufBits: c.BB}
		j.setOpts(c.L, c.AB, c.SB, c.D, true, rng.Intn(4) == 0, rng.Intn(8) == 0, 0)
		j.what = fmt.Sprintf("%d-bit buffer | tobits[%d:%d] | %s(%v)", c.BB, j.A, j.B, j.Cmd, j.Opts)
		js = append(js, j)
	})
	emitAll(js, outPath)
}

func pathOf(v, top *decode.Value) []any {
	var p []any
	for v != top {
		if c := v.Parent.V.(*decode.Compound); c.IsArray {
			p = append([]any{int(v.Index)}, p...)
		} else {
			p = append([]any{v.Name}, p...)
		}
		v = v.Parent
	}
	return p
}

func randOpts(rng *rand.Rand, j *job, maxL int) {
	l := 1 + rng.Intn(maxL)
	switch rng.Intn(5) {
	case 0:
		l = 16
	case 1:
		l = []int{1, 2, 3, 4, 8, 64}[rng.Intn(6)]
	}
	d := []int{0, 0, 1, l - 1, l, l + 1, 2*l + 1, 5, 1 + rng.Intn(40)}[rng.Intn(9)]
	depth := 0
	if j.Kind != "bin" && rng.Intn(4) == 0 {
		depth = 1 + rng.Intn(3)
	}
	j.setOpts(l, bases[rng.Intn(5)], bases[rng.Intn(5)], d, rng.Intn(2) == 0, rng.Intn(4) == 0, rng.Intn(8) == 0, depth)
}

// treeJobs: the real tree of one decoder program dumped whole and at up to `subs` values inside it.
func treeJobs(rng *rand.Rand, id *int, p treelib.Prog, seed int64, subs int, maxL int) []*job {
	root, pm := treelib.RunProg(p, seed)
	if root == nil || pm != "" || !isCompound(root) {
		return nil
	}
	var js []*job
	all := walk(root, 0)
	for k := 0; k <= subs; k++ {
		v := root
		if k > 0 {
			v = all[rng.Intn(len(all))].v
		}
		cmd := []string{"d", "dd", "dv", "ddv", "hd"}[rng.Intn(5)]
		if synthetic(v) && cmd == "hd" {
			cmd = "dv"
		}
		j := &job{ID: *id, Kind: "tree", Cmd: cmd, root: root, want: v, Path: pathOf(v, root)}
		*id++
		randOpts(rng, j, maxL)
		j.what = fmt.Sprintf("program len=%d %v seed=%d | getpath(%v) | %s(%v)", p.Len, p.Prog, seed, j.Path, j.Cmd, j.Opts)
		js = append(js, j)
	}
	return js
}

func progCases(casesPath, outPath string) {
	var js []*job
	id := 0
	kit.Cases(casesPath, func(i int, raw []byte) {
		var p treelib.Prog
		kit.Unmarshal(raw, &p)
		rng := rand.New(rand.NewSource(kit.Seed()*7919 + int64(i)))
		js = append(js, treeJobs(rng, &id, p, kit.Seed()*1000003+int64(i), 1, 4)...)
	})
	emitAll(js, outPath)
}

// genProg: decoder programs shaped for dumps: multi-line leaves at odd bit offsets, nested buffers of several lines, nesting in nesting.
func genProg(rng *rand.Rand, depth, n int, toks *[]treelib.Tok) {
	names := []string{"a", "b", "c", "d"}
	for i := 0; i < n; i++ {
		nm := names[rng.Intn(len(names))]
		begin := func(t treelib.Tok, m int) {
			*toks = append(*toks, t)
			genProg(rng, depth-1, 1+rng.Intn(m), toks)
			*toks = append(*toks, treelib.Tok{K: "end"})
		}
		nb := int64([]int{8, 24, 40, 100, 128, 136, 320, 333, 520}[rng.Intn(9)])
		k := rng.Intn(14)
		switch {
		case k < 6 || depth == 0:
			*toks = append(*toks, treelib.Tok{K: "leaf", Name: nm, N: int64([]int{1, 3, 5, 8, 13, 16, 24, 40, 64, 100, 129}[rng.Intn(11)])})
		case k == 6:
			*toks = append(*toks, treelib.Tok{K: "synth", Name: nm})
		case k == 7:
			begin(treelib.Tok{K: "struct", Name: nm}, 4)
		case k == 8:
			begin(treelib.Tok{K: "array", Name: nm}, 4)
		case k == 9:
			begin(treelib.Tok{K: "bitbuf", Name: nm, N: nb}, 4)
		case k == 10:
			begin(treelib.Tok{K: "rootstruct", Name: nm, N: nb}, 4)
		case k == 11:
			begin(treelib.Tok{K: "rootarray", Name: nm, N: nb}, 4)
		case k == 12:
			begin(treelib.Tok{K: "fmtlen", Name: nm, N: int64(8 * (1 + rng.Intn(12))), OrRaw: rng.Intn(2) == 0}, 3)
		case k == 13:
			begin(treelib.Tok{K: "fmtrest", Name: nm, OrRaw: true}, 3)
		}
	}
}

func gz(b []byte) []byte {
	var o bytes.Buffer
	w := gzip.NewWriter(&o)
	w.Write(b)
	w.Close()
	return o.Bytes()
}

func randDriver(n int, outPath, repo string) {
	rng := rand.New(rand.NewSource(kit.Seed()))
	var js []*job
	id := 0
	add := func(j *job) { j.ID = id; id++; js = append(js, j) }
	// 1. binaries: any alignment, any buffer end, all options
	for i := 0; i < n; i++ {
		bb := int64(rng.Intn(1600))
		if rng.Intn(3) > 0 {
			bb = bb / 8 * 8
		}
		a := rng.Int63n(bb + 1)
		b := a + rng.Int63n(min(bb-a, 700)+1)
		if rng.Intn(3) == 0 {
			a, b = a/8*8, min(bb, (b+7)/8*8)
		}
		j := &job{Kind: "bin", A: a, B: b, buf: randBuf(rng, bb), bufBits: bb}
		randOpts(rng, j, 64)
		j.Cmd = pickCmd(rng, j.d)
		j.setOpts(j.l, j.ab, j.sb, j.d, true, j.color, j.unicode, 0)
		j.what = fmt.Sprintf("%d-bit buffer | tobits[%d:%d] | %s(%v)", bb, a, b, j.Cmd, j.Opts)
		add(j)
	}
	// 2. buffers whose size is an exact power of every address base (address width arithmetic): first and last lines
	for _, sz := range []int64{256, 512, 1000, 1024, 1296, 4096, 10000, 32768, 46656, 65536, 100000} {
		for _, ab := range bases {
			for _, r := range [][2]int64{{sz*8 - 40, sz * 8}, {0, 24}, {sz*8 - 8, sz * 8}, {sz*8 - 16*8 - 3, sz*8 - 5}} {
				j := &job{Kind: "bin", Cmd: "hd", A: r[0], B: r[1], buf: randBuf(rng, sz*8), bufBits: sz * 8}
				j.setOpts([]int{16, 8, 10, 1 + rng.Intn(64)}[rng.Intn(4)], ab, ab, 0, true, false, false, 0)
				j.what = fmt.Sprintf("%d-byte buffer | tobits[%d:%d] | hd(%v)", sz, r[0], r[1], j.Opts)
				add(j)
			}
		}
	}
	// 2b. values of more than 32 KiB displayed in full (display_bytes 0): the dump copies the value through the hex and the character
	// column writers in chunks of 32 KiB, so a chunk boundary falls inside the listing - on a line end for some starts and widths, in
	// the middle of a line for others
	for i, l := range []int{16, 16, 12, 7, 16, 1 + rng.Intn(40)} {
		sz := int64(36000 + rng.Intn(9000))
		a := int64(0)
		switch i % 3 {
		case 1:
			a = int64(l) * int64(1+rng.Intn(20)) * 8 // starts on a line start: the 32 KiB point is a line end when l divides 32768
		case 2:
			a = int64(rng.Intn(400)) * 8
		}
		if i == 4 {
			a = 512 * 8
		}
		j := &job{Kind: "bin", Cmd: "hd", A: a, B: sz * 8, buf: randBuf(rng, sz*8), bufBits: sz * 8}
		j.setOpts(l, []int{16, 10, 8}[i%3], 16, 0, true, false, false, 0)
		j.what = fmt.Sprintf("%d-byte buffer | tobits[%d:%d] | hd(%v) in full", sz, a, sz*8, j.Opts)
		add(j)
	}
	// 3. decoder programs with nested buffers
	for i := 0; i < n/3; i++ {
		var toks []treelib.Tok
		genProg(rng, 3, 1+rng.Intn(5), &toks)
		js = append(js, treeJobs(rng, &id, treelib.Prog{Len: int64(rng.Intn(900)), Force: rng.Intn(5) == 0, Prog: toks}, kit.Seed()*31+int64(i), 2, 24)...)
	}
	// 4. real formats: gzip members (nested root buffer = the uncompressed bytes) and small files of the fq test corpus
	for i := 0; i < 12; i++ {
		plain := make([]byte, []int{40, 3, 17, 100, 256, 1000}[i%6])
		for k := range plain {
			plain[k] = byte('a' + (k*7+i)%26)
		}
		j := &job{Kind: "fmt", Format: "gzip", buf: gz(plain), Cmd: []string{"dd", "ddv", "dv", "d"}[i%4]}
		j.bufBits = int64(len(j.buf)) * 8
		randOpts(rng, j, 24)
		if i == 0 { // the D4 example of DESIGN section 6
			j.Cmd = "dd"
			j.setOpts(16, 16, 16, 0, false, false, false, 0)
		}
		j.what = fmt.Sprintf("gzip of %d bytes | decode | %s(%v)", len(plain), j.Cmd, j.Opts)
		add(j)
	}
	if repo != "" {
		files, _ := filepath.Glob(filepath.Join(repo, "format/*/testdata/*"))
		sort.Strings(files)
		rng.Shuffle(len(files), func(a, b int) { files[a], files[b] = files[b], files[a] })
		k := 0
		for _, f := range files {
			st, err := os.Stat(f)
			if err != nil || st.IsDir() || st.Size() == 0 || st.Size() > 3000 || filepath.Ext(f) == ".fqtest" || filepath.Ext(f) == ".md" || filepath.Ext(f) == ".jq" || filepath.Ext(f) == ".sh" {
				continue
			}
			b, _ := os.ReadFile(f)
			j := &job{Kind: "fmt", buf: b, bufBits: int64(len(b)) * 8, Cmd: []string{"dd", "ddv", "dv", "d"}[k%4]}
			randOpts(rng, j, 24)
			j.what = fmt.Sprintf("%s | decode | %s(%v)", f[len(repo):], j.Cmd, j.Opts)
			add(j)
			if k++; k >= n/40 {
				break
			}
		}
	}
	emitAll(js, outPath)
}

func main() {
	if len(os.Args) < 3 {
		kit.Fatalf("usage: c10 bin|progs|rand|json|demo ...")
	}
	switch os.Args[1] {
	case "bin":
		binCases(os.Args[2], os.Args[3])
	case "progs":
		progCases(os.Args[2], os.Args[3])
	case "rand":
		repo := ""
		if len(os.Args) > 4 {
			repo = os.Args[4]
		}
		randDriver(kit.Atoi(os.Args[2]), os.Args[3], repo)
	case "json":
		jsonCases(os.Args[2], os.Args[3])
	case "demo":
		demo(os.Args[2])
	default:
		kit.Fatalf("unknown mode %q", os.Args[1])
	}
}
