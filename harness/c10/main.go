// c10: binds Dump.tla to what real fq prints (C10).
//
//	c10 bin   <cases.ndjson> <events.ndjson>   TLC-emitted binary dump cases (DumpGen) on real fq
//	c10 progs <progs.ndjson> <events.ndjson>   TLC-emitted decoder programs (DecodeTreeMC): real trees dumped with d/dd/dv/hd
//	c10 rand  <n> <events.ndjson> [repo]       seeded random binaries, decoder programs with nested buffers, real formats
//	c10 json  <cases.ndjson> <events.ndjson>   JSON output half (json.go)
//	c10 demo  <events.ndjson>                  binding demo: real dump text damaged by hand, parsed again (demo.go)
//
// fq runs in-process through its CLI entry point (interp.Main) with a virtual OS; the values to display are handed
// to the jq program by a registered function, displayed by the real d/dd/dv/ddv/hd jq functions, and the text
// written to stdout is parsed back (parse.go). Ground truth (buffer bytes, inner range, root depth) is read from the
// real *decode.Value / the bytes the harness itself supplied -- never from the dump.
package main

import (
	"bytes"
	"context"
	"encoding/json"
	"fmt"
	"io"
	"io/fs"
	"strconv"
	"strings"

	_ "github.com/wader/fq/format/all"
	"github.com/wader/fq/internal/verif/kit"
	"github.com/wader/fq/pkg/bitio"
	"github.com/wader/fq/pkg/decode"
	"github.com/wader/fq/pkg/interp"
	"github.com/wader/fq/pkg/scalar"
)

// ---------------------------------------------------------------- fq in-process

type memFS map[string][]byte
type memFile struct {
	*bytes.Reader
	name string
	size int64
}

func (f memFile) Stat() (fs.FileInfo, error) {
	return interp.FixedFileInfo{FName: f.name, FSize: f.size}, nil
}
func (f memFile) Close() error { return nil }
func (m memFS) Open(name string) (fs.File, error) {
	b, ok := m[name]
	if !ok {
		return nil, &fs.PathError{Op: "open", Path: name, Err: fs.ErrNotExist}
	}
	return memFile{Reader: bytes.NewReader(b), name: name, size: int64(len(b))}, nil
}

type vin struct{ interp.FileReader }

func (vin) IsTerminal() bool { return false }
func (vin) Size() (int, int) { return 120, 25 }

type vout struct{ io.Writer }

func (vout) Size() (int, int) { return 120, 25 }
func (vout) IsTerminal() bool { return false }

type vos struct {
	args           []string
	stdout, stderr *bytes.Buffer
	fsys           fs.FS
}

func (o *vos) Platform() interp.Platform { return interp.Platform{} }
func (o *vos) Stdin() interp.Input {
	return vin{FileReader: interp.FileReader{R: bytes.NewBuffer(nil)}}
}
func (o *vos) Stdout() interp.Output                             { return vout{o.stdout} }
func (o *vos) Stderr() interp.Output                             { return vout{o.stderr} }
func (o *vos) InterruptChan() chan struct{}                      { return nil }
func (o *vos) Environ() []string                                 { return []string{"NO_COLOR=1", "NO_DECODE_PROGRESS=1"} }
func (o *vos) Args() []string                                    { return o.args }
func (o *vos) ConfigDir() (string, error)                        { return "/config", nil }
func (o *vos) FS() fs.FS                                         { return o.fsys }
func (o *vos) History() ([]string, error)                        { return nil, nil }
func (o *vos) Readline(opts interp.ReadlineOpts) (string, error) { return "", io.EOF }

// runFq runs `fq <args...>`; a failing invocation is a machinery error (every program catches its own errors).
func runFq(files memFS, args ...string) string {
	o := &vos{args: append([]string{"fq"}, args...), stdout: &bytes.Buffer{}, stderr: &bytes.Buffer{}, fsys: files}
	i, err := interp.New(o, interp.DefaultRegistry)
	if err != nil {
		kit.Fatalf("interp.New: %v", err)
	}
	if err := i.Main(context.Background(), o.Stdout(), "verif"); err != nil {
		kit.Fatalf("fq failed: %v\nstderr: %.2000s\nargs: %.300s", err, o.stderr.String(), strings.Join(args, " "))
	}
	return o.stdout.String()
}

// ---------------------------------------------------------------- dump jobs

type job struct {
	ID     int            `json:"id"`
	Kind   string         `json:"kind"` // bin | tree | fmt
	Cmd    string         `json:"cmd"`  // d dd dv ddv hd
	Opts   map[string]any `json:"opts"`
	A      int64          `json:"a"`
	B      int64          `json:"b"`
	Path   []any          `json:"path"`
	Format string         `json:"format"`

	l, ab, sb, d, depth     int
	verbose, color, unicode bool
	buf                     []byte // bin/fmt: bytes handed to fq
	bufBits                 int64
	root, want, target      *decode.Value
	out, what, demo         string
	failed                  bool
}

var cur = map[int]*job{}

func init() {
	interp.RegisterFunc1("_c10val", func(_ *interp.Interp, _ any, id int) any {
		j := cur[id]
		if j.Kind == "tree" {
			c := j.root.V.(*decode.Compound)
			if c.IsArray {
				return interp.NewArrayDecodeValue(j.root, nil, c)
			}
			return interp.NewStructDecodeValue(j.root, nil, c)
		}
		b, err := interp.NewBinaryFromBitReader(bitio.NewBitReader(j.buf, j.bufBits), 8, 0)
		if err != nil {
			return err
		}
		return b
	})
	interp.RegisterFunc1("_c10note", func(_ *interp.Interp, c any, id int) any {
		if dv, ok := c.(interp.DecodeValue); ok {
			cur[id].target = dv.DecodeValue()
		}
		return c
	})
}

const driver = `def _run($j): if $j.cmd=="d" then d($j.opts) elif $j.cmd=="dd" then dd($j.opts) elif $j.cmd=="dv" then dv($j.opts)
  elif $j.cmd=="ddv" then ddv($j.opts) elif $j.cmd=="hd" then hd($j.opts) else error("cmd") end;
$jobs[] as $j
| ( try ( _c10val($j.id)
        | if $j.kind=="bin" then tobits[$j.a:$j.b] elif $j.kind=="fmt" then ((if $j.format=="" then decode else decode($j.format) end) | if (try (_todisplay | true) catch false) then error("format with its own display") else . end) else . end
        | if ($j.path|length) > 0 then getpath($j.path) else . end
        | _c10note($j.id) | _run($j))
    catch "\u0002ERR \(tostring)"
  , "\u0001END \($j.id)")`

// setOpts fixes the options of a job. Options implied by the command are NOT passed, so d/dd/dv/hd are exercised as such.
func (j *job) setOpts(l, ab, sb, d int, verbose, color, unicode bool, depth int) {
	j.l, j.ab, j.sb, j.depth, j.color, j.unicode = l, ab, sb, depth, color, unicode
	o := map[string]any{"line_bytes": l, "addrbase": ab, "sizebase": sb, "color": color, "unicode": unicode, "depth": depth, "array_truncate": 0}
	switch j.Cmd {
	case "d":
		o["display_bytes"], o["verbose"] = d, verbose
	case "dd":
		d = 0
		o["verbose"] = verbose
	case "dv":
		verbose = true
		o["display_bytes"] = d
	case "ddv":
		d, verbose = 0, true
	case "hd":
		verbose = true
		if d != 0 {
			o["display_bytes"] = d
		}
	}
	j.d, j.verbose, j.Opts = d, verbose, o
}

func runJobs(js []*job) {
	const chunk = 400
	for s := 0; s < len(js); s += chunk {
		part := js[s:min(len(js), s+chunk)]
		cur = map[int]*job{}
		for _, j := range part {
			if j.Path == nil {
				j.Path = []any{}
			}
			cur[j.ID] = j
		}
		jb, err := json.Marshal(part)
		if err != nil {
			kit.Fatalf("marshal jobs: %v", err)
		}
		out := runFq(nil, "-n", "-r", "--argjson", "jobs", string(jb), driver)
		for _, j := range part {
			end := fmt.Sprintf("\x01END %d\n", j.ID)
			k := strings.Index(out, end)
			if k < 0 {
				kit.Fatalf("no end marker for job %d", j.ID)
			}
			j.out, out = out[:k], out[k+len(end):]
			if strings.Contains(j.out, "\x02ERR") {
				j.failed = true
			}
		}
	}
}

// ---------------------------------------------------------------- ground truth and events

type Event struct {
	Kind    string   `json:"kind"`
	What    string   `json:"what"`
	L       int      `json:"L"`
	AB      int      `json:"ab"`
	SB      int      `json:"sb"`
	D       int      `json:"D"`
	Verbose bool     `json:"verbose"`
	RD      int      `json:"rd"`   // root depth of the value inside this dump (0: top buffer)
	W       int      `json:"W"`    // printed width of the address column
	Boff    int64    `json:"boff"` // address of buf[0]
	Buf     []int    `json:"buf"`  // buffer bytes (window); a trailing partial byte is zero padded on the right
	Blen    int64    `json:"blen"` // buffer length in bits
	Start   int64    `json:"start"`
	Len     int64    `json:"len"`
	Show    bool     `json:"show"` // a value whose bytes this dump has to show: non-empty scalar, or non-empty compound collapsed by depth
	Rows    []Row    `json:"rows"`
	Trunc   bool     `json:"trunc"`
	UFull   bool     `json:"ufull"` // the `until` text of a truncated value is completely visible
	UAddr   []string `json:"uaddr"`
	UEnd    bool     `json:"uend"`
	USize   []string `json:"usize"`
	HasV    bool     `json:"hasv"`
	VR      []string `json:"vr"`
	VS      []string `json:"vs"`
	Perr    string   `json:"perr"`
	Demo    string   `json:"demo"` // binding demo only: accept | reject | d4 = accept or the known D4 signature (what TLC has to say)
}

func bufBytes(br bitio.ReaderAtSeeker) ([]byte, int64) {
	n, err := br.SeekBits(0, io.SeekEnd)
	if err != nil {
		kit.Fatalf("buffer length: %v", err)
	}
	b := make([]byte, (n+7)/8)
	one := make([]byte, 1)
	for i := int64(0); i < n; i++ { // bit by bit: no assumption about short reads at the seams of concatenated readers
		one[0] = 0
		if k, err := br.ReadBitsAt(one, 1, i); k != 1 {
			kit.Fatalf("buffer read at bit %d: %v", i, err)
		}
		b[i/8] |= (one[0] >> 7) << (7 - i%8)
	}
	return b, n
}

type truth struct {
	buf        []byte
	blen       int64
	start, len int64
	rd         int
	show, hasv bool
}

func (j *job) event(t truth, ls []line, what string) Event {
	bar := '|'
	if j.unicode {
		bar = '│'
	}
	var hh, ah []string
	for i := 0; i < j.l; i++ {
		s := strconv.FormatInt(int64(i), j.ab)
		if len(s) < 2 {
			s = "0" + s
		}
		hh, ah = append(hh, s), append(ah, s[len(s)-1:])
	}
	hexHeader := strings.Join(hh, " ")
	if len(hexHeader) > 3*j.l-1 { // digits wider than the column (base 2): fq cuts the header at the column width
		hexHeader = hexHeader[:3*j.l-1]
	}
	g := rowsOf(ls, j.l, bar, strings.TrimRight(hexHeader, " "), strings.Join(ah, ""))
	e := Event{Kind: "dump", What: what, L: j.l, AB: j.ab, SB: j.sb, D: j.d, Verbose: j.verbose, RD: t.rd, Blen: t.blen,
		Start: t.start, Len: t.len, Show: t.show, Rows: g.Rows, Trunc: g.Trunc, HasV: t.hasv, Perr: g.Perr,
		UAddr: []string{}, USize: []string{}, VR: []string{}, VS: []string{}, Buf: []int{}}
	if len(ls) > 0 {
		e.W = ls[0].w
	}
	if m := untilRe.FindStringSubmatch(g.Until); g.Trunc && m != nil && len(g.Until) < 3*j.l-1 && m[3] != "end" { // shorter than the column and not `until X (end)` cut before the size: certainly complete
		e.UFull, e.UAddr, e.UEnd, e.USize = true, chars(m[1]), m[2] != "", chars(m[3])
	}
	if t.hasv {
		vr, vs := verboseOf(g.Name)
		e.VR, e.VS = chars(vr), chars(vs)
	}
	// window of the buffer: the lines around the value (a cell outside the window has no byte to agree with)
	lo := max(0, t.start/8-2*int64(j.l))
	hi := min(int64(len(t.buf)), (t.start+t.len)/8+2*int64(j.l)+1)
	if j.d > 0 {
		hi = min(hi, t.start/8+int64(j.d)+3*int64(j.l))
	}
	lo = min(lo, hi)
	e.Boff, e.Demo = lo, j.demo
	for _, b := range t.buf[lo:hi] {
		e.Buf = append(e.Buf, int(b))
	}
	return e
}

type vis struct {
	v, root   *decode.Value
	depth, rd int
}

func isCompound(v *decode.Value) bool { _, ok := v.V.(*decode.Compound); return ok }

// walk: the values a dump of v with the given depth option goes through, in display order, each with the buffer root it lives in.
func walk(v *decode.Value, maxDepth int) []vis {
	root := v
	for !root.IsRoot && root.Parent != nil {
		root = root.Parent
	}
	var out []vis
	var rec func(v, root *decode.Value, depth, rd int)
	rec = func(v, root *decode.Value, depth, rd int) {
		if maxDepth != 0 && depth > maxDepth {
			return
		}
		if v.IsRoot && v != root {
			root, rd = v, rd+1
		}
		out = append(out, vis{v, root, depth, rd})
		if c, ok := v.V.(*decode.Compound); ok {
			for _, ch := range c.Children {
				rec(ch, root, depth+1, rd)
			}
		}
	}
	rec(v, root, 0, 0)
	return out
}

func inner(v *decode.Value) (int64, int64) {
	if v.IsRoot {
		return 0, v.Range.Len
	}
	return v.Range.Start, v.Range.Len
}

func synthetic(v *decode.Value) bool {
	s, ok := v.V.(scalar.Scalarable)
	return ok && s.ScalarFlags().IsSynthetic()
}

// namePrefix: how the tree column of the first line of a value below the dumped one starts.
func namePrefix(x vis) string {
	s := strings.Repeat("  ", x.depth)
	if p := x.v.Parent; p != nil {
		if c, ok := p.V.(*decode.Compound); ok && c.IsArray {
			return s + "[" + strconv.Itoa(int(x.v.Index)) + "]"
		}
	}
	return s + x.v.Name
}

func (j *job) events(out *kit.Out) int {
	bar := '|'
	if j.unicode {
		bar = '│'
	}
	if j.failed {
		if j.Kind != "bin" && j.target == nil { // decode / navigation failed: nothing was displayed
			return 0
		}
		e := Event{Kind: "dump", What: j.what, Perr: "fq reported an error instead of a dump: " + j.out, Rows: []Row{}, Buf: []int{}, UAddr: []string{}, USize: []string{}, VR: []string{}, VS: []string{}}
		if j.target != nil { // where the value lies in its buffer: a value whose range leaves its buffer (finding D28 of C03) cannot be shown
			rootV := j.target.BufferRoot()
			_, bl := bufBytes(rootV.RootReader)
			st, ln := inner(j.target)
			e.Start, e.Len, e.Blen = st, ln, bl
		}
		out.Emit(e)
		return 1
	}
	ls, perr := splitDump(j.out, j.l, bar)
	if perr != "" {
		e := j.event(truth{}, nil, j.what)
		e.Perr = perr
		out.Emit(e)
		return 1
	}
	if j.Kind == "bin" {
		out.Emit(j.event(truth{buf: j.buf, blen: j.bufBits, start: j.A, len: j.B - j.A, show: j.B > j.A, hasv: true}, ls, j.what))
		return 1
	}
	if j.target == nil {
		kit.Fatalf("job %d: no decode value reached the display function", j.ID)
	}
	bufs := map[*decode.Value][]byte{}
	blens := map[*decode.Value]int64{}
	tr := func(x vis, collapsed bool) truth {
		if _, ok := bufs[x.root]; !ok {
			bufs[x.root], blens[x.root] = bufBytes(x.root.RootReader)
		}
		s, l := inner(x.v)
		return truth{buf: bufs[x.root], blen: blens[x.root], start: s, len: l, rd: x.rd,
			show: l > 0 && (!isCompound(x.v) || collapsed), hasv: j.verbose && !synthetic(x.v)}
	}
	if j.Cmd == "hd" {
		x := walk(j.target, 1)[0]
		t := tr(x, true)
		t.hasv = true
		out.Emit(j.event(t, ls, j.what+" hd"))
		return 1
	}
	vs := walk(j.target, j.depth)
	// cut the lines into one group per value: the k-th value starts at the next line whose tree column starts with its name
	starts := []int{}
	k := 0
	for i, l := range ls {
		if k >= len(vs) || strings.TrimSpace(l.tree) == "" {
			continue
		}
		if k == 0 {
			starts, k = append(starts, i), 1
			continue
		}
		p := namePrefix(vs[k])
		if strings.HasPrefix(l.tree, p) && len(l.tree) > len(p) && strings.ContainsRune("[{:", rune(l.tree[len(p)])) {
			starts, k = append(starts, i), k+1
		}
	}
	if k != len(vs) {
		e := j.event(truth{}, nil, j.what)
		e.Perr = fmt.Sprintf("dump shows %d of the %d values of the tree", k, len(vs))
		out.Emit(e)
		return 1
	}
	for k, x := range vs {
		lo, hi := starts[k], len(ls)
		if k+1 < len(vs) {
			hi = starts[k+1]
		}
		if k == 0 {
			lo = 0 // the column header above the first value
		}
		out.Emit(j.event(tr(x, j.depth != 0 && x.depth == j.depth), ls[lo:hi], fmt.Sprintf("%s value#%d", j.what, k)))
	}
	return len(vs)
}
