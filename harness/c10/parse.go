// parse.go: the dump parser (trusted base of C10). It turns the TEXT fq printed back into rows
// [address text, col -> hex pair text, col -> ascii char] using nothing but the column layout
// addr | hex (3*L-1 wide) | ascii (L wide) | tree. It does not interpret numbers or hex digits: address
// strings and hex pairs travel to TLC as text, so a wrong digit can only be judged there, never repaired here.
package main

import (
	"regexp"
	"strings"
)

var ansiRe = regexp.MustCompile("\x1b\\[[0-9;]*m")

type Cell struct {
	C int    `json:"c"`
	H string `json:"h"`
}
type ACell struct {
	C  int    `json:"c"`
	Ch string `json:"ch"`
}
type Row struct {
	A     []string `json:"a"` // address text as printed (blanks trimmed), one element per character
	Cells []Cell   `json:"cells"`
	Asc   []ACell  `json:"asc"`
	Mark  bool     `json:"mark"` // end-of-buffer marker directly after the last hex pair
}

type line struct {
	w                    int // width of the address column (position of the first bar)
	addr, hex, asc, tree string
}

func chars(s string) []string {
	out := []string{}
	for _, r := range s {
		out = append(out, string(r))
	}
	return out
}

// splitLine cuts one printed line at the fixed column positions. ok=false: the line does not have the layout.
func splitLine(s string, L int, bar rune) (line, bool) {
	r := []rune(ansiRe.ReplaceAllString(s, ""))
	i0 := -1
	for i, c := range r {
		if c == bar {
			i0 = i
			break
		}
	}
	hexW := 3*L - 1
	b1, b2 := i0+1+hexW, i0+2+hexW+L
	if i0 < 0 || len(r) <= b2 || r[b1] != bar || r[b2] != bar {
		return line{}, false
	}
	return line{w: i0, addr: string(r[:i0]), hex: string(r[i0+1 : b1]), asc: string(r[b1+1 : b2]), tree: string(r[b2+1:])}, true
}

func splitDump(text string, L int, bar rune) ([]line, string) {
	var ls []line
	for _, s := range strings.Split(strings.TrimSuffix(text, "\n"), "\n") {
		l, ok := splitLine(s, L, bar)
		if !ok {
			return nil, "line without the four-column layout: " + s
		}
		if len(ls) > 0 && ls[0].w != l.w {
			return nil, "address column width changes inside one dump"
		}
		ls = append(ls, l)
	}
	return ls, ""
}

type group struct {
	Rows  []Row
	Trunc bool
	Until string // text of the hex column on the `*` row
	Name  string // tree column of the value's line
	Perr  string
}

// rowsOf reads the lines belonging to ONE value. header is the column-number header fq prints above
// a root/format value (the only text allowed in the hex column of a row without an address).
func rowsOf(ls []line, L int, bar rune, hexHeader, ascHeader string) group {
	g := group{Rows: []Row{}}
	for _, l := range ls {
		if g.Name == "" {
			g.Name = l.tree // the value's own line: the first one with a tree column
		}
		a := strings.TrimSpace(l.addr)
		hx, as := []rune(l.hex), []rune(l.asc)
		switch {
		case a == "":
			blank := strings.TrimSpace(l.hex) == "" && strings.TrimSpace(l.asc) == ""
			head := strings.TrimRight(l.hex, " ") == hexHeader && strings.TrimRight(l.asc, " ") == ascHeader
			if !blank && !head {
				g.Perr = "bytes shown on a row without an address: " + l.hex
			}
			continue
		case a == "*":
			if g.Trunc {
				g.Perr = "two truncation rows"
			}
			g.Trunc = true
			g.Until = strings.TrimSpace(l.hex)
			if strings.TrimSpace(l.asc) != "" {
				g.Perr = "ascii on the truncation row"
			}
			continue
		case g.Trunc:
			g.Perr = "data row after the truncation row"
		}
		row := Row{A: chars(a), Cells: []Cell{}, Asc: []ACell{}}
		last := -1
		for c := 0; c < L; c++ {
			if p := string(hx[3*c : 3*c+2]); p != "  " {
				row.Cells = append(row.Cells, Cell{c, p})
				last = c
			}
			if c < L-1 {
				switch sep := hx[3*c+2]; {
				case sep == bar && !row.Mark:
					row.Mark = true
					if last != c {
						g.Perr = "end marker not directly after a hex pair"
					}
				case sep != ' ':
					g.Perr = "unexpected character between hex pairs: " + l.hex
				}
			}
		}
		shown := map[int]bool{}
		for _, c := range row.Cells {
			shown[c.C] = true
		}
		for c := 0; c < L; c++ {
			switch {
			case shown[c]:
				row.Asc = append(row.Asc, ACell{c, string(as[c])})
			case as[c] == ' ':
			case as[c] == bar && row.Mark && c == last+1:
			default: // a character under a column that shows no hex pair: kept, TLC rejects it
				row.Asc = append(row.Asc, ACell{c, string(as[c])})
			}
		}
		g.Rows = append(g.Rows, row)
	}
	return g
}

var untilRe = regexp.MustCompile(`^until (\S+)( \(end\))? \((\S+)\)$`)

// verboseOf: the last two blank-separated words of the value's line are `range (size)`.
func verboseOf(name string) (vr, vs string) {
	f := strings.Fields(name)
	if len(f) < 2 {
		return "?", "?"
	}
	vs = f[len(f)-1]
	if strings.HasPrefix(vs, "(") && strings.HasSuffix(vs, ")") {
		vs = vs[1 : len(vs)-1]
	} else {
		vs = "?" + vs
	}
	return f[len(f)-2], vs
}
