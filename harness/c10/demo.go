package main

import (
	"fmt"
	"os"
	"reflect"
	"strings"

	"github.com/wader/fq/internal/verif/kit"
)

// debugText prints the raw text of a job when C10_DEBUG is set (development aid).
func debugText(j *job) {
	if os.Getenv("C10_DEBUG") != "" {
		os.Stderr.WriteString("### " + j.what + "\n" + j.out)
	}
}

// collect runs the parser of job j over text and returns the events.
func collect(j *job, text string) []Event {
	tmp, err := os.CreateTemp("", "c10demo")
	if err != nil {
		kit.Fatalf("temp: %v", err)
	}
	tmp.Close()
	defer os.Remove(tmp.Name())
	o := kit.NewOut(tmp.Name())
	j.out = text
	j.events(o)
	o.Close()
	var evs []Event
	kit.Cases(tmp.Name(), func(_ int, raw []byte) {
		var e Event
		kit.Unmarshal(raw, &e)
		evs = append(evs, e)
	})
	return evs
}

type edit struct {
	name string
	fn   func(ls []string) []string
}

func sub(ls []string, i int, old, new string) []string {
	if !strings.Contains(ls[i], old) {
		kit.Fatalf("demo: %q not in line %q", old, ls[i])
	}
	out := append([]string{}, ls...)
	out[i] = strings.Replace(ls[i], old, new, 1)
	return out
}
func del(ls []string, i int) []string { return append(append([]string{}, ls[:i]...), ls[i+1:]...) }
func dup(ls []string, i int) []string {
	return append(append(append([]string{}, ls[:i+1]...), ls[i]), ls[i+1:]...)
}

// demo: real dumps of a known binary and of a gzip member, then the same TEXT damaged by hand the way a display bug
// would damage it; the parser is run on every variant and TLC has to accept the originals and reject each damaged one.
// This shows that the parser does not mask errors.
func demo(outPath string) {
	buf := make([]byte, 48)
	for i := range buf {
		buf[i] = byte(0x1d + 5*i)
	}
	plain := make([]byte, 40)
	for k := range plain {
		plain[k] = byte('a' + (k*7)%26)
	}
	j0 := &job{ID: 0, Kind: "bin", Cmd: "hd", A: 12, B: 300, buf: buf, bufBits: 48 * 8, what: "demo: 48-byte buffer | tobits[12:300] | hd"}
	j0.setOpts(8, 16, 10, 0, true, false, false, 0)
	j1 := &job{ID: 1, Kind: "bin", Cmd: "hd", A: 12, B: 300, buf: buf, bufBits: 48 * 8, what: "demo: 48-byte buffer | tobits[12:300] | hd({display_bytes: 8})"}
	j1.setOpts(8, 16, 10, 8, true, false, false, 0)
	j2 := &job{ID: 2, Kind: "fmt", Format: "gzip", Cmd: "dd", buf: gz(plain), what: "demo: gzip of 40 bytes | dd"}
	j2.bufBits = int64(len(j2.buf)) * 8
	j2.setOpts(16, 16, 16, 0, true, false, false, 0)
	runJobs([]*job{j0, j1, j2})
	if os.Getenv("C10_DEBUG") != "" {
		os.Stderr.WriteString(j0.out + j1.out + j2.out)
	}
	out := kit.NewOut(outPath)
	emit := func(j *job, name string, text string, base []Event) {
		evs := collect(j, text)
		for k := range evs {
			evs[k].What = j.what + " -- " + name
			switch {
			case base == nil || (k < len(base) && len(evs) == len(base) && reflect.DeepEqual(evs[k].Rows, base[k].Rows) && evs[k].VR == nil == (base[k].VR == nil) &&
				reflect.DeepEqual([]any{evs[k].VR, evs[k].VS, evs[k].Trunc, evs[k].UAddr, evs[k].USize, evs[k].Perr}, []any{base[k].VR, base[k].VS, base[k].Trunc, base[k].UAddr, base[k].USize, base[k].Perr})):
				evs[k].Demo = "accept"
				if evs[k].RD > 0 && len(evs[k].Rows) > 1 { // rows of a nested buffer past its first line: the known D4 shape (accepted once repaired)
					evs[k].Demo = "d4"
				}
			default:
				evs[k].Demo = "reject"
			}
			out.Emit(evs[k])
		}
	}
	run := func(j *job, edits []edit) {
		orig := j.out
		base := collect(j, orig)
		emit(j, "as printed", orig, nil)
		ls := strings.Split(strings.TrimSuffix(orig, "\n"), "\n")
		for _, e := range edits {
			emit(j, e.name, strings.Join(e.fn(ls), "\n")+"\n", base)
		}
	}
	// j0 prints: header line, then rows 0x00 (from column 1), 0x08, 0x10, 0x18, 0x20 (to column 5)
	cell := func(l string, w, c int) string { return l[w+1+3*c : w+1+3*c+2] }
	flip := func(s string) string {
		if s[0] == '0' {
			return "1" + s[1:]
		}
		return "0" + s[1:]
	}
	w := strings.Index(strings.Split(j0.out, "\n")[1], "|")
	run(j0, []edit{
		{"one hex digit changed", func(ls []string) []string { return sub(ls, 2, " "+cell(ls[2], w, 3)+" ", " "+flip(cell(ls[2], w, 3))+" ") }},
		{"one ascii character changed", func(ls []string) []string {
			l := []byte(ls[2])
			p := w + 1 + 23 + 1 + 3
			l[p] = map[bool]byte{true: 'Y', false: 'Z'}[l[p] == 'Z']
			o := append([]string{}, ls...)
			o[2] = string(l)
			return o
		}},
		{"address of the third row repeats the second", func(ls []string) []string { return sub(ls, 3, "0x10", "0x08") }},
		{"address not a multiple of the line width", func(ls []string) []string { return sub(ls, 2, "0x08", "0x09") }},
		{"address printed in another base", func(ls []string) []string { return sub(ls, 3, "0x10", "0x16") }},
		{"a middle row deleted", func(ls []string) []string { return del(ls, 3) }},
		{"a row printed twice", func(ls []string) []string { return dup(ls, 3) }},
		{"last row missing and no truncation mark", func(ls []string) []string { return del(ls, len(ls)-1) }},
		{"first row shifted one column to the left", func(ls []string) []string {
			return sub(ls, 1, "|   "+cell(ls[1], w, 1), "|"+cell(ls[1], w, 1)+"   ")
		}},
		{"address blanked on a data row", func(ls []string) []string { return sub(ls, 2, "0x08", "    ") }},
		{"verbose range ends one bit late", func(ls []string) []string { return sub(ls, 1, "-0x25.4", "-0x25.5") }},
		{"verbose range starts at the byte instead of the bit", func(ls []string) []string { return sub(ls, 1, "0x1.4-", "0x1-") }},
		{"verbose size off by one", func(ls []string) []string { return sub(ls, 1, "(36)", "(37)") }},
		{"one byte too many after the value", func(ls []string) []string {
			return sub(ls, len(ls)-1, cell(ls[len(ls)-1], w, 5)+"   ", cell(ls[len(ls)-1], w, 5)+" "+fmt.Sprintf("%02x", buf[0x26]))
		}},
	})
	run(j1, []edit{
		{"truncated but the `*` row is missing", func(ls []string) []string { return del(ls, len(ls)-1) }},
		{"until text names another bit", func(ls []string) []string { return sub(ls, len(ls)-1, "until 0x25.3", "until 0x25.4") }},
		{"until text gives another size", func(ls []string) []string { return sub(ls, len(ls)-1, "(36)", "(35)") }},
	})
	// j2: the nested buffer (uncompressed, three rows, printed 0x00 0x01 0x02 as long as D4 is there) is shown twice; damage the first copy
	nested := func(ls []string) int {
		for i, l := range ls {
			if strings.Contains(l, "uncompressed") {
				return i
			}
		}
		kit.Fatalf("demo: no uncompressed line")
		return 0
	}
	run(j2, []edit{
		{"hex digit changed inside the nested buffer", func(ls []string) []string {
			i := nested(ls) + 1
			w := strings.Index(ls[i], "|")
			return sub(ls, i, "|"+cell(ls[i], w, 0), "|"+flip(cell(ls[i], w, 0)))
		}},
		{"nested address wrong in another way than D4", func(ls []string) []string {
			i := nested(ls) + 1
			l := []byte(ls[i])
			p := strings.Index(ls[i], "|") - 1 // last digit of the address text, whatever the tree under test prints there
			l[p] = map[bool]byte{true: '5', false: '3'}[l[p] == '3']
			o := append([]string{}, ls...)
			o[i] = string(l)
			return o
		}},
		{"hex digit changed in the top buffer", func(ls []string) []string { return sub(ls, 3, "|1f 8b", "|1f 8c") }},
	})
	out.Close()
	fmt.Printf("demo events %d\n", out.N)
}
