// Package ref: screenful-sized Go transcriptions of specification operators, used only where a
// tree is too large for TLC (DESIGN G4). Every run that uses them cross-checks them against TLC's
// verdict on all small trees and on deliberately damaged copies (checks/corpusarm.py).
package ref

import (
	"sort"

	"github.com/wader/fq/internal/verif/treelib"
)

type T = []treelib.Node

func compound(k string) bool { return k == "struct" || k == "array" }

func rootOf(t T, id int) int {
	for !t[id-1].Root && t[id-1].Par != 0 {
		id = t[id-1].Par
	}
	return id
}

// subIds: ids below id without entering nested roots (id included)
func subIds(t T, id int, top bool, out *[]int) {
	if !top && t[id-1].Root {
		return
	}
	*out = append(*out, id)
	for _, k := range t[id-1].Kids {
		subIds(t, k, false, out)
	}
}

func inBufOK(t T, id int) bool {
	n := t[id-1]
	if n.Len < 0 || n.Start < 0 {
		return false
	}
	if n.Len == 0 {
		return true
	}
	if n.Root {
		return n.Len <= n.Blen
	}
	return n.Start+n.Len <= t[rootOf(t, id)-1].Blen
}

func spansFrom(t T, id int, s0 int64) bool {
	n := t[id-1]
	for _, c := range n.Kids {
		k := t[c-1]
		if !k.Root && k.Kind != "synth" && !(s0 <= k.Start && k.Start+k.Len <= s0+n.Len) {
			return false
		}
	}
	return true
}

func spansOK(t T, id int) bool {
	n := t[id-1]
	if !compound(n.Kind) {
		return true
	}
	if n.Root {
		return spansFrom(t, id, 0) || spansFrom(t, id, n.Start)
	}
	return spansFrom(t, id, n.Start)
}

func namesOK(t T, id int) bool {
	n := t[id-1]
	if n.Kind != "struct" {
		return true
	}
	seen := map[string]bool{}
	for _, c := range n.Kids {
		if seen[t[c-1].Name] {
			return false
		}
		seen[t[c-1].Name] = true
	}
	return true
}

func sortedOK(t T, id int) bool {
	n := t[id-1]
	if n.Kind != "struct" {
		return true
	}
	for i := 0; i+1 < len(n.Kids); i++ {
		if t[n.Kids[i]-1].Start > t[n.Kids[i+1]-1].Start {
			return false
		}
	}
	return true
}

func indexOK(t T, id int) bool {
	n := t[id-1]
	if n.Kind != "array" {
		return true
	}
	for i, c := range n.Kids {
		if t[c-1].Idx != i {
			return false
		}
	}
	return true
}

func linksOK(t T, id int) bool {
	n := t[id-1]
	for _, c := range n.Kids {
		if t[c-1].Par != id || !t[c-1].Plink {
			return false
		}
	}
	return compound(n.Kind) || len(n.Kids) == 0
}

func othersOK(t T, id int) bool {
	return spansOK(t, id) && namesOK(t, id) && sortedOK(t, id) && indexOK(t, id) && linksOK(t, id)
}

func stretchedByEmpty(t T, id int) bool {
	n := t[id-1]
	if !compound(n.Kind) || inBufOK(t, id) {
		return false
	}
	var sub []int
	subIds(t, id, true, &sub)
	inner := n.Start + n.Len
	if n.Root {
		inner = n.Len
	}
	found := false
	for _, x := range sub {
		if x == id {
			continue
		}
		if !compound(t[x-1].Kind) && !inBufOK(t, x) {
			return false
		}
		if t[x-1].Len == 0 && t[x-1].Start >= inner {
			found = true
		}
	}
	return found
}

// Why mirrors DecodeTree!Why.
func Why(t T) string {
	var bad []int
	for id := 1; id <= len(t); id++ {
		if !(inBufOK(t, id) && othersOK(t, id)) {
			bad = append(bad, id)
		}
	}
	if len(bad) == 0 {
		return "ok"
	}
	first := 0
	for _, id := range bad {
		if !(stretchedByEmpty(t, id) && othersOK(t, id)) {
			first = id
			break
		}
	}
	if first == 0 {
		return "tree.range_stretched_by_empty_value_past_end"
	}
	switch {
	case !inBufOK(t, first):
		return "tree.range_outside_buffer"
	case !spansOK(t, first):
		return "tree.compound_does_not_span_children"
	case !namesOK(t, first):
		return "tree.duplicate_field_name"
	case !sortedOK(t, first):
		return "tree.struct_not_sorted"
	case !indexOK(t, first):
		return "tree.array_index"
	}
	return "tree.parent_link"
}

type iv struct{ s, e int64 }

// uncovered: maximal runs of [0,blen) in no non-compound node measured in root r's buffer
func uncovered(t T, r int) []iv {
	if !compound(t[r-1].Kind) { // a scalar root covers its own inner range
		if t[r-1].Len >= t[r-1].Blen {
			return nil
		}
		return []iv{{t[r-1].Len, t[r-1].Blen}}
	}
	var sub []int
	subIds(t, r, true, &sub)
	var ivs []iv
	for _, x := range sub {
		n := t[x-1]
		if x != r && !compound(n.Kind) && n.Len > 0 {
			ivs = append(ivs, iv{n.Start, n.Start + n.Len})
		}
	}
	sort.Slice(ivs, func(i, j int) bool { return ivs[i].s < ivs[j].s })
	var out []iv
	pos := int64(0)
	blen := t[r-1].Blen
	for _, v := range ivs {
		if v.s > pos {
			e := v.s
			if e > blen {
				e = blen
			}
			if e > pos {
				out = append(out, iv{pos, e})
			}
		}
		if v.e > pos {
			pos = v.e
		}
		if pos >= blen {
			break
		}
	}
	if pos < blen {
		out = append(out, iv{pos, blen})
	}
	return out
}

// GapSig mirrors TraceTree!GapSig.
func GapSig(t T) string {
	// gap overlaps a non-gap leaf collected by the same gap filling
	for g := 1; g <= len(t); g++ {
		if t[g-1].Kind != "gap" || t[g-1].Len <= 0 {
			continue
		}
		var sub []int
		subIds(t, t[g-1].Par, true, &sub)
		gs, ge := t[g-1].Start, t[g-1].Start+t[g-1].Len
		for _, x := range sub {
			n := t[x-1]
			if x == g || x == t[g-1].Par || compound(n.Kind) || n.Kind == "gap" || n.Len <= 0 {
				continue
			}
			if n.Start < ge && gs < n.Start+n.Len {
				return "gaps.gap_overlaps_field"
			}
		}
	}
	slack := true
	any := false
	for r := 1; r <= len(t); r++ {
		if !(t[r-1].Root && t[r-1].Fill) {
			continue
		}
		unc := uncovered(t, r)
		if len(unc) == 0 {
			continue
		}
		any = true
		var sub []int
		subIds(t, r, true, &sub)
		starts, stops := map[int64]bool{}, map[int64]bool{}
		for _, x := range sub {
			n := t[x-1]
			if x != r && !compound(n.Kind) {
				starts[n.Start] = true
				stops[n.Start+n.Len] = true
			}
		}
		for _, u := range unc {
			if u.e-u.s > 4096 { // a slack hole needs a value starting at every bit after the first
				slack = false
				break
			}
			for b := u.s; b < u.e; b++ {
				if !starts[b+1] || !(b > u.s || stops[b]) {
					slack = false
				}
			}
		}
	}
	if !any {
		return "ok"
	}
	if slack {
		return "gaps.merge_slack_hole"
	}
	return "gaps.bits_uncovered"
}
