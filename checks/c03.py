# C03 - Every decode tree is structurally sound (ranges, order, names, links)
import treearm

LEVEL = 'model_checking'
META = dict(
    text=('DecodeTree.tla models the public decode API as a machine that builds a tree (one action per API call, aborts unwinding to '
          'the enclosing decode, gap filling, range rebasing, postProcess). TLC checks exhaustively inside small constants that the design keeps '
          'every finished or failed tree well formed, emits every small decoder program (GEN) and simulated deeper ones (SIM) for execution by the '
          'real decode.Decode, and validates every REAL tree (from those programs, from seeded random programs and from corpus files) against the '
          'as-required predicates WellFormed and "leaf ranges = bits the program read" (TraceTree.tla re-runs the program in the specification).'),
    note=('Exhaustive inside the TLC constants listed in evidence tlc_runs; sampled beyond. Corpus arm: real format decoders are judged by '
          'WellFormed only (no program). An empty range is read as a set of bits (inside anything).'),
    technique='TLA+ decode-API machine (DecodeTree.tla): TLC MC + GEN/SIM programs replayed on decode.Decode + TLC trace validation of real trees',
)


def run(ctx):
    ctx.cov['rule'] = ('decoder programs over the decode API emitted by TLC (exhaustive <= N calls, simulated deeper) and seeded random ones, each run '
                       'through the real decode.Decode; distinct non-trivial = distinct programs using a window/sub-format/nested-buffer combinator '
                       'whose real tree has >= 4 nodes')
    ctx.assumptions += ['projection of *decode.Value to node tables (harness/treelib Flatten) is faithful; it is exercised by the binding demo',
                        'TLC constants bound the exhaustive part (tlc_runs)']
    treearm.run_for(ctx, 'C03')
    try:
        import corpusarm
    except ImportError:
        corpusarm = None
    if corpusarm:
        corpusarm.run_for(ctx, 'C03')
