# C03 - Every decode tree is structurally sound (ranges, order, names, links)
import treearm

LEVEL = 'model_checking'
META = dict(
    text=('DecodeTree.tla models the public decode API as a machine that builds a tree (one action per API call, aborts unwinding to '
          'the enclosing decode, gap filling, range rebasing, postProcess). TLC checks exhaustively inside small constants that the design keeps '
          'every finished or failed tree well formed, emits every small decoder program (GEN) and simulated deeper ones (SIM) for execution by the '
          'real decode.Decode, and validates every REAL tree (from those programs, from seeded random programs and from corpus files) against the '
          'as-required predicates WellFormed and "leaf ranges = bits the program read" (TraceTree.tla re-runs the program in the specification).'),
    note=('Exhaustive inside the TLC constants listed in evidence tlc_runs; sampled beyond. Corpus arm: real format decoders are judged by '
          'WellFormed only (no program). An empty range is read as a set of bits (inside anything).'),
    technique='TLA+ decode-API machine (DecodeTree.tla): TLC MC + GEN/SIM programs replayed on decode.Decode + TLC trace validation of real trees',
)


def run(ctx):
    ctx.cov['rule'] = ('decoder programs over the decode API emitted by TLC (exhaustive <= N calls, simulated deeper) and seeded random ones, each run '
                       'through the real decode.Decode; distinct non-trivial = distinct programs using a window/sub-format/nested-buffer combinator '
                       'whose real tree has >= 4 nodes')
    ctx.assumptions += ['projection of *decode.Value to node tables (harness/treelib Flatten) is faithful; it is exercised by the binding demo',
                        'TLC constants bound the exhaustive part (tlc_runs)']
    treearm.run_for(ctx, 'C03')
    try:
        import corpusarm
    except ImportError:
        corpusarm = None
    if corpusarm:
        corpusarm.run_for(ctx, 'C03')


def replay(ctx, path):
    """re-run the recorded decoder program (or, for the corpus arm, the recorded decode job) on the current tree"""
    import os, json, vlib, treearm, corpusarm
    d = json.load(open(path))
    c = d['case'] or {}
    ctx.cov['evaluations'] = 1; ctx.cov['distinct_nontrivial'] = 2; ctx.cov['rule'] = 'replay of one recorded case'
    pref = treearm.ASPECTS[ctx.pid]
    if 'prog' in c and c.get('hasprog', True) and c['prog']:
        cp = os.path.join(ctx.build, 'replay_prog.ndjson'); ep = os.path.join(ctx.build, 'replay_ev.ndjson')
        vlib.write_ndjson(cp, [dict(len=c['len'], force=c['force'], prog=c['prog'])])
        ctx.run([ctx.go_build('tree'), 'prog', cp, ep], check=True, timeout=300)
        evs = vlib.read_ndjson(ep)
        for e in evs:
            e['hasprog'] = True
        rej, _ = treearm.tv_tree(ctx, evs, 'tv_replay', shards=1)
        for i in rej:
            for sig in rej[i]:
                if sig.startswith(pref):
                    ctx.finding(sig, treearm.describe(evs[i]), evs[i])
        ctx.sample(dict(kind='replayed program', program=treearm.describe(evs[0])))
    elif 'job' in c:
        res = corpusarm.run_jobs(ctx, [c['job']], 'replay')
        rr = res[0]['res'] or {}
        for s_ in (rr.get('refwhy'), rr.get('refgap'), rr.get('refbits')):
            if s_ and s_ != 'ok' and s_.startswith(pref):
                ctx.finding('%s@%s' % (s_, corpusarm.family(c['job']['file'])), 'replayed decode job', c)
        ctx.sample(dict(kind='replayed decode job', job=c['job']))
    elif 'ranges' in c:
        ep = os.path.join(ctx.build, 'replay_gaps.ndjson'); cp = os.path.join(ctx.build, 'replay_gcase.ndjson')
        vlib.write_ndjson(cp, [dict(total=c['total'], ranges=[dict(s=a, l=b) for a, b in c['ranges']])])
        ctx.run([ctx.go_build('c04'), 'replay', cp, ep], check=True, timeout=60)
        rej, _, _ = ctx.tv('TraceGaps', 'TraceGaps.cfg', ep, name='tv_replay')
        ev = vlib.read_ndjson(ep)[0]
        for l, sig in rej:
            ctx.finding(sig, 'ranges.Gaps(0:%d, %s) = %s' % (ev['total'], ev['ranges'], ev['gaps']), ev)
        ctx.sample(dict(kind='replayed ranges.Gaps call', **ev))
    else:
        raise vlib.Inconclusive('replay file holds no recognised case')
