# as-built binding of decode.decode()'s loop over a group's formats and of the in-argument precedence (Probe.tla); called from c06.py
import os, json, copy
import vlib
from vlib import Inconclusive


def run(ctx):
    th = ctx.tier == 'thorough'
    n = 3
    cfg = 'SPECIFICATION Spec\nCONSTANTS MaxN = %d\nINVARIANT OutcomeLaw\nINVARIANT PrecedenceLaw\nCHECK_DEADLOCK FALSE\n' % n
    r = ctx.tlc('Probe', 'probe_mc.cfg', cfg_text=cfg, name='mc_probe', timeout=900)
    ctx.tlc_expect_ok(r, 'Probe laws')
    g = ctx.tlc('ProbeGen', 'probe_gen.cfg', cfg_text='SPECIFICATION Spec\nCONSTANTS MaxN = %d\nCONSTRAINT Emit\nCHECK_DEADLOCK FALSE\n' % n, name='gen_probe', timeout=900)
    ctx.tlc_expect_ok(g, 'Probe GEN')
    cases = g.printed
    if len(cases) < 5000:
        raise Inconclusive('Probe GEN produced too few scenarios (%d)' % len(cases))
    if not th:
        # every scenario of one and two formats, a seeded third of those with three
        cases = [c for k, c in enumerate(cases) if len(c['s']['fmts']) < 3 or (k + ctx.seed) % 3 == 0]
    binp = ctx.go_build('probe')
    cp = os.path.join(ctx.build, 'probe_cases.ndjson'); ep = os.path.join(ctx.build, 'probe_events.ndjson')
    vlib.write_ndjson(cp, cases)
    ctx.run([binp, 'replay', cp, ep], check=True, timeout=900)
    evs = vlib.read_ndjson(ep)
    if len(evs) != len(cases):
        raise Inconclusive('probe harness lost scenarios')
    # the expectation TLC printed with each scenario and the verdict of the trace spec must agree (two routes to the same definitions)
    rej, _, _ = ctx.tv('TraceProbe', 'TraceProbe.cfg', ep, name='tv_probe', cfg_text='SPECIFICATION TSpec\nPOSTCONDITION Consumed\nCHECK_DEADLOCK FALSE\n', timeout=1500)
    rejl = {l: s for l, s in rej}
    keys = ('ran', 'winner', 'nerr', 'haserr', 'rooterr', 'targ', 'garg')
    dis = sum(1 for i, (c, e) in enumerate(zip(cases, evs)) if (all(c['want'][k] == e['obs'][k] for k in keys)) != ((i + 1) not in rejl))
    if dis:
        raise Inconclusive('Probe: emitted expectation and trace verdict disagree on %d scenarios' % dis)
    ctx.cov['traces_validated_against_impl'] += len(evs)
    ctx.cov['evaluations'] += len(evs)
    ctx.cov['probe_binding'] = dict(scenarios=len(evs), formats_per_group='1..3', not_as_modelled=len(rejl))
    for l, s in sorted(rejl.items())[:5]:
        e = evs[l - 1]
        ctx.drift('%s: scenario %s: decode.Decode gave %s, Probe.tla says %s' % (s, json.dumps(e['s']), json.dumps(e['obs']), json.dumps(cases[l - 1]['want'])))
    if rejl:
        ctx.inconc('decode.Decode differs from the as-built model Probe.tla on %d scenarios (first: %s): the outcome model of C06 no longer describes this code'
                   % (len(rejl), sorted(rejl.items())[0][1]))
    # binding demonstration
    good = [copy.deepcopy(e) for i, e in enumerate(evs[:400]) if (i + 1) not in rejl and e['obs']['winner'] > 0][:4]
    if len(good) < 4:
        raise Inconclusive('no events for the Probe binding demo')
    a = good[1]; a['obs']['winner'] = a['obs']['winner'] % 3 + 1
    b = good[2]; b['obs']['targ'] = 'fdef' if b['obs']['targ'] != 'fdef' else 'inarg'
    c = good[3]; c['obs']['nerr'] += 1
    dp = os.path.join(ctx.build, 'probe_demo.ndjson')
    vlib.write_ndjson(dp, [good[0], a, b, c])
    drej, _, _ = ctx.tv('TraceProbe', 'TraceProbe.cfg', dp, name='tv_probe_demo', cfg_text='SPECIFICATION TSpec\nPOSTCONDITION Consumed\nCHECK_DEADLOCK FALSE\n', count=False)
    lines = sorted(l for l, _ in drej)
    ok = lines == [2, 3, 4]
    ctx.cov['binding_demo'].append(dict(spec='TraceProbe', corrupted_events=[2, 3, 4], rejected=[list(x) for x in drej], ok=ok))
    if not ok:
        raise Inconclusive('binding demo failed for TraceProbe: %s' % drej)
