# C14 - Conversion functions round-trip and agree with reference implementations
import os, json, copy, re, hashlib
import vlib
from vlib import Inconclusive

LEVEL = 'exploration'
META = dict(
    text=('Laws.tla is the reference for every conversion that is a regrouping of bits (hex, the four base64 variants, radix 2..64 with fq\'s digit '
          'table, UTF-8/UTF-16/ISO-8859-1 encoders and decoders, URL component/path escaping by RFC 3986 character class) and states, for the '
          'structured serialisers (JSON, jq literals, JSON lines, YAML, TOML, CSV, XML in both shapes, URL query strings), each DOMAIN as a predicate '
          'over tagged JSON values, the law From(To(x)) = x inside the domain, and a list of malformed documents for which From must be an error. '
          'TLC enumerates the input families exhaustively inside small constants (GEN) and prints the expected texts; the harness replays every case '
          'through real fq in-process (to_hex/from_hex, to_base64/from_base64 with every `encoding` option, to_radix/from_radix, to_utf8.., '
          'to_urlencode/to_urlpath.., tojson/fromjson, to_jq/from_jq, to_yaml.., to_toml.., to_xml.., to_csv.., to_md5..) and a seeded random driver '
          'adds bytes/strings/big integers/values up to 64 KiB; every recorded event is then judged by TLC (TraceLaws.tla: exact re-evaluation up to '
          '256 bytes, laws at any size).'),
    note=('Claimed as exploration: exhaustive only inside the GEN constants recorded in tlc_runs, random beyond. For the bit-regrouping conversions '
          'TLC is a genuine independent oracle (model_checking-grade inside the constants); for the serialisers the spec contributes domain and law '
          'only, and for hashes the oracle is Go\'s crypto/* and x/crypto (the spec adds the digest length, nothing else). Where RFC 4648 / RFC 3986 '
          'leave a choice (non-canonical base64 text, which sub-delims to escape) the as-required layer leaves it open and the as-built choice is '
          'tracked as model_drift.'),
    technique='TLA+ operator spec (Laws.tla) + TLC exhaustive case emission replayed on real fq + TLC trace validation of recorded conversions',
)

GEN = {   # family: (quick N, thorough N)
    'bits': (12, 16), 'hextxt': (4, 5), 'b64txt': (4, 5), 'radix': (3, 4), 'toradix': (3, 4), 'cp': (2, 3), 'dec': (2, 3),
    'url': (0, 0), 'urltxt': (4, 5), 'val': (1, 2), 'bad': (0, 0),
}
TV_CHUNK_BYTES = 16 << 20


def strip(e, cap=400):
    """event without its bulky fields, for replay files and messages"""
    out = {}
    for k, v in e.items():
        s = json.dumps(v)
        out[k] = v if len(s) <= cap else ('<%d chars of JSON>' % len(s))
    return out


def untag(m):
    t = m.get('t')
    if t == 'null': return None
    if t == 'bool': return m['b']
    if t == 'num':
        return ('-' if m.get('neg') else '') + (''.join(map(str, m['d'])) if m['k'] == 'int' else m['txt'].lstrip('-'))
    if t == 'str': return ''.join(map(chr, m['cp']))
    if t == 'arr': return [untag(x) for x in m['e']]
    if t == 'obj': return {''.join(map(chr, k)): untag(x) for k, x in zip(m['ks'], m['e'])}
    return '<%s>' % t


def txt(a):
    return bytes(a).decode('utf-8', 'replace')


def describe(e):
    k = e['k']
    if k in ('bin', 'bytes'):
        n = len(e['bits']) if k == 'bin' else 8 * len(e['inb'])
        return 'binary of %d bits: to_hex=%r to_base64=%s' % (n, txt(e['hex'])[:60], {v: txt(t)[:40] for v, t in e['b64'].items()})
    if k in ('unhex', 'unb64'):
        return '%r | from_%s%s -> %s' % (txt(e['txt'])[:80], 'hex' if k == 'unhex' else 'base64', '' if k == 'unhex' else '({encoding:%r})' % e['variant'],
                                       ('bytes ' + bytes(e['out']).hex()[:60]) if e['ok'] else 'error ' + e['err'][:80])
    if k == 'fromradix':
        return '%r | from_radix(%d) -> %s' % (txt(e['txt']), e['base'], ('0b' + ''.join(map(str, e['bitsout']))[:80]) if e['ok'] else 'error ' + e['err'][:80])
    if k == 'toradix':
        return '0b%s | to_radix(%d) -> %r' % (''.join(map(str, e['bits']))[:80], e['base'], txt(e['out'])[:80])
    if k == 'enc':
        return 'string %r: %s' % (''.join(map(chr, e['cps']))[:40], [(r['enc'], r['ok'], bytes(r['out']).hex()[:40]) for r in e['r']])
    if k == 'dec':
        return 'bytes %s | from_%s -> %s' % (bytes(e['inb']).hex()[:60], e['enc'].lower(), e['cpsout'][:20] if e['ok'] else 'error')
    if k == 'url':
        return 'string %r: to_urlencode=%r to_urlpath=%r' % (''.join(map(chr, e['cps']))[:40], txt(e['comp'])[:80], txt(e['path'])[:80])
    if k == 'unurl':
        return '%r: from_urlencode ok=%s %r, from_urlpath ok=%s %r' % (txt(e['txt']), e['compok'], txt(e['comp'])[:40], e['pathok'], txt(e['path'])[:40])
    if k == 'ser':
        return '%s | to_%s | from_%s -> %s (document %r)' % (json.dumps(untag(e['v']))[:160], e['f'], e['f'],
                                                            json.dumps(untag(e['rt']))[:160] if e['ok'] else 'error ' + e['err'][:120], (e.get('doc') or '')[:120])
    if k == 'bad':
        return '%r | from_%s -> %s' % (e['doc'], e['f'], ('value ' + e['got'][:120]) if e['ok'] else 'error')
    return k


def expectation_mismatch(e):
    """GEN events carry the expectation TLC printed with the case (e_* fields). Equality only."""
    k = e['k']
    if k == 'bin' and 'e_hex' in e:
        return not (e['hexok'] and e['hex'] == e['e_hex'] and e['unhexok'] and e['unhex'] == e['e_bytes'] and
                    all(e['b64ok'][v] and e['b64'][v] == e['e_b64'][v] and e['unb64ok'][v] and e['unb64'][v] == e['e_bytes'] for v in e['e_b64']))
    if k == 'unhex' and 'e_ok' in e:
        return e['ok'] != e['e_ok'] or (e['ok'] and e['out'] != e['e_out'])
    if k == 'unb64' and 'e_class' in e:
        if e['e_class'] == 'canonical':
            return not (e['ok'] and e['out'] == e['e_out'])
        return e['e_class'] == 'malformed' and e['ok']
    if k == 'fromradix' and 'e_ok' in e:
        return e['ok'] != e['e_ok'] or (e['ok'] and (not e['isnat'] or e['bitsout'] != e['e_bits']))
    if k == 'toradix' and 'e_out' in e:
        return not (e['ok'] and e['out'] == e['e_out'])
    if k == 'enc' and 'e_r' in e:
        return any(r['ok'] != x['ok'] or (r['ok'] and r['out'] != x['out']) for r, x in zip(e['r'], e['e_r']))
    if k == 'dec' and 'e_wf' in e:
        return e['e_wf'] and not e['ok']
    if k == 'url' and 'e_comp' in e:
        return not (e['compok'] and e['pathok'] and e['comp'] == e['e_comp'] and e['path'] == e['e_path'])
    if k == 'unurl' and 'e_ok' in e:
        return (e['compok'] != e['e_ok'] or e['pathok'] != e['e_ok'] or
                (e['e_ok'] and (e['comp'] != e['e_comp'] or e['path'] != e['e_path'])))
    return False


def nontrivial_key(e):
    k = e['k']
    inp = {kk: e.get(kk) for kk in ('bits', 'inb', 'txt', 'cps', 'v', 'doc', 'base', 'variant', 'enc', 'f') if kk in e}
    size = sum(len(e[kk]) for kk in ('bits', 'inb', 'txt', 'cps') if kk in e)
    if k == 'ser':
        size = len(e['v'].get('e', e['v'].get('cp', e['v'].get('d', []))))
    if k == 'bad':
        size = len(e['doc'])
    if size == 0:
        return None
    return hashlib.sha1(json.dumps([k, inp], sort_keys=True).encode()).hexdigest()


def tv_all(ctx, events, name):
    """validate events in chunks; returns ({index: sig}, set(drift indexes), per-serialiser in-domain counts)"""
    rej, drift, indom = {}, set(), {}
    start, part = 0, 0
    while start < len(events):
        size, end = 0, start
        lines = []
        while end < len(events) and (size < TV_CHUNK_BYTES or end == start):
            s = json.dumps(events[end], separators=(',', ':'))
            lines.append(s); size += len(s); end += 1
        part += 1
        tp = os.path.join(ctx.build, '%s_p%d.ndjson' % (name, part))
        with open(tp, 'w') as f:
            f.write('\n'.join(lines) + '\n')
        r, d, res = ctx.tv('TraceLaws', 'TraceLaws.cfg', tp, name='%s_p%d' % (name, part), timeout=1500)
        for line, sig in r:
            rej[start + line - 1] = sig
        for line in d:
            drift.add(start + line - 1)
        for raw in res.raw_printed:
            if raw.startswith('<<"INDOMAIN"'):
                for f, n in re.findall(r'(\w+) \|-> (\d+)', raw):
                    indom[f] = indom.get(f, 0) + int(n)
        ctx.cov['traces_validated_against_impl'] += end - start
        start = end
    return rej, drift, indom


def report(ctx, events, rej, drift):
    for i in sorted(rej):
        e = events[i]
        ctx.finding(rej[i], describe(e), strip(e))
    if drift:
        ctx.drift('URL escaping differs from the as-built class table but is RFC 3986 conformant: ' + describe(events[min(drift)]), len(drift))


def gen_arm(ctx, binp):
    thorough = ctx.tier == 'thorough'
    names = {'bits': 'NBits', 'hextxt': 'NHexTxt', 'b64txt': 'NB64Txt', 'radix': 'NRadix', 'cp': 'NCp', 'dec': 'NDec', 'urltxt': 'NUrlTxt', 'val': 'NVal'}
    consts = {c: (GEN[f][1] if thorough else GEN[f][0]) for f, c in names.items()}
    cfg = ('SPECIFICATION GSpec\nCONSTANTS Families = {%s}\n' % ', '.join('"%s"' % f for f in GEN) +
           ''.join(' %s = %d\n' % kv for kv in sorted(consts.items())) + 'CONSTRAINT Emit\nCHECK_DEADLOCK FALSE\n')
    g = ctx.tlc('LawsGen', 'gen_laws.cfg', timeout=2400, cfg_text=cfg)
    ctx.tlc_expect_ok(g, 'LawsGen')
    if len(g.printed) < 50000 or g.distinct != len(g.printed):
        raise Inconclusive('GEN: %d cases printed for %d states' % (len(g.printed), g.distinct))
    jobs = sorted(g.printed, key=lambda j: json.dumps(j, sort_keys=True))     # TLC workers print in any order
    fam_of = {'bin': 'bits', 'unhex': 'hextxt', 'unb64': 'b64txt', 'fromradix': 'radix', 'toradix': 'toradix', 'enc': 'cp', 'dec': 'dec',
              'url': 'url', 'unurl': 'urltxt', 'ser': 'val', 'bad': 'bad'}
    fam_counts = {f: dict(cases=0) for f in GEN}
    for j in jobs:
        fam_counts[fam_of[j['k']]]['cases'] += 1
    if any(v['cases'] == 0 for v in fam_counts.values()):
        raise Inconclusive('GEN: a family produced no case: %s' % fam_counts)
    ctx.cov['gen_constants'] = consts
    ctx.cov['gen_families'] = fam_counts
    jp = os.path.join(ctx.build, 'gen_jobs.ndjson')
    vlib.write_ndjson(jp, jobs)
    ep = os.path.join(ctx.build, 'gen_events.ndjson')
    ctx.run([binp, 'replay', jp, ep], check=True, timeout=1800)
    events = vlib.read_ndjson(ep)
    if len(events) != len(jobs):
        raise Inconclusive('harness returned %d events for %d jobs' % (len(events), len(jobs)))
    rej, drift, indom = tv_all(ctx, events, 'tv_gen')
    # the expectation TLC printed with each case and TraceLaws' verdict on the recorded event must agree
    mism = {i for i, e in enumerate(events) if expectation_mismatch(e)}
    odd = [i for i in mism if i not in rej and i not in drift]
    if odd:
        raise Inconclusive('GEN expectation differs from fq but TraceLaws accepts the event: ' + describe(events[odd[0]]))
    ctx.cov['gen_expectation_mismatches'] = len(mism)
    ctx.cov['gen_in_domain_roundtrips'] = indom
    report(ctx, events, rej, drift)
    return events, rej


def rand_arm(ctx, binp):
    n = 30000 if ctx.tier == 'thorough' else 3000
    ep = os.path.join(ctx.build, 'rand_events.ndjson')
    ctx.run([binp, 'rand', str(n), ep], check=True, timeout=1800)
    events = vlib.read_ndjson(ep)
    if len(events) != n:
        raise Inconclusive('random driver returned %d events' % len(events))
    rej, drift, indom = tv_all(ctx, events, 'tv_rand')
    ctx.cov['rand_in_domain_roundtrips'] = indom
    big = [e for e in events if e['k'] in ('bytes',) or e.get('x') == 0 or e.get('txtlen', 0) > 4096]
    ctx.cov['rand_events_beyond_exact_zone'] = len(big)
    ctx.cov['rand_max_input_bytes'] = max([len(e['inb']) for e in events if e['k'] == 'bytes'] + [e.get('txtlen', 0) for e in events] + [0])
    report(ctx, events, rej, drift)
    return events, rej


def demo(ctx, events, rej):
    """binding demonstration: corrupt one recorded field of four accepted events of different kinds"""
    def pick(pred):
        for i, e in enumerate(events):
            if i not in rej and pred(e):
                return copy.deepcopy(e)
        raise Inconclusive('no event available for binding demo')
    a = pick(lambda e: e['k'] == 'bin' and len(e['bits']) >= 9 and len(e['bits']) % 8)
    b = pick(lambda e: e['k'] == 'ser' and e['f'] == 'yaml' and e['ok'] and e['v']['t'] == 'arr' and len(e['v']['e']) >= 1)
    c = pick(lambda e: e['k'] == 'fromradix' and e['ok'] and len(e['bitsout']) >= 2)
    d = pick(lambda e: e['k'] == 'enc' and len(e['cps']) >= 1 and e['cps'][0] >= 65536)
    f = pick(lambda e: e['k'] == 'unb64' and e.get('e_class') == 'canonical' and e['ok'] and len(e['out']) >= 1)
    a2, b2, c2, d2, f2 = map(copy.deepcopy, (a, b, c, d, f))
    a2['b64']['rawurl'][-1] = 65 if a2['b64']['rawurl'][-1] != 65 else 66     # last base64 character (the zero-padded leftover bits)
    b2['rt']['e'] = b2['rt']['e'][1:]                                          # a round trip that lost its first element
    c2['bitsout'][-1] ^= 1                                                     # from_radix result off by one
    d2['r'][2]['out'][1] ^= 4                                                  # a wrong high surrogate in UTF-16LE
    f2['ok'], f2['out'] = False, []                                            # a canonical base64 text refused
    ctx.binding_demo('TraceLaws', 'TraceLaws.cfg', [a, a2, b, b2, c2, c, d2, d, f, f2], [2, 4, 5, 7, 10])


def run(ctx):
    ctx.cov['rule'] = ('one evaluation = one job run through real fq (a job exercises one input through all functions of its kind, e.g. a binary through '
                       'to_hex/from_hex, 5 x to_base64/from_base64 and 9 hashes). distinct non-trivial = distinct (kind, input, parameters) with a '
                       'non-empty input (>= 1 bit / character / code point / element). gen_in_domain_roundtrips / rand_in_domain_roundtrips count, per '
                       'serialiser, the values TLC found inside the domain (the law was actually applied to them).')
    ctx.assumptions += [
        'hashes: Go crypto/md5, sha1, sha256, sha512 and golang.org/x/crypto md4, sha3 are the oracle (spec: digest length and equality only)',
        'harness generators use encoding/hex, encoding/base64 and unicode/utf16 only to build INPUT texts that are then damaged; TLC decides well-formedness and the expected bytes',
        'yaml/toml: no independent implementation offline - round-trip law and domain only',
        'a binary that is not byte aligned is seen by byte-oriented functions zero-padded on the right (bitio.IOReader contract)',
        'from_utf8/from_utf16*: malformed input may be answered by U+FFFD replacement (Unicode conformant) instead of an error',
        'XML reader is deliberately non-strict (xml.Decoder.Strict=false): unbalanced inner tags are not in the malformed list',
        'texts RFC 4648 lets a decoder choose about (non-zero trailing bits, CR/LF inside base64) are left open',
    ]
    ctx.cov['trusted_base'] += ['harness/c14 projections tag()/untag() (jq value <-> tagged record), binBytes(), natBits()',
                                'Go crypto/* and x/crypto digests as hash reference']
    binp = ctx.go_build('c14')
    gev, grej = gen_arm(ctx, binp)
    rev, rrej = rand_arm(ctx, binp)
    allev = gev + rev
    ctx.cov['evaluations'] += len(allev)
    keys = set()
    for e in allev:
        k = nontrivial_key(e)
        if k:
            keys.add(k)
    ctx.cov['distinct_nontrivial'] += len(keys)
    kinds = {}
    for e in allev:
        kinds[e['k']] = kinds.get(e['k'], 0) + 1
    ctx.cov['events_by_kind'] = kinds
    for pred in (lambda e: e['k'] == 'bin' and len(e['bits']) == 11, lambda e: e['k'] == 'fromradix' and e['base'] == 62 and len(e['txt']) == 3,
                 lambda e: e['k'] == 'ser' and e['f'] == 'toml' and e['ok'] and len(e['v']['e']) == 2,
                 lambda e: e['k'] == 'ser' and e['f'] == 'xml' and e['ok'] and e.get('txtlen', 0) > 30,
                 lambda e: e['k'] == 'bytes', lambda e: e['k'] == 'enc' and len(e['cps']) == 2 and e['cps'][1] > 65535):
        for e in allev:
            if pred(e):
                ctx.sample(dict(kind=e['k'], what=describe(e)[:400]))
                break
    demo(ctx, gev, grej)


def replay(ctx, path):
    case = json.load(open(path))['case']
    job = {k: v for k, v in case.items() if not (isinstance(v, str) and v.startswith('<') and v.endswith('JSON>'))}
    if len(job) != len(case):
        raise Inconclusive('replay file holds an abbreviated case; re-run the check with the same seed instead')
    binp = ctx.go_build('c14')
    jp = os.path.join(ctx.build, 'replay_job.ndjson')
    vlib.write_ndjson(jp, [job])
    ep = os.path.join(ctx.build, 'replay_event.ndjson')
    ctx.run([binp, 'replay', jp, ep], check=True, timeout=600)
    events = vlib.read_ndjson(ep)
    rej, drift, _ = tv_all(ctx, events, 'tv_replay')
    ctx.cov['evaluations'] += len(events)
    report(ctx, events, rej, drift)
