# Shared arm for C05 / C12: decode trees observed through the real jq layer, judged by TLC (TraceJqTree.tla).
import os, json, copy, collections
from concurrent.futures import ThreadPoolExecutor
import vlib, treearm, corpusarm
from vlib import Inconclusive

CFG = 'SPECIFICATION TSpec\nPOSTCONDITION Consumed\nCHECK_DEADLOCK FALSE\n'


def tv(ctx, evs, name, shards=None, demo=False):
    shards = shards or min(12, max(1, len(evs) // 150))
    chunks = [list(range(i, len(evs), shards)) for i in range(shards)]

    def one(k):
        idx = chunks[k]
        p = os.path.join(ctx.build, '%s_shard%d.ndjson' % (name, k))
        vlib.write_ndjson(p, [evs[i] for i in idx])
        rej, _, _ = ctx.tv('TraceJqTree', 'tj.cfg', p, name='%s_%d' % (name, k), cfg_text=CFG, count=not demo,
                           timeout=3000 if ctx.tier == 'thorough' else 600, heap='3g')
        return [(idx[l - 1], s) for l, s in rej]
    out = collections.defaultdict(list)
    with ThreadPoolExecutor(max_workers=shards) as ex:
        for rej in ex.map(one, range(shards)):
            for i, s in rej:
                out[i].append(s)
    return out


def programs(ctx, rawout=True):
    env = {} if rawout else {'VERIF_RAWOUT': '0'}
    th = ctx.tier == 'thorough'
    progs = []
    for k, (L, ops, extra) in enumerate([(8, 3 if th else 2, {}), (16, 2, dict(widths='{3,8}', seek='{0,11}', frames='{5,16}', bufs='{0,13}', names='{"a"}'))]):
        g = ctx.tlc('DecodeTreeMC', 'genj%d.cfg' % k, cfg_text=treearm.mc_cfg(zq=treearm.BUILT['ZeroQuirk'], pp=treearm.BUILT['PPOnAbort'], slack=1,
                    L=L, ops=ops, view=False, emit=True, **extra), timeout=3000, name='gen_jq_%d' % k)
        ctx.tlc_expect_ok(g, 'DecodeTree GEN for the jq arm')
        progs += g.printed
    gen_n = len(progs)
    if th:
        s = ctx.tlc('DecodeTreeMC', 'simj.cfg', cfg_text=treearm.mc_cfg(spec='SimSpec', zq='FALSE', pp='TRUE', slack=1, L=24, ops=9, depth=3,
                    names='{"a","b","c"}', widths='{1,3,8}', seek='{0,5,24}', frames='{0,4,9}', bufs='{0,8,11}', view=False),
                    simulate='num=3000', depth=40, timeout=900, name='sim_jq', seed=ctx.seed)
        seen = set()
        for p in s.printed:
            key = json.dumps(p, sort_keys=True)
            if key not in seen:
                seen.add(key); progs.append(p)
    # keep runs bounded: a seeded sample of the exhaustive family
    cap = 40000 if th else 1500      # the jq layer costs ~7 ms per tree; thorough takes a seeded sample of the exhaustive 3-call family
    if len(progs) > cap:
        keep = set(ctx.rng.sample(range(len(progs)), cap))
        progs = [p for i, p in enumerate(progs) if i in keep]
    # deep nesting (20..60 levels here: the trace spec takes trees up to 250 nodes): long paths, many enclosing ranges
    dpath = os.path.join(ctx.build, 'jq_deep_progs.ndjson')
    ctx.run([ctx.go_build('tree'), 'deepgen', str(12 if th else 4), dpath, '2'], check=True, timeout=300)
    deep = [p for p in vlib.read_ndjson(dpath) if len(p['prog']) <= 250]
    for p in deep:
        p['len'] = (p['len'] + 7) // 8 * 8      # the jq arm decodes files: whole bytes (the tail becomes a gap)
    progs += deep
    ctx.cov['jq_deep_programs'] = len(deep)
    cpath = os.path.join(ctx.build, 'jq_progs.ndjson')
    vlib.write_ndjson(cpath, progs)
    binp = ctx.go_build('jqtree')
    e1 = os.path.join(ctx.build, 'jq_ev_prog.ndjson')
    ctx.run([binp, 'prog', cpath, e1], check=True, timeout=3000, env=env)
    e2 = os.path.join(ctx.build, 'jq_ev_rand.ndjson')
    ctx.run([binp, 'randprog', str(12000 if th else 800), e2], check=True, timeout=3000, env=env)
    evs = vlib.read_ndjson(e1) + vlib.read_ndjson(e2)
    ctx.cov['jq_programs'] = dict(gen_exhaustive_available=gen_n, run=len(evs))
    return evs


def corpus_files(ctx):
    th = ctx.tier == 'thorough'
    known = corpusarm.registered_formats(ctx)
    files = corpusarm.sample_files(16384 if th else 4096)
    byfam = collections.defaultdict(list)
    for f in files:
        byfam[corpusarm.family(f)].append(f)
    jobs = []
    for fam in sorted(byfam):
        fs = byfam[fam][:]
        ctx.rng.shuffle(fs)
        for f in fs[:(40 if th else 4)]:
            for fmt in corpusarm.golden_formats(f, known)[:1]:
                jobs.append(dict(file=f, format=fmt))
    jp = os.path.join(ctx.build, 'jq_files.ndjson')
    vlib.write_ndjson(jp, jobs)
    binp = ctx.go_build('jqtree')
    ep = os.path.join(ctx.build, 'jq_ev_files.ndjson')
    ctx.run([binp, 'files', jp, ep], check=True, timeout=3000)
    evs = [e for e in vlib.read_ndjson(ep) if 0 < len(e['nodes']) <= 250 and len(e['obs']) > 0
           and all(abs(n['start']) < (1 << 30) and abs(n['len']) < (1 << 30) for n in e['nodes'])]      # TLC integers are 32 bit
    ctx.cov['jq_corpus'] = dict(files=len(jobs), trees_judged=len(evs))
    return evs


def binding_demo(ctx, evs):
    pick = [e for e in evs if len(e['nodes']) >= 5 and any(n['raw'] and n['len'] > 3 and not n['root'] for n in e['nodes'])
            and any(n['kind'] == 'array' and len(n['kids']) >= 2 for n in e['nodes']) and len(e['rawout']) > 0]
    if len(pick) < 4:
        raise Inconclusive('no suitable tree for the jq binding demo')

    def leaf(e):
        return next(i for i, n in enumerate(e['nodes']) if n['raw'] and n['len'] > 3 and not n['root'])
    a = copy.deepcopy(pick[0]); a['obs'][leaf(a)]['bits']['v'][0] ^= 1
    b = copy.deepcopy(pick[1]); b['obs'][leaf(b)]['r']['hex'][0] ^= 1
    c = copy.deepcopy(pick[2])
    arr = next(n for n in c['nodes'] if n['kind'] == 'array' and len(n['kids']) >= 2)
    c['obs'][arr['kids'][1] - 1]['p'][-1]['i'] = 0
    d = copy.deepcopy(pick[3]); d['rawout'][0] ^= 1
    rej = tv(ctx, [pick[0], a, b, c, d], 'jq_demo', shards=1, demo=True)
    ok = (sorted(rej) == [1, 2, 3, 4] and rej[1][0].startswith('bits.tobits') and rej[2][0].startswith('bits.bits_format')
          and rej[3][0].startswith('path.') and rej[4][0].startswith('bits.raw_stdout'))
    ctx.cov['binding_demo'].append(dict(spec='TraceJqTree', corrupted_events=[1, 2, 3, 4], rejected={k: v for k, v in rej.items()}, ok=ok))
    if not ok:
        raise Inconclusive('binding demo failed for TraceJqTree: %s' % dict(rej))


BIGCFG = 'SPECIFICATION TSpec\nPOSTCONDITION Consumed\nCHECK_DEADLOCK FALSE\n'


def big_values(ctx):
    """C05 at 32..70 KiB: one raw field off the byte grid through every output path, judged byte for byte by TraceBigValue.tla"""
    n = 24 if ctx.tier == 'thorough' else 6
    bp = os.path.join(ctx.build, 'jq_ev_bigvalue.ndjson')
    ctx.run([ctx.go_build('jqtree'), 'bigvalue', str(n), bp], check=True, timeout=900)
    evs = vlib.read_ndjson(bp)
    if len(evs) != n:
        raise Inconclusive('bigvalue: %d of %d events' % (len(evs), n))
    rej, _, _ = ctx.tv('TraceBigValue', 'tbv.cfg', bp, name='tv_bigvalue', cfg_text=BIGCFG, heap='3g', timeout=1500)
    ctx.cov['traces_validated_against_impl'] += len(evs)
    ctx.cov['evaluations'] += sum(len(e['raw']) for e in evs)
    ctx.cov['distinct_nontrivial'] += len(evs)
    ctx.cov['jq_big_values'] = dict(values=len(evs), bytes_judged=sum(len(e['raw']) + len(e['hex']) for e in evs), sizes_bits=[e['n'] for e in evs][:8])
    for l, sig in rej:
        e = evs[l - 1]
        ctx.finding(sig, e['what'] + (': ' + e['err'] if e['err'] else ''), dict(what=e['what'], pre=e['pre'], n=e['n'], seed=ctx.seed, index=l - 1))
    # binding demo: one output byte changed / one hex byte changed / the reported start off by one
    a = copy.deepcopy(evs[0]); a['raw'][len(a['raw']) // 2] ^= 0x10
    b = copy.deepcopy(evs[1]); b['hex'][32768] ^= 1
    c = copy.deepcopy(evs[2]); c['s'] += 1
    dp = os.path.join(ctx.build, 'bigvalue_demo.ndjson')
    vlib.write_ndjson(dp, [evs[0], a, b, c])
    drej, _, _ = ctx.tv('TraceBigValue', 'tbv.cfg', dp, name='tv_bigvalue_demo', cfg_text=BIGCFG, heap='3g', count=False, timeout=900)
    good = {l for l, _ in rej}
    want = [] if 1 in good else [2]
    want += [3] if 2 not in good else []
    want += [4] if 3 not in good else []
    got = sorted({l for l, _ in drej})
    ok = all(w in got for w in want) and (1 in good or 1 not in got)
    ctx.cov['binding_demo'].append(dict(spec='TraceBigValue', corrupted_lines=[2, 3, 4], rejected_lines=got, ok=ok))
    if not ok:
        raise Inconclusive('binding demo failed for TraceBigValue: rejected %s' % got)


def run_for(ctx, pid):
    pref = {'C05': 'bits.', 'C12': 'path.'}[pid]
    evs = programs(ctx, rawout=(pid == 'C05'))
    for e in evs:
        e['hasprog'] = True
    cevs = corpus_files(ctx)
    for e in cevs:
        e['hasprog'] = False
    sevs = []
    if pid == 'C05':
        sp = os.path.join(ctx.build, 'jq_ev_slice.ndjson')
        ctx.run([ctx.go_build('jqtree'), 'slice', str(400 if ctx.tier == 'thorough' else 80), sp], check=True, timeout=600)
        sevs = vlib.read_ndjson(sp)
        for e in sevs:
            e['hasprog'] = False
        ctx.cov['jq_sliced_binary_decodes'] = len(sevs)
        big_values(ctx)
    if pid == 'C12':
        bp = os.path.join(ctx.build, 'jq_ev_bigarr.ndjson')
        ctx.run([ctx.go_build('jqtree'), 'bigarr', bp], check=True, timeout=600)
        bevs = vlib.read_ndjson(bp)
        for e in bevs:
            e['hasprog'] = False
            if e['jqerr']:
                raise Inconclusive('big array observation failed: %s' % e['jqerr'][:300])
        sevs = sevs + bevs
        ctx.cov['jq_big_arrays'] = [e['len'] for e in bevs]
    allev = evs + cevs + sevs
    bad = [e for e in allev if e['jqerr']]
    if len(bad) > len(allev) // 20:
        raise Inconclusive('jq observation failed on %d trees: %s' % (len(bad), bad[0]['jqerr'][:200]))
    rej = tv(ctx, allev, 'tv_jq')
    ctx.cov['traces_validated_against_impl'] += len(allev)
    ctx.cov['evaluations'] += sum(len(e['nodes']) for e in allev)
    ctx.cov['distinct_nontrivial'] += len({json.dumps([e['prog'], e['what'] if not e['hasprog'] else '']) for e in allev if len(e['nodes']) >= 4})
    ctx.cov['jq_nodes_observed'] = sum(len(e['obs']) for e in allev)
    ctx.cov['jq_raw_fields_rendered'] = sum(1 for e in allev for o in e['obs'] if o['r']['has'])
    for i in sorted(rej):
        e = allev[i]
        for sig in rej[i]:
            if sig.startswith(pref) or sig == 'path.node_count_differs':
                what = treearm.describe(e) if e['hasprog'] else e['what']
                s2 = sig if (e['hasprog'] or e.get('kind') in ('slice', 'bigarr')) else '%s@%s' % (sig, corpusarm.family(e['what'].split(' ')[0]))
                ctx.finding(s2, what, dict(what=e['what'], prog=e['prog'], len=e['len'], force=e['force']))
    ev = next((e for e in evs if len(e['nodes']) >= 5), evs[0])
    ctx.sample(dict(kind='tree observed through jq', program=treearm.describe(ev),
                    node_observations=[dict(name=o['n'], start=o['s'], stop=o['e'], path=[x['s'] if x['k'] == 's' else x['i'] for x in o['p']],
                                            tobits=o['bits']['v'][:16]) for o in ev['obs'][:6]]))
    binding_demo(ctx, evs)
    return allev
