# C18 - Decoding is deterministic, isolated and race-free
import glob, os, re, json, copy, collections, threading, time
import vlib
from vlib import Inconclusive
import corpusarm

LEVEL = 'model_checking'
META = dict(
    text=('Jobs.tla models decode+display jobs [input, format, options, interp] over the shared cells the code has: the process-wide '
          'registry with its sync.Once resolution, the formats\' default in-args and the deep copy ParseOptsFn makes of them, the per-decode '
          'read buffer, the per-Interp include cache and global state. TLC checks for every multiset of <= 4 jobs (3 input kinds x options '
          'set/unset) and every interleaving on <= 3 threads that a job can only complete with the result of its lone run and that no two '
          'jobs are inside conflicting accesses of one cell; the variants without the Once / without the deep copy / with a process-wide '
          'buffer / with a shared Interp must fail both ways (anti-vacuity). TLC then emits schedules (which jobs, which start together, '
          'which completions precede which starts, how many threads, expected result class) that the harness replays on the REAL registry '
          'with start gates under the Go race detector: at decode.Decode level and through a fresh interp.Interp per job (`fq -d F -o k=v '
          'dv|tovalue file`; also several files through one Interp against each file alone), on cold processes so that first use of the registry is itself concurrent, comparing result bytes with the '
          'lone results measured in one-job processes. Randomised 4..16-goroutine drivers over the sample corpus log start/end '
          'events numbered by an atomic counter; TraceJobs.tla validates each log as a behaviour of Jobs.tla (Complete only with the lone '
          'result). Any DATA RACE report naming fq code is a violation.'),
    note=('The race detector and the byte comparison only speak for the schedules that were run; exhaustive only inside the TLC constants '
          '(evidence tlc_runs). Sample files <= 256 KiB whose lone run takes <= 100 ms without -race; truncations are the failing jobs. '
          'Lone results come from one-job processes of the non-race build and are cross-checked by sequential shuffled passes and '
          'one-job processes of the -race build. A hang of a driver is inconclusive, never a violation.'),
    technique='TLA+ spec (Jobs.tla) + TLC exhaustive MC with failing variants + TLC-simulated schedules replayed on real code under -race + TLC trace validation of concurrent driver logs',
)

MAXSIZE = 256 << 10
VET_MS = 80        # CPU milliseconds of the lone run (non-race build)
VET_BYTES = 1500000

# per-format options that exist in format/format.go (*_In structs with `doc` tags), by testdata family
OPTSETS = {
    'mp3': [{'max_sync_seek': '0'}, {'max_unknown': '0'}, {'max_unique_header_configs': '1'}],
    'id3': [{'max_sync_seek': '0'}, {'max_unknown': '0'}],
    'mp4': [{'decode_samples': 'false'}, {'allow_truncated': 'true'}, {'skip_samples': 'true'}],
    'matroska': [{'decode_samples': 'false'}],
    'riff': [{'decode_samples': 'false'}, {'decode_extended_chunks': 'false'}],
    'zip': [{'uncompress': 'false'}],
    'caff': [{'uncompress': 'false'}],
    'xml': [{'seq': 'true'}, {'array': 'true'}, {'attribute_prefix': '_'}],
    'csv': [{'comma': ';'}],
    'mpeg': [{'length_size': '2'}, {'object_type': '2'}],
    'flac': [{'bits_per_sample': '8'}],
    'postgres': [{'flavour': 'postgres12'}, {'page': '1'}],
    'bitcoin': [{'has_header': 'true'}],
    'ogg': [{'max_sync_seek': '0'}],
    'gzip': [{'uncompress': 'false'}],
    'tar': [{'uncompress': 'false'}],
}


def optsets_for(path):
    fam = corpusarm.family(path)
    out = [dict(o) for o in OPTSETS.get(fam, [])]
    if fam in ('tls', 'inet', 'pcap'):
        for kl in (path + '.keylog', os.path.join(os.path.dirname(path), 'all.keylog')):
            if os.path.isfile(kl):
                out.append({'keylog': '@file:' + kl})
                # and a different, non-empty keylog that does not belong to this capture: a table kept from an
                # earlier decode (the right keys) must not decrypt a later decode that was given other keys
                others = sorted(f for f in glob.glob(os.path.join(corpusarm.FORMAT_ROOT, 'tls', 'testdata', '**', '*.keylog'), recursive=True)
                                if f != kl and os.path.getsize(f) > 0 and not f.endswith('all.keylog'))
                if others:
                    out.append({'keylog': '@file:' + others[len(os.path.basename(path)) % len(others)]})
                break
    return out


# ------------------------------------------------------------------------------------------------ race / crash reports
RACE_BLOCK = re.compile(r'WARNING: DATA RACE\n(.*?)\n==================', re.S)
ACCESS = re.compile(r'^(?:Read|Write|Previous read|Previous write|Atomic read|Previous atomic read|Atomic write|Previous atomic write) at \S+ by [^\n]*:\n((?:  \S[^\n]*\n      [^\n]*\n)+)', re.M)
FRAME = re.compile(r'  (\S+?)\(\)?\n      (\S+?):(\d+)')
PANIC = re.compile(r'^(panic: [^\n]*|fatal error: [^\n]*)\n(.*?)(?:\n\n|\Z)', re.M | re.S)


def fq_frames(frames, n=2):
    """top n frames that are fq code (not the harness, the Go runtime or a dependency)"""
    out = []
    for fn, path, line in frames:
        if '/internal/verif/' in path or 'wader/fq/internal/verif' in fn:
            continue
        if 'github.com/wader/fq/' in fn:
            out.append((fn.split('/')[-1], os.path.basename(path), int(line)))
            if len(out) >= n:
                break
    return out


def parse_stderr(stderr):
    races = []
    for m in RACE_BLOCK.finditer(stderr):
        sides = [fq_frames(FRAME.findall(a.group(1))) for a in ACCESS.finditer(m.group(1) + '\n')]
        races.append((sides[:2], m.group(1)[:3000]))
    panics = []
    for m in PANIC.finditer(stderr):
        fr = re.findall(r'^(\S+)\([^()\n]*\)\n\t(\S+?):(\d+)', m.group(2) + '\n' + stderr[m.end():m.end() + 6000], re.M)
        panics.append((re.sub(r'\d+', 'N', m.group(1)), fq_frames(fr, 1)))
    return races, panics


def race_sig(sides):
    named = [s for s in sides if s]
    if not named:
        return None
    # top fq frame of each access (file:function), order-independent
    return 'race:' + '~'.join(sorted('%s:%s' % (s[0][1], s[0][0]) for s in named))


class Arm:
    """runs harness processes, turns race reports / crashes / hangs into findings or inconclusives"""

    def __init__(self, ctx, binr):
        self.ctx, self.binr = ctx, binr
        self.lock = threading.Lock()
        self.stats = collections.Counter()

    def run(self, args, what, timeout):
        ctx = self.ctx
        try:
            r = ctx.run([self.binr] + args, timeout=timeout, env={'GORACE': 'atexit_sleep_ms=0 history_size=3'})
        except Inconclusive:
            with self.lock:
                ctx.inconc('%s: driver did not finish in %ds (inconclusive, not a violation)' % (what, timeout))
            return None
        races, panics = parse_stderr(r.stderr)
        with self.lock:
            self.stats['processes'] += 1
            self.stats['race_reports'] += len(races)
            for sides, text in races:
                sig = race_sig(sides)
                if sig is None:
                    ctx.inconc('%s: DATA RACE report naming no fq code (harness bug?): %s' % (what, text[:300]))
                    continue
                ctx.finding(sig, '%s: DATA RACE between %s and %s' % (what, sides[0], sides[1] if len(sides) > 1 else None),
                            dict(kind='race', args=args, report=text))
            if r.returncode == 3:
                ctx.inconc('%s: harness machinery error: %s' % (what, r.stderr[-300:]))
                return None
            if r.returncode == 5 or 'HANG:' in r.stderr:
                ctx.inconc('%s: %s (inconclusive, not a violation)' % (what, (re.search(r'HANG: [^\n]*', r.stderr) or [''])[0]))
                return None
            if r.returncode not in (0, 66):
                named = [(m, f) for m, f in panics if f]
                if named:
                    m, f = named[0]
                    self.stats['crashes'] += 1
                    ctx.finding('crash:%s:%s:%s' % (f[0][1], f[0][0], re.sub(r'[^A-Za-z]+', '-', m)[:50]),
                                '%s: process died: %s at %s' % (what, m, f[0]), dict(kind='crash', args=args, stderr=r.stderr[-4000:]))
                else:
                    ctx.inconc('%s: harness exit %d without a recognised report: %s' % (what, r.returncode, r.stderr[-400:]))
                return None
        return r


# ------------------------------------------------------------------------------------------------ model checking
ASBUILT = dict(UseOnce='TRUE', DeepCopy='TRUE', SharedBuf='FALSE', SharedInterp='FALSE')
VARIANTS = [('once_removed', dict(UseOnce='FALSE')), ('deep_copy_removed', dict(DeepCopy='FALSE')),
            ('process_wide_read_buffer', dict(SharedBuf='TRUE')), ('interp_shared_by_overlapping_jobs', dict(SharedInterp='TRUE'))]


def tlc(ctx, *a, **kw):
    """ctx.tlc, repeated when the JVM was killed from outside (other checks on this machine `pkill` stuck TLC runs by pattern)"""
    for attempt in range(3):
        r = ctx.tlc(*a, **kw)
        if r.rc not in (143, 137, 129, 130, -15, -9):
            return r
        vlib.log('TLC was killed by a signal (rc=%s); running it again' % r.rc)
        time.sleep(2)
    return r


def mc_cfg(inv, jobs, threads, pairs, **sw):
    c = dict(ASBUILT); c.update(sw)
    return ('SPECIFICATION Spec\nCONSTANTS MaxJobs = %d\n Threads = %d\n SharePairs = %s\n UseOnce = %s\n DeepCopy = %s\n SharedBuf = %s\n'
            ' SharedInterp = %s\n Out <- OutMC\n Fails <- FailsMC\n%sCHECK_DEADLOCK FALSE\n') % (
        jobs, threads, pairs, c['UseOnce'], c['DeepCopy'], c['SharedBuf'], c['SharedInterp'], ''.join('INVARIANT %s\n' % i for i in inv))


def cex_len(res):
    try:
        txt = open(os.path.join(res.rundir, 'stdout.txt'), errors='replace').read()
    except OSError:
        return 0
    return max([int(x) for x in re.findall(r'^State (\d+):', txt, re.M)] or [0])


def model_arm(ctx):
    th = ctx.tier == 'thorough'
    w = 6 if th else 4
    # as built: Isolated + NoRace + every job can be finished; two sizes (with / without a pair of jobs sharing an Interp)
    r = tlc(ctx, 'JobsMC', 'mc3.cfg', cfg_text=mc_cfg(['Isolated', 'NoRaceInv', 'NoStuck'], 3, 3, 'TRUE'), name='mc_asbuilt_3jobs_pairs', workers=w, timeout=900)
    ctx.tlc_expect_ok(r, 'Jobs as built, 3 jobs / 3 threads / shared-Interp pairs')
    r = tlc(ctx, 'JobsMC', 'mc4.cfg', cfg_text=mc_cfg(['Isolated', 'NoRaceInv', 'NoStuck'], 4, 3, 'TRUE' if th else 'FALSE'), name='mc_asbuilt_4jobs', workers=w, timeout=1500)
    ctx.tlc_expect_ok(r, 'Jobs as built, 4 jobs / 3 threads')
    # reachability witnesses (a failing job does complete; three jobs do run at once)
    for inv in ('NeverFailDone', 'NeverThreeRunning'):
        r = tlc(ctx, 'JobsMC', 'reach.cfg', cfg_text=mc_cfg([inv], 3, 3, 'FALSE'), name='mc_reach_' + inv, workers=2, count=False, timeout=600)
        if r.violated != inv:
            raise Inconclusive('Jobs model vacuous: %s not violated (rc=%s)' % (inv, r.rc))
    # anti-vacuity witnesses: each variant must break both the isolation property and NoRace
    wit = {}
    for name, sw in VARIANTS:
        for inv in ('Isolated', 'NoRaceInv'):
            r = tlc(ctx, 'JobsMC', 'var.cfg', cfg_text=mc_cfg([inv], 3 if name.startswith('interp') else 2, 2, 'TRUE' if name.startswith('interp') else 'FALSE', **sw),
                        name='mc_%s_%s' % (name, inv), workers=2, count=False, timeout=600)
            if r.violated != inv:
                raise Inconclusive('variant %s does not violate %s (rc=%s violated=%s): the model no longer shows why the discipline is needed' % (name, inv, r.rc, r.violated))
            wit['%s/%s' % (name, inv)] = dict(violated=True, counterexample_states=cex_len(r), states_generated=r.generated)
    ctx.cov['failing_variants'] = wit


def gen_schedules(ctx, n, seeds):
    """SIM: random behaviours of the as-built model projected on Start/Complete, chosen to cover distinct shapes first"""
    seen, byshape = set(), collections.OrderedDict()
    for sd in seeds:
        cfg = ('SPECIFICATION GSpec\nCONSTANTS MinJobs = 2\n MaxJobs = 4\n MaxThreads = 3\n UseOnce = TRUE\n DeepCopy = TRUE\n SharedBuf = FALSE\n'
               ' SharedInterp = FALSE\n Out <- OutMC\n Fails <- FailsMC\nCONSTRAINT Emit\nCHECK_DEADLOCK FALSE\n')
        g = tlc(ctx, 'JobsGen', 'gen.cfg', cfg_text=cfg, simulate='num=%d' % (n * 6), depth=20, seed=sd, name='sim_sched_%d' % sd, timeout=600)
        ctx.tlc_expect_ok(g, 'JobsGen simulation')
        for c in g.printed:
            key = json.dumps(c, sort_keys=True)
            if key in seen:
                continue
            seen.add(key)
            shape = (c['threads'], ''.join(e['e'] for e in c['order']))
            byshape.setdefault(shape, []).append(c)
    if not byshape:
        raise Inconclusive('JobsGen emitted no schedule')
    out = []
    while len(out) < n and any(byshape.values()):     # round robin over shapes, overlapping shapes first
        for shape in sorted(byshape, key=lambda s: (-overlap(s[1]), -s[0], s[1])):
            if byshape[shape] and len(out) < n:
                out.append(byshape[shape].pop(0))
    ctx.cov['schedule_shapes'] = len(byshape)
    return out


def overlap(shape):
    n = m = 0
    for ch in shape:
        n += 1 if ch == 's' else -1
        m = max(m, n)
    return m


def to_waves(c):
    """order of s/c events -> per job: wave (consecutive starts start together) and the completions that precede its start"""
    wave, done, jobs = 0, [], {}
    prev = None
    for e in c['order']:
        j = e['j'] - 1
        if e['e'] == 's':
            if prev != 's':
                wave += 1
            jobs[j] = dict(wave=wave, after=list(done))
        else:
            done.append(j)
        prev = e['e']
    return jobs


# ------------------------------------------------------------------------------------------------ concrete jobs
def build_specs(ctx, binp):
    th = ctx.tier == 'thorough'
    info = json.loads(ctx.run([binp, 'formats'], check=True).stdout)
    known = set(info)
    files = corpusarm.sample_files(MAXSIZE)
    byfam = collections.defaultdict(list)
    for f in files:
        byfam[corpusarm.family(f)].append(f)
    per = 12 if th else 5
    pick = []
    for fam in sorted(byfam):
        fs = byfam[fam][:]
        ctx.rng.shuffle(fs)
        # files that have per-format options first: they carry the option half of the property
        fs.sort(key=lambda f: 0 if optsets_for(f) else 1)
        pick += fs[:per]
    specs, bases = [], []
    for f in pick:
        fmts = corpusarm.golden_formats(f, known)
        fmt = fmts[0]
        if fmt != 'probe' and ctx.rng.random() < 0.25:
            fmt = 'probe'
        size = os.path.getsize(f)
        cut = ctx.rng.choice(sorted({max(1, size // 2), max(1, size * 3 // 4), max(1, size // 3), max(1, size - 1)}))
        osets = optsets_for(f)
        oset = ctx.rng.choice(osets) if osets else None
        for level in ('interp', 'decode'):
            expr = ctx.rng.choice(['dv', 'dv', 'tovalue']) if level == 'interp' else ''
            base = dict(file=f, format=fmt, level=level, v={})
            for whole in (True, False):
                for o in ([None, oset] if oset else [None]):
                    sp = dict(id='k%d' % len(specs), file=f, format=fmt, level=level, opts=(o or {}), trunc=(-1 if whole else cut), expr=expr)
                    specs.append(sp)
                    base['v'][('whole' if whole else 'trunc', 'set' if o else 'unset')] = sp['id']
            bases.append(base)
            # a SECOND, different option value for the same file (same process in the sequential arm): state kept from a
            # decode with one value must not show in a decode with another value
            others = [o for o in osets if o != oset]
            if others:
                o2 = others[len(os.path.basename(f)) % len(others)]
                specs.append(dict(id='k%d' % len(specs), file=f, format=fmt, level=level, opts=o2, trunc=-1, expr=expr))
    return specs, bases, len(pick), len(files)


def vet(ctx, binp, specs):
    """lone results: every spec in a process of its own (non-race build, RLIMIT_AS); slow / huge / crashing specs are dropped"""
    sp = os.path.join(ctx.build, 'specs_all.ndjson')
    vlib.write_ndjson(sp, specs)
    vp = os.path.join(ctx.build, 'vet.ndjson')
    ctx.run([binp, 'vet', sp, vp, str(min(16, vlib.NCPU)), '8000000', '30'], check=True, timeout=1500)
    res = {}
    dropped = collections.Counter()
    for r in vlib.read_ndjson(vp):
        s = specs[r['i']]
        if r['outcome'] != 'ok' or not r.get('res'):
            dropped[r['outcome']] += 1      # C06's business
            continue
        x = r['res']
        if x['ms'] > VET_MS or x['n'] > VET_BYTES:
            dropped['slow_or_large'] += 1
            continue
        res[s['id']] = x
    ctx.cov['specs'] = dict(generated=len(specs), kept=len(res), dropped=dict(dropped))
    return res


def vet_plain(ctx, binp, specs, name):
    """like vet(), for auxiliary jobs: ids of the specs that end by themselves in a process of their own (any class), cheaply"""
    sp = os.path.join(ctx.build, name + '_specs.ndjson')
    vlib.write_ndjson(sp, specs)
    vp = os.path.join(ctx.build, name + '.ndjson')
    ctx.run([binp, 'vet', sp, vp, str(min(16, vlib.NCPU)), '8000000', '30'], check=True, timeout=1500)
    ok = {}
    for r in vlib.read_ndjson(vp):
        if r['outcome'] == 'ok' and r.get('res') and r['res']['ms'] <= VET_MS and r['res']['n'] <= VET_BYTES:
            ok[specs[r['i']]['id']] = r['res']
    return ok


def run_par(jobs, width):
    """jobs: list of callables; run at most `width` at a time"""
    out = [None] * len(jobs)
    idx = iter(range(len(jobs)))
    lock = threading.Lock()

    def worker():
        while True:
            with lock:
                i = next(idx, None)
            if i is None:
                return
            out[i] = jobs[i]()
    ts = [threading.Thread(target=worker) for _ in range(width)]
    for t in ts:
        t.start()
    for t in ts:
        t.join()
    return out


def mismatch_sig(kind, sp):
    return 'mismatch:%s:%s:%s:%s%s' % (kind, sp['level'], sp['format'], '+'.join(sorted(sp['opts'])) or 'noopts', ':trunc' if sp['trunc'] >= 0 else '')


def run(ctx):
    th = ctx.tier == 'thorough'
    ctx.cov['rule'] = ('a job = one concrete (file, truncation, format, options, level, expression) run; non-trivial = its lone result is longer than '
                       '200 bytes (a real tree / dump or a real error text); distinct_nontrivial counts distinct such job kinds that ran inside a '
                       'concurrent schedule or driver under -race')
    ctx.assumptions += ['lone result = result of the non-race build in a process that runs this one job only (RLIMIT_AS 8 GB); cross-checked against sequential shuffled passes and one-job processes of the -race build',
                        'byte comparison in the harness is bytes.Equal on sha256 prefixes (80 bit) of the full output',
                        'decode-level result = text projection of the whole tree (names, ranges, scalar actual/sym/description, errors); interp-level result = stdout, stderr, exit status',
                        'MC bounds: see tlc_runs']
    ctx.cov['trusted_base'] += ['harness/c18 treeText (tree -> text, no oracle: same code on both sides of the comparison)']

    # model checking runs concurrently with the real-code arms
    mc_err = []

    def mc():
        try:
            model_arm(ctx)
        except Exception as e:       # noqa
            mc_err.append(e)
    mct = threading.Thread(target=mc)
    mct.start()

    try:
        real_arms(ctx)
    finally:
        mct.join()
    if mc_err:
        raise mc_err[0]


def real_arms(ctx):
    th = ctx.tier == 'thorough'
    binp = ctx.go_build('c18')
    binr = ctx.go_build('c18', race=True)
    specs_all, bases, nfiles, ntotal = build_specs(ctx, binp)
    lone = vet(ctx, binp, specs_all)
    vlib.log('builds and vetting pass done at %.0fs' % (time.time() - ctx.t0))
    specs = [s for s in specs_all if s['id'] in lone]
    byid = {s['id']: s for s in specs}
    if len(specs) < 200:
        raise Inconclusive('only %d usable job kinds' % len(specs))
    spath = os.path.join(ctx.build, 'specs.ndjson')
    vlib.write_ndjson(spath, specs)
    solop = os.path.join(ctx.build, 'solo.ndjson')
    vlib.write_ndjson(solop, [dict(id=s['id'], hash=lone[s['id']]['hash'], **{'class': lone[s['id']]['class']}) for s in specs])
    files_used = {s['file'] for s in specs}
    ctx.cov['corpus'] = dict(sample_files_le_256k=ntotal, files_picked=nfiles, files_with_usable_jobs=len(files_used),
                             job_kinds=len(specs), with_options=sum(1 for s in specs if s['opts']), truncated=sum(1 for s in specs if s['trunc'] >= 0),
                             failing=sum(1 for s in specs if lone[s['id']]['class'] == 'fail'),
                             interp_level=sum(1 for s in specs if s['level'] == 'interp'),
                             formats=len({s['format'] for s in specs}))
    arm = Arm(ctx, binr)
    ran = collections.Counter()       # spec id -> executions under -race
    conc = set()
    mism = []                         # (kind, spec, detail, case)

    # ---- 1. sequential orders (one goroutine): shuffled passes with repeats, and one-job processes
    nseq = 600 if th else 130
    # all variants of a file (options set / unset, whole / truncated, both levels) stay in one process, in a shuffled order:
    # that is where state left behind by one job would meet the next job of the same format
    byfile = collections.defaultdict(list)
    for s_ in specs:
        byfile[s_['file']].append(s_)
    fl = sorted(byfile)
    ctx.rng.shuffle(fl)
    fl.sort(key=lambda f: 0 if any(x['opts'] for x in byfile[f]) else 1)      # stable: files with options first, half of the budget
    withopt = [f for f in fl if any(x['opts'] for x in byfile[f])]
    rest = [f for f in fl if f not in set(withopt)]
    P = 4
    chunks = [[] for _ in range(P)]
    n_ = 0
    for i in range(max(len(withopt), len(rest))):
        for f in (withopt[i:i + 1] + rest[i:i + 1]):
            if n_ < nseq:
                chunks[i % P] += byfile[f]
                n_ += len(byfile[f])
    sample = [x for c in chunks for x in c]
    jobs = []
    for p in range(P):
        chunk = chunks[p]
        cp = os.path.join(ctx.build, 'seq_%d.ndjson' % p)
        vlib.write_ndjson(cp, chunk)
        op = os.path.join(ctx.build, 'seq_%d_out.ndjson' % p)
        jobs.append(lambda cp=cp, op=op, p=p: (arm.run(['solo', cp, op, str(ctx.seed * 10 + p + 1), '2' if p % 2 else '1'], 'sequential pass %d' % p, 1500), op))
    ctx.rng.shuffle(sample)
    nlone = 24 if th else 6
    for k, s in enumerate(sample[:nlone]):
        cp = os.path.join(ctx.build, 'lone_%d.ndjson' % k)
        vlib.write_ndjson(cp, [s])
        op = os.path.join(ctx.build, 'lone_%d_out.ndjson' % k)
        jobs.append(lambda cp=cp, op=op, k=k: (arm.run(['solo', cp, op, '0', '1'], 'one-job process %d' % k, 300), op))
    # several inputs through ONE Interp (`fq -d F -o .. EXPR f1 f2 f3`): include cache and global state are carried from input to
    # input, the output must be the concatenation of what each input gives alone on a fresh Interp
    gk = collections.defaultdict(list)
    for s_ in specs:
        if s_['level'] == 'interp':
            gk[(s_['format'], json.dumps(s_['opts'], sort_keys=True), s_['expr'])].append(s_)
    groups = []
    for key in sorted(gk):
        names, sel = set(), []
        l = gk[key][:]
        ctx.rng.shuffle(l)
        for s_ in l:
            b = os.path.basename(s_['file'])
            if b not in names:
                names.add(b)
                sel.append(s_['id'])
        groups += [sel[i:i + 3] for i in range(0, len(sel) - 1, 3) if len(sel[i:i + 3]) >= 2]
    ctx.rng.shuffle(groups)
    groups = groups[:120 if th else 24]
    mouts = []
    for p in range(2):
        gp = os.path.join(ctx.build, 'multi_%d.ndjson' % p)
        vlib.write_ndjson(gp, groups[p::2])
        op = os.path.join(ctx.build, 'multi_%d_out.ndjson' % p)
        mouts.append(op)
        jobs.append(lambda gp=gp, op=op, p=p: (arm.run(['multi', spath, gp, op], 'one-Interp pass %d' % p, 1500), op))
    nseqjobs = nmulti = 0
    for r, op in run_par(jobs, 6):
        if r is None:
            continue
        if op in mouts:
            for e in vlib.read_ndjson(op):
                nmulti += 1
                for sid in e['specs']:
                    ran[sid] += 2
                if not e['match']:
                    s0 = byid[e['specs'][0]]
                    mism.append(('oneinterp', s0, 'inputs %s through one Interp differ from the same inputs one by one: %s' % (
                        [os.path.basename(byid[x]['file']) for x in e['specs']], e.get('detail')), dict(kind='multi', specs=[byid[x] for x in e['specs']])))
            continue
        for e in vlib.read_ndjson(op):
            nseqjobs += 1
            ran[e['id']] += 1
            if e['hash'] != lone[e['id']]['hash']:
                mism.append(('seq', byid[e['id']], 'sequential run (position %d of its process) differs from the lone result' % e['pos'], dict(kind='seq', spec=byid[e['id']], pos=e['pos'])))
    # ---- 1b. EVERY job kind at least twice in one process, without the race detector (cheap): state that a decoder keeps in package
    #          variables shows in the second decode of its format in a process, whichever job kind that is
    P2 = 8
    chunks2 = [[] for _ in range(P2)]
    for i, f in enumerate(fl):
        chunks2[i % P2] += byfile[f]
    jobs2 = []
    for p in range(P2):
        cp = os.path.join(ctx.build, 'twice_%d.ndjson' % p)
        vlib.write_ndjson(cp, chunks2[p])
        op = os.path.join(ctx.build, 'twice_%d_out.ndjson' % p)
        jobs2.append(lambda cp=cp, op=op, p=p: (ctx.run([binp, 'solo', cp, op, str(ctx.seed * 10 + p + 1), '2'], timeout=1500), op))
    ntwice = 0
    for r, op in run_par(jobs2, 8):
        if r is None or r.returncode != 0:
            ctx.inconc('twice-in-one-process pass did not finish (rc=%s): %s' % (getattr(r, 'returncode', None), (getattr(r, 'stderr', '') or '')[-300:]))
            continue
        for e in vlib.read_ndjson(op):
            ntwice += 1
            if e['hash'] != lone[e['id']]['hash']:
                mism.append(('seq', byid[e['id']], 'run at position %d of a process that runs every job kind of its files twice (no race detector) differs from the lone result' % e['pos'],
                             dict(kind='seq', spec=byid[e['id']], pos=e['pos'])))
    ctx.cov['twice_in_one_process'] = dict(jobs=ntwice, processes=P2)
    # ---- 1c. A DECODE THAT FAILS LEAVES NOTHING BEHIND: per format family, a ladder of truncations of its files (cut inside the
    #          first bytes, where headers, tables and dictionaries are read, and at fractions of the size) each followed at once by a
    #          whole file of the same format in the same process; the whole file must give its lone result.  (Jobs.tla: a job
    #          completes with the result of its lone run whatever ran before it; the failing job is the interesting predecessor
    #          because it leaves its decoder in the middle of something.)
    famv = collections.defaultdict(list)
    for s_ in specs:
        if s_['level'] == 'decode' and s_['trunc'] < 0 and not s_['opts']:      # whatever its class: a lone result is a result
            famv[(corpusarm.family(s_['file']), s_['format'])].append(s_)
    LADDER = [3, 6, 9, 12, 16, 20, 24, 32, 40, 48, 64, 80, 96, 128, 160, 192, 256, 320, 384, 512, 768, 1024, 1536, 2048, 4096]
    fspecs, pairs = [], []
    allfiles = collections.defaultdict(list)
    for f in corpusarm.sample_files(MAXSIZE):
        allfiles[corpusarm.family(f)].append(f)
    for key in sorted(famv):
        vs = famv[key]
        # sources of the failing jobs: every sample of the family, those that are no victim themselves first (too large or too slow
        # as a whole, their first bytes are neither), then the others in a seeded order
        vfiles = {v['file'] for v in vs}
        others = sorted(f for f in allfiles[key[0]] if f not in vfiles)
        mine = sorted(vfiles)
        ctx.rng.shuffle(others)
        ctx.rng.shuffle(mine)
        srcs = (others + mine) if th else (others[:2] + mine)[:4]
        fl_ = []
        for src in srcs:
            size = os.path.getsize(src)
            cuts = sorted({c for c in LADDER if c < size} | {max(1, size * k // 8) for k in range(1, 8)} | {max(1, size - 1)})
            if not th:
                # every second rung, offset by the seed, so that two seeds cover the ladder
                cuts = [c for i, c in enumerate(cuts) if (i + ctx.seed) % 2 == 0]
            for c in cuts:
                f_ = dict(id='f%d' % len(fspecs), file=src, format=key[1], level='decode', opts={}, trunc=c, expr='')
                fspecs.append(f_)
                fl_.append(f_)
        for v in (vs if th else vs[:6]):
            for f_ in fl_:
                pairs.append((f_, v))
    # the failing jobs are vetted like every other job (a crash or a stall of one of them is C06's business, not this arm's)
    fvet = vet_plain(ctx, binp, fspecs, 'fail_vet')
    pairs = [(f_, v) for f_, v in pairs if f_['id'] in fvet]
    ctx.rng.shuffle(pairs)
    P3 = 8
    jobs3 = []
    for p in range(P3):
        seq = []
        for f_, v in pairs[p::P3]:
            seq += [f_, v]
        cp = os.path.join(ctx.build, 'after_%d.ndjson' % p)
        vlib.write_ndjson(cp, seq)
        op = os.path.join(ctx.build, 'after_%d_out.ndjson' % p)
        jobs3.append(lambda cp=cp, op=op, seq=seq: (ctx.run([binp, 'solo', cp, op, '0', '1'], timeout=1500), op, seq))
    nafter = 0
    for item in run_par(jobs3, 8):
        if item is None:
            ctx.inconc('after-a-failure pass: a process timed out')
            continue
        r, op, seq = item
        if r is None or r.returncode != 0:
            ctx.inconc('after-a-failure pass did not finish (rc=%s): %s' % (getattr(r, 'returncode', None), (getattr(r, 'stderr', '') or '')[-300:]))
            continue
        for e in vlib.read_ndjson(op):
            if e['id'].startswith('f'):
                continue
            nafter += 1
            if e['hash'] != lone[e['id']]['hash']:
                pred = seq[e['pos'] - 1]
                mism.append(('afterfail', byid[e['id']], 'decoded right after the first %d bytes of %s (same format, same process) it differs from its lone result'
                             % (pred['trunc'], os.path.basename(pred['file'])), dict(kind='afterfail', spec=byid[e['id']], pred=pred, pos=e['pos'])))
    ctx.cov['after_a_failing_decode'] = dict(pairs=nafter, failing_jobs=len(fvet), families=len(famv), processes=P3)
    vlib.log('sequential arm done at %.0fs' % (time.time() - ctx.t0))
    ctx.cov['sequential'] = dict(jobs=nseqjobs, processes=len(jobs), one_job_processes=nlone, several_inputs_on_one_interp=nmulti)

    # ---- 2. TLC schedules replayed with start gates on cold processes
    nsched = 150 if th else 36
    scheds = gen_schedules(ctx, nsched, [ctx.seed * 3 + i for i in range(3)] if th else [ctx.seed])
    cls = lambda b, w, o: lone[b['v'][(w, o)]]['class'] if (w, o) in b['v'] and b['v'][(w, o)] in lone else None
    GOOD = [b for b in bases if cls(b, 'whole', 'unset') == 'ok' and cls(b, 'whole', 'set') == 'ok']
    TRUNC = [b for b in bases if cls(b, 'trunc', 'unset') == 'fail' and cls(b, 'trunc', 'set') == 'fail']
    OPTDEP = [(b, w) for b in bases for w in ('whole', 'trunc') if cls(b, w, 'unset') == 'ok' and cls(b, w, 'set') == 'fail']
    GOOD0 = [b for b in bases if cls(b, 'whole', 'unset') == 'ok']           # formats without options: only usable when every job of that kind is "unset"
    TRUNC0 = [b for b in bases if cls(b, 'trunc', 'unset') == 'fail']
    ctx.cov['pools'] = dict(good=len(GOOD), trunc=len(TRUNC), optdep=len(OPTDEP), good_no_options=len(GOOD0), trunc_no_options=len(TRUNC0))
    if not GOOD or not TRUNC or not OPTDEP:
        raise Inconclusive('cannot instantiate the model kinds: pools %s' % ctx.cov['pools'])
    inst = 4 if th else 2
    concrete = []
    for si, c in enumerate(scheds):
        wv = to_waves(c)
        for k in range(inst):
            both = [b for b in GOOD if b in TRUNC]
            level = ctx.rng.choice(['interp', 'interp', 'decode'])
            pool = [b for b in (both or GOOD) if b['level'] == level] or GOOD
            g = ctx.rng.choice(pool)
            # the failing job of format F1: the same file truncated when that fails, else another file of the same format
            t = g if g in TRUNC else ctx.rng.choice([b for b in TRUNC if b['format'] == g['format'] and b['level'] == g['level']] or [b for b in TRUNC if b['level'] == g['level']] or TRUNC)
            od, odw = ctx.rng.choice([x for x in OPTDEP if x[0]['level'] == level] or OPTDEP)
            uses_set = {j['input'] for j in c['jobs'] if j['opt'] == 'set'}
            if 'good' not in uses_set and 'trunc' not in uses_set and ctx.rng.random() < 0.5:
                g = ctx.rng.choice([b for b in GOOD0 if b['level'] == level] or GOOD0)      # any format, options unset
                t = g if g in TRUNC0 else ctx.rng.choice([b for b in TRUNC0 if b['format'] == g['format'] and b['level'] == g['level']] or TRUNC0)
            sj = []
            for j, mj in enumerate(c['jobs']):
                if mj['input'] == 'good':
                    sid = g['v'][('whole', mj['opt'])]
                elif mj['input'] == 'trunc':
                    sid = t['v'][('trunc', mj['opt'])]
                else:
                    sid = od['v'][(odw, mj['opt'])]
                if lone[sid]['class'] != mj['class']:
                    raise Inconclusive('instantiation error: %s has class %s, model says %s' % (sid, lone[sid]['class'], mj['class']))
                sj.append(dict(spec=sid, wave=wv[j]['wave'], after=wv[j]['after']))
            concrete.append(dict(sid='s%d.%d' % (si, k), threads=c['threads'], jobs=sj, model=c))
    ctx.rng.shuffle(concrete)
    per_proc = 8
    procs = [concrete[i:i + per_proc] for i in range(0, len(concrete), per_proc)]
    for group in procs:     # the first schedule of a process meets the unresolved registry: take the one with the largest first wave
        group.sort(key=lambda g: -sum(1 for j in g['jobs'] if j['wave'] == 1 and not j['after']))
    jobs = []
    for p, group in enumerate(procs):
        sp_ = os.path.join(ctx.build, 'sched_%d.ndjson' % p)
        vlib.write_ndjson(sp_, [dict(sid=g['sid'], threads=g['threads'], jobs=g['jobs']) for g in group])
        op = os.path.join(ctx.build, 'sched_%d_out.ndjson' % p)
        jobs.append(lambda sp_=sp_, op=op, p=p: (arm.run(['sched', spath, solop, sp_, op], 'schedule process %d' % p, 1200), op))
    bysid = {g['sid']: g for g in concrete}
    nsj, overl, cold = 0, 0, 0
    for r, op in run_par(jobs, 3):
        if r is None:
            continue
        recs = vlib.read_ndjson(op)
        seen_sid = set()
        for e in recs:
            nsj += 1
            ran[e['spec']] += 1
            g = bysid[e['sid']]
            if e['sid'] not in seen_sid:
                seen_sid.add(e['sid'])
                if e['maxrunning'] > g['threads']:
                    raise Inconclusive('harness ran %d jobs at once in a %d-thread schedule' % (e['maxrunning'], g['threads']))
                overl += e['maxrunning'] > 1
            if e['maxrunning'] > 1:
                conc.add(e['spec'])
            want = g['model']['jobs'][e['j']]['class']
            if not e['match'] or e['class'] != want:
                mism.append(('conc', byid[e['spec']], 'schedule %s (threads %d, order %s) job %d: %s' % (
                    e['sid'], g['threads'], ''.join('%s%d' % (x['e'], x['j']) for x in g['model']['order']), e['j'], e.get('detail', 'class %s, expected %s' % (e['class'], want))),
                    dict(kind='sched', schedule=dict(sid=g['sid'], threads=g['threads'], jobs=g['jobs']), specs=[byid[x['spec']] for x in g['jobs']], job=e['j'], sticky=e.get('sticky'))))
        cold += 1
    vlib.log('schedule arm done at %.0fs' % (time.time() - ctx.t0))
    ctx.cov['schedules'] = dict(model_schedules=len(scheds), instantiated=len(concrete), jobs=nsj, cold_processes=cold, schedules_with_real_overlap=overl)
    g0 = concrete[0]
    ctx.sample(dict(kind='TLC schedule', threads=g0['model']['threads'], order=''.join('%s%d ' % (x['e'], x['j']) for x in g0['model']['order']).strip(),
                    jobs=[(j['input'], j['opt'], j['class']) for j in g0['model']['jobs']]))
    ctx.sample(dict(kind='its instantiation', jobs=[(os.path.relpath(byid[j['spec']]['file'], vlib.REPO), byid[j['spec']]['format'], byid[j['spec']]['level'], byid[j['spec']]['opts'] and sorted(byid[j['spec']]['opts']), byid[j['spec']]['trunc'], 'wave %d after %s' % (j['wave'], j['after'])) for j in g0['jobs']]))

    # ---- 3. randomised concurrent drivers, logs validated by TraceJobs.tla
    if th:
        rounds = [(g, {16: 520, 12: 400, 8: 400, 4: 200, 2: 120}[g]) for g in (16, 8, 4, 16, 12, 2)] * 5      # few goroutines = little parallelism: fewer jobs there
    else:
        rounds = [(16, 220), (8, 160), (4, 100), (12, 140)]
    traces = collections.defaultdict(list)      # goroutines -> [(events, round)]
    ndrive = 0
    # an interp-level job costs ~30x a decode-level one under -race (interpreter start-up): every round takes all decode-level kinds
    # and a rotating third of the interp-level kinds
    dspecs = [s_ for s_ in specs if s_['level'] == 'decode']
    ispecs = [s_ for s_ in specs if s_['level'] == 'interp']
    for k, (g, n) in enumerate(rounds):
        op = os.path.join(ctx.build, 'drive_%d.ndjson' % k)
        dsp = os.path.join(ctx.build, 'drive_%d_specs.ndjson' % k)
        vlib.write_ndjson(dsp, dspecs + ispecs[k % 3::3])
        r = arm.run(['drive', dsp, solop, op, str(g), str(n), str(ctx.seed * 1000 + k)], 'driver round %d (%d goroutines)' % (k, g), 600 + n * 3)
        if r is None:
            continue
        evs, details = [], {}
        for e in vlib.read_ndjson(op):
            if e['op'] == 'detail':
                details[e['j']] = e
            else:
                evs.append(e)
        used = []
        for e in evs:
            s = byid[e['kind']]
            e['fmt'] = s['format']
            e['opt'] = 'set' if s['opts'] else 'unset'
            if e['op'] == 'end':
                ndrive += 1
                ran[e['kind']] += 1
                conc.add(e['kind'])
                if e['hash'] != e['solo']:
                    d = details.get(e['j'], {})
                    mism.append(('conc', s, 'driver round %d (%d goroutines) job %d: %s' % (k, g, e['j'], d.get('detail', '')),
                                 dict(kind='drive', args=[g, n, ctx.seed * 1000 + k], spec=s, sticky=d.get('sticky'))))
            elif e['kind'] not in used:
                used.append(e['kind'])
        head = [dict(op='solo', j=0, kind=kid, fmt='', opt='', seq=0, hash=lone[kid]['hash'], solo=lone[kid]['hash']) for kid in used]
        # quick tier: one TLC run for all rounds (thread bound of the trace spec = the largest round), the per-round bound is counted here
        live = peak = 0
        for e in evs:
            live += 1 if e['op'] == 'start' else -1
            peak = max(peak, live)
        if peak > g:
            raise Inconclusive('driver round %d logged %d overlapping jobs on %d goroutines' % (k, peak, g))
        traces[g if th else max(x for x, _ in rounds)].append((head + evs, k))
    vlib.log('driver arm done at %.0fs' % (time.time() - ctx.t0))
    ctx.cov['drivers'] = dict(rounds=len(rounds), jobs=ndrive, goroutines=sorted({g for g, _ in rounds}))
    reset = dict(op='reset', j=0, kind='', fmt='', opt='', seq=0, hash='', solo='')
    tcfg = lambda g: ('SPECIFICATION TSpec\nCONSTANTS Threads = %d\n UseOnce = TRUE\n DeepCopy = TRUE\n SharedBuf = FALSE\n SharedInterp = FALSE\n'
                      ' Out <- OutTV\n Fails <- FailsTV\nPOSTCONDITION Consumed\nCHECK_DEADLOCK FALSE\n') % g
    demo_src = None
    nev = 0
    for g in sorted(traces):
        tl = [t for t, _ in traces[g]]
        cfgname = 'TraceJobs_%d.cfg' % g
        rej = tv_stateful_cfg(ctx, cfgname, tcfg(g), tl, 'tv_jobs_g%d' % g, reset)
        nev += sum(len(t) for t in tl)
        ctx.cov['traces_validated_against_impl'] += len(tl)
        bad = {ti for ti, _ in rej}
        for ti, ei in rej:
            e = tl[ti][ei] if ei < len(tl[ti]) else None
            if e is not None and e['op'] == 'end' and e['hash'] != e['solo']:
                continue        # already listed with its detail by the byte comparison above (same observation)
            ctx.finding('trace.not_a_behaviour_of_jobs', 'driver log (round %d, %d goroutines) rejected by TraceJobs.tla at event %d: %s' % (traces[g][ti][1], g, ei, e),
                        dict(kind='trace', event=e, index=ei))
        # consistency of the two judges: every byte mismatch must also have been rejected by the trace spec
        for ti, t in enumerate(tl):
            if any(e['op'] == 'end' and e['hash'] != e['solo'] for e in t) and ti not in bad:
                raise Inconclusive('TraceJobs.tla accepted a log that contains a result different from the lone result')
        if demo_src is None:
            demo_src = next(((t, g) for i, t in enumerate(tl) if i not in bad), None)
    ctx.cov['trace_events'] = nev

    # binding demonstration for TraceJobs: one flipped result hash / one dropped start event must be rejected where they are
    if demo_src is not None:
        t, g = demo_src
        ends = [i for i, e in enumerate(t) if e['op'] == 'end']
        ci = ends[len(ends) // 2]
        cut = min(len(t), ci + 12)
        t0 = t[:cut]
        t1 = copy.deepcopy(t0)
        h = t1[ci]['hash']
        t1[ci]['hash'] = ('0' if h[0] != '0' else '1') + h[1:]
        si = next(i for i, e in enumerate(t0) if e['op'] == 'start' and e['j'] == t0[ci]['j'])
        t2 = t0[:si] + t0[si + 1:]
        rej = sorted(tv_stateful_cfg(ctx, 'TraceJobs_demo.cfg', tcfg(g), [t0, t1, t2], 'tv_jobs_demo', reset, count=False))
        ok = rej == [(1, ci), (2, ci - 1)]
        ctx.cov['binding_demo'].append(dict(spec='TraceJobs', corrupted=[dict(trace=1, flipped_hash_at_event=ci), dict(trace=2, removed_start_event=si, its_end_event=ci - 1)],
                                            rejected=[list(x) for x in rej], ok=ok))
        if not ok:
            raise Inconclusive('binding demo failed for TraceJobs: %s (expected [(1, %d), (2, %d)])' % (rej, ci, ci - 1))
    elif not ctx.inconclusive and not mism:
        raise Inconclusive('no accepted driver log for the binding demo')

    # ---- verdicts from the byte comparison
    for kind, s, detail, case in mism:
        ctx.finding(mismatch_sig(kind, s), '%s %s -d %s %s (%s%s): result differs from the lone run: %s' % (
            s['level'], os.path.relpath(s['file'], vlib.REPO), s['format'], ' '.join('-o %s=%s' % kv for kv in sorted(s['opts'].items()))[:80],
            s['expr'] or 'tree', ', first %d bytes' % s['trunc'] if s['trunc'] >= 0 else '', detail), case)
    ctx.cov['mismatches'] = len(mism)

    total = sum(ran.values())
    ctx.cov['evaluations'] += total
    ctx.cov['jobs_under_race_detector'] = total
    ctx.cov['distinct_nontrivial'] += sum(1 for k in conc if lone[k]['n'] > 200)
    ctx.cov['race_detector'] = dict(arm.stats)
    s = specs[len(specs) // 3]
    ctx.sample(dict(kind='job kind', file=os.path.relpath(s['file'], vlib.REPO), format=s['format'], level=s['level'], opts=s['opts'] and sorted(s['opts']),
                    trunc=s['trunc'], expr=s['expr'], lone_hash=lone[s['id']]['hash'], lone_class=lone[s['id']]['class'], executions_under_race=ran[s['id']]))


def tv_stateful_cfg(ctx, cfgname, cfgtext, traces, name, reset, count=True):
    """ctx.tv_stateful with a generated cfg (the thread bound is a constant of the trace spec)"""
    # tv_stateful would copy the cfg from spec/: the text goes through ctx.tlc's cfg_text instead
    for attempt in range(3):
        try:
            return ctx.tv_stateful('TraceJobs', cfgname, traces, name='%s_a%d' % (name, attempt) if attempt else name, reset_event=reset, count=count, cfg_text=cfgtext)
        except Inconclusive as e:
            if attempt == 2 or not re.search(r'rc=-?(143|137|15|9)\b', str(e)):
                raise
            vlib.log('TLC was killed by a signal during trace validation; running it again')
            time.sleep(2)


# ------------------------------------------------------------------------------------------------ replay
def replay(ctx, path):
    """re-run a recorded failing case: lone results first, then the schedule / driver round many times"""
    case = json.load(open(path))['case']
    binp = ctx.go_build('c18')
    binr = ctx.go_build('c18', race=True)
    arm = Arm(ctx, binr)
    if case.get('kind') == 'sched':
        specs = case['specs']
        byid = {s['id']: s for s in specs}
        specs = list(byid.values())
        lone = vet(ctx, binp, specs)
        spath = os.path.join(ctx.build, 'specs.ndjson'); vlib.write_ndjson(spath, specs)
        solop = os.path.join(ctx.build, 'solo.ndjson'); vlib.write_ndjson(solop, [dict(id=k, hash=v['hash']) for k, v in lone.items()])
        sp_ = os.path.join(ctx.build, 'sched.ndjson'); vlib.write_ndjson(sp_, [case['schedule']])
        for k in range(20):
            op = os.path.join(ctx.build, 'out_%d.ndjson' % k)
            r = arm.run(['sched', spath, solop, sp_, op], 'replay %d' % k, 600)
            if r is None:
                continue
            for e in vlib.read_ndjson(op):
                if not e['match']:
                    ctx.finding(mismatch_sig('conc', byid[e['spec']]), 'replay: %s' % e.get('detail'), case)
    else:
        vlib.log('replay: case kind %s is re-run by the full check (seed %s)' % (case.get('kind'), json.load(open(path)).get('seed')))
        run(ctx)
