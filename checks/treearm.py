# Shared arm for C03 / C04 / C05 / C12: decoder programs and corpus trees through the real decode API,
# judged by TLC against DecodeTree.tla (TraceTree.tla).
import os, json, copy, collections
from concurrent.futures import ThreadPoolExecutor
import vlib
from vlib import Inconclusive

ALLK = '{"leaf","synth","struct","array","framed","limited","seek","seekfn","fmtrest","fmtlen","fmtrange","bitbuf","rootstruct","rootarray","fail","errorf"}'

# state of /repo: switches of the as-built layer (D8, D17 repaired by fix: commits; D3 known)
BUILT = dict(ZeroQuirk='FALSE', PPOnAbort='TRUE', Slack='1')


def mc_cfg(spec='Spec', zq='FALSE', pp='TRUE', slack=0, L=8, ops=3, depth=2, names='{"a","b"}', widths='{1,8}', seek='{0,5}',
           frames='{0,4}', bufs='{8}', force='FALSE', allowed='{"ok"}', kinds=ALLK, invs=(), view=True, emit=False):
    s = 'SPECIFICATION %s\nCONSTANTS\n ZeroQuirk = %s\n PPOnAbort = %s\n Slack = %d\n L = %d\n MaxOps = %d\n MaxDepth = %d\n' % (spec, zq, pp, slack, L, ops, depth)
    s += ' Names = %s\n Widths = %s\n SeekTo = %s\n FrameLens = %s\n BufLens = %s\n Force = %s\n AllowedWhy = %s\n Kinds = %s\n' % (names, widths, seek, frames, bufs, force, allowed, kinds)
    if view:
        s += 'VIEW View\n'
    for i in invs:
        s += 'INVARIANT %s\n' % i
    if emit:
        s += 'CONSTRAINT Emit\n'
    s += 'CHECK_DEADLOCK FALSE\n'
    return s


STRETCH = '"tree.range_stretched_by_empty_value_past_end"'


def model_check(ctx):
    """MC: the design (as-required switches) keeps every tree well formed and the input covered; as built differs only by known shapes."""
    th = ctx.tier == 'thorough'
    ops = 4 if th else 3
    r = ctx.tlc('DecodeTreeMC', 'mc_req.cfg', cfg_text=mc_cfg(ops=ops, allowed='{"ok",%s}' % STRETCH,
                invs=('TreeOK', 'InputCovered', 'GapsDisjoint')), timeout=3000, name='mc_tree_required')
    ctx.tlc_expect_ok(r, 'DecodeTree as required')
    r = ctx.tlc('DecodeTreeMC', 'mc_built.cfg', cfg_text=mc_cfg(ops=ops, zq=BUILT['ZeroQuirk'], pp=BUILT['PPOnAbort'], slack=int(BUILT['Slack']),
                allowed='{"ok",%s}' % STRETCH, invs=('TreeOKOrD8', 'GapsDisjoint')), timeout=3000, name='mc_tree_built')
    ctx.tlc_expect_ok(r, 'DecodeTree as built')
    # anti-vacuity: failed decodes and aborted nested roots are reached
    r = ctx.tlc('DecodeTreeMC', 'mc_wit.cfg', cfg_text=mc_cfg(ops=2, invs=('NeverFailed',)), count=False, name='mc_tree_witness_failed')
    if r.violated != 'NeverFailed':
        raise Inconclusive('model never reaches a failed decode (vacuous)')
    r = ctx.tlc('DecodeTreeMC', 'mc_wit2.cfg', cfg_text=mc_cfg(ops=2, invs=('NeverD8',)), count=False, name='mc_tree_witness_d8')
    if r.violated != 'NeverD8':
        raise Inconclusive('model never reaches an aborted nested root (vacuous)')


def program_events(ctx):
    """GEN (exhaustive small) + SIM (TLC simulation, deeper) + Go random programs -> real trees."""
    th = ctx.tier == 'thorough'
    progs = []
    g = ctx.tlc('DecodeTreeMC', 'gen.cfg', cfg_text=mc_cfg(zq='TRUE', pp='FALSE', slack=1, ops=3 if th else 2, view=False, emit=True),
                timeout=3000, name='gen_tree')
    ctx.tlc_expect_ok(g, 'DecodeTree GEN')
    gen_n = len(g.printed)
    progs += g.printed
    # forced decodes and a second geometry
    g2 = ctx.tlc('DecodeTreeMC', 'gen2.cfg', cfg_text=mc_cfg(zq='TRUE', pp='FALSE', slack=1, ops=2, L=12, widths='{3}', seek='{12,13}', frames='{3,13}',
                 bufs='{0,5}', force='TRUE', names='{"a"}', view=False, emit=True), timeout=3000, name='gen_tree_forced')
    ctx.tlc_expect_ok(g2, 'DecodeTree GEN forced')
    progs += g2.printed
    sim_n = 0
    for k, (L, ops) in enumerate([(12, 6), (24, 9)] if not th else [(12, 6), (24, 9), (16, 12), (9, 7)]):
        s = ctx.tlc('DecodeTreeMC', 'sim%d.cfg' % k, cfg_text=mc_cfg(spec='SimSpec', zq='TRUE', pp='FALSE', slack=1, L=L, ops=ops, depth=3,
                    names='{"a","b","c"}', widths='{1,3,8}', seek='{0,5,%d}' % L, frames='{0,4,9}', bufs='{0,8,11}', view=False),
                    simulate='num=%d' % (3000 if th else 700), depth=40, timeout=900, name='sim_tree_%d' % k, seed=ctx.seed * 10 + k)
        if s.rc not in (0,):
            raise Inconclusive('TLC simulation failed rc=%s' % s.rc)
        seen = set()
        for p in s.printed:
            key = json.dumps(p, sort_keys=True)
            if key not in seen:
                seen.add(key); progs.append(p)
        sim_n += len(seen)
    binp = ctx.go_build('tree')
    # deep nesting (20..120 levels, a nested buffer half way down): the size dimension "depth", beyond what MC/GEN/SIM reach
    dpath = os.path.join(ctx.build, 'tree_deep_progs.ndjson')
    ctx.run([binp, 'deepgen', str(12 if th else 4), dpath, '2'], check=True, timeout=300)
    deep = vlib.read_ndjson(dpath)
    progs += deep
    cpath = os.path.join(ctx.build, 'tree_progs.ndjson')
    vlib.write_ndjson(cpath, progs)
    e1 = os.path.join(ctx.build, 'tree_ev_prog.ndjson')
    ctx.run([binp, 'prog', cpath, e1], check=True, timeout=1200)
    e2 = os.path.join(ctx.build, 'tree_ev_rand.ndjson')
    ctx.run([binp, 'randprog', str(30000 if th else 5000), e2], check=True, timeout=1200)
    evs = vlib.read_ndjson(e1) + vlib.read_ndjson(e2)
    for e in evs:
        e['hasprog'] = True
    ctx.cov['tree_programs'] = dict(gen_exhaustive=gen_n, gen_forced=len(g2.printed), tlc_simulated=sim_n, deep_nesting=len(deep), go_random=len(evs) - len(progs))
    return evs


def tv_tree(ctx, evs, name, shards=None, demo=False):
    """Parallel TLC trace validation; returns {line(0-based): [sigs]}, drift lines."""
    shards = shards or min(12, max(1, len(evs) // 400))
    cfg = ('SPECIFICATION TSpec\nCONSTANTS\n BuiltZeroQuirk = %s\n BuiltPPOnAbort = %s\n BuiltSlack = %s\nPOSTCONDITION Consumed\nCHECK_DEADLOCK FALSE\n'
           % (BUILT['ZeroQuirk'], BUILT['PPOnAbort'], BUILT['Slack']))
    chunks = [list(range(i, len(evs), shards)) for i in range(shards)]

    def one(k):
        idx = chunks[k]
        p = os.path.join(ctx.build, '%s_shard%d.ndjson' % (name, k))
        vlib.write_ndjson(p, [evs[i] for i in idx])
        rej, drift, res = ctx.tv('TraceTree', 'tt.cfg', p, name='%s_%d' % (name, k), cfg_text=cfg, count=not demo, timeout=3000 if ctx.tier == 'thorough' else 600, heap='3g')
        return [(idx[l - 1], s) for l, s in rej], [idx[l - 1] for l in drift]
    rejects, drifts = collections.defaultdict(list), []
    with ThreadPoolExecutor(max_workers=shards) as ex:
        for rej, dr in ex.map(one, range(shards)):
            for i, s in rej:
                rejects[i].append(s)
            drifts += dr
    return rejects, drifts


def describe(e):
    def tok(t):
        s = t['k']
        if t['name']:
            s += ':' + t['name']
        if t['k'] in ('leaf', 'framed', 'limited', 'fmtlen', 'fmtrange', 'bitbuf', 'rootstruct', 'rootarray'):
            s += '(%d)' % t['n']
        if t['k'] in ('seek', 'seekfn', 'fmtrange'):
            s += '@%d' % t['p']
        if t['orraw']:
            s += '?'
        return s
    if e.get('hasprog'):
        return 'len=%d force=%s prog=[%s]' % (e['len'], e['force'], ' '.join(tok(t) for t in e['prog']))
    return e.get('what', 'tree')


def nontrivial(e):
    ks = {t['k'] for t in e['prog']}
    return len(e['nodes']) >= 4 and bool(ks & {'fmtrest', 'fmtlen', 'fmtrange', 'bitbuf', 'rootstruct', 'rootarray', 'framed', 'limited'})


def binding_demo(ctx, evs):
    """Corrupt one real tree per aspect; TLC must reject exactly those events."""
    pick = [e for e in evs if len(e['nodes']) >= 5 and not e['nodes'][0]['err'] and any(n['kind'] == 'gap' and n['len'] > 1 for n in e['nodes'])
            and any(n['kind'] == 'array' and len(n['kids']) >= 2 for n in e['nodes']) and any(n['kind'] == 'leaf' and n['len'] > 0 for n in e['nodes'])]
    if len(pick) < 4:
        raise Inconclusive('no suitable tree for the binding demo')
    good = pick[0]
    a = copy.deepcopy(pick[1])      # leaf range moved by one bit
    i = next(k for k, n in enumerate(a['nodes']) if n['kind'] == 'leaf' and n['len'] > 0)
    a['nodes'][i]['start'] += 1
    b = copy.deepcopy(pick[2])      # array index wrong
    arr = next(n for n in b['nodes'] if n['kind'] == 'array' and len(n['kids']) >= 2)
    b['nodes'][arr['kids'][1] - 1]['idx'] = 0
    c = copy.deepcopy(pick[3])      # gap shortened: a bit uncovered
    g = next(n for n in c['nodes'] if n['kind'] == 'gap' and n['len'] > 1)
    g['len'] -= 1; g['bits'] = g['bits'][:-1]
    demo = [good, a, b, c]
    rej, _ = tv_tree(ctx, demo, 'tree_demo', shards=1, demo=True)
    lines = sorted(rej)
    ok = lines == [1, 2, 3] and any(s.startswith('tree.array_index') for s in rej[2]) and any(s.startswith('gaps.') for s in rej[3])
    ctx.cov['binding_demo'].append(dict(spec='TraceTree', corrupted_events=[1, 2, 3], rejected_events=lines,
                                        sigs={k: v for k, v in rej.items()}, ok=ok))
    if not ok:
        raise Inconclusive('binding demo failed for TraceTree: %s' % dict(rej))


ASPECTS = {'C03': ('tree.', 'prog.'), 'C04': ('gaps.',), 'C05': ('bits.',)}


def run_for(ctx, pid, do_mc=True):
    if do_mc:
        model_check(ctx)
    evs = program_events(ctx)
    for k, e in enumerate(evs):
        if e['panic']:
            ctx.finding('tree.panic_escapes_decode', 'Go panic escaped decode.Decode: %s; %s' % (e['panic'][:200], describe(e)), e)
    rejects, drifts = tv_tree(ctx, evs, 'tv_tree')
    ctx.cov['traces_validated_against_impl'] += len(evs)
    ctx.cov['evaluations'] += len(evs)
    ctx.cov['distinct_nontrivial'] += len({json.dumps(e['prog'], sort_keys=True) for e in evs if nontrivial(e)})
    ctx.cov['tree_nodes_judged'] = sum(len(e['nodes']) for e in evs)
    ctx.cov['tree_failed_decodes'] = sum(1 for e in evs if e['nodes'] and e['nodes'][0]['err'])
    if drifts:
        ctx.drift('real tree differs from as-built DecodeTree run: ' + describe(evs[drifts[0]]), len(drifts))
    pref = ASPECTS[pid]
    for i in sorted(rejects):
        for sig in rejects[i]:
            if sig.startswith(pref):
                ctx.finding(sig, describe(evs[i]), evs[i])
    ev = next((e for e in evs if nontrivial(e)), evs[0])
    ctx.sample(dict(kind='decoder program and real tree', program=describe(ev),
                    tree=[(n['name'], n['kind'], n['start'], n['len'], n['idx']) for n in ev['nodes']]))
    # large trees (1000..5000 leaves) with skipped and re-read bits: size-dependent paths; judged by harness/ref
    bp = os.path.join(ctx.build, 'tree_ev_big.ndjson')
    ctx.run([ctx.go_build('tree'), 'bigprog', str(400 if ctx.tier == 'thorough' else 60), bp], check=True, timeout=1800)
    big = vlib.read_ndjson(bp)
    for e in big:
        if e['panic']:
            ctx.finding('tree.panic_escapes_decode', 'big program: %s; %s' % (e['panic'][:160], e['what']), e)
        for sig in (e['refwhy'], e['refgap']):
            if sig != 'ok' and sig.startswith(pref):
                ctx.finding(sig if sig.startswith('gaps.merge_slack') else sig + ':big_tree', e['what'], e)
    ctx.cov['big_trees'] = dict(programs=len(big), nodes=sum(e['nnodes'] for e in big))
    ctx.cov['evaluations'] += len(big)
    binding_demo(ctx, evs)
    return evs
