# C09 - Binary values obey bit-string algebra
import os, json, copy, hashlib, re
import vlib
from vlib import Inconclusive

LEVEL = 'model_checking'
META = dict(
    text=('Binary.tla is the reference bit-string model the property names: a binary is [bits, unit, start] and a RECURSIVE evaluator EvalB '
          'gives the value of every expression tree over strings, integers, big integers, (nested) binary arrays, tobits/tobytes with '
          'padding and range variants, .[i], .[a:b], .bits/.bytes, tonumber, tostring, explode, to_hex, .size/.start/.stop/.unit, length. '
          'TLC (1) checks the algebraic laws (split-and-concatenate, front padding of tobytes vs trailing padding of the byte view, '
          'unit-relative indices after reslicing, size/start/stop consistency, clamping) as invariants over every binary reachable from '
          'every short bit string, (2) emits every expression tree inside the constants (GEN) and random deeper ones (SIM) with jq text and '
          'predicted value, which the harness evaluates in real fq (CLI entry point, in-process) and compares, and (3) validates, event by '
          'event, operations that real fq applied to random contents up to 4 KiB, to big integers and to decode values of a decoded packet.'),
    note=('Exhaustive only inside the TLC constants recorded in the evidence (tlc_runs, gen_constants); random beyond. The quick tier draws '
          'its slice/index bounds from -4..20 by seed; the thorough tier uses all of them. Semantics the documentation leaves open were '
          'pinned from the code and DESIGN section 5 (size floors / stop rounds up, float members truncate, negative numbers outside arrays '
          'and bin-only operations on plain jq values are out of scope = "skip"). Real values are projected by a harness-registered jq '
          'function reading the binary through interp.ToBitReader plus .unit and .bits.start; a second jq-level view (tobits|explode) must agree.'),
    technique='TLA+ reference model (Binary.tla) + TLC invariants over the algebra + spec-emitted jq programs replayed on real fq + TLC trace validation of real operations',
)

ALL_POS = list(range(0, 21))
ALL_NEG = [1, 2, 3, 4]


def tla_set(xs):
    return '{' + ','.join(str(x) for x in sorted(xs)) + '}'


def mc_arm(ctx):
    thorough = ctx.tier == 'thorough'
    invs = ['TypeOK', 'Closed', 'SplitConcat', 'TobytesLeftPad', 'PadN', 'ByteViewRightPad', 'RangeKeys', 'ExplodeIndex',
            'IndexOfSlice', 'SliceClamps', 'UnitViews']

    def cfg(bits, steps, pos, neg):
        return ('SPECIFICATION Spec\nCONSTANTS MaxBits = %d\n MaxSteps = %d\n BoundsPos = %s\n BoundsNeg = %s\n%s\nCHECK_DEADLOCK FALSE\n'
                % (bits, steps, tla_set(pos), tla_set(neg), '\n'.join('INVARIANT ' + i for i in invs)))
    bits, steps = (8, 2) if thorough else (6, 1)
    r = ctx.tlc('BinaryMC', 'mc_laws.cfg', cfg_text=cfg(bits, steps, [0, 1, 2, 3, 5, 8, 9, 20], [1, 2, 4]), coverage=True, timeout=1500)
    ctx.tlc_expect_ok(r, 'BinaryMC laws')
    acts = getattr(r, 'actions', {})
    for a in ('DoSlice', 'DoUnit', 'DoConv', 'DoConcat'):
        if a not in acts or acts[a][1] == 0:
            raise Inconclusive('vacuous MC: action %s never fired (%s)' % (a, acts.get(a)))
    ctx.cov['mc_constants'] = dict(MaxBits=bits, MaxSteps=steps, laws=invs)
    # anti-vacuity of the laws: a model that pads tobytes at the END must be caught by TobytesLeftPad,
    # one whose .stop floors must be caught by RangeKeys
    src = open(os.path.join(vlib.SPEC, 'Binary.tla')).read()
    mutants = [('TobytesLeftPad', 'VBin(Zeros(p) \\o r.bits, unit, 0)', 'VBin(r.bits \\o Zeros(p), unit, 0)'),
               ('RangeKeys', 'VNat(CeilDiv(v.start + Len(v.bits), v.unit))', 'VNat((v.start + Len(v.bits)) \\div v.unit)')]
    seen = []
    for inv, old, new in mutants:
        if old not in src:
            raise Inconclusive('law anti-vacuity: anchor text missing in Binary.tla: ' + old)
        m = ctx.tlc('BinaryMC', 'mc_mut.cfg', cfg_text=cfg(4, 1, [0, 1, 3, 8], [1]), files={'Binary.tla': src.replace(old, new).encode()},
                    count=False, name='mc_mut_' + inv)
        seen.append(dict(model_mutant=inv, violated=m.violated))
        if not m.violated:
            raise Inconclusive('law anti-vacuity: wrong model (%s) passes every law' % inv)
    ctx.cov['law_anti_vacuity'] = seen


def gen_constants(ctx):
    if ctx.tier == 'thorough':
        return ALL_POS, ALL_NEG
    # quick: a seed-chosen subset of -4..20 that always has 0, a bound below 4, one around a byte boundary and one beyond every pool binary's unit count
    rng = ctx.rng
    pos = {0, rng.choice([1, 2, 3]), rng.choice([7, 8, 9]), rng.choice([15, 16, 17]), rng.choice([18, 19, 20])}
    while len(pos) < 6:
        pos.add(rng.randrange(1, 21))
    neg = set(rng.sample(ALL_NEG, 2))
    return sorted(pos), sorted(neg)


def gen_cfg(depth, pos, neg, pads, arrlen, rich, sim=False, arrat=None):
    return ('SPECIFICATION %s\nCONSTANTS Depth = %d\n BoundsPos = %s\n BoundsNeg = %s\n Pads = %s\n ArrLen = %d\n Rich = %s\n ArrAt = %d\n'
            '%sCHECK_DEADLOCK FALSE\n' % ('SimSpec' if sim else 'Spec', depth, tla_set(pos), tla_set(neg), tla_set(pads), arrlen,
                                         'TRUE' if rich else 'FALSE', depth if arrat is None else arrat, '' if sim else 'CONSTRAINT Emit\n'))


def op_count(txt):
    return txt.count('|')


def root_op(txt):
    m = re.search(r'\|([^|()]*(?:\(\d+\))?)\)$', txt)
    if not m:
        return 'array' if txt.startswith('[') else 'literal'
    o = m.group(1)
    o = re.sub(r'-?\d+', 'N', o)
    return o


def replay_arm(ctx, binp):
    thorough = ctx.tier == 'thorough'
    pos, neg = gen_constants(ctx)
    runs = []
    # GEN: every tree with <= 2 operation layers (arrays around computed values do not count as a layer)
    runs.append(('gen_d2', dict(cfg_text=gen_cfg(2, pos, neg, [0, 1, 2, 3], 1, False), timeout=1800), dict(depth=2, arrlen=1, rich=False)))
    if thorough:
        # literal arrays of two members (fast-path / slow-path pairs) under every conversion and a few bounds
        runs.append(('gen_d2_arr2', dict(cfg_text=gen_cfg(2, [0, 1, 9, 17], [1], [0, 1, 2, 3], 2, False, arrat=0), timeout=3000),
                     dict(depth=2, arrlen=2, rich=False, bounds='0,1,9,17,-1', arrays_around_computed=False)))
        # three layers over small pools (arrays only around one-layer values)
        runs.append(('gen_d3', dict(cfg_text=gen_cfg(3, [1, 9], [2], [0, 2], 0, False, arrat=1), timeout=3000),
                     dict(depth=3, arrlen=0, rich=False, bounds='1,9,-2', pads='0,2', arrays_around_layers=1)))
    else:
        runs.append(('gen_d2_arr2', dict(cfg_text=gen_cfg(1, pos, neg, [0, 1, 2, 3], 2, True), timeout=900),
                     dict(depth=1, arrlen=2, rich=True)))
    # SIM: random walks to depth 4 over the rich pools and all bounds
    nsim = 40000 if thorough else 2500
    runs.append(('sim_d4', dict(cfg_text=gen_cfg(4, ALL_POS, ALL_NEG, [0, 1, 2, 3], 2, True, sim=True), simulate='num=%d' % nsim, depth=12, timeout=3000),
                 dict(depth=4, arrlen=2, rich=True, behaviours=nsim)))
    cases, seen = [], set()
    info = []
    for name, kw, desc in runs:
        g = ctx.tlc('BinaryGen', name + '.cfg', name=name, **kw)
        if not kw.get('simulate'):
            ctx.tlc_expect_ok(g, name)
        elif g.rc not in (0,) or g.error or g.violated:
            ctx.tlc_expect_ok(g, name)
        n0 = len(cases)
        for c in g.printed:
            if not isinstance(c, dict) or 'txt' not in c:
                continue
            if c['txt'] in seen:
                continue
            seen.add(c['txt'])
            c['id'] = len(cases)
            c['run'] = name
            cases.append(c)
        info.append(dict(run=name, emitted=len(g.printed), new_distinct=len(cases) - n0, **desc))
        vlib.log('%s: %d emitted, %d new distinct programs' % (name, len(g.printed), len(cases) - n0))
    ctx.cov['gen_constants'] = dict(bounds_pos=pos, bounds_neg=neg, runs=info)
    if len(cases) < 5000:
        raise Inconclusive('GEN/SIM produced too few cases (%d)' % len(cases))
    cpath = os.path.join(ctx.build, 'cases.ndjson')
    with open(cpath, 'w') as f:
        for c in cases:
            f.write(json.dumps(dict(id=c['id'], txt=c['txt'])) + '\n')
    opath = os.path.join(ctx.build, 'results.ndjson')
    r = ctx.run([binp, 'replay', cpath, opath, '1000'], timeout=3000)
    if r.returncode == 4:
        hang_in_replay(ctx, binp, cases, r.stderr)
        return
    if r.returncode != 0:
        import sys
        sys.stderr.write(r.stderr[-3000:])
        raise Inconclusive('replay harness failed rc=%d' % r.returncode)
    outs = vlib.read_ndjson(opath)
    if len(outs) != len(cases):
        raise Inconclusive('replay returned %d results for %d cases' % (len(outs), len(cases)))
    kinds, nontrivial, bad = {}, 0, 0
    for c, o in zip(cases, outs):
        if o['id'] != c['id']:
            raise Inconclusive('replay result order')
        pred, got = c['pred'], o['got']
        kinds[pred['t']] = kinds.get(pred['t'], 0) + 1
        if op_count(c['txt']) >= 2:
            nontrivial += 1
        if pred != got:
            bad += 1
            sig = 'binary.expr.%s.%s-%s' % (root_op(c['txt']), pred['t'], got['t'])
            ctx.finding(sig, 'fq -n %r: model %s, fq %s' % (c['txt'], short(pred), short(got)), dict(txt=c['txt'], pred=pred, got=got, run=c['run']))
        elif got['t'] == 'bin' and o.get('xok') is not True:
            bad += 1
            ctx.finding('binary.view.tobits_explode', 'fq -n %r: `tobits|explode` of the result differs from the bits read through ToBitReader' % c['txt'],
                        dict(txt=c['txt'], got=got, x=o.get('x')))
    ctx.cov['evaluations'] += len(cases)
    ctx.cov['distinct_nontrivial'] += nontrivial
    ctx.cov['replayed_programs'] = len(cases)
    ctx.cov['replayed_by_predicted_kind'] = kinds
    ctx.cov['replay_mismatches'] = bad
    for i in (len(cases) // 3, len(cases) // 2, len(cases) - 1):
        ctx.sample(dict(kind='program emitted by TLC, evaluated by fq', txt=cases[i]['txt'], predicted=short(cases[i]['pred']), fq=short(outs[i]['got'])))


def hangs_alone(ctx, binp, txt, secs=20):
    """re-run one program alone, twice; True only if fq fails to return both times"""
    for _ in range(2):
        r = ctx.run([binp, 'one', txt], timeout=secs + 30, env={'C09_HANG_S': str(secs)})
        if r.returncode != 4:
            return False
    return True


def hang_in_replay(ctx, binp, cases, stderr):
    m = re.search(r'HANGCHUNK (\d+) (\d+)', stderr)
    if not m:
        raise Inconclusive('replay harness reported a hang without naming the chunk')
    lo, hi = int(m.group(1)), int(m.group(2))
    chunk = cases[lo:hi + 1]
    vlib.log('fq did not return on programs %d..%d; bisecting' % (lo, hi))
    # bisect with the harness itself (short deadline), then confirm the single program alone
    while len(chunk) > 1:
        half = chunk[:len(chunk) // 2]
        p = os.path.join(ctx.build, 'hang_cases.ndjson')
        with open(p, 'w') as f:
            for c in half:
                f.write(json.dumps(dict(id=c['id'], txt=c['txt'])) + '\n')
        r = ctx.run([binp, 'replay', p, p + '.out', '1000'], timeout=120, env={'C09_HANG_S': '20'})
        chunk = half if r.returncode == 4 else chunk[len(chunk) // 2:]
    c = chunk[0]
    if hangs_alone(ctx, binp, c['txt']):
        ctx.finding('binary.hang.' + root_op(c['txt']), 'fq -n %r does not return (model: %s)' % (c['txt'], short(c['pred'])),
                    dict(txt=c['txt'], pred=c['pred'], got=dict(t='hang'), run=c['run']))
        ctx.cov['replay_aborted_by_hang'] = True
    else:
        raise Inconclusive('a chunk of programs stalled once but no single program of it stalls alone')


def short(v):
    s = json.dumps(v, separators=(',', ':'))
    return s if len(s) <= 300 else s[:300] + '...'


def tv_arm(ctx, binp):
    thorough = ctx.tier == 'thorough'
    ntrees = 30000 if thorough else 3000
    evp = os.path.join(ctx.build, 'events_raw.ndjson')
    r = ctx.run([binp, 'rand', str(ntrees), evp], timeout=3000)
    if r.returncode not in (0, 4):
        import sys
        sys.stderr.write(r.stderr[-3000:])
        raise Inconclusive('random driver failed rc=%d' % r.returncode)
    raw = vlib.read_ndjson(evp)
    if r.returncode == 4:
        # fq did not return on one chunk of trees: find the tree(s) that stall alone; the events before the chunk are still validated
        stuck = [e for e in raw if e['o']['op'] == 'hangchunk']
        raw = [e for e in raw if e['o']['op'] != 'hangchunk']
        found = 0
        for e in stuck:
            rr = ctx.run([binp, 'one', e['txt']], timeout=60, env={'C09_HANG_S': '10'})
            if rr.returncode == 4 and hangs_alone(ctx, binp, e['txt']):
                found += 1
                ctx.finding('binary.hang.tree', 'fq -n %r does not return' % e['txt'][:400], dict(txt=e['txt']))
                if found >= 3:
                    break
        if not found:
            raise Inconclusive('random driver stalled once but no tree of the chunk stalls alone')
    events = []
    for e in raw:
        if e['o']['op'] == 'anomaly':
            ctx.finding('binary.no_output', 'expression produced neither a value nor an error: fq -n %r' % e.get('txt', '')[:400], e)
            continue
        events.append(e)
    if r.returncode == 4 and len(events) < 100:
        return
    if len(events) < ntrees // 2:
        raise Inconclusive('random driver produced too few events (%d)' % len(events))
    allp = os.path.join(ctx.build, 'events.ndjson')
    vlib.write_ndjson(allp, events)
    rej, skipl, _ = ctx.tv('TraceBinary', 'TraceBinary.cfg', allp, name='tv_binary', timeout=3000)
    ctx.cov['traces_validated_against_impl'] += len(events)
    ctx.cov['evaluations'] += len(events)
    ctx.cov['tv_events'] = len(events)
    ctx.cov['tv_events_out_of_scope'] = len(skipl)
    distinct, ops, big = set(), {}, 0
    for e in events:
        ops[e['o']['op']] = ops.get(e['o']['op'], 0) + 1
        n = len(e['in'].get('bits', e['in'].get('v', e['in'].get('bytes', []))))
        if n >= 8192:
            big += 1
        if e['in']['t'] in ('bin', 'arr', 'file') and n > 0:
            distinct.add(hashlib.sha1(json.dumps([e['o'], e['in'], e['out']], sort_keys=True).encode()).hexdigest())
    ctx.cov['distinct_nontrivial'] += len(distinct)
    ctx.cov['tv_events_by_op'] = ops
    ctx.cov['tv_events_operand_ge_1KiB'] = big
    for line, sig in rej:
        e = events[line - 1]
        ctx.finding(sig, 'operation %s on %s gave %s (tree: fq -n %r)' % (json.dumps(e['o']), short(e['in']), short(e['out']), e.get('txt', '')[:300]), e)
    small = [e for e in events if len(json.dumps(e)) < 600 and e['o']['op'] != 'dv']
    if small:
        ctx.sample(dict(kind='operation applied by real fq, validated by TLC', **{k: small[len(small) // 2][k] for k in ('o', 'in', 'out')}))
    dvs = [e for e in events if e['o']['op'] == 'dv' and len(e['out'].get('bits', [])) < 16]
    if dvs:
        ctx.sample(dict(kind='decode value as binary vs file bits', range=[dvs[0]['o']['a'], dvs[0]['o']['b']], out=dvs[0]['out']))

    # binding demonstration: damage single fields of recorded events, TLC must reject exactly those lines
    rejl = {l for l, _ in rej}
    def pick(pred):
        for i, e in enumerate(events):
            if (i + 1) not in rejl and len(json.dumps(e)) < 4000 and pred(e):
                return copy.deepcopy(e)
        raise Inconclusive('no event available for binding demo')
    good1 = pick(lambda e: e['o']['op'] == 'slice' and e['out']['t'] == 'bin' and len(e['out']['bits']) >= 2)
    bad1 = copy.deepcopy(good1); bad1['out']['bits'][-1] ^= 1               # one bit of a slice flipped
    bad2 = copy.deepcopy(good1); bad2['out']['start'] += bad2['out']['unit']  # range start one unit off
    good2 = pick(lambda e: e['o']['op'] in ('tobytes', 'tobytesn') and e['in']['t'] in ('num', 'bin') and e['out']['t'] == 'bin'
                 and len(e['out']['bits']) > len(e['in']['bits']))
    bad3 = copy.deepcopy(good2)                                             # padding moved from the front to the end
    k = len(bad3['out']['bits']) - len(bad3['in']['bits'])
    bad3['out']['bits'] = bad3['out']['bits'][k:] + [0] * k
    good3 = pick(lambda e: e['o']['op'] == 'explode' and len(e['out'].get('v', [])) >= 1)
    bad4 = copy.deepcopy(good3); bad4['out']['v'] = bad4['out']['v'][1:]    # one exploded unit dropped
    good4 = pick(lambda e: e['o']['op'] == 'stop')
    bad5 = copy.deepcopy(good4); bad5['out'] = dict(t='num', neg=False, bits=[1] + bad5['out']['bits'])
    demo = [good1, bad1, bad2, good2, bad3, good3, bad4, good4, bad5]
    expect = [2, 3, 5, 7, 9]
    if bad3['out']['bits'] == good2['out']['bits']:      # padded value was all zeros: moving the padding changes nothing
        demo, expect = [good1, bad1, bad2, good3, bad4, good4, bad5], [2, 3, 5, 7]
    ctx.binding_demo('TraceBinary', 'TraceBinary.cfg', demo, expect)


def run(ctx):
    ctx.cov['rule'] = ('GEN/SIM: distinct jq program texts emitted by TLC with a predicted value (not "skip"); non-trivial = at least two operations '
                       '(`|`) in the program. TV: one event per operation real fq applied inside seeded random trees; non-trivial = distinct '
                       '(operation, operand, result) with a non-empty binary / array / file operand.')
    ctx.assumptions += ['the model IS the reference: a mismatch on a real run is a finding; semantics open in doc/usage.md pinned as in DESIGN section 5',
                        'projection of a real binary: bits via interp.ToBitReader, unit via .unit, bit offset via .bits.start; cross-checked with jq-level tobits|explode',
                        'decode values: range taken from the jq-visible _start/_stop keys (their correctness is C03), bits compared with the file bytes by TLC',
                        'MC/GEN bounds: see mc_constants, gen_constants, tlc_runs']
    ctx.cov['trusted_base'].append('harness/c09/main.go proj(): type switch mapping real jq values to Binary.tla value records (no semantics)')
    mc_arm(ctx)
    binp = ctx.go_build('c09')
    replay_arm(ctx, binp)
    tv_arm(ctx, binp)


def replay(ctx, path):
    case = json.load(open(path))['case']
    binp = ctx.go_build('c09')
    if 'txt' in case and 'pred' in case:
        r = ctx.run([binp, 'one', case['txt']], check=True, timeout=120)
        got = json.loads(r.stdout.strip().splitlines()[-1]).get('got')
        print('program:', case['txt']); print('model  :', short(case['pred'])); print('fq     :', short(got))
        if got != case['pred']:
            ctx.finding(json.load(open(path))['sig'], 'replayed: still differs', case)
    else:
        p = os.path.join(ctx.build, 'one_event.ndjson')
        vlib.write_ndjson(p, [{k: case[k] for k in ('o', 'in', 'out')}])
        rej, _, _ = ctx.tv('TraceBinary', 'TraceBinary.cfg', p, name='tv_replay')
        print('event rejected by TraceBinary' if rej else 'event accepted by TraceBinary')
        if rej:
            ctx.finding(rej[0][1], 'replayed recorded event: rejected', case)
