# C20 - An interrupt cancels exactly the innermost running evaluation, safely
import os, re, json, copy
import vlib
import replarm
from vlib import Inconclusive

LEVEL = 'model_checking'
META = dict(
    text=('CtxStack.tla (PlusCal) models the evaluating goroutine and the trigger goroutine of internal/ctxstack at the grain of the Go '
          'memory accesses, unlocked as in the pinned tree and with the mutex / entry-flag repairs as constants; TLC checks Innermost, '
          'Enclosing, Finished, StopAll, NoCrash, NoRace, deadlock freedom and termination exhaustively inside the constants. '
          'CtxStackSeq.tla states the stack semantics of push / finish (any entry: out of order, twice, late) / interrupt / stop; TLC emits '
          'every operation sequence inside the constants with the cancelled-set required after every operation, the harness applies them to '
          'the real ctxstack.Stack and compares ctx.Err() (and a CtxWriter write) of every context ever pushed after every operation. '
          'Seeded random sequential histories, traced two-goroutine histories (linearisability) and nested pkg/interp evaluations interrupted '
          'through OS.InterruptChan are validated event by event by TLC trace specs; a two-goroutine driver runs under the Go race detector. '
          'CtxReadSeeker.tla models internal/ctxreadseeker (the context-aware reader under every opened file: caller, loop goroutine, '
          'canceller; channel operations and accesses to the call\'s result variables with vector clocks, so a data race is an unordered '
          'conflicting pair as in the Go memory model). TLC checks the repaired protocol (a done channel per call) for race freedom, true '
          'results, termination of the loop goroutine and of the caller, and keeps the code as it was and the tempting buffered-channel '
          'repair as violated witnesses; traces of the real reader over a gated source (cancellation before / during / after each call), '
          'recorded under the race detector, are validated by TraceCtxRS.tla with the hand-over and the close as silent steps. '
          'Repl.tla states the read-eval-print loop (pkg/interp/repl.jq) as a function from loop state (nested levels with their inputs and '
          'options, the slurps) and one answer of the line reader to the next state and the lines printed - including an interrupt at the '
          'prompt, while a line runs (after a nested evaluation of it finished, failed to compile, or was abandoned) and while `F | repl` '
          'collects; ReplMC model checks that an interrupt ends the innermost evaluation only, TLC emits every one-line script and random '
          'longer sessions, the real `fq -i` runs them on a scripted line reader with interrupts through OS.InterruptChan(), and '
          'TraceRepl.tla judges every prompt (the loop\'s own projection of its state), every printed line and the end of every session.'),
    note=('Exhaustive only inside the TLC constants recorded in the evidence (tlc_runs, seq_gen_exhaustive); random histories and OS-scheduled '
          'interleavings beyond. The PlusCal model is bound to the code by reading (one label per memory access), by the sequential GEN/TV arms, '
          'by linearisability checking of traced two-goroutine histories and by the race detector; TLC\'s NoCrash counterexample schedule is '
          'replayed through scheduler gates on the real code only when the verifHook call sites (repo_patches/C20-hooks.diff) are in the tree '
          '(evidence: gate_replay). Data races are those the Go race detector sees on the schedules that actually occurred. Known defects of '
          'the pinned tree: D7 (unsynchronised cancelFns: race + index crash) and D20 (late finish re-slices cancelFns), recognised by signature.'),
    technique=('TLA+/PlusCal spec (CtxStack.tla) + TLC exhaustive MC of the as-built and repaired designs + TLC-emitted operation sequences '
               'replayed on ctxstack.Stack + TLC trace validation of sequential, concurrent (linearisability) and interp-level histories + '
               'Go race detector on a two-goroutine driver; Repl.tla/ReplMC (the REPL loop) model checked, its TLC-emitted sessions run by the real fq -i and validated by TraceRepl.tla'),
)

# ---- signatures of the defects of the pinned tree (see known_findings.txt)
SIG_D20 = 'ctxstack.late_finish_reslice'
# D7: no lock at all around cancelFns in the pinned ctxstack.go.  Recognised by the STATEMENTS of the pinned source that the
# report points at (robust against line shifts, e.g. by the hook one-liners) in a ctxstack.go that has no mutex at all:
# the trigger goroutine (New.func1, pinned lines 32/33) against Push (54: the context handed over through the slice,
# 57: append) and the pop closure (69: re-slice).
PINNED_TRIG = {'if len(s.cancelFns) > 0 {', 's.cancelFns[len(s.cancelFns)-1]()'}
PINNED_EVAL = {'stackCtx, stackCtxCancel := context.WithCancel(parent)', 's.cancelFns = append(s.cancelFns, stackCtxCancel)',
               's.cancelFns = s.cancelFns[0:stackIdx]'}
SIG_D7_RACE = 'race:ctxstack.go:unlocked-cancelFns:New.func1~Push'
SIG_D7_CRASH = 'crash:ctxstack.go:unlocked-cancelFns:New.func1:index-out-of-range'

_src = {}


def stmt(frame):
    """source statement a report frame (func, file, line, path) points at, in the tree under test"""
    path = frame[3]
    if path not in _src:
        try:
            _src[path] = open(path).read().split('\n')
        except OSError:
            _src[path] = []
    lines = _src[path]
    return lines[frame[2] - 1].strip() if 0 < frame[2] <= len(lines) else ''


def unlocked(frame):
    stmt(frame)
    return not any('sync.' in l or 'atomic.' in l for l in _src.get(frame[3], ['sync.']))


def mc_cfg(locked, flag, push, depth, intr, calls, props, atomic_index=False):
    return ('SPECIFICATION Spec\nCONSTANTS Locked = %s\n EntryFlag = %s\n AtomicIndex = %s\n MaxPush = %d\n MaxDepth = %d\n MaxIntr = %d\n MaxCalls = %d\n%s\n'
            % ('TRUE' if locked else 'FALSE', 'TRUE' if flag else 'FALSE', 'TRUE' if atomic_index else 'FALSE', push, depth, intr, calls, props))


ALL_PROPS = ('INVARIANT NoCrash NoRace StopAll FinishedCancelled Consistent\n'
             'PROPERTY Innermost Enclosing Finished Termination')


def mc_arm(ctx):
    """Exhaustive model checking of the designs. Model results are not verdicts about the code (G1): they say what to expect."""
    thorough = ctx.tier == 'thorough'
    small = (3, 3, 2, 2)
    big = (4, 4, 3, 2) if thorough else small
    mc = ctx.cov.setdefault('mc', {})
    # repaired design (mutex + entry flag): everything holds, deadlock check on, liveness under weak fairness
    r = ctx.tlc('CtxStack', 'mc_fixed.cfg', cfg_text=mc_cfg(True, True, *big, ALL_PROPS), timeout=1500, coverage=True)
    ctx.tlc_expect_ok(r, 'CtxStack locked+entry-flag satisfies all properties')
    acts = getattr(r, 'actions', {})
    dead = [a for a, (n, _) in acts.items() if n == 0 and a not in ('Terminating',)]
    if not acts or dead:
        raise Inconclusive('vacuous MC: actions never taken: %s' % (dead or 'no coverage output'))
    mc['repaired_all_properties_hold'] = dict(constants=big, distinct=r.distinct, actions_fired=len(acts))
    # as built (no lock, closure-local flag): NoCrash and NoRace fail  == defect D7 in the model
    for inv in ('NoCrash', 'NoRace'):
        r = ctx.tlc('CtxStack', 'mc_built_%s.cfg' % inv, cfg_text=mc_cfg(False, False, *small, 'INVARIANT ' + inv), timeout=600, count=False)
        if r.rc == 124:
            raise Inconclusive('TLC timeout (as-built %s)' % inv)
        mc['as_built_unlocked_violates_' + inv] = (r.violated == inv)
        if r.violated != inv:
            raise Inconclusive('as-built (unlocked) model no longer violates %s: model broken? rc=%s violated=%s' % (inv, r.rc, r.violated))
    # the same fault at the grain at which Go source can be gated (index expression = one step): schedule for the gate replay
    r = ctx.tlc('CtxStack', 'mc_built_NoCrash_stmt.cfg', cfg_text=mc_cfg(False, False, *small, 'INVARIANT NoCrash', atomic_index=True), timeout=600, count=False)
    if r.violated != 'NoCrash':
        raise Inconclusive('as-built model at statement grain does not violate NoCrash: rc=%s violated=%s' % (r.rc, r.violated))
    cex = r.rundir
    # as built keeps the rest (what fails is exactly safety of the shared slice)
    if thorough:
        r = ctx.tlc('CtxStack', 'mc_built_rest.cfg', cfg_text=mc_cfg(False, False, *small, 'INVARIANT StopAll FinishedCancelled\nPROPERTY Termination'), timeout=1500)
        ctx.tlc_expect_ok(r, 'as-built model: StopAll, FinishedCancelled, Termination')
    # mutex only (closure-local flag kept): Innermost fails == defect D20 in the model; everything else holds
    r = ctx.tlc('CtxStack', 'mc_lockonly_innermost.cfg', cfg_text=mc_cfg(True, False, *small, 'PROPERTY Innermost'), timeout=600, count=False)
    mc['mutex_only_violates_Innermost'] = (r.violated == 'Innermost')
    if r.violated != 'Innermost':
        raise Inconclusive('mutex-only model no longer violates Innermost (D20): rc=%s violated=%s' % (r.rc, r.violated))
    r = ctx.tlc('CtxStack', 'mc_lockonly_rest.cfg', cfg_text=mc_cfg(True, False, *small,
                'INVARIANT NoCrash NoRace StopAll FinishedCancelled\nPROPERTY Enclosing Finished Termination'), timeout=1500)
    ctx.tlc_expect_ok(r, 'mutex-only model: all but Innermost')
    return cex


# ------------------------------------------------------------------------------------------------ sequential arms
def to_events(ops, got, w=None):
    evs = [dict(op='reset', o='', a=0, id=0, got=[], w=[])]
    n = 0
    for k, o in enumerate(ops):
        if o['op'] == 'push':
            n += 1
        evs.append(dict(op=o['op'], o='', a=o['a'], id=(n if o['op'] == 'push' else 0), got=got[k], w=(w[k] if w else [1 - x for x in got[k]])))
    return evs


def describe(ops):
    return ' '.join(o['op'] + ('(%d)' % o['a'] if o['op'] in ('fin', 'push') else '') for o in ops)


def classify_tv(ctx, events, name):
    """Run the sequential trace spec; returns (rejects {line: sig}, drift lines)."""
    p = os.path.join(ctx.build, name + '.ndjson')
    vlib.write_ndjson(p, events)
    rej, drift, res = ctx.tv('TraceCtxStack', 'TraceCtxStack.cfg', p, name=name)
    return dict(rej), drift, res


def report_seq(ctx, sig, ops, got, where, line_in_history):
    what = '%s: %s: after operation %d the cancelled-vector is %s' % (where, describe(ops[:line_in_history]), line_in_history, got)
    ctx.finding(sig, what, dict(kind='seq', ops=ops))


def seq_gen_arm(ctx, binp):
    thorough = ctx.tier == 'thorough'
    maxpush, maxlen = (4, 8) if thorough else (4, 7)
    g = ctx.tlc('CtxStackSeqGen', 'gen.cfg', timeout=3000, workers=1,
                cfg_text='SPECIFICATION GSpec\nCONSTANTS MaxPush = %d\n MaxLen = %d\n Parents = "top"\nCONSTRAINT Emit\nCHECK_DEADLOCK FALSE\n' % (maxpush, maxlen))
    ctx.tlc_expect_ok(g, 'CtxStackSeqGen')
    cases = g.printed
    if len(cases) < 10000:
        raise Inconclusive('GEN produced too few sequences: %d' % len(cases))
    cpath = os.path.join(ctx.build, 'seq_cases.ndjson')
    vlib.write_ndjson(cpath, [dict(ops=c['ops']) for c in cases])
    opath = os.path.join(ctx.build, 'seq_out.ndjson')
    run_harness(ctx, [binp, 'replay', cpath, opath], 'replay', timeout=1200)
    outs = vlib.read_ndjson(opath)
    if len(outs) != len(cases):
        raise Inconclusive('replay returned %d results for %d cases' % (len(outs), len(cases)))
    bad = []
    agree_built = 0
    nontrivial = 0
    for c, o in zip(cases, outs):
        ops = c['ops']
        kinds = {x['op'] for x in ops}
        if sum(1 for x in ops if x['op'] == 'push') >= 2 and ('intr' in kinds or 'stop' in kinds) and 'fin' in kinds:
            nontrivial += 1
        if o['panic']:
            ctx.finding('ctxstack.seq_panic', 'replay of %s panics: %s' % (describe(ops), o['panic']), dict(kind='seq', ops=ops))
            continue
        if o['got'] == c['built']:
            agree_built += 1
        wbad = [k for k in range(len(ops)) if o['w'][k] != [1 - x for x in o['got'][k]]]
        if wbad:
            ctx.finding('iox.ctxwriter_write_vs_cancellation', 'CtxWriter accepted/refused a write against ctx.Err() after %s' % describe(ops[:wbad[0] + 1]),
                        dict(kind='seq', ops=ops))
        if o['got'] != c['req']:
            bad.append((c, o))
    ctx.cov['evaluations'] += sum(len(c['ops']) for c in cases)
    ctx.cov['seq_gen_exhaustive'] = dict(max_push=maxpush, max_len=maxlen, sequences=len(cases), operations_checked=sum(len(c['ops']) for c in cases),
                                         rejected_sequences=len(bad), identical_to_pinned_transcription=agree_built)
    ctx.cov['distinct_nontrivial'] += nontrivial
    vs = lambda vv: ' '.join(''.join(map(str, v)) for v in vv)
    ctx.sample(dict(kind='TLC-emitted sequence replayed on ctxstack.Stack', ops=describe(cases[len(cases) // 2]['ops']),
                    required_cancelled_after_each_op=vs(cases[len(cases) // 2]['req']), real=vs(outs[len(cases) // 2]['got'])))
    d20_seen = False
    if bad:
        # TLC classifies every rejected observation (signature per event)
        evs, owner = [], []
        for c, o in bad[:4000]:
            for k, e in enumerate(to_events(c['ops'], o['got'], o['w'])):
                evs.append(e); owner.append((c, o, k))
        rej, _, _ = classify_tv(ctx, evs, 'tv_seq_classify')
        seen_case = set()
        for line in sorted(rej):
            c, o, k = owner[line - 1]
            if id(c) in seen_case:
                continue            # first rejected operation of each sequence decides
            seen_case.add(id(c))
            sig = rej[line]
            d20_seen = d20_seen or sig == SIG_D20
            report_seq(ctx, sig, c['ops'], o['got'][k - 1], 'TLC-emitted sequence', k)
        if len(seen_case) != len(bad[:4000]):
            raise Inconclusive('python comparison and TLC classification disagree: %d vs %d rejected sequences' % (len(bad[:4000]), len(seen_case)))
    return cases, outs, d20_seen


def seq_rand_arm(ctx, binp, cases, outs):
    thorough = ctx.tier == 'thorough'
    n = 12000 if thorough else 2000
    rp = os.path.join(ctx.build, 'rand_events.ndjson')
    run_harness(ctx, [binp, 'rand', str(n), rp], 'rand', timeout=1200)
    events = vlib.read_ndjson(rp)
    rej, drift, _ = classify_tv(ctx, events, 'tv_seq_rand')
    ctx.cov['traces_validated_against_impl'] += n
    ctx.cov['evaluations'] += len(events) - n
    ctx.cov['seq_random'] = dict(histories=n, events=len(events) - n, rejected_events=len(rej),
                                 events_differing_from_pinned_transcription=len(drift))
    # histories: split on reset
    start = [i for i, e in enumerate(events) if e['op'] == 'reset']
    bounds = start + [len(events)]
    deep = 0
    d20_seen = False
    for h in range(len(start)):
        evs = events[bounds[h] + 1:bounds[h + 1]]
        kinds = {e['op'] for e in evs}
        if sum(1 for e in evs if e['op'] == 'push') >= 3 and 'intr' in kinds and 'fin' in kinds:
            deep += 1
        first = next((l for l in range(bounds[h] + 2, bounds[h + 1] + 1) if l in rej), None)
        if first is not None:
            k = first - (bounds[h] + 1)     # 1-based op index inside the history
            ops = [dict(op=e['op'], a=e['a']) for e in evs]
            d20_seen = d20_seen or rej[first] == SIG_D20
            report_seq(ctx, rej[first], ops, events[first - 1]['got'], 'random history', k)
    ctx.cov['distinct_nontrivial'] += deep
    ctx.sample(dict(kind='random sequential history (first events)', events=[(e['op'], e['a'], ''.join(map(str, e['got']))) for e in events[1:12]]))

    # binding demonstration (anti-vacuity) on real recorded outputs
    k = next((i for i, c in enumerate(cases) if [o['op'] for o in c['ops'][:3]] == ['push'] * 3 and outs[i]['got'] == c['req']), None)
    if k is None:
        raise Inconclusive('no sequence available for the binding demo')
    ev = to_events(cases[k]['ops'][:3], outs[k]['got'][:3], outs[k]['w'][:3])
    corrupt = copy.deepcopy(ev[2]); corrupt['got'][0] = 1 - corrupt['got'][0]
    demo = [ev[0], ev[1], corrupt, ev[0], ev[1], ev[3]]          # line 3: one flipped bit; line 6: the second push event removed
    ctx.binding_demo('TraceCtxStack', 'TraceCtxStack.cfg', demo, [3, 6], name='demo_seq')
    return d20_seen


# ------------------------------------------------------------------------------------------------ running the harness
RACE_BLOCK = re.compile(r'WARNING: DATA RACE\n(.*?)\n==================', re.S)
ACCESS = re.compile(r'^(?:Read|Write|Previous read|Previous write|Atomic read|Previous atomic read|Atomic write|Previous atomic write) at \S+ by [^\n]*:\n((?:  \S[^\n]*\n      [^\n]*\n)+)', re.M)
FRAME = re.compile(r'  (\S+?)\(\)?\n      (\S+?):(\d+)')
PANIC = re.compile(r'^(panic: [^\n]*|fatal error: [^\n]*)\n(.*?)(?:\n\n|\Z)', re.M | re.S)


def fq_frame(frames):
    """First frame that is fq code (not the harness, not the Go runtime / standard library)."""
    for fn, path, line in frames:
        if '/internal/verif/' in path or 'wader/fq/internal/verif' in fn:
            continue
        if 'github.com/wader/fq/' in fn:
            return (fn.split('/')[-1], os.path.basename(path), int(line), path)
    return None


def parse_stderr(stderr):
    """-> (races [(sideA, sideB)], panics [(message, fq frame or None)]) with side = (func, file, line) or None"""
    races = []
    for m in RACE_BLOCK.finditer(stderr):
        sides = []
        for a in ACCESS.finditer(m.group(1) + '\n'):
            sides.append(fq_frame(FRAME.findall(a.group(1))))
        races.append(tuple(sides[:2]))
    panics = []
    for m in PANIC.finditer(stderr):
        fr = re.findall(r'^(\S+)\([^()\n]*\)\n\t(\S+?):(\d+)', m.group(2) + '\n' + stderr[m.end():m.end() + 4000], re.M)
        panics.append((re.sub(r'\d+', 'N', m.group(1)), fq_frame(fr)))
    return races, panics


def race_sig(sides):
    named = [s for s in sides if s]
    if not named:
        return None
    if len(named) == 2 and all(s[1] == 'ctxstack.go' and unlocked(s) for s in named):
        trig = [s for s in named if s[0] == 'ctxstack.New.func1' and stmt(s) in PINNED_TRIG]
        ev = [s for s in named if s[0].startswith('ctxstack.(*Stack).Push') and stmt(s) in PINNED_EVAL]
        if len(trig) == 1 and len(ev) == 1:
            return SIG_D7_RACE
    return 'race:' + '~'.join(sorted('%s:%s:%d' % (s[1], s[0], s[2]) for s in named))


def panic_sig(msg, frame):
    if (frame and frame[1] == 'ctxstack.go' and frame[0] == 'ctxstack.New.func1' and 'index out of range' in msg
            and stmt(frame) == 's.cancelFns[len(s.cancelFns)-1]()' and unlocked(frame)):
        return SIG_D7_CRASH
    if frame:
        return 'crash:%s:%s:%d:%s' % (frame[1], frame[0], frame[2], re.sub(r'[^A-Za-z]+', '-', msg)[:60])
    return None


class _Res:
    pass


def run_with_dump(ctx, cmd, timeout, env):
    """like ctx.run, but a run that exceeds the timeout is asked for a goroutine dump (SIGQUIT) before it is killed"""
    import subprocess, signal
    e = dict(os.environ); e.update(vlib.GOENV)
    e['VERIF_SEED'] = str(ctx.seed); e['VERIF_TIER'] = ctx.tier
    if env:
        e.update(env)
    p = subprocess.Popen(cmd, cwd=ctx.build, env=e, stdout=subprocess.PIPE, stderr=subprocess.PIPE, text=True)
    r = _Res(); r.stalled = False
    try:
        r.stdout, r.stderr = p.communicate(timeout=timeout)
    except subprocess.TimeoutExpired:
        r.stalled = True
        p.send_signal(signal.SIGQUIT)
        try:
            r.stdout, r.stderr = p.communicate(timeout=20)
        except subprocess.TimeoutExpired:
            p.kill()
            r.stdout, r.stderr = p.communicate()
    r.returncode = p.returncode
    return r


def run_harness(ctx, cmd, what, timeout=600, env=None):
    """Run a harness mode. Crashes, hangs and race reports of fq code are findings; anything else unexpected is inconclusive.
    Returns dict(rc, races, crashed)."""
    r = run_with_dump(ctx, cmd, timeout, env)
    if r.stalled:
        # the driver did not finish: goroutine dump taken with SIGQUIT. fq code waiting inside ctxstack (or interp.Stop) is a deadlock
        # of the code under test if it reproduces; anything else is machinery.
        blocked = sorted(set(re.findall(r'(github\.com/wader/fq/(?:internal/ctxstack|pkg/interp)\.[^\s(]+(?:\([^)]*\))?[^\s(]*)\(', r.stderr)))
        r2 = run_with_dump(ctx, cmd, timeout, env)
        if r2.stalled and any('ctxstack' in b for b in blocked):
            ctx.finding('ctxstack.deadlock', '%s: driver stalled twice (%ds); goroutines blocked in %s' % (what, timeout, blocked[:6]),
                        dict(kind='hang', mode=cmd[1:], stderr=r.stderr[:6000]))
            return dict(rc=4, races=0, crashed=True, d7=False)
        raise Inconclusive('%s: driver stalled (%ds) %s' % (what, timeout, 'once' if not r2.stalled else 'twice, no ctxstack frame in the dump'))
    races, panics = parse_stderr(r.stderr)
    st = ctx.cov.setdefault('harness_runs', {}).setdefault(what, dict(runs=0, race_reports=0, crashes=0))
    st['runs'] += 1
    st['race_reports'] += len(races)
    res = dict(rc=r.returncode, races=0, crashed=False, d7=False)
    for sides in races:
        sig = race_sig(sides)
        if sig is None:
            ctx.inconc('%s: DATA RACE report naming no fq code (harness bug?)' % what)
            continue
        res['races'] += 1
        res['d7'] = res['d7'] or sig == SIG_D7_RACE
        ctx.finding(sig, '%s: DATA RACE between %s and %s' % (what, sides[0] and sides[0][:3], sides[1][:3] if len(sides) > 1 and sides[1] else None), dict(kind='race', mode=cmd[1:], sides=sides))
    if r.returncode == 3:
        raise Inconclusive('harness machinery error in %s: %s' % (what, r.stderr[-400:]))
    if r.returncode == 4 or 'all goroutines are asleep' in r.stderr:
        m = re.search(r'HANG: [^\n]*', r.stderr)
        ctx.finding('ctxstack.deadlock', '%s: %s' % (what, m.group(0) if m else 'all goroutines are asleep - deadlock'), dict(kind='hang', mode=cmd[1:], stderr=r.stderr[-3000:]))
        res['crashed'] = True
        return res
    for msg, frame in panics:
        if 'all goroutines are asleep' in msg:
            continue
        sig = panic_sig(msg, frame)
        if sig is None:
            raise Inconclusive('%s: crash outside fq code: %s' % (what, msg))
        st['crashes'] += 1
        res['crashed'] = True
        res['d7'] = res['d7'] or sig == SIG_D7_CRASH
        ctx.finding(sig, '%s: %s at %s' % (what, msg, frame and frame[:3]), dict(kind='crash', mode=cmd[1:], stderr=r.stderr[-3000:]))
    if r.returncode not in (0, 66) and not res['crashed']:
        raise Inconclusive('%s: harness exit %d without a recognised report: %s' % (what, r.returncode, r.stderr[-600:]))
    return res



# ------------------------------------------------------------------------------------------------ the context-aware file reader
def ctxrs_cfg(variant, invs=(), props=(), ncalls=3):
    return ('SPECIFICATION FairSpec\nCONSTANTS\n NCalls = %d\n Variant = "%s"\n%s%sCHECK_DEADLOCK FALSE\n'
            % (ncalls, variant, ''.join('INVARIANT %s\n' % i for i in invs), ''.join('PROPERTY %s\n' % q for q in props)))


def ctxrs_arm(ctx):
    """internal/ctxreadseeker (the reader under every opened file): CtxReadSeeker.tla model checked in its three variants, then traces of
    the real reader over a gated source, recorded under the race detector, validated by TraceCtxRS.tla."""
    th = ctx.tier == 'thorough'
    n = 4 if th else 3
    r = ctx.tlc('CtxReadSeeker', 'cx.cfg', cfg_text=ctxrs_cfg('percall', ('TypeOK', 'NoRace', 'ResultsTrue', 'OkMeansDone'), ('LoopEnds', 'CallerEnds'), n), name='mc_ctxrs_as_repaired', timeout=900)
    ctx.tlc_expect_ok(r, 'CtxReadSeeker as repaired')
    wit = {}
    for variant, inv, prop in (('built', 'NoRace', None), ('built', 'NeverParked', None), ('built', None, 'LoopEnds'), ('buffered', 'ResultsTrue', None), ('buffered', 'OkMeansDone', None)):
        r = ctx.tlc('CtxReadSeeker', 'cxw.cfg', cfg_text=ctxrs_cfg(variant, (inv,) if inv else (), (prop,) if prop else ()), name='mc_ctxrs_witness_%s_%s' % (variant, inv or prop), count=False, timeout=600)
        wit['%s:%s' % (variant, inv or prop)] = bool(r.violated)
    ctx.cov['ctxreadseeker_model'] = dict(as_repaired_states=getattr(r, 'distinct', None), witnesses_violated=wit)
    if not all(wit.values()):
        raise Inconclusive('CtxReadSeeker witness variants unexpectedly hold (model vacuous?): %s' % wit)
    # scenarios: where the cancellation is placed relative to the calls; each repeated (the scheduler decides the rest)
    scen = []
    for calls in (1, 2, 3):
        scen.append(dict(calls=calls, at='never', call=0, release=''))
        for c in range(1, calls + 1):
            scen.append(dict(calls=calls, at='before', call=c, release=''))
            scen.append(dict(calls=calls, at='after', call=c, release=''))
            for rel in ('before_return', 'after_return'):
                scen.append(dict(calls=calls, at='during', call=c, release=rel))
    scen = scen * (6 if th else 2)
    binr = ctx.go_build('ctxrs', race=True)
    cp = os.path.join(ctx.build, 'ctxrs_cases.ndjson'); op = os.path.join(ctx.build, 'ctxrs_traces.ndjson')
    vlib.write_ndjson(cp, scen)
    res = run_harness(ctx, [binr, 'replay', cp, op], 'ctxreadseeker scenarios', timeout=900, env={'GORACE': 'atexit_sleep_ms=0 history_size=3'})
    if res['crashed']:
        return
    trs = vlib.read_ndjson(op)
    if len(trs) != len(scen):
        raise Inconclusive('ctxrs harness returned %d traces for %d scenarios' % (len(trs), len(scen)))
    run_harness(ctx, [binr, 'storm', str(6000 if th else 1500)], 'ctxreadseeker storm', timeout=900, env={'GORACE': 'atexit_sleep_ms=0 history_size=3'})
    conv = lambda t: [dict(op=e['op'], k=e['k'], cls=e['cls']) for e in t['events']]
    traces = [conv(t) for t in trs] + [[]]       # the empty last trace makes the reset check the end of the one before it
    rej = ctx.tv_stateful('TraceCtxRS', 'TraceCtxRS.cfg', traces, name='tv_ctxrs', reset_event=dict(op='reset', k=0, cls=''))
    ctx.cov['traces_validated_against_impl'] += len(trs)
    ctx.cov['evaluations'] += sum(len(t['events']) for t in trs)
    ctx.cov['ctxreadseeker_traces'] = dict(scenarios=len(scen), events=sum(len(t['events']) for t in trs),
                                           cancelled_in_flight=sum(1 for t in trs if t['sc']['at'] == 'during' and any(e['op'] == 'ret' and e['cls'] == 'ctx' and e['k'] == t['sc']['call'] for e in t['events'])),
                                           rejected=len(rej))
    for ti, k in rej:
        if ti >= len(trs):
            continue
        t = trs[ti]
        ended = k >= len(t['events'])        # every event is a step, but the trace ends with the loop goroutine still there
        what = 'loop goroutine still there at the end' if ended else 'event %d (%s) is not a step of CtxReadSeeker.tla' % (k, t['events'][k])
        ctx.finding('ctxrs.trace_rejected.' + ('not_ended' if ended else t['events'][k]['op']),
                    'scenario %s: %s; events %s' % (t['sc'], what, [(e['op'], e['k'], e['cls']) for e in t['events']]), dict(kind='ctxrs', trace=t))
    for t in trs:
        if not t['closed'] or t['leaked'] > 0:
            ctx.finding('ctxrs.loop_goroutine_not_ended', 'scenario %s: source closed=%s, goroutines left over=%d, 300 ms after the context was cancelled' % (t['sc'], t['closed'], t['leaked']), dict(kind='ctxrs', trace=t))
        if not t['payload']:
            ctx.finding('ctxrs.ok_return_with_foreign_bytes', 'scenario %s: a call returned ok with bytes its own underlying call did not produce' % t['sc'], dict(kind='ctxrs', trace=t))
    # binding demonstration: corrupted traces must be rejected where they were corrupted
    good = next(conv(t) for t in trs if t['sc']['at'] == 'after' and t['sc']['calls'] == 2 and t['sc']['call'] == 2)
    a = [dict(e) for e in good]; i = next(j for j, e in enumerate(a) if e['op'] == 'under_end'); a[i], a[i + 1] = a[i + 1], a[i]      # ok return before the underlying call ended
    b = [e for e in good if e['op'] != 'closed']                                                                                    # the loop goroutine never ended
    c = [dict(e) for e in good]; j = next(j for j, e in enumerate(c) if e['op'] == 'ret'); c[j]['cls'] = 'ctx'                          # refused although nothing was cancelled
    drej = sorted(ctx.tv_stateful('TraceCtxRS', 'TraceCtxRS.cfg', [good, a, good, b, good, c, []], name='tv_ctxrs_demo', reset_event=dict(op='reset', k=0, cls=''), count=False))
    ok = [x[0] for x in drej] == [1, 3, 5] and drej[1][1] == len(b)
    ctx.cov['binding_demo'].append(dict(spec='TraceCtxRS', corrupted_traces=[1, 3, 5], rejected=[list(x) for x in drej], ok=ok,
                                        note='trace 3 (no closed event) is rejected at its end: the next reset requires the loop goroutine gone'))
    if not ok:
        raise Inconclusive('binding demo failed for TraceCtxRS: %s' % drej)


# ------------------------------------------------------------------------------------------------ concurrent arms
def race_arm(ctx):
    thorough = ctx.tier == 'thorough'
    binr = ctx.go_build('c20', race=True)
    procs, rounds, iters = (40, 8, 6000) if thorough else (8, 6, 4000)
    tot = dict(races=0, crashed=0, d7=False)
    for p in range(procs):
        res = run_harness(ctx, [binr, 'race', str(rounds), str(iters)], 'race', timeout=900, env={'VERIF_SEED': str(ctx.seed * 1000 + p)})
        tot['races'] += res['races']; tot['crashed'] += res['crashed']; tot['d7'] = tot['d7'] or res['d7']
    ctx.cov['race_driver'] = dict(processes=procs, rounds_per_process=rounds, push_pop_iterations_per_round=iters,
                                  race_reports_naming_fq=tot['races'], processes_crashed=tot['crashed'])
    ctx.cov['evaluations'] += procs * rounds * iters
    return binr, tot


def conc_arm(ctx, binp, binr, late, racy):
    """Traced two-goroutine histories, linearisability against the as-required stack model (stateful trace spec)."""
    thorough = ctx.tier == 'thorough'
    runs = 8 if thorough else 2
    n = 400 if thorough else 250
    tot_ev = tot_h = tot_over = 0
    demo_src = None
    for k in range(runs):
        b = binr if k % 2 else binp          # alternate the plain and the race-instrumented binary (different timing)
        cp = os.path.join(ctx.build, 'conc_%d.ndjson' % k)
        res = run_harness(ctx, [b, 'conc', str(n), cp, '1' if late else '0'], 'conc', timeout=900, env={'VERIF_SEED': str(ctx.seed * 100 + k)})
        if res['crashed']:
            continue                          # the crash was reported; the partial log is not judged
        events = vlib.read_ndjson(cp)
        traces = []
        for e in events:
            if e['op'] == 'reset':
                traces.append([])
            else:
                traces[-1].append(e)
        inop = False
        for e in events:
            if e['op'] in ('call', 'ocall'):
                inop = True
            elif e['op'] in ('ret', 'oret'):
                inop = False
            elif inop:
                tot_over += 1
        rej = ctx.tv_stateful('TraceCtxStackConc', 'TraceCtxStackConc.cfg', traces, name='tv_conc_%d' % k,
                              reset_event=dict(op='reset', o='', a=0, id=0, got=[]))
        tot_ev += len(events); tot_h += len(traces)
        for ti, ei in rej:
            t = traces[ti]
            what = 'concurrent history rejected at event %d (%s): %s' % (ei, t[ei] if ei < len(t) else None,
                                                                          [(e['op'], e['o'], e['a']) if e['op'] == 'call' else (e['op'], e['got']) if e['op'] == 'oret' else e['op'] for e in t[:ei + 1]][-14:])
            # a program with a data race has no defined behaviour: on a tree on which the D7 race was observed in this run,
            # a non-linearisable history is another face of D7; anywhere else it is a violation
            ctx.finding(SIG_D7_RACE if racy else 'ctxstack.history_not_linearizable', what, dict(kind='conc', trace=t))
        if demo_src is None:
            bad = {ti for ti, _ in rej}
            demo_src = next((t for i, t in enumerate(traces) if i not in bad and sum(1 for e in t if e['op'] == 'call' and e['o'] == 'push') >= 2
                             and len(t) >= 12), None)
    ctx.cov['traces_validated_against_impl'] += tot_h
    ctx.cov['conc_histories'] = dict(histories=tot_h, events=tot_ev, interrupt_events_inside_an_evaluator_bracket=tot_over, late_finishes_generated=bool(late))
    ctx.cov['evaluations'] += tot_ev
    # binding demo for the stateful spec: flip one observed bit / drop one push call; each must be rejected at the expected event
    if demo_src is None:
        if tot_h:
            raise Inconclusive('no accepted concurrent history for the binding demo')
        return
    t = demo_src
    orets = [i for i, e in enumerate(t) if e['op'] == 'oret' and e['got']]
    ci = orets[len(orets) // 2]
    t1 = copy.deepcopy(t); t1[ci]['got'][-1] = 1 - t1[ci]['got'][-1]
    pi = [i for i, e in enumerate(t) if e['op'] == 'call' and e['o'] == 'push'][1]
    t2 = t[:pi] + t[pi + 1:]
    rej = ctx.tv_stateful('TraceCtxStackConc', 'TraceCtxStackConc.cfg', [t, t1, t2], name='demo_conc', count=False,
                          reset_event=dict(op='reset', o='', a=0, id=0, got=[]))
    got = sorted(rej)
    first_oret_after = next(i for i in range(pi, len(t2)) if t2[i]['op'] == 'oret')
    # a flipped bit may be explainable only up to an earlier point, never later than the corrupted event
    ok = (len(got) == 2 and got[0][0] == 1 and got[0][1] <= ci and got[1][0] == 2 and got[1][1] <= first_oret_after)
    ctx.cov['binding_demo'].append(dict(spec='TraceCtxStackConc', corrupted=[dict(trace=1, event=ci), dict(trace=2, removed_event=pi)],
                                        rejected=[list(x) for x in got], ok=ok))
    if not ok:
        raise Inconclusive('binding demo failed for TraceCtxStackConc: %s' % got)


def interp_arm(ctx):
    """pkg/interp level: nested eval/1 evaluations interrupted through OS.InterruptChan() / stopped with Interp.Stop(), observed
    through the virtual stdout (output of a cancelled evaluation must not appear), validated by the sequential trace spec; and a storm
    of short nested evaluations against a free-running interrupter under the race detector."""
    thorough = ctx.tier == 'thorough'
    bini = ctx.go_build('c20/interpdrv', race=True)
    runs = 160 if thorough else 24
    ip = os.path.join(ctx.build, 'interp_events.ndjson')
    res = run_harness(ctx, [bini, 'nested', str(runs), ip], 'interp_nested', timeout=1500 if ctx.tier == 'thorough' else 420)
    nev = 0
    if not res['crashed']:
        events = vlib.read_ndjson(ip)
        nev = len(events)
        rej, _, _ = classify_tv(ctx, events, 'tv_interp')
        start = [i for i, e in enumerate(events) if e['op'] == 'reset'] + [len(events)]
        for h in range(len(start) - 1):
            first = next((l for l in range(start[h] + 2, start[h + 1] + 1) if l in rej), None)
            if first is not None:
                evs = events[start[h] + 1:first]
                ctx.finding('interp.' + rej[first].split('.', 1)[-1],
                            'nested eval/1 levels at pkg/interp, interrupts through OS.InterruptChan: %s: observed cancelled levels %s, writes %s'
                            % (describe([dict(op=e['op'], a=e['a']) for e in evs]), evs[-1]['got'], evs[-1]['w']),
                            dict(kind='interp', events=evs))
        ctx.cov['traces_validated_against_impl'] += runs
        ctx.cov['evaluations'] += nev - runs
        ctx.sample(dict(kind='pkg/interp nested eval history (depth 3)',
                        events=next(([(e['op'], e['a'], ''.join(map(str, e['got']))) for e in events[start[h] + 1:start[h + 1]]]
                                     for h in range(len(start) - 1) if start[h + 1] - start[h] > 8), None)))
    sruns = 60 if thorough else 8
    res2 = run_harness(ctx, [bini, 'storm', str(sruns)], 'interp_storm', timeout=1500 if ctx.tier == 'thorough' else 420)
    ctx.cov['interp_level'] = dict(nested_runs=runs, nested_events=nev, storm_runs=sruns, storm_race_reports=res2['races'])


GATE_POINTS = {'p_elem': ('EV', 'push.append'), 'c_trunc': ('EV', 'pop.truncate'), 's_len': ('EV', 'stop'),
               't_len': ('TR', 'trigger.len'), 't_len2': ('TR', 'trigger.index')}


def schedule_from_counterexample(stdout_path):
    """TLC counterexample of CtxStack.tla -> events for `c20 gate` (operation starts, interrupts, hook points passed)."""
    txt = open(stdout_path, errors='replace').read()
    states = re.split(r'\nState \d+: ', txt)[1:]
    evs, prev_intr = [], 0
    for st in states:
        head = st.split('\n', 1)[0]
        m = re.match(r'<(\w+) line', head)
        v = dict(re.findall(r'/\\ (\w+) = ([^\n]*)', st))
        intr = int(v.get('intr', '0'))
        if m:
            lab = m.group(1)
            pcs = re.findall(r'"(\w+)"', v.get('pc', ''))
            if lab == 'ev_loop' and pcs:
                if pcs[0] == 'p_lock':
                    evs.append(dict(k='op', op='push', a=0))
                elif pcs[0] == 'c_lock':
                    evs.append(dict(k='op', op='fin', a=int(v['cur'])))
                elif pcs[0] == 's_lock':
                    evs.append(dict(k='op', op='stop', a=0))
            elif lab == 't_wait' and intr > prev_intr:
                evs.append(dict(k='intr'))
            elif lab in GATE_POINTS:
                evs.append(dict(k='gate', who=GATE_POINTS[lab][0], point=GATE_POINTS[lab][1]))
        prev_intr = intr
    return evs


def gate_arm(ctx, cex_rundir):
    """Replay TLC's NoCrash counterexample of the unlocked model through the scheduler gates on the real code (DESIGN C20 (a)).
    Only possible when the verifHook call sites (repo_patches/C20-hooks.diff) are in the tree."""
    if not os.path.exists(os.path.join(vlib.REPO, 'internal', 'ctxstack', 'hook_verif.go')):
        ctx.cov['gate_replay'] = 'skipped: verifHook call sites (repo_patches/C20-hooks.diff) are not in the tree'
        return
    evs = schedule_from_counterexample(os.path.join(cex_rundir, 'stdout.txt'))
    if sum(1 for e in evs if e['k'] == 'gate') < 3 or not any(e['k'] == 'intr' for e in evs):
        raise Inconclusive('could not derive a gate schedule from the TLC counterexample: %s' % evs)
    sp = os.path.join(ctx.build, 'gate_schedule.json')
    json.dump(evs, open(sp, 'w'))
    bing = ctx.go_build('c20', name='c20_gate', tags='verif,verifhooks')
    r = ctx.run([bing, 'gate', sp], timeout=120)
    out = None
    for line in r.stdout.splitlines():
        if line.startswith('{'):
            out = json.loads(line)
    # a crash (the fault the schedule predicts) is parsed and reported by run_harness; run it through the same path
    res = run_harness(ctx, [bing, 'gate', sp], 'gate', timeout=120) if r.returncode != 0 else dict(crashed=False)
    ctx.cov['gate_replay'] = dict(schedule=[(e.get('who') or 'EV' if e['k'] != 'intr' else 'TR', e.get('point') or e.get('op') or 'interrupt') for e in evs],
                                  outcome=('fault reproduced: process died' if res['crashed'] else out))
    ctx.cov['evaluations'] += len(evs)
    if not res['crashed'] and out is None:
        raise Inconclusive('gate replay gave no outcome: rc=%s %s' % (r.returncode, r.stderr[-400:]))


def run(ctx):
    orig_tlc = ctx.tlc

    def tlc_retry(*a, **k):
        # other builders share the machine and `pkill` TLC processes: a run killed by a signal is repeated
        for attempt in range(4):
            r = orig_tlc(*a, **k)
            if r.rc not in (-15, -9, 143, 137):
                return r
            vlib.log('TLC run was killed by a signal (rc=%s), repeating' % r.rc)
        return r
    ctx.tlc = tlc_retry
    ctx.cov['rule'] = ('An evaluation = one operation (push/finish/interrupt/stop/observation) applied to a real ctxstack.Stack with ctx.Err() of '
                       'every context compared. distinct non-trivial = TLC-emitted sequences with >= 2 pushes, a finish and an interrupt or stop '
                       '(all distinct by construction) + random histories with >= 3 pushes, an interrupt and a finish.')
    ctx.assumptions += ['the stack model of CtxStackSeq.tla is the meaning of "innermost evaluation in progress": finishing an evaluation ends '
                        'everything nested inside it; a finish of an evaluation that is no longer in progress changes nothing',
                        'contexts whose parent context is cancelled count as cancelled (package context semantics)',
                        'data races are those the Go race detector reports on the schedules that occurred; the PlusCal model covers all '
                        'interleavings of the modelled memory accesses inside the constants',
                        'Stop is called once; nothing is pushed after Stop']
    ctx.cov['trusted_base'] += ['checks/c20.py: equality of recorded vectors with TLC-emitted expectations; stderr parser for DATA RACE / panic reports',
                                'harness/c20/main.go: rig (controllable trigger function; interrupt = trigger returns once, acknowledged when the '
                                'trigger function is called again)']
    cex = mc_arm(ctx)
    binp = ctx.go_build('c20')
    cases, outs, d20a = seq_gen_arm(ctx, binp)
    d20b = seq_rand_arm(ctx, binp, cases, outs)
    binr, tot = race_arm(ctx)
    # late finishes are only generated in concurrent histories if the sequential arms did not show D20 (otherwise every such
    # history is rejected for the known sequential reason and the concurrent question is not answered)
    conc_arm(ctx, binp, binr, late=not (d20a or d20b), racy=tot['d7'])
    interp_arm(ctx)
    gate_arm(ctx, cex)
    ctxrs_arm(ctx)
    replarm.repl_arm(ctx)


def replay(ctx, path):
    """Re-run one recorded sequential case on the real code and judge it with the trace spec."""
    rec = json.load(open(path))
    case = rec.get('case') or {}
    if case.get('kind') != 'seq':
        raise Inconclusive('only sequential cases can be replayed deterministically (this one: %s)' % case.get('kind'))
    binp = ctx.go_build('c20')
    cp = os.path.join(ctx.build, 'replay_case.ndjson'); op = os.path.join(ctx.build, 'replay_out.ndjson')
    vlib.write_ndjson(cp, [dict(ops=case['ops'])])
    run_harness(ctx, [binp, 'replay', cp, op], 'replay')
    o = vlib.read_ndjson(op)[0]
    if o['panic']:
        ctx.finding('ctxstack.seq_panic', 'replay panics: ' + o['panic'], case)
        return
    rej, _, _ = classify_tv(ctx, to_events(case['ops'], o['got'], o['w']), 'tv_replay')
    for line in sorted(rej)[:1]:
        report_seq(ctx, rej[line], case['ops'], o['got'][line - 2], 'replayed case', line - 1)
