# C02 - Scalar readers return the mathematical value of the bits they consume
import os, json, copy, collections, threading
from concurrent.futures import ThreadPoolExecutor
import vlib
from vlib import Inconclusive

LEVEL = 'model_checking'
META = dict(
    text=('Scalar.tla (on Bits.tla) defines, for every reader family of pkg/decode, the value of the bits at the position and the bits '
          'consumed as pure operators on bit sequences (U, S two\'s complement, LE at whole-byte widths, big integers, fixed point, '
          'IEEE 16/32/64/80 via decomposition and the float64 grid, ULEB128/SLEB128 with overflow, unary, bool, UTF-8/UTF-16 fixed, '
          'null-terminated and length-prefixed text) plus the failure condition of each read. TLC (1) model-checks the transcribed case '
          'analyses of trySEndian, ReverseBytes64 and tryBigIntEndianSign against S/SwapBytes for every width, (2) emits the exhaustive '
          'boundary family of every reader with the required value and position, replayed on the real readers - every name variant in its '
          'Try/plain/TryFieldScalar/FieldScalar/TryField/Field form, called by name at every bit alignment - and (3) decides every event of '
          'a seeded random trace of real reads (trace validation).'),
    note=('Exhaustive over the boundary family recorded in the evidence (gen_cases), sampled beyond it (random trace). Not generated: the '
          'non-whole-byte little-endian variants (U9LE..U63LE etc., outside the statement), invalid text encodings, 80-bit encodings the '
          'format itself declares invalid (only required not to crash), Raw/BitBuf readers (C01/C05). 80-bit floats: either float64 '
          'neighbour of the exact value is accepted. Known defects are recognised by signature: D9 ULEB128.ge_2p63.err_instead_of_value, '
          'D24 F.80.exp_{above,below}_f64.wrong_value and F.80.nan.wrong_value, C02-N1 form:TryField.crash.when_read_fails.'),
    technique=('TLA+ spec (Bits.tla, Scalar.tla) + TLC exhaustive MC of as-built transcriptions + TLC-emitted boundary cases replayed on the '
               'real readers via reflection + TLC trace validation of seeded random real reads'),
)

KILLED = (143, 137, 130, 129)   # another builder's `pkill tlc2.TLC` on this shared machine


def tlc_retry(ctx, *a, **kw):
    for attempt in range(3):
        r = ctx.tlc(*a, **kw)
        if r.rc not in KILLED:
            return r
        vlib.log('TLC run killed by a signal (rc=%s), retrying' % r.rc)
    return r


def retry_killed(ctx, fn):
    """ctx.tv / ctx.binding_demo raise Inconclusive when TLC dies; retry when it was killed by a signal"""
    for attempt in range(3):
        try:
            return fn(attempt)
        except Inconclusive:
            runs = ctx.cov['tlc_runs']
            if runs and runs[-1]['rc'] in KILLED and attempt < 2:
                vlib.log('TLC run killed by a signal, retrying')
                continue
            raise


# ------------------------------------------------------------------ 1. MC
MC_ACTIONS = ['NoSwap'] + ['Swap%d' % i for i in range(1, 9)] + ['Negative', 'NonNegative', 'BigOnly']


def mc_arm(ctx):
    thorough = ctx.tier == 'thorough'

    def cfg(maskoff, maxexh, two, bigw, invs):
        return ('SPECIFICATION Spec\nCONSTANTS MaxExh = %d\n Two = %s\n BigW = {%s}\n SignOff = 1\n MaskOff = %d\nINVARIANTS %s\nCHECK_DEADLOCK FALSE\n'
                % (maxexh, 'TRUE' if two else 'FALSE', ', '.join(map(str, bigw)), maskoff, invs))
    bigw = [65, 127, 128, 129, 255, 256] + ([511, 512] if thorough else [])
    r = tlc_retry(ctx, 'ScalarMC', 'mc.cfg', cfg_text=cfg(0, 11 if thorough else 8, thorough, bigw, 'URefines UInWidth SRefines BigRefines'),
                  coverage=True, timeout=1500, name='mc_asbuilt')
    ctx.tlc_expect_ok(r, 'as-built trySEndian/ReverseBytes64/tryBigIntEndianSign refine S/SwapBytes/BigU/BigS')
    acts = getattr(r, 'actions', {})
    dead = [a for a in MC_ACTIONS if acts.get(a, (0, 0))[0] == 0]
    if dead:
        raise Inconclusive('vacuous MC: actions never fired: %s' % dead)
    ctx.cov['mc_as_built'] = dict(states=r.distinct, action_counts={a: acts[a][0] for a in MC_ACTIONS})
    # anti-vacuity: a one-off slip of the mask shift in the transcription must be found by the same invariants
    r2 = tlc_retry(ctx, 'ScalarMC', 'mc_slip.cfg', cfg_text=cfg(1, 4, False, [65], 'SRefines'), count=False, timeout=600, name='mc_slip')
    if r2.violated != 'SRefines':
        raise Inconclusive('MC anti-vacuity failed: mask slip not detected (rc=%s violated=%s)' % (r2.rc, r2.violated))
    ctx.cov['mc_detects_mask_slip'] = True


# ------------------------------------------------------------------ 2. GEN + replay
def gen_cfg(fam, thorough):
    return 'SPECIFICATION GSpec\nCONSTANTS Fam = "%s"\n Thorough = %s\nCONSTRAINT Emit\nCHECK_DEADLOCK FALSE\n' % (fam, 'TRUE' if thorough else 'FALSE')


MIN_CASES = dict(int=40000, big=10000, float=15000, fp=1500, leb=6000, bits=200, text=5000, err=800, int2=100000, int3=30000, f16all=65536)


def crash_sig(form, case):
    return 'form:%s.crash.%s' % (form, 'when_read_fails' if (case['err'] or case['lax']) else '%s.%s' % (case['k'], case['tag']))


def fail_sig(case, f):
    if f['failure'] == 'crash':
        return crash_sig(f['form'], case)
    return '%s.%s.%s' % (case['k'], case['tag'], f['failure'])


def bits_str(b):
    return ''.join(map(str, b))


def describe(case, fails):
    f = fails[0]
    got = f['got']
    gv = got['v']
    if got['crash']:
        g = 'crash: ' + got.get('detail', '')
    elif got['err']:
        g = 'error: ' + got.get('detail', '')
    else:
        g = 'value neg=%s mag=%s f64=%s cps=%s pos=+%d fld=%s' % (gv['neg'], bits_str(gv['mag']), bits_str(gv['f64']), gv['cps'], got['pos'], got['fld'])
    w = case['want']
    want = 'an error and no value' if case['err'] else 'neg=%s mag=%s f64=%s cps=%s pos=+%d' % (
        w['neg'], bits_str(w['mag']), '|'.join(bits_str(p) for p in w['f64']) + (' NaN' if w['nan'] else ''), w['cps'], case['n'])
    return '%s (%d call forms, e.g. %s) on bits %s at alignment %d (w=%d f=%d le=%s): got %s; Scalar.tla requires %s' % (
        f['failure'], len(fails), f['m'], bits_str(case['bits']), case['al'], case['w'], case['f'], case['le'], g, want)


def replay_cases(ctx, binp, cases, tag):
    cpath = os.path.join(ctx.build, 'cases_%s.ndjson' % tag)
    vlib.write_ndjson(cpath, cases)
    rpath = os.path.join(ctx.build, 'replay_%s.ndjson' % tag)
    ctx.run([binp, 'replay', cpath, rpath], check=True, timeout=3000)
    res = vlib.read_ndjson(rpath)
    if not res or not res[-1].get('summary'):
        raise Inconclusive('harness replay of %s wrote no summary' % tag)
    return res[:-1], res[-1]


def gen_arm(ctx, binp):
    thorough = ctx.tier == 'thorough'
    fams = ['int', 'big', 'float', 'fp', 'leb', 'bits', 'text', 'err'] + (['int2', 'int3', 'f16all'] if thorough else [])
    results = {}

    def one(fam):
        r = tlc_retry(ctx, 'ScalarGen', 'gen_%s.cfg' % fam, cfg_text=gen_cfg(fam, thorough), timeout=3000, workers=4,
                      name='gen_' + fam, count=False, heap='6g')
        results[fam] = r
    # TLC's initial-state enumeration is mostly single-threaded: run the families side by side
    with ThreadPoolExecutor(max_workers=3 if thorough else 4) as ex:
        list(ex.map(one, fams))
    gen_counts, methods = {}, set()
    total_cases = total_calls = 0
    nontrivial = set()
    fail_groups = collections.OrderedDict()   # sig -> list of (case, fails)
    for fam in fams:
        r = results[fam]
        ctx.tlc_expect_ok(r, 'ScalarGen ' + fam)
        ctx.cov['states'] += r.distinct
        ctx.cov['transitions'] += r.generated
        cases = r.printed
        r.printed = None
        if len(cases) < MIN_CASES[fam] or len(cases) != r.distinct:
            raise Inconclusive('GEN %s produced %d cases (%d states), expected at least %d' % (fam, len(cases), r.distinct, MIN_CASES[fam]))
        if not all(c['selfok'] for c in cases):
            raise Inconclusive('Scalar.tla is not self-consistent on a generated text case (framing vs encoder relation)')
        gen_counts[fam] = len(cases)
        failing, summ = replay_cases(ctx, binp, cases, fam)
        if summ['cases'] != len(cases):
            raise Inconclusive('harness replayed %d of %d cases' % (summ['cases'], len(cases)))
        total_cases += summ['cases']
        total_calls += summ['calls']
        methods.update(summ['methods'])
        for c in cases:
            b = c['bits']
            if 0 in b and 1 in b:
                nontrivial.add((c['k'], c['w'], c['f'], c['le'], bits_str(b)))
        if fam == 'int':
            ctx.sample(dict(kind='GEN case (TLC expectation) replayed on %d real calls' % (summ['calls'] // max(1, summ['cases'])), **cases[len(cases) // 3]))
        if fam == 'float':
            ctx.sample(dict(kind='GEN case', **cases[len(cases) // 2]))
        # confirm every failing case once (G1), then group by signature
        if failing:
            sub = [cases[fr['i']] for fr in failing]
            again, _ = replay_cases(ctx, binp, sub, fam + '_confirm')
            again = {sub_i: fr for sub_i, fr in ((fr['i'], fr) for fr in again)}
            for j, fr in enumerate(failing):
                case = cases[fr['i']]
                second = again.get(j)
                if second is None:
                    ctx.inconc('failure of %s case %d did not reproduce on re-run' % (fam, fr['i']))
                    continue
                bysig = collections.OrderedDict()
                for f in second['fails']:
                    bysig.setdefault(fail_sig(case, f), []).append(f)
                for sig, fl in bysig.items():
                    fail_groups.setdefault(sig, []).append((case, fl))
        del cases
    for sig, lst in fail_groups.items():
        for case, fl in lst:
            ctx.finding(sig, describe(case, fl), dict(mode='gen', case=case))
    ctx.cov['gen_cases'] = gen_counts
    ctx.cov['gen_cases_total'] = total_cases
    ctx.cov['real_calls_replayed'] = total_calls
    ctx.cov['evaluations'] += total_calls
    ctx.cov['gen_failure_signatures'] = {s: len(l) for s, l in fail_groups.items()}
    return methods, nontrivial


# ------------------------------------------------------------------ 3. random trace, validated by TLC
def ev_what(e, sig):
    v = e['v']
    if e['crash']:
        g = 'crashed'
    elif e['err']:
        g = 'returned an error'
    else:
        g = 'returned neg=%s mag=%s f64=%s cps=%s pos=+%d fld=%s' % (v['neg'], bits_str(v['mag']), bits_str(v['f64']), v['cps'], e['pos'], e['fld'])
    return '%s: %s at alignment %d over available bits %s %s; rejected by TraceScalar' % (sig, e['m'], e['al'], bits_str(e['avail'][:160]), g)


def tv_arm(ctx, binp, methods, nontrivial):
    thorough = ctx.tier == 'thorough'
    n = 300000 if thorough else 40000
    evp = os.path.join(ctx.build, 'rand_events.ndjson')
    ctx.run([binp, 'rand', str(n), evp], check=True, timeout=3000)
    events = vlib.read_ndjson(evp)
    if len(events) != n:
        raise Inconclusive('random driver wrote %d of %d events' % (len(events), n))
    rej = []
    CH = 100000
    for off in range(0, n, CH):
        part = os.path.join(ctx.build, 'rand_events_%d.ndjson' % off)
        vlib.write_ndjson(part, events[off:off + CH])
        rj, _, res = retry_killed(ctx, lambda a: ctx.tv('TraceScalar', 'TraceScalar.cfg', part, name='tv_rand_%d_%d' % (off, a), timeout=3000))
        rej += [(off + l, s) for l, s in rj]
    ctx.cov['traces_validated_against_impl'] += n
    ctx.cov['evaluations'] += n
    ctx.cov['tv_events'] = n
    ctx.cov['tv_events_by_kind'] = dict(collections.Counter(e['k'] for e in events))
    ctx.cov['tv_events_reads_that_failed'] = sum(1 for e in events if e['err'])
    for e in events:
        methods.add(e['m'])
        b = e['avail']
        if 0 in b and 1 in b:
            nontrivial.add((e['k'], e['w'], e['f'], e['le'], bits_str(b)))
    # confirm rejected events by executing the same calls again and validating the fresh events (G1)
    if rej:
        rp = os.path.join(ctx.build, 'rej_events.ndjson')
        vlib.write_ndjson(rp, [events[l - 1] for l, _ in rej])
        rp2 = os.path.join(ctx.build, 'rej_events_rerun.ndjson')
        ctx.run([binp, 'rerun', rp, rp2], check=True, timeout=3000)
        rj2, _, _ = retry_killed(ctx, lambda a: ctx.tv('TraceScalar', 'TraceScalar.cfg', rp2, name='tv_confirm_%d' % a, count=False, timeout=3000))
        fresh = vlib.read_ndjson(rp2)
        conf = dict(rj2)
        for idx, (l, sig) in enumerate(rej):
            if (idx + 1) not in conf:
                ctx.inconc('rejected event at line %d did not reproduce on re-run' % l)
                continue
            sig2 = conf[idx + 1]
            ctx.finding(sig2, ev_what(fresh[idx], sig2), dict(mode='tv', event=fresh[idx]))
    ctx.cov['tv_rejected_events'] = len(rej)
    ctx.sample(dict(kind='random real read validated by TraceScalar', **events[7]))
    ctx.sample(dict(kind='random real read validated by TraceScalar', **events[len(events) // 2]))
    return events, {l for l, _ in rej}


def demo_arm(ctx, events, rejected):
    """binding demonstration: corrupt one field of recorded events; TraceScalar must reject exactly those lines"""
    def pick(pred):
        for i, e in enumerate(events):
            if (i + 1) not in rejected and not e['err'] and not e['crash'] and pred(e):
                return copy.deepcopy(e)
        raise Inconclusive('no event for binding demo')
    a = pick(lambda e: e['k'] == 'S' and len(e['v']['mag']) > 3)
    b = pick(lambda e: e['k'] == 'U' and e['le'] and e['w'] >= 16 and len(e['v']['mag']) > 3)
    c = pick(lambda e: e['k'] == 'F' and e['w'] == 32 and len(e['v']['f64']) == 64)
    d = pick(lambda e: e['k'].startswith('UTF16') and len(e['v']['cps']) >= 2)
    g = pick(lambda e: e['k'] == 'SLEB128' and len(e['v']['mag']) > 2)
    h = pick(lambda e: e['k'] == 'UBigInt' and e['w'] > 64 and len(e['v']['mag']) > 60)
    err = None
    for i, e in enumerate(events):
        if e['err'] and (i + 1) not in rejected and e['k'] in ('U', 'S') and e['form'] == 'Try':
            err = copy.deepcopy(e)
            break
    if err is None:
        raise Inconclusive('no failed read for binding demo')
    a2 = copy.deepcopy(a); a2['v']['neg'] = not a2['v']['neg']                 # sign flipped
    b2 = copy.deepcopy(b); b2['v']['mag'][-1] ^= 1                             # lowest bit flipped
    c2 = copy.deepcopy(c); c2['v']['f64'][40] ^= 1                             # one fraction bit flipped
    d2 = copy.deepcopy(d); d2['v']['cps'][0] += 1; d2['v']['sb'] = list(chr(d2['v']['cps'][0]).encode()) + d2['v']['sb'][len(chr(d['v']['cps'][0]).encode()):]
    g2 = copy.deepcopy(g); g2['pos'] += 8                                      # position advanced by one byte too many
    h2 = copy.deepcopy(h); h2['v']['mag'][30] ^= 1
    e2 = copy.deepcopy(err); e2['err'] = False                                 # a value where the read cannot be satisfied
    tr = [a, a2, b, b2, c, c2, d, d2, g, g2, h, h2, err, e2]
    retry_killed(ctx, lambda a: ctx.binding_demo('TraceScalar', 'TraceScalar.cfg', tr, [2, 4, 6, 8, 10, 12, 14], name='TraceScalar_%d' % a))


# ------------------------------------------------------------------ reader inventory (evidence only)
def reader_inventory(methods):
    try:
        t = json.load(open(os.path.join(vlib.REPO, 'pkg', 'decode', 'types.json')))
    except Exception:
        return None
    names, out_of_scope = [], []
    for r in t['readers']:
        for v in r['variants']:
            rng = v.get('range')
            ns = range(rng[0], rng[1]) if rng else [None]
            for n in ns:
                base = r['name'] + (v['name'].replace('$n', str(n)) if n is not None else v['name'])
                oos = r['name'] == 'Raw' or (n is not None and v['name'].endswith('LE') and n % 8 != 0)
                for form in ('Try', '', 'TryFieldScalar', 'FieldScalar', 'TryField', 'Field'):
                    (out_of_scope if oos else names).append(form + base)
    called = [m for m in names if m in methods]
    missing = [m for m in names if m not in methods]
    return dict(reader_methods_in_scope=len(names), reader_methods_called=len(called), not_called=missing[:40],
                out_of_scope_methods=len(out_of_scope),
                out_of_scope='Raw* (bit buffers: C01/C05) and little-endian variants at non-whole-byte widths (not in the statement)')


def run(ctx):
    ctx.cov['rule'] = ('distinct (reader family, width, fraction/unary parameter, endian, bit pattern at the position) inputs read through the real '
                       'readers, GEN cases plus random events, whose pattern contains both a 0 and a 1 (all-zero / all-one inputs are the trivial ones)')
    ctx.assumptions += [
        'the harness converts results to the spec representation with math/big (Text(2), Abs, Sign), math.Float64bits and []rune(string); '
        'TraceScalar re-encodes the code points (UTF8(cps) = raw string bytes) so the []rune conversion is itself checked on every text event',
        'replay compares real results with TLC-computed expectations by equality only (membership for the 80-bit neighbours; NaN = exponent all ones, fraction non-zero)',
        '80-bit floats: either float64 neighbour of the exact value accepted (DESIGN C02 baseline); unnormal/pseudo-inf/pseudo-NaN encodings are not judged',
        'over-long LEB128 encodings (> 10 bytes) whose value fits are not judged (value or error both accepted)',
        'a plain-form read reports failure by a recoverable panic (decode.IOError / DecoderError); any other panic counts as a crash',
    ]
    ctx.cov['trusted_base'] += ['harness/c02 natBits/toOval: math/big Text(2)/Abs/Sign, math.Float64bits, []rune(string) (about 40 lines)',
                                'harness/c02 pack(): bit list -> bytes of the test buffer',
                                'harness/c02 compare(): equality against TLC-emitted expectations (replay arm only; the trace arm is decided by TLC)']
    mc_arm(ctx)
    binp = ctx.go_build('c02')
    methods, nontrivial = gen_arm(ctx, binp)
    events, rejected = tv_arm(ctx, binp, methods, nontrivial)
    demo_arm(ctx, events, rejected)
    ctx.cov['distinct_nontrivial'] += len(nontrivial)
    inv = reader_inventory(methods)
    if inv:
        ctx.cov['reader_inventory'] = inv
        if inv['reader_methods_called'] < inv['reader_methods_in_scope']:
            ctx.cov['reader_inventory_note'] = 'some in-scope generated methods were not called in this run (random form/variant choice covers the rest across seeds)'
    ctx.cov['distinct_methods_called'] = len(methods)


def replay(ctx, path):
    """bin/check C02 --replay <file>: run the recorded case / event on the real readers again and judge it again."""
    rec = json.load(open(path))
    case = rec.get('case') or {}
    binp = ctx.go_build('c02')
    if case.get('mode') == 'gen':
        c = case['case']
        failing, summ = replay_cases(ctx, binp, [c], 'replay')
        ctx.cov['evaluations'] += summ['calls']
        for fr in failing:
            bysig = collections.OrderedDict()
            for f in fr['fails']:
                bysig.setdefault(fail_sig(c, f), []).append(f)
            for sig, fl in bysig.items():
                ctx.finding(sig, describe(c, fl), case)
    elif case.get('mode') == 'tv':
        p1 = os.path.join(ctx.build, 'replay_event.ndjson')
        vlib.write_ndjson(p1, [case['event']])
        p2 = os.path.join(ctx.build, 'replay_event_rerun.ndjson')
        ctx.run([binp, 'rerun', p1, p2], check=True, timeout=600)
        rj, _, _ = ctx.tv('TraceScalar', 'TraceScalar.cfg', p2, name='tv_replay')
        ev = vlib.read_ndjson(p2)[0]
        ctx.cov['evaluations'] += 1
        ctx.cov['traces_validated_against_impl'] += 1
        for _, sig in rj:
            ctx.finding(sig, ev_what(ev, sig), dict(mode='tv', event=ev))
    else:
        raise Inconclusive('not a C02 replay file: ' + path)
