# C16 - Serialization decoders recover exactly the value that was encoded
import os, json, copy, struct, collections, time, concurrent.futures
import vlib
from vlib import Inconclusive

LEVEL = 'model_checking'
META = dict(
    text=('spec/Wire_<format>.tla state, from the public format specifications, the relation Enc(v) = set of ALL wire encodings of a '
          'JSON-like value (every integer width, float size, length-prefix size, definite/indefinite form) and Repr(v) = what torepr must '
          'return; TLC enumerates Enc over a boundary-value universe (WireGen, GEN) and composes deeper values with the same constructors '
          '(WireSim, SIM; the composition is checked against Enc exhaustively inside small constants on every run). Every emitted encoding, '
          'each of its truncations and the encoding followed by trailing bytes is decoded by real fq in-process (decode, ._error, torepr, '
          'gap fields); TLC (TraceWire) compares the recorded observations with Repr(v). Text formats use Go encoders independent of fq '
          '(encoding/json, /xml, /csv); yaml/toml only the round-trip law.'),
    note=('Exhaustive only inside the universes recorded in the evidence (per-format counts); SIM is seeded random. Integers/floats travel as '
          'byte sequences, so TLC compares 64-bit values and IEEE bit patterns exactly. Domain restrictions stated in the modules: bencode '
          'integers inside int64, byte strings must be valid UTF-8 to survive torepr (JSON strings), csv rectangular, json -0 == 0.'),
    technique='TLA+ relational encoder specs + TLC GEN/SIM case emission + real-fq replay + TLC trace validation (TraceWire) with binding demo',
)

BIN_FORMATS = ['msgpack', 'cbor', 'bencode', 'bson', 'asn1_ber']
SIM_FORMATS = ['msgpack', 'cbor', 'bencode', 'bson']     # WireSim has no BER constructors


# ----------------------------------------------------------------------------- helpers
def unrle(xs):
    out = bytearray()
    i = 0
    while i < len(xs):
        if xs[i] < 0:
            out += bytes([xs[i + 1]]) * (-xs[i])
            i += 2
        else:
            out.append(xs[i])
            i += 1
    return bytes(out)


def vtype(v):
    t = v.get('t')
    if t == 'bson':
        return 'bson_' + v.get('ty', '?')
    return t


def has_type(v, t):
    if not isinstance(v, dict):
        return False
    if v.get('t') == t:
        return True
    for k in ('a', 'v'):
        x = v.get(k)
        if isinstance(x, list):
            if any(has_type(y, t) for y in x):
                return True
        elif isinstance(x, dict) and has_type(x, t):
            return True
    return False


def has_empty(v):
    """value has an empty string / byte string / sequence / set / tagged member (BER: a zero-length TLV other than NULL)"""
    if not isinstance(v, dict):
        return False
    for k in ('s', 'x', 'a'):
        if k in v and isinstance(v[k], list) and len(v[k]) == 0:
            return True
    return any(has_empty(x) for x in (v.get('a') or []) if isinstance(x, dict))


def cbor_features(b):
    """Wire features of a well-formed cbor item, used ONLY to name findings (never to judge)."""
    feats = set()

    def head(i):
        ib = b[i]
        mj, ai = ib >> 5, ib & 31
        if ai < 24:
            return mj, ai, ai, i + 1
        if ai in (24, 25, 26, 27):
            w = 1 << (ai - 24)
            return mj, ai, int.from_bytes(b[i + 1:i + 1 + w], 'big'), i + 1 + w
        return mj, ai, None, i + 1

    def item(i):
        mj, ai, n, i = head(i)
        if mj in (0, 1):
            return i
        if mj in (2, 3):
            if ai == 31:
                feats.add('indef_str')
                while b[i] != 0xff:
                    i = item(i)
                return i + 1
            return i + n
        if mj in (4, 5):
            per = 1 if mj == 4 else 2
            if ai == 31:
                cnt = 0
                while b[i] != 0xff:
                    for _ in range(per):
                        i = item(i)
                    cnt += 1
                if cnt > 31:
                    feats.add('indef_gt31')
                return i + 1
            for _ in range(n * per):
                i = item(i)
            return i
        if mj == 6:
            feats.add('tag')
            return item(i)
        return i      # major 7: simple values and floats, head() already skipped the float bytes
    try:
        item(0)
    except Exception:
        feats.add('unparsed')
    return feats


def signature(ev, case, why):
    """Specific signature of a rejected event: format, failed requirement, wire feature / value type."""
    f = ev['f']
    if f == 'cbor':
        feats = cbor_features(unrle(case['bytes']))
        if feats:
            return 'cbor.%s.%s' % (why, '+'.join(sorted(feats)))
    if f == 'msgpack' and ev['val'].get('t') == 'ext' and case['bytes'][0] in (0xc8, 0xc9):
        return 'msgpack.%s.%s' % (why, 'ext16' if case['bytes'][0] == 0xc8 else 'ext32')
    if f == 'asn1_ber' and has_empty(ev['val']):
        return 'asn1_ber.%s.zero_length' % why
    if f == 'csv' and ev['kind'] == 'reject':
        return 'csv.%s.ragged_rows' % why
    b0 = ''
    if case is not None:
        b0 = '.b0=%02x' % case['bytes'][0]
    return '%s.%s.%s%s' % (f, why, vtype(ev['val']), b0)


def untag(g):
    """tagged value -> python value (for the CLI cross-check only)"""
    t = g['t']
    if t == 'null':
        return None
    if t == 'bool':
        return g['b']
    if t == 'int':
        n = int.from_bytes(bytes(g['mag']), 'big')
        return -n if g['neg'] else n
    if t == 'f64':
        return struct.unpack('>d', bytes(g['bits']))[0]
    if t == 'str':
        return unrle(g['s']).decode('utf-8', 'replace')
    if t == 'arr':
        return [untag(x) for x in g['a']]
    if t == 'nulls':
        return [None] * g['n']
    if t == 'map':
        return {unrle(k).decode('utf-8', 'replace'): untag(x) for k, x in zip(g['k'], g['v'])}
    return ('?', t)


def has_nonfinite(g):
    if g.get('t') == 'f64':
        x = struct.unpack('>d', bytes(g['bits']))[0]
        return x != x or x in (float('inf'), float('-inf'))
    return any(has_nonfinite(x) for k in ('a', 'v') for x in (g.get(k) if isinstance(g.get(k), list) else []))


# ----------------------------------------------------------------------------- the check
def run(ctx):
    thorough = ctx.tier == 'thorough'
    wide = 'TRUE' if thorough else 'FALSE'
    ctx.cov['rule'] = ('one case = (format, value, one element of Enc(value)) emitted by TLC, replayed as: whole encoding, every truncation '
                       'point listed by the spec, the encoding plus each trailing string; distinct non-trivial = distinct (format, bytes) '
                       'whose value is a container, a multi-byte scalar encoding (>= 2 bytes) or a text document')
    ctx.assumptions += [
        'encodings come from the TLA+ relations Enc (written from the msgpack spec, RFC 8949, BEP 3, bsonspec 1.1, X.690), not from a Go encoder',
        'text formats: Go encoding/json, encoding/xml, encoding/csv are the independent encoders (harness/c16/text.go); the expected xml value '
        'follows the mapping documented in format/xml/xml.md; yaml/toml: round trip through fq\'s own to_yaml/to_toml only',
        'decode is invoked as _decode(F; {progress:null}+options), which is what decode(F) / `fq -d F` expands to (options computed once per '
        'worker); a sample is cross-checked against the real `fq -d F file` command line on every run',
        'comparison of torepr with Repr(v) is done by TLC (TraceWire.ReprEq) for all formats incl. floats (IEEE bit patterns as bytes); the '
        'harness only projects Go values to tagged records',
        'SIM (WireSim) uses TLC RandomElement; same VERIF_SEED gives the same cases',
    ]
    ctx.cov['trusted_base'] += ['harness/c16/main.go project(): Go value -> tagged record (30 lines)',
                                'harness/c16/text.go xnode.value(): documented xml object mapping (25 lines)',
                                'checks/c16.py cbor_features(): names findings only, never judges']
    binp = ctx.go_build('c16')
    # development aid (mutation testing): C16_ONLY=msgpack,text restricts the formats of this run; recorded in the evidence
    only = [x for x in os.environ.get('C16_ONLY', '').split(',') if x]
    formats = [f for f in BIN_FORMATS if not only or f in only]
    do_text = not only or 'text' in only
    if only:
        ctx.cov['restricted_to'] = only

    # ---- 1. GEN: every encoding of every value of the universe, per format
    # ---- 2. SIM: deeper values composed with the same constructors; composition checked against Enc (bounded, exhaustive)
    # the TLC runs are independent of each other: a few at a time
    def gen(f):
        cfg = ('SPECIFICATION Spec\nCONSTANTS Format = "%s"\n Part = "all"\n Wide = %s\nCONSTRAINT Emit\nCHECK_DEADLOCK FALSE\n' % (f, wide))
        return ctx.tlc('WireGen', 'gen_%s.cfg' % f, cfg_text=cfg, timeout=1500, workers=4)

    def simmc(f):
        cfg = ('SPECIFICATION Spec\nCONSTANTS Format = "%s"\n MaxDepth = %d\n Chunks = 0\n Bounded = TRUE\nINVARIANT StepInEnc\nCHECK_DEADLOCK FALSE\n'
               % (f, 1 if f in ('msgpack', 'cbor') else 2))
        return ctx.tlc('WireSim', 'simmc_%s.cfg' % f, cfg_text=cfg, timeout=900, workers=2)

    def sim(f):
        cfg = ('SPECIFICATION Spec\nCONSTANTS Format = "%s"\n MaxDepth = %d\n Chunks = 1\n Bounded = FALSE\nCHECK_DEADLOCK FALSE\n'
               % (f, 6 if thorough else 5))
        return ctx.tlc('WireSim', 'sim_%s.cfg' % f, cfg_text=cfg, simulate='num=%d' % (800 if thorough else 100), depth=10, timeout=1500, count=False)

    sims = [f for f in formats if f in SIM_FORMATS]
    with concurrent.futures.ThreadPoolExecutor(max_workers=4) as ex:
        futs = ([('gen', f, ex.submit(gen, f)) for f in formats] + [('simmc', f, ex.submit(simmc, f)) for f in sims]
                + [('sim', f, ex.submit(sim, f)) for f in sims])
        results = [(kind, f, fu.result()) for kind, f, fu in futs]
    cases = []
    per_format = collections.OrderedDict()
    for kind, f, res in results:
        if kind == 'gen':
            ctx.tlc_expect_ok(res, 'WireGen ' + f)
            if len(res.printed) < 100:
                raise Inconclusive('GEN produced too few cases for ' + f)
            per_format[f] = dict(gen_cases=len(res.printed), sim_cases=0)
            cases += res.printed
    for kind, f, res in results:
        if kind == 'simmc':
            ctx.tlc_expect_ok(res, 'WireSim composition is inside Enc (%s)' % f)
            per_format[f]['sim_composition_states_checked'] = res.distinct
        elif kind == 'sim':
            ctx.tlc_expect_ok(res, 'WireSim SIM ' + f)
            per_format[f]['sim_cases'] = len(res.printed)
            cases += res.printed
    cpath = os.path.join(ctx.build, 'cases.ndjson')
    vlib.write_ndjson(cpath, cases)

    # ---- 3. replay on real fq (in-process interpreter, worker goroutines)
    ev_bin = os.path.join(ctx.build, 'events_bin.ndjson')
    t0 = time.time()
    r = ctx.run([binp, 'replay', cpath, ev_bin], check=True, timeout=3000)
    vlib.log('replay %d cases: %s in %.1fs' % (len(cases), r.stdout.strip(), time.time() - t0))
    ev_txt = os.path.join(ctx.build, 'events_text.ndjson')
    r2 = ctx.run([binp, 'text', str((1500 if thorough else 240) if do_text else 0), ev_txt], check=True, timeout=1500)
    events = vlib.read_ndjson(ev_bin)
    tevents = [e for e in vlib.read_ndjson(ev_txt)]
    skipped = [e for e in tevents if e.get('kind') == 'skip']
    tevents = [e for e in tevents if e.get('kind') != 'skip']
    if len(events) != len(cases):
        raise Inconclusive('harness returned %d events for %d cases' % (len(events), len(cases)))
    allev = events + tevents
    allp = os.path.join(ctx.build, 'events_all.ndjson')
    vlib.write_ndjson(allp, allev)

    # ---- 4. TV: TLC judges every event against Repr / truncation / trailing requirements
    vlib.log('events read and merged at +%.1fs' % (time.time() - t0))
    rej, _, _ = ctx.tv('TraceWire', 'TraceWire.cfg', allp, name='tv_wire', timeout=2400)
    rej_by_line = {}
    for line, why in rej:
        rej_by_line[line] = why
    decodes = 0
    stats = collections.OrderedDict()
    distinct = set()
    for i, e in enumerate(allev):
        f = e['f']
        st = stats.setdefault(f, dict(cases=0, decodes=0, truncations=0, trailing=0, rejected_events=0))
        st['cases'] += 1
        nd = 1 + len(e.get('truncs', [])) + len(e.get('trails', []))
        st['decodes'] += nd
        st['truncations'] += len(e.get('truncs', []))
        st['trailing'] += len(e.get('trails', []))
        decodes += nd
        if i < len(cases):
            if e['val']['t'] in ('arr', 'map', 'nulls', 'tag') or e['n'] >= 2:
                distinct.add((f, json.dumps(cases[i]['bytes'])))
        else:
            distinct.add((f, e.get('src', '')))
        if (i + 1) in rej_by_line:
            st['rejected_events'] += 1
            case = cases[i] if i < len(cases) else None
            sig = signature(e, case, rej_by_line[i + 1])
            what = '%s %s: value %s, input %s -> tree=%s _error=%s torepr=%s %s' % (
                f, rej_by_line[i + 1], json.dumps(e['val'])[:160],
                (unrle(case['bytes'])[:48].hex() if case else json.dumps(e.get('src', ''))[:120]),
                e['tree'], e['err'], json.dumps(e['got'])[:160], (e.get('errmsg') or '')[:80])
            ctx.finding(sig, what, dict(event=e, case=case))
    for f in per_format:
        per_format[f].update(stats.get(f, {}))
    for f in stats:
        if f not in per_format:
            per_format[f] = stats[f]
    ctx.cov['per_format'] = per_format
    ctx.cov['formats_covered'] = list(per_format.keys())
    ctx.cov['formats_not_covered'] = ['asn1_ber REAL in the decimal (ISO 6093) and special-value encodings, BIT STRING, time types, ENUMERATED (no JSON-like counterpart defined by torepr)', 'cbor bignum tags 2/3 and simple values other than false/true/null/undefined', 'msgpack timestamp ext (-1) semantics']
    ctx.cov['evaluations'] += decodes
    ctx.cov['traces_validated_against_impl'] += len(allev)
    ctx.cov['distinct_nontrivial'] += len(distinct)
    ctx.cov['roundtrip_law_values_refused_by_fq_encoder'] = len(skipped)
    ctx.cov['comparison'] = 'TLC TraceWire.ReprEq for every format (floats as IEEE-754 bit patterns); no runner-side equality'
    ctx.cov['harness'] = (r.stdout.strip() + ' | ' + r2.stdout.strip())[:300]
    for k in ((0, len(cases) // 3, len(cases) - 1) if cases else ()):
        c = cases[k]
        ctx.sample(dict(format=c['f'], part=c['part'], value=c['val'], bytes_hex=unrle(c['bytes'])[:40].hex(), expected_repr=c.get('repr'),
                        observed=events[k]['got'], truncations_tried=len(c['cuts']), trails=len(c['trails'])))
    if tevents:
        t = tevents[len(tevents) // 2]
        ctx.sample(dict(format=t['f'], document=t.get('src', '')[:120], value=t['val'], observed=t['got']))

    vlib.log('classified %d rejected events at +%.1fs' % (len(rej_by_line), time.time() - t0))
    # ---- 5. binding demonstration: damage recorded observations, TLC must reject exactly those lines
    if not events:
        return
    good = [i for i, e in enumerate(events) if (i + 1) not in rej_by_line and e['kind'] == 'ok' and e['got'].get('t') == 'arr'
            and e['got']['a'] and e['truncs'] and e['trails']]
    if len(good) < 3:
        raise Inconclusive('no events available for binding demo')
    k1, k2, k3 = good[len(good) // 4], good[len(good) // 2], good[(3 * len(good)) // 4]
    bad1 = copy.deepcopy(events[k1]); bad1['got']['a'] = bad1['got']['a'][:-1]        # torepr lost an element
    bad2 = copy.deepcopy(events[k2]); bad2['truncs'][-1] = [bad2['truncs'][-1][0], 1, 0]   # a truncation decoded clean
    bad3 = copy.deepcopy(events[k3]); bad3['trails'][0]['gap'] = 0                     # trailing bytes not in a gap
    bad4 = copy.deepcopy(events[k1]); bad4['err'] = 1                                   # decode reported failed
    ctx.binding_demo('TraceWire', 'TraceWire.cfg', [events[k1], bad1, events[k2], bad2, bad3, events[k3], bad4], [2, 4, 5, 7])

    # ---- 6. the real command line on a sample: `fq -d F -c ... files` must agree with the in-process path
    rng = ctx.rng
    sample_idx = []
    for f in formats:
        idx = [i for i, c in enumerate(cases) if c['f'] == f and c['kind'] == 'ok' and not has_nonfinite(c['repr'])
               and len(c['bytes']) < 400 and all(x >= 0 for x in c['bytes'])]
        rng.shuffle(idx)
        sample_idx += idx[:60]
    sp = os.path.join(ctx.build, 'cli_cases.ndjson')
    vlib.write_ndjson(sp, [cases[i] for i in sample_idx])
    co = os.path.join(ctx.build, 'cli_out.ndjson')
    ctx.run([binp, 'cli', sp, co], check=True, timeout=900)
    cli = {o['id']: o for o in vlib.read_ndjson(co)}
    agree = disagree = 0
    for k, i in enumerate(sample_idx):
        o = cli.get(k)
        e = events[i]
        if o is None:
            raise Inconclusive('cli cross-check: missing output')
        same = (o['tree'] == e['tree'])
        if same and e['tree'] == 1 and e['got'].get('t') not in ('error', 'none', 'other'):
            same = (json.loads(json.dumps(o['repr'])) == untag(e['got'])) and (bool(o['err']) == bool(e['err']))
        elif same and e['tree'] == 1:
            same = o['repr'] == 'REPR-ERROR' or e['got'].get('t') == 'other'
        if same:
            agree += 1
        else:
            disagree += 1
            ctx.cov.setdefault('cli_disagreements', []).append(dict(case=cases[i]['bytes'][:30], cli=o, inproc=e['got']))
    ctx.cov['cli_crosscheck'] = dict(sampled=len(sample_idx), agree=agree, disagree=disagree)
    if disagree:
        ctx.inconc('in-process decode path and `fq -d F file` command line disagree on %d sampled cases' % disagree)
