# C08 - A decode value is indistinguishable from its JSON value in read-only jq
import os, re, json, copy, collections
from concurrent.futures import ThreadPoolExecutor
import vlib
from vlib import Inconclusive

LEVEL = 'model_checking'
META = dict(
    text=('DecodeValueView.tla models a decode value (struct with ordered fields, array, scalar [actual, sym, kind]), tovalue, and the JQValue '
          'methods of every wrapper; TLC checks the mutual-consistency invariants and the method-level law (decode value vs its JSON value, '
          'modulo the four documented differences) over all small values. TLC then emits every value of depth <= 2 over every scalar kind '
          '(with/without sym) x 179 query shapes; the harness builds each value as a REAL decode value through a registered harness format, '
          'evaluates q on it and on tovalue of it with the real fq interpreter, and TLC validates every recorded pair: equal after the '
          'named normalisations FieldOrder, UnderscoreKeys, NullOnNonObject, RawBytes, tovalue = sym-else-actual, struct iteration in input '
          'order. The same pair is recorded on seeded random descriptions beyond the constants and on sampled nodes of real sample decodes.'),
    note=('Exhaustive only inside the TLC constants recorded in the evidence (tlc_runs); random / sampled beyond. The jq engine itself is not '
          'modelled: both sides of the pair are real fq results; the spec decides which differences are documented. Undocumented differences '
          'observed on the unchanged tree are listed in known_findings.txt by signature view.<query shape>.<difference class>.<value class>.'),
    technique='TLA+ spec (DecodeValueView*.tla) + TLC exhaustive MC + spec-emitted (value, query) cases replayed on real fq + TLC trace validation (TraceView.tla)',
)

# as-built switch of the model layer (drift only): TRUE while internal/gojqx/types.go has the deviations described in DecodeValueView.tla
AS_BUILT = 'FALSE'   # the gojqx repairs are in /repo (known_findings.txt fixed: lines)
TV_CFG = 'SPECIFICATION TSpec\nCONSTANTS AsBuilt = %s\nPOSTCONDITION Consumed\nCHECK_DEADLOCK FALSE\n' % AS_BUILT


def mc_cfg(built, invs):
    return 'SPECIFICATION MSpec\nCONSTANTS Built = %s\n%sCHECK_DEADLOCK FALSE\n' % (built, ''.join('INVARIANT %s\n' % i for i in invs))


def model_check_and_gen(ctx):
    """MC (as required), MC (as built: must break the law), GEN - three TLC runs side by side."""
    def mc_req():
        return ctx.tlc('DecodeValueViewMC', 'mc_req.cfg', cfg_text=mc_cfg('FALSE', ('ConsistentInv', 'LawInv', 'JqLawInv', 'RelInv')),
                       timeout=1500, name='mc_view', workers=4)
    def mc_built():
        return ctx.tlc('DecodeValueViewMC', 'mc_built.cfg', cfg_text=mc_cfg('TRUE', ('LawInv',)), timeout=1500, count=False, name='mc_view_built', workers=2)
    def gen():
        return ctx.tlc('DecodeValueViewMC', 'gen.cfg', cfg_text='SPECIFICATION GSpec\nCONSTANTS Built = FALSE\nCONSTRAINT Emit\nCHECK_DEADLOCK FALSE\n',
                       timeout=1500, name='gen_view', workers=4)
    with ThreadPoolExecutor(max_workers=3) as ex:
        fs = [ex.submit(f) for f in (mc_req, mc_built, gen)]
        r, rb, g = [f.result() for f in fs]
    ctx.tlc_expect_ok(r, 'DecodeValueView: consistency + method law + jq-level law over all small values')
    ctx.cov['mc_small_values'] = r.distinct
    # the as-built transcription breaks the law: the model shows the defects of the code before any Go runs
    ctx.cov['as_built_counterexample'] = (rb.violated == 'LawInv')
    return gen_cases(ctx, g)


def gen_cases(ctx, g):
    ctx.tlc_expect_ok(g, 'DecodeValueView GEN')
    vals, qs, rel = {}, collections.OrderedDict(), {}
    for r in g.printed:
        qs[r['q']] = r['text']
        rel[(r['vi'], r['q'])] = r['rel']
        if r['v']:
            vals[r['vi']] = r['v'][0]
    if len(vals) < 100 or len(qs) < 60 or len(rel) != len(vals) * len(qs):
        raise Inconclusive('GEN produced %d values x %d queries (%d pairs)' % (len(vals), len(qs), len(rel)))
    missing = {'eq', 'ext', 'nullkey', 'stream', 'array', 'derived'} - set(rel.values())      # anti-vacuity: every documented class is exercised
    if missing:
        raise Inconclusive('GEN never expects relation class %s: vacuous' % sorted(missing))
    return vals, qs, rel


def write_cases(path, qs, vals):
    with open(path, 'w') as f:
        f.write(json.dumps(dict(queries=[dict(id=k, text=t) for k, t in qs.items()])) + '\n')
        for v in vals:
            f.write(json.dumps(v) + '\n')


def tv_files(ctx, shard_paths, name, demo=False):
    """Parallel TLC trace validation of prepared shard files (event i of the whole run is line i // n + 1 of shard i % n).
    Returns {global index (0-based): sig}, [drift indices]."""
    n = len(shard_paths)

    def one(k):
        rej, drift, res = ctx.tv('TraceView', 'tv.cfg', shard_paths[k], name='%s_%d' % (name, k), cfg_text=TV_CFG, count=not demo,
                                 timeout=6000 if ctx.tier == 'thorough' else 900, heap='3g' if ctx.tier == 'thorough' else '2g')
        return [((l - 1) * n + k, s) for l, s in rej], [(l - 1) * n + k for l in drift]
    rejects, drifts = {}, []
    with ThreadPoolExecutor(max_workers=n) as ex:
        for rej, dr in ex.map(one, range(n)):
            for i, s in rej:
                rejects[i] = s
            drifts += dr
    return rejects, drifts


def tv_view(ctx, evs, name, demo=False):
    """Trace validation of a short in-memory event list (confirmation runs, binding demo)."""
    p = os.path.join(ctx.build, '%s_shard0.ndjson' % name)
    vlib.write_ndjson(p, evs)
    return tv_files(ctx, [p], name, demo=demo)


def stream(paths):
    """(global index, raw line) over the event files in order"""
    i = 0
    for p in paths:
        with open(p) as f:
            for line in f:
                if line.strip():
                    yield i, line
                    i += 1


def fetch(paths, wanted):
    """parse only the events with the given global indices"""
    wanted = set(wanted)
    out = {}
    if wanted:
        for i, line in stream(paths):
            if i in wanted:
                out[i] = json.loads(line)
                if len(out) == len(wanted):
                    break
    return out


def plain(j):
    t = j['t']
    if t == 'arr':
        return [plain(e) for e in j['e']]
    if t == 'obj':
        return {k: plain(e) for k, e in zip(j['k'], j['e'])}
    if t == 'str':
        return j['s']
    if t == 'num':
        return ('-' if j['k'] else '') + j['s']
    if t == 'null':
        return None
    if t == 'bool':
        return j['s'] == 'true'
    return '<%s>' % t


def short_v(v):
    if v['t'] == 'struct':
        return '{' + ','.join('%s:%s' % (n, short_v(k)) for n, k in zip(v['names'], v['kids'])) + '}'
    if v['t'] == 'array':
        return '[' + ','.join(short_v(k) for k in v['kids']) + ']'
    s = '%s(%s' % (v['kind'], json.dumps(plain(v['a']), ensure_ascii=False) if v['a']['t'] != 'none' else '')
    if v['sym']['t'] != 'none':
        s += '~' + json.dumps(plain(v['sym']), ensure_ascii=False)
    return s + (' gap' if v['gap'] else '') + (' syn' if v['syn'] else '') + ')'


def short_r(r):
    return ' '.join(json.dumps(plain(o), ensure_ascii=False) for o in r['out']) + (' <error>' if r['err'] else '')


def describe(e):
    return '%s | %s : decode value -> %s ; tovalue -> %s [%s]' % (short_v(e['v'])[:200], e['text'], short_r(e['dv'])[:160], short_r(e['jv'])[:160], e['src'][:120])


def confirm(ctx, binp, qs, e, sequence=False):
    """Re-run one rejected (value, query) pair alone (G1): a corpus node is decoded again from its file, any other
    value is rebuilt from its description. sequence=True: re-run every query, in the original order, on one freshly built
    value and report the rejection of THIS query (a difference that needs the earlier read-only queries to show)."""
    cp = os.path.join(ctx.build, 'confirm_cases.ndjson'); ep = os.path.join(ctx.build, 'confirm_events.ndjson')
    write_cases(cp, qs if sequence else collections.OrderedDict([(e['q'], e['text'])]), [e['v']])
    m = re.match(r'(/.*) -d (\S+) (\[.*\])$', e['src'])
    if m:
        jp = os.path.join(ctx.build, 'confirm_job.ndjson')
        vlib.write_ndjson(jp, [dict(file=m.group(1), format=m.group(2), picks=[], paths=[json.loads(m.group(3))])])
        ctx.run([binp, 'corpus', jp, cp, ep], check=True, timeout=300)
    else:
        ctx.run([binp, 'eval', cp, ep], check=True, timeout=300)
    evs = vlib.read_ndjson(ep)
    if not evs:
        return e, None
    rej, _ = tv_view(ctx, evs, 'tv_confirm', demo=True)
    if sequence:
        for k, x in enumerate(evs):
            if x['q'] == e['q'] and k in rej:
                return x, rej[k]
        return e, None
    return evs[0], rej.get(0)


def binding_demo(ctx, evs):
    """Corrupt one logged field per aspect; TLC must reject exactly those events (and the removed output).
    evs: accepted TLC-emitted events."""
    def find(pred):
        for e in evs:
            if pred(e):
                return copy.deepcopy(e)
        raise Inconclusive('no event for binding demo')
    good = find(lambda e: e['q'] == 'type')
    a = find(lambda e: e['q'] == 'length' and e['v']['t'] == 'array' and len(e['v']['kids']) == 2)       # a value changed on one side
    a['dv']['out'][0]['s'] = '3'
    b = find(lambda e: e['q'] == 'each' and e['v']['t'] == 'struct' and len(e['v']['kids']) == 2)         # an output removed
    b['jv']['out'] = b['jv']['out'][1:]
    c = find(lambda e: e['q'] == 'keys' and e['v']['t'] == 'struct' and e['v']['names'] == ['b', 'a'])      # keys not in input order
    c['dv']['out'][0]['e'].reverse()
    d = find(lambda e: e['q'] == 'identity' and e['v']['t'] == 'scalar' and e['v']['sym']['t'] == 'str'
             and e['v']['a']['t'] == 'num')                                                                  # tovalue = actual instead of sym, on both sides
    d['jv']['out'][0] = copy.deepcopy(d['v']['a']); d['dv']['out'][0] = copy.deepcopy(d['v']['a'])
    f = find(lambda e: e['q'] == 'key_a' and e['v']['t'] == 'array')                                        # NullOnNonObject: dv must be null
    f['dv'] = dict(err=True, out=[])
    demo = [good, a, b, c, d, f]
    rej, _ = tv_view(ctx, demo, 'view_demo', demo=True)
    lines = sorted(rej)
    ok = lines == [1, 2, 3, 4, 5] and rej[3].endswith('input_order.struct') and '.tovalue.' in rej[4]
    ctx.cov['binding_demo'].append(dict(spec='TraceView', corrupted_events=[1, 2, 3, 4, 5], rejected_events=lines, sigs=rej, ok=ok))
    if not ok:
        raise Inconclusive('binding demo failed for TraceView: %s' % rej)


def corpus_jobs(ctx, binp):
    import corpusarm
    th = ctx.tier == 'thorough'
    known = set(ctx.run([binp, 'formats'], check=True).stdout.split())
    files = corpusarm.sample_files(256 << 10)
    byfam = collections.defaultdict(list)
    for f in files:
        byfam[corpusarm.family(f)].append(f)
    pick = []
    per = 10 if th else 1
    fams = sorted(byfam)
    if not th:
        ctx.rng.shuffle(fams)
        fams = fams[:32]
    for fam in fams:
        fs = byfam[fam][:]
        ctx.rng.shuffle(fs)
        pick += fs[:per]
    jobs = []
    for f in pick:
        fmt = corpusarm.golden_formats(f, known)[0]
        jobs.append(dict(file=f, format=fmt, picks=[ctx.rng.randrange(1 << 30) for _ in range(16 if th else 8)]))
    return jobs, len(files)


def run(ctx):
    th = ctx.tier == 'thorough'
    ctx.cov['rule'] = ('an evaluation is one (decode value, query) pair evaluated on both sides by real fq; distinct non-trivial = distinct '
                       '(value description, query) pairs in which the value is a compound, has a sym, or the two sides differ')
    ctx.assumptions += [
        'both sides of every pair are results of the real fq interpreter; TLC only decides whether a difference is documented',
        'results travel as JSON text written by fq itself (tojson): invalid UTF-8 of raw fields is U+FFFD on both sides after that',
        'the documented differences are taken from the property text and doc/usage.md ("Some values can act as an object with keys even when '
        'it\'s an array, number etc", "There can be keys hidden from keys and []", bits_format=string "bytes not representable as UTF-8 will be lost")',
        'struct field order = order of Compound.Children after decode (range start order); the harness decoder reads fields sequentially',
    ]
    ctx.cov['trusted_base'] += [
        'harness/c08/format.go canonNum (spelling of JSON numbers), rawText/rawValid (Go []rune(string) / utf8.Valid for the description of raw fields)',
        'harness/c08 describe(): projection of a real *decode.Value to the abstract value (type switch on scalar kinds; self-checked: every TLC-emitted description must be reproduced by the real decoder)',
    ]
    vals, qs, rel = model_check_and_gen(ctx)
    binp = ctx.go_build('c08')
    vlist = [vals[k] for k in sorted(vals)]
    cpath = os.path.join(ctx.build, 'view_cases.ndjson')
    write_cases(cpath, qs, vlist)
    e1 = os.path.join(ctx.build, 'view_gen_events.ndjson')
    ctx.run([binp, 'eval', cpath, e1], check=True, timeout=1200)
    e2 = os.path.join(ctx.build, 'view_rand_events.ndjson')
    r = ctx.run([binp, 'rand', str(3000 if th else 200), cpath, e2], check=True, timeout=2400)
    skipped = json.loads(r.stdout.strip().splitlines()[-1])['skipped']
    jobs, navail = corpus_jobs(ctx, binp)
    jp = os.path.join(ctx.build, 'view_corpus_jobs.ndjson')
    vlib.write_ndjson(jp, jobs)
    e3 = os.path.join(ctx.build, 'view_corpus_events.ndjson')
    r = ctx.run([binp, 'corpus', jp, cpath, e3], check=True, timeout=3000)
    cstats = json.loads(r.stdout.strip().splitlines()[-1])
    paths = [e1, e2, e3]
    nq = len(qs)
    # pass 1: round-robin the raw lines into shard files, gather coverage figures without keeping the events
    nsh = 6 if th else 4
    shard_paths = [os.path.join(ctx.build, 'tv_view_shard%d.ndjson' % k) for k in range(nsh)]
    outs = [open(p, 'w') for p in shard_paths]
    counts = collections.Counter()
    differs = bytearray()
    nontrivial, vseen = set(), set()
    kinds = collections.Counter()

    def walk(v):
        if v['t'] == 'scalar':
            kinds['%s%s' % (v['kind'], '+sym' if v['sym']['t'] != 'none' else '')] += 1
        for k in v['kids']:
            walk(k)
    demo_pool = []
    for i, line in stream(paths):
        outs[i % nsh].write(line if line.endswith('\n') else line + '\n')
        e = json.loads(line)
        counts[e['src'].split(' ')[0] if e['src'] in ('gen', 'rand') else 'corpus'] += 1
        d = e['dv'] != e['jv']
        differs.append(1 if d else 0)
        v = e['v']
        if e['q'] == 'identity':              # first query of every value
            vkey = hash((e['src'], json.dumps(v, sort_keys=True)))
            if vkey not in vseen:
                vseen.add(vkey); walk(v)
        if v['t'] != 'scalar' or v['sym']['t'] != 'none' or d:
            nontrivial.add(hash((json.dumps(v, sort_keys=True), e['q'])))
        if e['src'] == 'gen' and e['q'] in ('type', 'length', 'each', 'keys', 'identity', 'key_a') and len(demo_pool) < 4000:
            demo_pool.append((i, e))
    for o in outs:
        o.close()
    ntotal = len(differs)
    if counts['gen'] != len(rel):
        raise Inconclusive('harness returned %d events for %d pairs' % (counts['gen'], len(rel)))
    if cstats.get('files', 0) < len(jobs) // 2 or not counts['corpus']:
        raise Inconclusive('corpus arm decoded only %s of %d files' % (cstats, len(jobs)))
    rejects, drifts = tv_files(ctx, shard_paths, 'tv_view')
    ctx.cov['traces_validated_against_impl'] += ntotal
    ctx.cov['evaluations'] += 2 * ntotal
    relc = collections.Counter(rel.values())
    ctx.cov['distinct_nontrivial'] += len(nontrivial)
    ctx.cov['view'] = dict(gen_values=len(vlist), queries=nq, gen_pairs=counts['gen'], gen_expected_relation=dict(relc),
                           rand_values=counts['rand'] // nq, rand_skipped=skipped, corpus_files_available=navail, corpus_files=cstats.get('files', 0),
                           corpus_files_failed=cstats.get('files_failed', 0), corpus_nodes=cstats.get('nodes', 0),
                           pairs_with_documented_difference=sum(1 for i in range(ntotal) if differs[i] and i not in rejects),
                           pairs_rejected=len(rejects), scalar_kinds_seen=dict(sorted(kinds.items())), distinct_values=len(vseen))
    need = {k + s_ for k in ('uint', 'sint', 'big', 'flt', 'str', 'bool', 'null', 'raw') for s_ in ('', '+sym')} | {'any'}
    if not need <= set(kinds):
        raise Inconclusive('scalar kinds not covered: %s' % sorted(need - set(kinds)))
    # verdicts
    bysig = collections.defaultdict(list)
    for i in sorted(rejects):
        bysig[rejects[i]].append(i)
    wanted = set(drifts[:1])
    for sig, idx in bysig.items():
        wanted |= set(idx[:1] if sig in ctx.known else idx[:6])
    wanted |= {nq * 40 + 3, counts['gen'] + counts['rand'] // 2, counts['gen'] + counts['rand'] + counts['corpus'] // 3}
    first_diff = next((i for i in range(ntotal) if differs[i] and i not in rejects), None)
    if first_diff is not None:
        wanted.add(first_diff)
    ev = fetch(paths, wanted)
    if drifts:
        ctx.drift('real result differs from the as-built method model: ' + describe(ev[drifts[0]]), len(drifts))
    for sig in sorted(bysig):
        idx = bysig[sig]
        if sig in ctx.known:
            for i in idx:
                ctx.finding(sig, describe(ev[idx[0]]), None)
            continue
        # G1: confirm by re-running the pair alone before reporting a violation
        e = ev[idx[0]]
        e2_, sig2 = confirm(ctx, binp, qs, e)
        if sig2 is None:
            # not reproducible alone: does it need the earlier (read-only) queries on the same value? Twice, to rule out chance.
            r1 = confirm(ctx, binp, qs, e, sequence=True)
            r2 = confirm(ctx, binp, qs, e, sequence=True)
            if r1[1] is not None and r2[1] is not None:
                ctx.finding('view.changed_by_earlier_readonly_query.' + e['q'],
                            'only after the earlier read-only queries ran on the same decode value (alone the pair agrees): ' + describe(r1[0]),
                            dict(event=r1[0], one_line='run the read-only query list of checks/c08.py in order on one decode value; query %s then differs from the same on tovalue' % json.dumps(e['text'])))
                continue
            ctx.inconc('rejected pair did not reproduce when re-run alone or in sequence (sig %s): %s' % (sig, describe(e)))
            continue
        for i in idx:
            x = ev.get(i, e)
            ctx.finding(sig, describe(x), dict(event=x, one_line='fq -d <format> %s (and the same after | tovalue)' % json.dumps(x['text'])))
    for i in (nq * 40 + 3, counts['gen'] + counts['rand'] // 2, counts['gen'] + counts['rand'] + counts['corpus'] // 3):
        if i in ev:
            ctx.sample(dict(kind='metamorphic pair (%s)' % ev[i]['src'].split(' ')[0][:60], pair=describe(ev[i])))
    if first_diff is not None:
        ctx.sample(dict(kind='pair with a documented difference', pair=describe(ev[first_diff])))
    binding_demo(ctx, [e for i, e in demo_pool if i not in rejects])


def replay(ctx, path):
    case = json.load(open(path))['case']
    e = case['event']
    binp = ctx.go_build('c08')
    e2_, sig = confirm(ctx, binp, None, e)
    ctx.cov['evaluations'] += 2
    ctx.cov['traces_validated_against_impl'] += 1
    if sig:
        ctx.finding(sig, describe(e2_), dict(event=e2_))
