# C12 - Paths and tree navigation are mutually consistent
import os, json
import vlib, jqarm, treearm

LEVEL = 'model_checking'
META = dict(
    text=('TraceJqTree.tla states, over the real tree shape, what topath, getpath(topath), parent, parent[name|index], root, buffer_root and format_root '
          'must return for every value (Resolve walks the reported path from the root of the REAL node table). TLC generates decoder programs '
          '(incl. gap fields appended to arrays, nested buffers, partial trees), the harness records what real fq returns for every node, TLC validates. '
          'PathExpr.tla enumerates every path array up to a length bound over a pool with one string per escaping class and integers incl. negative; '
          'the real path_to_expr | expr_to_path must be the identity on each.'),
    note='Exhaustive inside the TLC constants (tlc_runs), seeded random beyond; corpus arm on small sample files. Path strings outside the pool classes are sampled only.',
    technique='TLA+ oracle (TraceJqTree.tla, PathExpr.tla): TLC-generated programs/paths replayed on real fq, observations validated by TLC',
)


def pathexpr(ctx):
    th = ctx.tier == 'thorough'
    g = ctx.tlc('PathExpr', 'pe.cfg', cfg_text='SPECIFICATION GSpec\nCONSTANTS\n MaxLen = %d\nCONSTRAINT Emit\nCHECK_DEADLOCK FALSE\n' % (3 if th else 2), name='gen_pathexpr', timeout=1800)
    ctx.tlc_expect_ok(g, 'PathExpr GEN')
    cases = g.printed
    # unicode / control classes TLC's string literals cannot carry, and seeded random strings
    pool = ['é', '😀', '\u0000', '\u007f', '日本', 'á', '﻿', 'x\ty', '"', '\\', '\\"', '${x}', '\\(1)', '#', 'a\nb', ' ', '-1', '0x1', '..', 'a[0]', "'"]
    S = lambda x: dict(k='s', s=x, i=0)
    I = lambda x: dict(k='i', s='', i=x)
    for x in pool:
        cases += [dict(p=[S(x)]), dict(p=[S('a'), S(x)]), dict(p=[I(2), S(x), I(-3)])]
    alphabet = 'ab_ .[]"\\\'$#\n\t0-é😀(){}|,:;'
    for _ in range(2000 if th else 300):
        n = ctx.rng.randint(1, 4)
        p = []
        for _ in range(n):
            if ctx.rng.random() < 0.3:
                p.append(I(ctx.rng.choice([0, 1, -1, 10, -7, 2**31 - 1, 123456])))
            else:
                p.append(S(''.join(ctx.rng.choice(alphabet) for _ in range(ctx.rng.randint(0, 5)))))
        cases.append(dict(p=p))
    cp = os.path.join(ctx.build, 'pe_cases.ndjson'); ep = os.path.join(ctx.build, 'pe_events.ndjson')
    vlib.write_ndjson(cp, cases)
    ctx.run([ctx.go_build('jqtree'), 'pathexpr', cp, ep], check=True, timeout=1800)
    rej, _, _ = ctx.tv('TracePathExpr', 'TracePathExpr.cfg', ep, name='tv_pathexpr')
    evs = vlib.read_ndjson(ep)
    ctx.cov['traces_validated_against_impl'] += len(evs)
    ctx.cov['pathexpr_paths'] = len(evs)
    for l, sig in rej:
        e = evs[l - 1]
        ctx.finding(sig, 'path %s -> %r -> %s' % (json.dumps([x['s'] if x['k'] == 's' else x['i'] for x in e['p']], ensure_ascii=False), e['expr'],
                                               json.dumps([x['s'] if x['k'] == 's' else x['i'] for x in e['back']], ensure_ascii=False) if e['ok'] else 'error'), e)
    ctx.sample(dict(kind='path round trip', **evs[len(evs) // 3]))
    bad = dict(evs[5]); bad['back'] = bad['back'] + [dict(k='i', s='', i=0)]
    ctx.binding_demo('TracePathExpr', 'TracePathExpr.cfg', [evs[5], bad, evs[6]], [2])


def run(ctx):
    ctx.cov['rule'] = ('every node of every real decode tree (programs + small corpus files) observed through topath/getpath/parent/root/buffer_root/'
                       'format_root; every path array up to the bound through path_to_expr|expr_to_path; distinct non-trivial = distinct trees with >= 4 nodes')
    jqarm.run_for(ctx, 'C12')
    pathexpr(ctx)
    r = ctx.tlc('DecodeTreeMC', 'mc_c12.cfg', cfg_text=treearm.mc_cfg(ops=2, allowed='{"ok",%s}' % treearm.STRETCH, invs=('TreeOK',)), name='mc_tree_c12')
    ctx.tlc_expect_ok(r, 'DecodeTree MC')
