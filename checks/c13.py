# C13 - Every function fq adds is total over jq values
import os, json, re, base64, collections, copy
import vlib
from vlib import Inconclusive

LEVEL = 'fault_enumeration'
META = dict(
    text=('Outcome.tla states the call protocol Call(f, arity, values) -> Results | CatchableError (a process exit only for the documented '
          'process enders; NO action for panic / fatal / hang) and the coverage obligation over a recorded trace. The harness reads the '
          'function inventory from the running program (interp.DefaultRegistry.EnvFuncFns evaluated with an Interp; the top-level defs of '
          'every jq module the interpreter really included, dynamic includes resolved), runs `INPUT | try F(ARGS) catch .` for every '
          'function x position x pool value on a fresh Interp per call inside RLIMIT_AS-limited worker processes, and TLC validates every '
          'event and checks, as a postcondition over the whole trace, that every function x position x pool value (and, in thorough, every '
          'pair over the pair pool for arity <= 2) was really exercised against the inventory file the harness wrote.'),
    note=('Enumeration, not proof: the verdict covers the pool values and default contexts recorded in the evidence. Classes outside '
          '`full_classes` are thinned in the quick tier (per-function required pool is in c13_fns.ndjson, checked by TLC). A hang counts '
          'only after two solitary re-runs stalled as well.'),
    technique='TLA+ call protocol + TLC trace validation with coverage postcondition over a run-time inventory; isolated worker pool fault enumeration',
)

MARK = '"\\u0001C13 "'
# every output is printed the way the fq command line prints an output (display_implicit: bounded for binaries and
# decode values), then counted; an error is caught and its message kept
PRELUDE = ('def _c13r(f): try (f | ((try display_implicit({}) catch empty) | empty), "R") catch '
           '("E" + (if type == "string" then .[0:80] else ((tojson? // type) | .[0:80]) end)); ')

# process enders / terminal readers: the documented outcome is an exit status (or end of the fq main loop), not a fault
EXIT_BY_DESIGN = {
    'halt': 'gojq halt: fq exits with status 0',
    'halt_error': 'halt_error/0,1: fq prints the value on stderr and exits with the given status (default 5)',
    'input': 'input with nothing left to read (-n, empty stdin): the failure is reported on stderr and fq exits with status 4',
    'inputs': 'same as input',
    'repl': 'fq -i ... | repl: reads expressions from the (virtual) terminal until EOF, then the fq main loop ends',
}

TIERS = dict(
    # sized by measurement: one call (fresh Interp, two gojq compilations of the bundled jq sources) is ~30 CPU-ms, 12 workers on
    # the shared 16-core box at load 60-90 sustain 90-140 calls/s
    quick=dict(full=('go', 'public', 'cli'), workers=12, mem_kb=4194304, per_call=20,
               grid={'go': (5, 4, 3), 'public': (5, 4, 3), 'cli': (5, 4, 3), 'internal': (3, 2, 2), 'generated': (3, 2, 2)},
               frac={'internal': 0.1, 'generated': 0.15}, generated_names=8, opt_budget=400, pairs=False),
    thorough=dict(full=('go', 'public', 'cli', 'internal'), workers=12, mem_kb=4194304, per_call=20,
                  grid={'go': (6, 4, 3), 'public': (6, 4, 3), 'cli': (6, 4, 3), 'internal': (6, 4, 3), 'generated': (3, 3, 2)},
                  frac={'generated': 0.4}, generated_names=None, opt_budget=8000, pairs=True),
)
PAIR_POOL = ('null', 'neg1', 'one', 'p64', 'nan', 'str_empty', 'str_a', 'bin_unaligned', 'arr_empty', 'arr_plain', 'obj_plain',
             'opt_unit0', 'opt_indent_neg', 'dv_struct')


# ------------------------------------------------------------------------------------------------ pool
def build_pool(ctx, optkeys, structkeys=()):
    """[(name, jq expr, inp, benign, pair, base)]; ids are 1-based positions."""
    mp3 = None
    p = os.path.join(vlib.REPO, 'pkg/interp/testdata/test.mp3')
    if os.path.exists(p) and os.path.getsize(p) < 4096:
        mp3 = base64.b64encode(open(p, 'rb').read()).decode()
    dv = ('("%s" | from_base64 | mp3)' % mp3) if mp3 else '("SUQzBAAAAAAAFVRTU0UAAAALAAADTGF2ZjU4LjQ1" | from_base64 | id3v2)'
    B = []   # name, expr, inp, benign, pair
    def add(name, expr, inp=True, benign=False, pair=False):
        B.append(dict(name=name, expr=expr, inp=inp, benign=benign, pair=pair, base=True))
    add('null', 'null', benign=True, pair=True)
    add('true', 'true', pair=True)
    add('false', 'false')
    add('zero', '0', pair=True)
    add('neg1', '-1', pair=True)
    add('one', '1', benign=True, pair=True)
    add('p31', '2147483648')
    add('p61', '2305843009213693952')        # times 8 (a unit) wraps to exactly 0 in 64 bits
    add('p62', '4611686018427387904')
    add('p63', '9223372036854775808', pair=True)
    add('p64', '18446744073709551616', pair=True)
    add('f1e308', '1e308', pair=True)
    add('nan', 'nan', pair=True)
    add('half', '0.5')
    add('str_empty', '""', pair=True)
    add('str_a', '"a"', benign=True, pair=True)
    add('str_64k', '("a" * 65536)')
    add('str_cjk', '("\u6f22\u5b57" * 15)')          # 30 characters, 90 bytes: byte length and character count on different sides of the display limits
    add('str_json', '"json"')          # a string that names something (format, encoding-like): plausible string argument
    add('bin_badutf8', '([255, 254, 128, 0] | tobytes)', pair=True)
    add('bin_unaligned', '("ab" | tobits[3:13])', pair=True)
    add('bin_ab', '("ab" | tobytes)', benign=True)
    add('arr_empty', '[]', pair=True)
    add('arr_nested', '[[1, [2, [3, []]]], "a", null, {"a": []}]')
    add('arr_plain', '[1, "a"]', benign=True, pair=True)
    add('obj_empty', '{}', pair=True)
    add('obj_plain', '{"a": 1}', benign=True, pair=True)
    add('obj_emptykey', '{"": "x", "#text": "t", "@": "u"}')       # keys that are empty or only a marker character
    add('opt_unit0', '{unit: 0}', pair=True)
    add('opt_indent_neg', '{indent: -1}', pair=True)
    add('opt_linebytes_neg', '{line_bytes: -5}')
    add('opt_bitsformat_num', '{bits_format: 7}')
    add('opt_depth_huge', '{depth: 1e9}')
    add('opt_mistyped', '{unit: "x", indent: "x", line_bytes: null, depth: [], bits_format: {}, array_truncate: "x", addrbase: null, color: 7, unicode: "x", encoding: 1, name: 1}')
    add('opt_huge', '{indent: 1e5, line_bytes: 2147483648, display_bytes: 9223372036854775808, array_truncate: 1e18, addrbase: 1e9, sizebase: 1e9, pad_to_units: 1e6}')
    add('dv_struct', dv, pair=True)
    add('dv_json', '("[1,{\\"a\\":\\"b\\"}]" | json)')
    add('dv_leaf', '(%s | first(.. | select(type == "string")))' % dv)
    add('dv_str_cjk', '("\\"" + ("\u6f22\U0001f600" * 12) + "\\"" | json)')      # a decode value that is a string of 2-, 3- and 4-byte characters
    add('dv_struct_cjk', '([217, 90, ("\u6f22\u5b57" * 15 | tobytes)] | tobytes | msgpack)')      # a decoded struct with a string FIELD of 30 characters / 90 bytes
    add('dv_obj_cjk', '("{\\"k\\":\\"" + ("\u00e9\u6f22" * 14) + "\\"}" | json)')
    # extended option objects (option arm only): one member each, so that one bad member is not masked by another
    ext_vals = [('neg1', '-1'), ('zero', '0'), ('three', '3'), ('e9', '1e9'), ('p64', '18446744073709551616'), ('half', '0.5'),
                ('str', '"x"'), ('estr', '""'), ('null', 'null'), ('true', 'true'), ('arr', '[]')]
    for k in optkeys:
        for vn, ve in ext_vals:
            B.append(dict(name='o_%s_%s' % (k, vn), expr='{%s: %s}' % (json.dumps(k), ve), inp=True, benign=False, pair=False, base=False))
        # structured members (tables of ranges / numbers) with out-of-range bounds, with colour on: colour and decorator tables are only
        # built when color is true, which no test sets. Only for members whose default value is an array or object.
        for vn, ve in [] if k not in structkeys else (('ranges', '[{ranges: [[-1, 256]], value: "red"}]'), ('nums', '[-1, 256, 65536]'), ('objnum', '{a: -1, b: 256}')):
            extra = '' if k == 'color' else ', color: true'
            B.append(dict(name='s_%s_%s' % (k, vn), expr='{%s: %s%s}' % (json.dumps(k), ve, extra), inp=True, benign=False, pair=False, base=False))
    # two-member option objects: a rendering MODE next to a NUMBER out of its range.  A number is checked (clamped) for the code that
    # uses it directly, but a mode can select other code that picked the number up before the check; one member alone shows nothing.
    # Run on an input that holds a binary, which is what the modes render.
    for mode in ('snippet', 'truncate', 'hex', 'md5', 'base64', 'byte_array', 'string'):
        for num in ('sizebase', 'addrbase', 'line_bytes', 'display_bytes', 'array_truncate', 'string_truncate', 'depth'):
            for vn, ve in (('neg1', '-1'), ('one', '1'), ('v37', '37'), ('e9', '1e9')):
                B.append(dict(name='m_%s_%s_%s' % (mode, num, vn), expr='{bits_format: "%s", %s: %s}' % (mode, num, ve), inp=True, benign=False, pair=False, base=False))
    for i, b in enumerate(B):
        b['id'] = i + 1
        b['pair'] = b['name'] in PAIR_POOL
    return B


STATIC_OPT_KEYS = ['unit', 'keep_range', 'pad_to_units', 'indent', 'comma', 'comment', 'encoding', 'name', 'prompt', 'complete',
                   'timeout', 'filename', 'force', 'progress', 'slurps', 'input_query', 'catch_query', 'output_query']


# ------------------------------------------------------------------------------------------------ calls
class Runner:
    def __init__(self, ctx, cfg):
        self.ctx, self.cfg = ctx, cfg
        self.bin = ctx.go_build('c13')
        self.n = 0
        self.done = {}     # (f, vals, variant) -> event
        self.events = []
        self.carry = []    # calls that stalled once in a run with deferred confirmation: (key, call, job)

    def expr(self, fn, vals, pool):
        binds, args = [], []
        for k, v in enumerate(vals):
            binds.append('(%s) as $v%d' % (pool[v - 1]['expr'], k))
            if k > 0:
                args.append('$v%d' % k)
        call = fn['fn'] + ('(%s)' % '; '.join(args) if args else '')
        return '%s%s | [limit(50; $v0 | _c13r(%s))] | %s + tojson' % (PRELUDE, ' | '.join(binds), call, MARK)

    def run(self, calls, pool, fns, name, defer_stalls=False):
        """calls: list of dict(f (1-based), pos, vals [, variant, job]) -> events (deduplicated against earlier phases).
        defer_stalls: a call that stalls is not re-run now but handed to the next run, which starts its solitary
        re-runs at once, beside its own pool."""
        todo, jobs = [], []
        for key, c, job in self.carry:
            todo.append((key, c))
            jobs.append(dict(job, confirm=True))
        self.carry = []
        for c in calls:
            key = (c['f'], tuple(c['vals']), c.get('variant', ''))
            if key in self.done:
                continue
            self.done[key] = None
            fn = fns[c['f'] - 1]
            job = dict(c.get('job') or {})
            job.setdefault('expr', self.expr(fn, c['vals'], pool))
            # standard output is a (virtual) terminal unless the call says otherwise: a binary result is then shown as a
            # truncated hex dump, as in interactive use, instead of being copied raw (2 GiB for `"a" | tobytes(2147483648)`)
            job.setdefault('tty', True)
            job['key'] = '%s/%d' % (fn['fn'], fn['arity'])
            todo.append((key, c))
            jobs.append(job)
        if not jobs:
            return []
        self.n += 1
        jp = os.path.join(self.ctx.build, '%s_jobs.ndjson' % name)
        rp = os.path.join(self.ctx.build, '%s_res.ndjson' % name)
        vlib.write_ndjson(jp, jobs)
        cfg = self.cfg
        self.ctx.run([self.bin, 'run', jp, rp, str(cfg['workers']), str(cfg['mem_kb']), str(cfg['per_call'])] + (['defer'] if defer_stalls else []),
                     check=True, timeout=7200)
        res = vlib.read_ndjson(rp)
        if len(res) != len(jobs):
            raise Inconclusive('c13 run lost results (%d of %d)' % (len(res), len(jobs)))
        evs = []
        for (key, c), r, job in zip(todo, res, jobs):
            fn = fns[c['f'] - 1]
            if r['outcome'] == 'stall':
                job.pop('confirm', None)
                self.carry.append((key, c, job))
                continue
            ev = dict(f=c['f'], fn=fn['fn'], arity=fn['arity'], pos=c['pos'], vals=list(c['vals']), outcome=r['outcome'],
                      msg=r['msg'][:160] if r['outcome'] in ('results', 'error', 'mixed', 'exit') else r['msg'][:8000],
                      arm=c.get('arm', name), variant=c.get('variant', ''), ms=r['ms'])
            ev['_expr'] = job['expr']
            job.pop('confirm', None)
            ev['_job'] = job
            ev['_stalls'] = r.get('stalls', 0)
            ev['_attributed'] = bool(r.get('attributed'))
            if r['outcome'] == 'exit' and re.search(r'function not defined|: parse: |: compile: ', r['msg']) and not fn['fn'].startswith(('_eval', 'eval', '_repl', 'repl', '_cli', '_main', 'slurp', '_slurp', '_help')):
                raise Inconclusive('harness program did not compile for %s/%d: %s' % (fn['fn'], fn['arity'], r['msg'][:200]))
            self.done[key] = ev
            evs.append(ev)
        self.events += evs
        return evs


SCORE = {'results': 3, 'mixed': 2, 'exit': 1, 'error': 0}


def grid_values(pool, k):
    ben = [p['id'] for p in pool if p['benign']]     # null, one, str_a, bin_ab, arr_plain, obj_plain
    byname = {p['name']: p['id'] for p in pool}
    order = [byname[n] for n in ('obj_plain', 'str_a', 'one', 'arr_plain', 'null', 'bin_ab')]
    assert sorted(order) == sorted(ben)
    return order[:k]


def product(vals, n):
    if n == 0:
        return [[]]
    return [[v] + r for v in vals for r in product(vals, n - 1)]


def stack_functions(msg):
    """function names of the faulting goroutine, innermost first (harness frames and runtime noise removed)"""
    lines = msg.split('\n')
    start = 0
    for i, l in enumerate(lines):
        if l.startswith('panic(') or l.startswith('runtime.throw') or l.startswith('runtime.fatal'):
            start = i + 1
    if start == 0:
        # goroutine dump (SIGQUIT): the evaluating goroutine is the one with fq's main loop on its stack
        blocks = [i for i, l in enumerate(lines) if l.startswith('goroutine ')]
        for b, i in enumerate(blocks):
            end = blocks[b + 1] if b + 1 < len(blocks) else len(lines)
            if any('(*Interp).Main(' in l for l in lines[i:end]):
                start = i + 1
                break
        else:
            for i, l in enumerate(lines):
                if re.match(r'goroutine \d+ .*\[running', l):
                    start = i + 1
                    break
    out = []
    for l in lines[start:]:
        if l.startswith('goroutine ') and out:
            break
        if not l or l[0] in ' \t' or '(' not in l or l.startswith(('goroutine ', 'created by ')):
            continue
        f = l[:l.rindex('(')]
        if f.startswith(('runtime.', 'runtime/', 'panic', 'internal/', 'sync.', 'reflect.', 'syscall.', 'os.', 'io.', 'strings.', 'bytes.', 'math/', 'main.')):
            continue
        if 'internal/verif/' in f:
            continue
        out.append(f)
    return out


FQ = 'github.com/wader/fq/'
GENERIC = ('pkg/interp.(*Interp).Eval', 'pkg/interp.iterFn', 'pkg/interp.(*Interp).Main', 'pkg/interp.(*Interp).EvalFunc')


def clean(f):
    f = f[len(FQ):] if f.startswith(FQ) else f
    f = re.sub(r'\[[^\]]*\]', '', f)
    return re.sub(r'(\.func\d+(\.\d+)*)+$', '', f)


def fault_sig(ev):
    """total:<fn>/<arity>:<fault class>:<frame>.  panic: the innermost fq function (or `gojq:<function>` when the panic is
    inside the gojq dependency with no fq function on top).  hang / fatal-*: where the stack happens to be is not
    stable, so the frame is the fq Go function that jq called (the frame above the Register{Func,Iter}N glue), or
    `jq-eval` when the work is in jq-defined code."""
    fs = stack_functions(ev['msg'])
    fq = [f for f in fs if f.startswith(FQ) and not clean(f).startswith(GENERIC)]
    dep = next((f for f in fs if not f.startswith(FQ) and '/' in f), None)
    where = None
    if ev['outcome'] == 'panic':
        if fs and not fs[0].startswith(FQ) and fs[0].startswith('github.com/wader/gojq') and (not fq or re.search(r'\.Register(Func|Iter)\d', fq[0])):
            where = 'gojq:' + clean(fs[0].split('/')[-1])
        elif fq:
            where = clean(fq[0])
    else:
        for k, f in enumerate(fs):
            if re.search(r'\.Register(Func|Iter)\d', f) and k > 0 and fs[k - 1].startswith(FQ):
                where = clean(fs[k - 1])
                break
        if where is None:
            where = 'jq-eval' if fs else 'unknown'
    where = re.sub(r'[^A-Za-z0-9_.:()*/\-]', '', where or (dep and clean(dep)) or 'unknown')
    return 'total:%s/%d:%s:%s' % (ev['fn'], ev['arity'], ev['outcome'], where), dep


def tla_event(ev, f=None):
    """<<f, fn, arity, pos, vals, outcome>> (Outcome.tla EvF..EvOutcome); the message stays in the evidence / replay files"""
    return [f or ev['f'], ev['fn'], ev['arity'], ev['pos'], ev['vals'], ev['outcome']]


def tla_cfg(cfg, mins, pairs):
    return ('SPECIFICATION TSpec\nCONSTANTS FullClasses = {%s}\n WantPairs = %s\n MinGo = %d\n MinPublic = %d\n MinInternal = %d\n MinGenerated = %d\n'
            'POSTCONDITION Covered\nCHECK_DEADLOCK FALSE\n') % (', '.join('"%s"' % c for c in cfg['full']), 'TRUE' if pairs else 'FALSE', *mins)


def run(ctx):
    cfg = TIERS[ctx.tier]
    rng = ctx.rng
    ctx.cov['rule'] = ('One evaluation = one call `INPUT | try F(ARGS) catch .` (first 50 outputs, each printed the way the fq command line '
                       'prints an output) run by real fq on a fresh Interp in an isolated worker. distinct_nontrivial = distinct '
                       '(function/arity, position, pool value) triples actually executed, position 0 being the input. Every executed call is '
                       'an event validated by TraceOutcome.tla; the TLC postcondition checks that every (function, position, required pool '
                       'value) of the run-time inventory occurs with per-type benign defaults elsewhere (thorough: also every pair over the '
                       'pair pool for arity 1..2).')
    ctx.assumptions += [
        'fault enumeration: totality is shown for the recorded pool values and benign contexts only, not for all jq values',
        'a process exit (status, no Go runtime fault) is accepted for the documented process enders %s and for internal (`_`-prefixed) '
        'functions, which are the plumbing of those exits and of the interpreter state; for any other function it is a finding' % sorted(EXIT_BY_DESIGN),
        'hang = the call alone in a fresh worker exceeded the CPU budget (1.25 x per-call watchdog seconds of CPU) or the wall cap twice; '
        'work that is merely proportional to a huge count argument is reported the same way and listed in known_findings.txt when by design',
        'standard output of a call is a virtual terminal (binary results are shown as a truncated hex dump, not copied raw)',
        'parsed @builtin jq modules are shared between the Interps of one worker process (parse cache only; each call still compiles and '
        'runs on its own Interp with its own state)',
        'the process-level functions halt/0 and halt_error/0,1 are defined by gojq; they are in the inventory because fq\'s main loop implements their effect',
    ]
    ctx.cov['trusted_base'] += ['harness/c13/main.go classify(): marker line -> results/error/mixed/exit (30 lines)',
                                'checks/c13.py fault_sig(): Go traceback -> signature frame (does not decide verdicts, only names them)']
    R = Runner(ctx, cfg)

    # ---- 1. inventory, read from the running program
    invp = os.path.join(ctx.build, 'inventory.json')
    ctx.run([R.bin, 'inventory', invp], check=True, timeout=300)
    inv = json.load(open(invp))
    fns = inv['fns']
    have = {(f['fn'], f['arity']) for f in fns}
    for name, ar in (('halt', 0), ('halt_error', 0), ('halt_error', 1)):
        if (name, ar) not in have:      # defined by gojq, process-level effect implemented by fq's main loop
            fns.append(dict(fn=name, arity=ar, cls='cli', src='gojq', params=[], std=True, iter=False))
    order = {'go': 0, 'public': 1, 'cli': 2, 'internal': 3, 'generated': 4}
    fns.sort(key=lambda f: (order[f['cls']], f['fn'], f['arity']))
    for i, f in enumerate(fns):
        f['i'] = i + 1
        f['exit'] = f['fn'] in EXIT_BY_DESIGN
        f['internal'] = f['fn'].startswith('_')
    counts = collections.Counter(f['cls'] for f in fns)
    ctx.cov['inventory'] = dict(counts, modules=len(inv['modules']), overrides_of_standard_names=sorted('%s/%d' % (f['fn'], f['arity']) for f in fns if f['std'] and f['cls'] != 'cli'))

    # option member names: display/CLI options and decoder options as the running program reports them, plus the Go option structs
    kexpr = '[(options | keys[]), (_registry.formats[] | (.decode_in_arg // {}) | keys[])] | unique | %s + tojson' % MARK
    r = ctx.run([R.bin, 'eval1', kexpr], check=True, timeout=120)
    optkeys = sorted(set(json.loads(r.stdout)) | set(STATIC_OPT_KEYS))
    sexpr = '[options | to_entries[] | select((.value | type) == "array" or (.value | type) == "object") | .key] | %s + tojson' % MARK
    structkeys = set(json.loads(ctx.run([R.bin, 'eval1', sexpr], check=True, timeout=120).stdout))
    pool = build_pool(ctx, optkeys, structkeys)
    base_ids = [p['id'] for p in pool if p['base']]
    ctx.cov['pool'] = dict(base=[p['name'] for p in pool if p['base']], benign_defaults=[p['name'] for p in pool if p['benign']],
                           pair_pool=[p['name'] for p in pool if p['pair']], extended_option_objects=len(pool) - len(base_ids),
                           option_member_names=len(optkeys))

    # ---- 0. every pool expression evaluates to exactly one value (else the harness is broken, not fq)
    chk = '[%s] | %s + tojson' % (', '.join('([%s] | length)' % p['expr'] for p in pool if p['base']), MARK)
    r = ctx.run([R.bin, 'eval1', chk], check=True, timeout=120)
    if json.loads(r.stdout) != [1] * len(base_ids):
        raise Inconclusive('pool self-check failed: %s' % r.stdout[:200])

    # ---- which functions are exercised, and with which part of the pool (tier policy, seeded)
    gen_names = sorted({re.sub(r'^from_', '', f['fn']) for f in fns if f['cls'] == 'generated'})
    if cfg['generated_names'] is not None:
        keep = set(rng.sample(gen_names, min(cfg['generated_names'], len(gen_names))))
    else:
        keep = set(gen_names)
    nonbenign = [p['id'] for p in pool if p['base'] and not p['benign']]
    benign = [p['id'] for p in pool if p['benign']]
    for f in fns:
        if f['cls'] == 'generated' and re.sub(r'^from_', '', f['fn']) not in keep:
            f['req'] = []
            continue
        fr = cfg['frac'].get(f['cls'])
        if f['cls'] in cfg['full'] or fr is None:
            f['req'] = list(base_ids)
        else:
            k = max(1, int(round(len(nonbenign) * fr)))
            f['req'] = sorted(rng.sample(nonbenign, k))
        f['pairs'] = bool(cfg['pairs']) and 1 <= f['arity'] <= 2 and bool(f['req']) and f['cls'] != 'generated'
    active = [f for f in fns if f['req']]

    # ---- 2. phase A: grid of per-type benign defaults at all positions at once (finds a context each function accepts)
    calls = []
    for f in active:
        g = cfg['grid'][f['cls']]
        k = g[0] if f['arity'] <= 1 else g[1] if f['arity'] == 2 else g[2]
        gv = grid_values(pool, k)
        for vals in product(gv, f['arity'] + 1):
            calls.append(dict(f=f['i'], pos=-1, vals=vals))
    evA = R.run(calls, pool, fns, 'grid', defer_stalls=True)
    best = {}
    for ev in evA:
        s = SCORE.get(ev['outcome'], -1)
        if ev['f'] not in best or s > best[ev['f']][0]:
            best[ev['f']] = (s, ev['vals'])
    null_id = pool[0]['id']

    # ---- 3. phase B: every position x required pool value, the other positions at the accepted benign context
    def context(f):
        return best.get(f['i'], (0, [null_id] * (f['arity'] + 1)))[1]
    calls = []
    for f in active:
        ctxv = context(f)
        for p in range(f['arity'] + 1):
            for v in f['req']:
                if p == 0 and not pool[v - 1]['inp']:
                    continue
                vals = list(ctxv)
                vals[p] = v
                calls.append(dict(f=f['i'], pos=p, vals=vals, arm='sweep'))

    # ---- 4. option arm: single-member option objects at argument positions that take objects: every argument of a
    # Go function, and jq-defined arguments where the grid saw an object accepted and a non-object refused
    objs = {p['id'] for p in pool if p['name'].startswith(('obj_', 'opt_'))}
    acc = collections.defaultdict(lambda: [False, False])
    for ev in evA:
        ok = ev['outcome'] in ('results', 'mixed')
        for p, v in enumerate(ev['vals']):
            if p and v in objs and ok:
                acc[(ev['f'], p)][0] = True
            if p and v not in objs and not ok and all(w in objs for q, w in enumerate(ev['vals']) if q and q != p):
                acc[(ev['f'], p)][1] = True
    optpos = [(f, p) for f in active for p in range(1, f['arity'] + 1) if f['cls'] == 'go' or all(acc[(f['i'], p)])]
    ext = [p['id'] for p in pool if not p['base']]
    ocalls = []
    for f, p in optpos:
        for v in ext:
            vals = list(context(f))
            vals[p] = v
            ocalls.append(dict(f=f['i'], pos=p, vals=vals, arm='options'))
    # an empty string as option value, with the usual input and with an object whose keys are empty or a lone marker character: option
    # values are spliced into keys and names (prefixes, separators), so the two interact; few calls, all of them run
    byname_pool = {p['name']: p['id'] for p in pool}
    estr = [p['id'] for p in pool if p['name'].endswith('_estr')]
    ecalls = []
    for f, p in optpos:
        for v in estr:
            for inp in (None, byname_pool.get('obj_emptykey'), byname_pool.get('str_empty')):
                vals = list(context(f))
                vals[p] = v
                if inp is not None:
                    if vals[0] == inp:
                        continue
                    vals[0] = inp
                ecalls.append(dict(f=f['i'], pos=p, vals=vals, arm='options'))
    # mode x number objects: on an input that holds a binary; the number bases always, the other numbers one in four (by seed)
    mids = [p for p in pool if p['name'].startswith('m_')]
    binid = byname_pool.get('bin_unaligned')
    mcalls = []
    for f, p in optpos:
        for k, m in enumerate(mids):
            if not (('_sizebase_' in m['name'] or '_addrbase_' in m['name']) or cfg.get('pairs') or (k + ctx.seed) % 4 == 0):
                continue
            vals = list(context(f))
            vals[p] = m['id']
            if binid:
                vals[0] = binid
            mcalls.append(dict(f=f['i'], pos=p, vals=vals, arm='options'))
    stride = 1
    sids = {p['id'] for p in pool if p['name'].startswith('s_')}
    scalls = [c for c in ocalls if c['vals'][c['pos']] in sids]       # few (structured members only): all of them run
    midset = {m['id'] for m in mids}
    ocalls = [c for c in ocalls if c['vals'][c['pos']] not in sids and c['vals'][c['pos']] not in midset]
    if len(ocalls) > cfg['opt_budget']:
        stride = -(-len(ocalls) // cfg['opt_budget'])
        ocalls = ocalls[rng.randrange(stride)::stride]
    ocalls = [c for c in ocalls if c['vals'][c['pos']] not in set(estr)]
    ocalls = scalls + ecalls + mcalls + ocalls
    ctx.cov['option_arm'] = dict(positions=len(optpos), calls=len(ocalls), stride=stride, structured_member_calls=len(scalls), empty_string_member_calls=len(ecalls), mode_and_number_calls=len(mcalls))
    calls += ocalls

    # ---- 5. thorough: all pairs over the pair pool for arity <= 2 (others benign)
    if cfg['pairs']:
        pp = [p['id'] for p in pool if p['pair']]
        for f in active:
            if not f['pairs']:
                continue
            n = f['arity'] + 1
            for p in range(n):
                for q in range(p + 1, n):
                    for v in pp:
                        if p == 0 and not pool[v - 1]['inp']:
                            continue
                        for w in pp:
                            vals = list(context(f))
                            vals[p], vals[q] = v, w
                            calls.append(dict(f=f['i'], pos=-1, vals=vals, arm='pairs'))
        ctx.cov['pairs_arm'] = dict(pair_pool=len(pp), stride_note='pairs over the %d-value pair pool, not the full %d-value pool' % (len(pp), len(base_ids)))

    # ---- 6. terminal arm: functions that talk to the terminal / end the process, on a virtual terminal; repl as a whole
    # interactive session (fq -i) whose scripted user types `. | repl(OPTS)`
    byname = {(f['fn'], f['arity']): f for f in fns}
    inputs = [p for p in pool if p['base'] and p['name'] in ('null', 'one', 'str_a', 'arr_plain', 'obj_plain', 'obj_emptykey', 'dv_struct', 'bin_unaligned', 'nan', 'str_64k')]
    optsv = [p for p in pool if p['base'] and p['name'].startswith(('obj_', 'opt_', 'null', 'one', 'str_a'))]
    if ('repl', 0) in byname:
        f = byname[('repl', 0)]
        for x in inputs:
            for tty in (True, False):
                calls.append(dict(f=f['i'], pos=0, vals=[x['id']], variant='session-tty%d' % tty, arm='terminal',
                                  job=dict(expr=x['expr'], repl=True, tty=tty, lines=['.', '1+', 'tojson | repl', '.a', 'display', '', '^D'])))
    if ('repl', 1) in byname:
        f = byname[('repl', 1)]
        for o in optsv:
            calls.append(dict(f=f['i'], pos=1, vals=[pool[0]['id'], o['id']], variant='session-tty1', arm='terminal',
                              job=dict(expr='[1, {a: "b"}]', repl=True, tty=True, lines=['. | repl(%s)' % o['expr'], '.', 'error("x")', '.[1] | repl', '.a'])))
    for name in ('_readline', 'stdin_tty', 'stdout_tty', '_stdio_info', 'history', 'paste', '_repl', 'input', 'inputs', '_prompt', '_complete'):
        for ar in (0, 1, 2):
            f = byname.get((name, ar))
            if not f or not f['req']:
                continue
            for vals in product([x['id'] for x in inputs[:5]], ar + 1):
                calls.append(dict(f=f['i'], pos=-1, vals=vals, variant='tty1', arm='terminal',
                                  job=dict(expr=R.expr(f, vals, pool), tty=True, stdin='[1,2]\n"x"\n', lines=['.', '.a'])))
    # calls with huge values first: that is where a stall can come from, and its solitary re-runs then overlap the rest
    heavy = {p['id'] for p in pool if p['name'] in ('str_64k', 'opt_huge', 'opt_depth_huge', 'p31', 'p63', 'p64', 'f1e308', 'dv_struct')}
    calls.sort(key=lambda c: 0 if heavy & set(c['vals']) else 1)
    evB = R.run(calls, pool, fns, 'sweep')

    if R.carry:
        raise Inconclusive('unconfirmed stalls left over')
    events = R.events
    ctx.cov['calls'] = dict(collections.Counter(e['arm'] for e in events), total=len(events))
    ctx.cov['evaluations'] += len(events)
    ctx.cov['outcomes'] = dict(collections.Counter(e['outcome'] for e in events))
    ctx.cov['hangs'] = dict(confirmed_by_two_solitary_reruns=sum(1 for e in events if e['outcome'] == 'hang' and not e['_attributed']),
                            attributed_to_confirmed_hang_of_same_function=sum(1 for e in events if e['outcome'] == 'hang' and e['_attributed']))
    ctx.cov['stalled_then_completed_on_rerun'] = sum(1 for e in events if e['outcome'] != 'hang' and e['_stalls'])
    triples = set()
    for e in events:
        for p, v in enumerate(e['vals']):
            triples.add((e['f'], p, v))
    ctx.cov['distinct_nontrivial'] += len(triples)
    ctx.cov['functions_exercised'] = len({e['f'] for e in events})
    ctx.cov['full_classes'] = list(cfg['full'])
    ctx.cov['thinned'] = {c: dict(fraction_of_nonbenign_pool=fr) for c, fr in cfg['frac'].items()}
    if cfg['generated_names'] is not None:
        ctx.cov['thinned'].setdefault('generated', {})['format_names_sampled'] = '%d of %d' % (len(keep), len(gen_names))

    # ---- 7. TLC: every event against the call protocol, coverage obligation as postcondition
    fnp = os.path.join(ctx.build, 'c13_fns.ndjson')
    plp = os.path.join(ctx.build, 'c13_pool.ndjson')
    vlib.write_ndjson(fnp, [dict(fn=f['fn'], arity=f['arity'], cls=f['cls'], internal=f['internal'], req=f['req'], exit=f['exit'], pairs=f.get('pairs', False)) for f in fns])
    vlib.write_ndjson(plp, [dict(id=p['id'], name=p['name'], inp=p['inp'], benign=p['benign'], pair=p['pair'], base=p['base']) for p in pool])
    trp = os.path.join(ctx.build, 'c13_trace.ndjson')
    vlib.write_ndjson(trp, [tla_event(e) for e in events])
    mins = (40, 120, 120, 200)
    cfgt = tla_cfg(cfg, mins, cfg['pairs'])
    extra = {'c13_fns.ndjson': fnp, 'c13_pool.ndjson': plp}
    rej, _, res = ctx.tv('TraceOutcome', 'TraceOutcome.cfg', trp, name='tv_outcome', cfg_text=cfgt, extra_files=extra, timeout=1500, heap='8g')
    ctx.cov['traces_validated_against_impl'] += len(events)
    ctx.cov['coverage_obligation'] = 'met (TLC postcondition Covered: singles%s)' % (' + pairs' if cfg['pairs'] else '')

    # ---- 8. verdicts
    nfault = collections.Counter()
    for line, sig in rej:
        ev = events[line - 1]
        if sig == 'malformed':
            raise Inconclusive('malformed event at line %d' % line)
        vals = [pool[v - 1]['name'] for v in ev['vals']]
        if sig == 'uncaught-exit':
            s = 'total:%s/%d:uncaught-exit:%s' % (ev['fn'], ev['arity'], re.sub(r'[^A-Za-z0-9_.:-]+', '_', ev['msg'])[:60])
            ctx.finding(s, '%s/%d on %s left the fq main loop with "%s" although `try` was around it' % (ev['fn'], ev['arity'], vals, ev['msg'][:120]),
                        dict(expr=ev['_expr'], job=ev['_job'], values=vals, outcome=ev['outcome'], msg=ev['msg']))
            continue
        if ev['outcome'] == 'fatal-oom' and any(re.search(r'(_e9|_p64|^opt_huge|^opt_depth_huge|^p31|^p63|^p64|^f1e308|^str_64k)$', v) for v in vals):
            # the worker's address space limit (RLIMIT_AS) was hit by a call that was ASKED for output proportional to a huge count
            # (a billion characters of indentation, ...): that is the harness's limit, not a fault of the function; counted, not judged
            ctx.cov.setdefault('memory_limit_hit_by_huge_count_argument', []).append('%s/%d %s' % (ev['fn'], ev['arity'], vals))
            continue
        s, dep = fault_sig(ev)
        nfault[s] += 1
        first = ev['msg'].split('\n')[0][:160]
        ctx.finding(s, '%s/%d with values %s (position %d varied): %s: %s' % (ev['fn'], ev['arity'], vals, ev['pos'], ev['outcome'], first),
                    dict(expr=ev['_expr'], job=ev['_job'], values=vals, outcome=ev['outcome'], msg=ev['msg'][:3000]))
    ctx.cov['faults_by_signature'] = dict(nfault)
    evO = [e for e in evB if e['arm'] == 'options']
    evT = [e for e in evB if e['arm'] == 'terminal']
    for e in (evB[len(evB) // 5:len(evB) // 5 + 2] + evO[:1] + evT[:1] + [events[l - 1] for l, _ in rej[:2]]):
        ctx.sample(dict(fn='%s/%d' % (e['fn'], e['arity']), position=e['pos'], values=[pool[v - 1]['name'] for v in e['vals']],
                        outcome=e['outcome'], msg=e['msg'][:100], program=e['_expr'][len(PRELUDE):][:300]))

    # ---- 9. binding demonstration
    binding_demo(ctx, events, fns, pool, cfg, cfgt, extra, {l for l, _ in rej})


def binding_demo(ctx, events, fns, pool, cfg, cfgt, extra, rejected_lines):
    # (a) a two-function inventory that four real events cover completely; flip one outcome to panic -> that line is rejected
    good = [e for i, e in enumerate(events) if (i + 1) not in rejected_lines and e['arity'] == 0 and e['pos'] == 0 and e['outcome'] in ('results', 'error')]
    if len(good) < 4:
        raise Inconclusive('no events for the binding demo')
    fa = good[0]['f']
    ea = [e for e in good if e['f'] == fa][:2]
    eb = [e for e in good if e['f'] != fa]
    eb = [e for e in eb if e['f'] == eb[0]['f']][:2]
    if len(ea) < 2 or len(eb) < 2:
        raise Inconclusive('no events for the binding demo')
    demo_inv, remap = [], {}
    for k, f in enumerate((fns[fa - 1], fns[eb[0]['f'] - 1])):
        evs = ea if k == 0 else eb
        demo_inv.append(dict(fn=f['fn'], arity=f['arity'], cls='demo', internal=False, req=sorted({e['vals'][0] for e in evs}), exit=False, pairs=False))
        remap[f['i']] = k + 1
    demo = []
    for e in (ea[0], eb[0], ea[1], eb[1]):
        demo.append(tla_event(e, remap[e['f']]))
    bad = copy.deepcopy(demo)
    bad[1][5] = 'panic'
    bad.append(bad[2][:5] + ['hang'])
    dinv = os.path.join(ctx.build, 'c13_demo_fns.ndjson')
    vlib.write_ndjson(dinv, demo_inv)
    dcfg = ('SPECIFICATION TSpec\nCONSTANTS FullClasses = {}\n WantPairs = FALSE\n MinGo = 0\n MinPublic = 0\n MinInternal = 0\n MinGenerated = 0\n'
            'POSTCONDITION CoveredDemo\nCHECK_DEADLOCK FALSE\n')
    ctx.binding_demo('TraceOutcome', 'TraceOutcome_demo.cfg', bad, [2, 5], name='outcome_demo', cfg_text=dcfg,
                     extra_files={'c13_fns.ndjson': dinv, 'c13_pool.ndjson': extra['c13_pool.ndjson']})
    # (b) the Go-registered part of the REAL inventory and trace, with every event of one function dropped: the coverage
    # postcondition must fail and name a missing obligation of that function
    gof = [f for f in fns if f['cls'] == 'go']
    remap = {f['i']: k + 1 for k, f in enumerate(gof)}
    victim = next(f for f in gof if f['arity'] == 2)
    kept, nall = [], 0
    for e in events:
        if e['f'] in remap:
            nall += 1
            if e['f'] != victim['i']:
                kept.append(tla_event(e, remap[e['f']]))
    dp = os.path.join(ctx.build, 'c13_dropped.ndjson')
    vlib.write_ndjson(dp, kept)
    gp = os.path.join(ctx.build, 'c13_go_fns.ndjson')
    vlib.write_ndjson(gp, [dict(fn=f['fn'], arity=f['arity'], cls=f['cls'], internal=f['internal'], req=f['req'], exit=f['exit'], pairs=False) for f in gof])
    files = {'trace.ndjson': dp, 'c13_fns.ndjson': gp, 'c13_pool.ndjson': extra['c13_pool.ndjson']}
    gcfg = ('SPECIFICATION TSpec\nCONSTANTS FullClasses = {"go"}\n WantPairs = FALSE\n MinGo = 40\n MinPublic = 0\n MinInternal = 0\n MinGenerated = 0\n'
            'POSTCONDITION CoveredDemo\nCHECK_DEADLOCK FALSE\n')
    r = ctx.tlc('TraceOutcome', 'TraceOutcome_drop.cfg', cfg_text=gcfg, files=files, workers=1, name='outcome_drop', count=False, timeout=900)
    missing = [l for l in r.raw_printed if 'MISSING-SINGLE' in l]
    ok = bool(r.postcondition_false and missing and ('<<%d,' % remap[victim['i']]) in missing[0].replace(' ', ''))
    ctx.cov['binding_demo'].append(dict(spec='TraceOutcome', dropped_function='%s/%d' % (victim['fn'], victim['arity']),
                                        events_removed=nall - len(kept), postcondition_failed=bool(r.postcondition_false),
                                        report=(missing or [''])[0][:120], ok=ok))
    if not ok:
        raise Inconclusive('coverage postcondition accepted a trace without any event of %s/%d' % (victim['fn'], victim['arity']))


def replay(ctx, path):
    """re-run the call of a replay file alone in a fresh worker; a fault is reported under the recorded signature"""
    rec = json.load(open(path))
    case = rec['case']
    R = Runner(ctx, TIERS['quick'])
    jp = os.path.join(ctx.build, 'replay_jobs.ndjson')
    rp = os.path.join(ctx.build, 'replay_res.ndjson')
    vlib.write_ndjson(jp, [case['job']])
    ctx.run([R.bin, 'run', jp, rp, '1', str(TIERS['quick']['mem_kb']), str(TIERS['quick']['per_call'])], check=True, timeout=900)
    r = vlib.read_ndjson(rp)[0]
    vlib.log('replay outcome: %s %s' % (r['outcome'], r['msg'][:300].replace('\n', ' | ')))
    ctx.cov['evaluations'] += 1
    if r['outcome'] in ('panic', 'fatal', 'fatal-oom', 'fatal-stack', 'hang') or (r['outcome'] == 'exit' and ':uncaught-exit:' in rec['sig']):
        ctx.finding(rec['sig'], 'replayed: %s: %s' % (r['outcome'], r['msg'].split('\n')[0][:160]), case)
