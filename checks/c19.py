# C19 - TCP streams and IPv4 datagrams are reassembled exactly
import os, sys, json, copy, collections
import vlib
from vlib import Inconclusive

LEVEL = 'model_checking'
META = dict(
    text=('TcpReasm.tla models the senders and the capture process (handshake, any segmentation, interleaved connections and directions, '
          'retransmission/overlap, one adjacent swap, one omitted segment, one IPv4-fragmented packet, FIN) and an abstract receiver '
          'Reassemble(wire) that any correct reassembler must agree with. TLC checks, for every history inside small constants, that the '
          'expected observation stated over the history (all that was sent, or exactly the prefix before the first missing byte plus a '
          'skipped signal; right endpoints; fragmented datagrams listed) is what the abstract receiver computes from the capture alone, and '
          'that the transcribed as-built deviations (gopacket FSM veto) matter only in the known shape. TLC then emits histories '
          '(exhaustive small + simulation at the full constants); a hand-written pcap/pcapng x link-layer writer turns each into capture '
          'bytes, real fq decodes them in-process, and TLC validates every report of fq (plus seeded random longer conversations, streams '
          'up to 64 KiB) against the as-required rules, event by event.'),
    note=('Exhaustive only inside the TLC constants recorded in the evidence (tlc_runs); simulation and the random driver beyond. '
          'Stream bytes are abstracted to token numbers by a trivial chunk-table comparison in the harness (trusted_base). Three genuine '
          'defects are recognised by signature (known_findings.txt): FSM veto of data recorded behind FINs, length-coincidence in the '
          'defragmentation test, gopacket sequence arithmetic off by one across 2^32. Loss that only a FIN reveals (missing tail) is left '
          'unconstrained; role "client" is required only when the first captured packet is the SYN.'),
    technique='TLA+ spec (TcpReasm*.tla) + TLC exhaustive MC + TLC GEN/SIM histories replayed through real fq + TLC trace validation of fq reports',
)

# bin/check builds the Ctx (which empties replay/C19/) before it calls replay(): keep a copy of the file named by --replay
_REPLAY_TEXT = None
if '--replay' in sys.argv[:-1]:
    try:
        _REPLAY_TEXT = open(sys.argv[sys.argv.index('--replay') + 1]).read()
    except OSError:
        _REPLAY_TEXT = None

KNOWN_SIGS = ('ipv4.defrag_length_coincidence', 'tcp.fsm_vetoes_segment_behind_fin', 'tcp.fsm_veto+ipv4.defrag_length_coincidence',
              'tcp.seq_wraparound_off_by_one', 'tcp.seq_wraparound_off_by_one+asbuilt')


def mc_cfg(inv, conn, tok, pkts, dup=1, swap=1, omit=1, frag=1, fin=2, hs='{TRUE, FALSE}', isn='{"low"}', minemit=1, emit=False):
    return ('SPECIFICATION Spec\nCONSTANTS MaxConn = %d\n MaxTok = %d\n MaxPkts = %d\n MaxDup = %d\n MaxSwap = %d\n MaxOmit = %d\n MaxFrag = %d\n'
            ' HsChoices = %s\n IsnClasses = %s\n MaxFin = %d\n MinEmit = %d\n%s%sCHECK_DEADLOCK FALSE\n') % (
        conn, tok, pkts, dup, swap, omit, frag, hs, isn, fin, minemit,
        ''.join('INVARIANT %s\n' % i for i in inv), 'CONSTRAINT Emit\n' if emit else '')


def features(e):
    """scenario dimensions present in a history (for coverage accounting and violation signatures)"""
    w = e['wire']
    f = set()
    if any(not c['hs'] for c in e['conns']): f.add('nohs')
    if any(c['hs'] for c in e['conns']): f.add('hs')
    if len({p['c'] for p in w}) >= 2: f.add('conns>=2')
    if any(p['fn'] > 1 for p in w): f.add('frag')
    if e.get('omits'): f.add('omit')
    if e.get('swaps'): f.add('swap')
    if any(p['kind'] == 'fin' for p in w): f.add('fin')
    for c in e['conns']:
        for k in c['isn']:
            if k != 'low': f.add('isn_' + k)
    seen = collections.defaultdict(set)
    dirs = collections.defaultdict(list)
    for p in w:
        if p['kind'] == 'data' and p['fi'] == 1:
            r = set(range(p['from'], p['to'] + 1))
            if r & seen[(p['c'], p['dir'])]: f.add('dup/overlap')
            seen[(p['c'], p['dir'])] |= r
            dirs[p['c']].append(p['dir'])
    for c, ds in dirs.items():
        if any(a != b for a, b in zip(ds, ds[1:])): f.add('interleaved_dirs')
    return f


def py_rule(case, obs):
    """the as-required rules once more, over the expectation TLC printed with the case (cross-check of the TV verdicts)"""
    exp = case['exp']
    ec = {x['c']: x for x in exp['conns']}
    if sorted(o['c'] for o in obs['conns']) != sorted(ec):
        return 'connections'
    for o in obs['conns']:
        if {o['cl']['side'], o['sv']['side']} != {1, 2}:
            return 'endpoints'
    first = {}
    for p in case['wire']:
        first.setdefault(p['c'], p)
    for o in obs['conns']:
        fp = first[o['c']]
        if fp['kind'] == 'syn' and fp['fn'] == 1 and o['cl']['side'] != ec[o['c']]['cli']:
            return 'endpoints'
    for rule in ('stream', 'loss', 'false_alarm'):
        for o in obs['conns']:
            x = ec[o['c']]
            for sd in ('cl', 'sv'):
                s = o[sd]['side'] - 1
                if rule == 'stream' and o[sd]['toks'] != x['out'][s]: return 'stream'
                if rule == 'loss' and x['gap'][s] and o[sd]['skipped'] == 0: return 'loss_not_signalled'
                if rule == 'false_alarm' and not x['gap'][s] and not x['tailgap'][s] and o[sd]['skipped'] != 0: return 'skipped_without_loss'
    if sorted(obs['reasm']) != sorted(exp['reasm']):
        return 'ipv4_reassembled'
    return 'ok'


def dedupe(printed):
    seen, out = set(), []
    for c in printed:
        k = json.dumps([c['conns'], c['wire']], sort_keys=True)
        if k not in seen:
            seen.add(k)
            out.append(c)
    return out


def tlc_retry(ctx, what, *a, **kw):
    """ctx.tlc, repeated once when the JVM was killed from outside (other builders `pkill` TLC on this shared machine)"""
    for attempt in (0, 1):
        r = ctx.tlc(*a, **kw)
        if r.rc in (137, 143) and attempt == 0:
            vlib.log('TLC killed by a signal (%s); retrying once' % what)
            ctx.cov['tlc_runs'].pop()
            continue
        return r


def tv_retry(ctx, *a, **kw):
    for attempt in (0, 1):
        try:
            return ctx.tv(*a, **kw)
        except Inconclusive:
            if attempt == 0 and ctx.cov['tlc_runs'] and ctx.cov['tlc_runs'][-1]['rc'] in (137, 143):
                vlib.log('TLC killed by a signal (trace validation); retrying once')
                continue
            raise


def judge(ctx, binp, events, name):
    """TV over events; returns {line(1-based): sig} of rejections, drift lines"""
    p = os.path.join(ctx.build, name + '.ndjson')
    vlib.write_ndjson(p, events)
    rej, drift, _ = tv_retry(ctx, 'TraceTcp', 'TraceTcp.cfg', p, name='tv_' + name, timeout=1500)
    return {l: s for l, s in rej}, drift


def report(ctx, binp, events, rejects):
    """known signatures -> KNOWN-FINDING; everything else is re-run once (G1) and then reported as a violation"""
    cand = []
    for line, sig in sorted(rejects.items()):
        e = events[line - 1]
        if sig in ctx.known:
            ctx.finding(sig, describe(e), slim(e))
        else:
            cand.append((line, sig))
    if not cand:
        return
    # a broken build rejects thousands of events: confirm and report the smallest few per violated rule
    ctx.cov['rejected_not_known'] = len(cand)
    cand.sort(key=lambda x: (len(events[x[0] - 1]['wire']), x[0]))
    per, keep = collections.Counter(), []
    for line, sig in cand:
        if per[sig] < 3 and len(keep) < 12:
            per[sig] += 1
            keep.append((line, sig))
    cand = keep
    again_in = os.path.join(ctx.build, 'confirm_in.ndjson')
    again_out = os.path.join(ctx.build, 'confirm_out.ndjson')
    vlib.write_ndjson(again_in, [events[l - 1] for l, _ in cand])
    ctx.run([binp, 'again', again_in, again_out], check=True, timeout=600)
    ev2 = vlib.read_ndjson(again_out)
    rej2, _ = judge(ctx, binp, ev2, 'confirm')
    for i, (line, sig) in enumerate(cand):
        if (i + 1) not in rej2:
            ctx.inconc('rejected event %d (%s) was accepted when re-run' % (line, sig))
            continue
        e = ev2[i]
        sig2 = rej2[i + 1]
        shape = sorted(features(e) & {'nohs', 'frag', 'omit', 'swap', 'dup/overlap', 'fin'})
        full = sig2 if sig2 in KNOWN_SIGS else '%s:%s' % (sig2, '+'.join(shape) or 'plain')
        ctx.finding(full, describe(e), slim(e))


def describe(e):
    kinds = {'syn': 'S', 'synack': 'K', 'ack': 'A', 'data': 'D', 'fin': 'F'}
    w = ' '.join('%s%d.%d(%d-%d)%s' % (kinds[p['kind']], p['c'], p['dir'], p['from'], p['to'],
                                       '' if p['fn'] == 1 else '[%d/%d]' % (p['fi'], p['fn'])) for p in e['wire'][:40])
    o = [(c['c'], c['cl']['side'], c['cl']['toks'][:8], c['cl']['skipped'], c['sv']['toks'][:8], c['sv']['skipped']) for c in e['obs']['conns']]
    return '%s/%s hs=%s isn=%s wire: %s -> fq reports (c, client side, client toks, skipped, server toks, skipped) %s reassembled %s %s' % (
        e['fmt'], e['link'], [c['hs'] for c in e['conns']], [c['isn'] for c in e['conns']], w, o, e['obs']['reasm'], e['err'])


def slim(e):
    return e


def run(ctx):
    thorough = ctx.tier == 'thorough'
    ctx.cov['rule'] = ('one event = one capture file (history x file format x link type) decoded by real fq; distinct non-trivial = distinct '
                       '(connections, wire) histories with at least two data packets or one of: duplicate/overlap, swap, omission, fragmentation, '
                       'second connection, FIN, missing handshake')
    ctx.assumptions += [
        'IPv4 only, no IP/TCP options beyond MSS on SYN, no RST, no urgent data; payload bytes are seeded random (no application protocol)',
        'reordering is local: one adjacent swap per TLC history, non-overlapping adjacent swaps in the random driver',
        'a capture without the SYN that also misses the first data segment is excluded (nobody can know the stream started earlier)',
        'omitted tail with nothing captured behind it: stream = prefix, skipped unconstrained when only a FIN reveals the loss, 0 otherwise',
        'checksums are written correctly but fq/gopacket do not verify them',
    ]
    ctx.cov['trusted_base'] += [
        'harness/c19 endpointsOf: reported ip:port pair -> (connection, sides) by table lookup',
        'harness/c19 tokensOf: stream bytes -> token numbers by comparing consecutive chunks of that direction (0 = no chunk at that place)',
        'harness/c19 datagramOf: reassembled datagram bytes -> datagram id by byte equality with the original datagram the writer built',
        'harness/c19 coinc: payload length == 20 + length of the completing fragment (only used to NAME a known defect)',
        'hand-written Ethernet/SLL/SLL2/loopback/raw + IPv4 + TCP + pcap/pcapng writer (no gopacket)',
    ]

    # ------------------------------------------------------------------ 1. MC
    if thorough:
        # measured (8 workers, machine load ~70): 11k, 2.36M (3.5 min), 1.2M (1.7 min), 0.8M (0.5 min), 90k distinct states;
        # (2 conns, 2 tokens, 6 packets) = 10.6M states / 5.5 min and (2,4,7) without capture faults = 3.1M / 7 min also hold (run by hand)
        runs = [dict(conn=1, tok=2, pkts=4), dict(conn=1, tok=4, pkts=5), dict(conn=2, tok=2, pkts=5, fin=1), dict(conn=1, tok=2, pkts=7),
                dict(conn=2, tok=3, pkts=6, dup=0, swap=0, omit=0, frag=0, fin=0)]
    else:
        runs = [dict(conn=1, tok=2, pkts=4), dict(conn=1, tok=3, pkts=4), dict(conn=2, tok=2, pkts=4, fin=1)]
    acts = {}
    gen_cases = []
    for i, kw in enumerate(runs):
        first = (i == 0)    # the first (small) run also measures coverage (every action must fire) and emits its histories (GEN)
        r = tlc_retry(ctx, 'mc', 'TcpReasmMC', 'mc_%d.cfg' % i, cfg_text=mc_cfg(['Agree', 'TypeOK', 'FsmRefinesOrKnown'], emit=first, **kw),
                      timeout=1500, coverage=first)
        ctx.tlc_expect_ok(r, 'history expectation = abstract receiver; FSM veto matters only behind a FIN (%s)' % kw)
        if first:
            acts = getattr(r, 'actions', {})
            gen_cases += r.printed
            r.printed = []
    dead = [a for a in ('Open', 'DoHandshake', 'DoSegment', 'DoRetransmit', 'DoFin', 'DoFinAck', 'SwapAdjacent') if acts.get(a, (0, 0))[0] == 0]
    if dead:
        raise Inconclusive('vacuous model: actions never fired: %s' % dead)
    ctx.cov['mc_actions_fired'] = {a: acts[a][0] for a in acts if a[0].isupper() and a not in ('Init', 'Next')}
    r = tlc_retry(ctx, 'fsm', 'TcpReasmMC', 'mc_fsm.cfg', cfg_text=mc_cfg(['FsmNeverMatters'], 1, 2, 4), count=False, timeout=600)
    ctx.cov['as_built_fsm_counterexample'] = (r.violated == 'FsmNeverMatters')

    # ------------------------------------------------------------------ 2. GEN (exhaustive, small) and SIM (full constants)
    gkws = [dict(conn=1, tok=3, pkts=4), dict(conn=1, tok=2, pkts=5)] if thorough else []
    for k, gkw in enumerate(gkws):
        g = tlc_retry(ctx, 'gen', 'TcpReasmMC', 'gen_%d.cfg' % k, cfg_text=mc_cfg(['Agree'], emit=True, **gkw), timeout=1500)
        ctx.tlc_expect_ok(g, 'GEN')
        gen_cases += g.printed
        g.printed = []
    gkws = [runs[0]] + gkws
    gen_cases = dedupe(gen_cases)
    if len(gen_cases) < 1000:
        raise Inconclusive('GEN produced too few histories (%d)' % len(gen_cases))
    sims = []
    simruns = [('{"low", "half"}', 1500), ('{"low", "wrap", "half"}', 300)] if thorough else [('{"low", "half"}', 200)]   # quick: wrap ISNs come from the random driver
    for k, (isn, num) in enumerate(simruns):
        s = tlc_retry(ctx, 'sim', 'TcpReasmMC', 'sim_%d.cfg' % k, simulate='num=%d' % num, depth=18, timeout=1500, seed=ctx.seed * 10 + k,
                    cfg_text=mc_cfg(['Agree'], 2, 4, 8, isn=isn, minemit=5, emit=True))
        ctx.tlc_expect_ok(s, 'SIM')
        sims += s.printed
        s.printed = []
    sim_cases = dedupe(sims)
    if len(sim_cases) < 500:
        raise Inconclusive('SIM produced too few histories (%d)' % len(sim_cases))
    cap = 20000 if thorough else 6000
    if len(sim_cases) > cap:
        ctx.rng.shuffle(sim_cases)
        sim_cases = sim_cases[:cap]
    ctx.cov['gen_exhaustive'] = dict(constants=gkws, histories=len(gen_cases))
    ctx.cov['sim_histories'] = len(sim_cases)

    # ------------------------------------------------------------------ 3. replay on real fq
    binp = ctx.go_build('c19')
    gp, sp = os.path.join(ctx.build, 'gen_cases.ndjson'), os.path.join(ctx.build, 'sim_cases.ndjson')
    vlib.write_ndjson(gp, gen_cases)
    vlib.write_ndjson(sp, sim_cases)
    ge, se, re_ = (os.path.join(ctx.build, n) for n in ('gen_events.ndjson', 'sim_events.ndjson', 'rand_events.ndjson'))
    ctx.run([binp, 'replay', gp, ge, '1'], check=True, timeout=1500)
    ctx.run([binp, 'replay', sp, se, '2'], check=True, timeout=1500)
    nrand, nbig, nmany = (12000, 150, 120) if thorough else (800, 4, 10)
    ctx.run([binp, 'rand', str(nrand), re_, str(nbig), str(nmany)], check=True, timeout=1500)
    gen_ev, sim_ev, rand_ev = vlib.read_ndjson(ge), vlib.read_ndjson(se), vlib.read_ndjson(re_)
    if len(gen_ev) != len(gen_cases) or len(sim_ev) != 2 * len(sim_cases) or len(rand_ev) != nrand:
        raise Inconclusive('harness produced an unexpected number of events')
    events = gen_ev + sim_ev + rand_ev

    # ------------------------------------------------------------------ 4. TV: every report of fq judged by TLC
    rejects, drift = judge(ctx, binp, events, 'all')
    ctx.cov['traces_validated_against_impl'] += len(events)
    ctx.cov['evaluations'] += len(events)
    if drift:
        ctx.drift('fq report differs from the as-built ordering/role transcription on %d events (accepted by the requirement)' % len(drift), len(drift))

    # cross-check: the expectation TLC printed with each GEN/SIM case, compared in Python, must agree with the TV verdict
    cases_of = gen_cases + [c for c in sim_cases for _ in (0, 1)]
    dis = 0
    for i, c in enumerate(cases_of):
        ok_py = py_rule(c, events[i]['obs']) == 'ok' and not events[i]['err']
        if ok_py != ((i + 1) not in rejects):
            dis += 1
    ctx.cov['gen_expectation_vs_tv_disagreements'] = dis
    if dis:
        raise Inconclusive('TV verdict and emitted expectation disagree on %d events' % dis)

    report(ctx, binp, events, rejects)

    # ------------------------------------------------------------------ 5. coverage accounting
    combos = collections.Counter((e['fmt'], e['link']) for e in events)
    feats = collections.Counter()
    distinct = set()
    maxstream = 0
    for e in events:
        f = features(e)
        for x in f:
            feats[x] += 1
        nd = sum(1 for p in e['wire'] if p['kind'] == 'data')
        if nd >= 2 or f - {'hs'}:
            distinct.add(json.dumps([e['conns'], e['wire']], sort_keys=True))
        if e.get('big'):
            maxstream = max(maxstream, e['bytes'])
    ctx.cov['distinct_nontrivial'] += len(distinct)
    ctx.cov['format_x_link_combinations'] = len(combos)
    ctx.cov['min_events_per_combination'] = min(combos.values())
    ctx.cov['events_by_feature'] = dict(feats)
    ctx.cov['events'] = dict(gen=len(gen_ev), sim=len(sim_ev), rand=len(rand_ev), rand_big=nbig, rand_many_small_segments=nmany, largest_capture_bytes=max(e['bytes'] for e in events),
                             max_packets=max(len(e['wire']) for e in events), rejected=len(rejects))
    if len(combos) < 36:
        raise Inconclusive('not every format x link combination was exercised (%d of 36)' % len(combos))
    for e in (gen_ev[len(gen_ev) // 2], sim_ev[len(sim_ev) // 3], rand_ev[0]):
        ctx.sample(dict(kind='capture ' + e['src'], what=describe(e)[:1500]))

    # ------------------------------------------------------------------ 6. binding demonstration
    good = [i for i, e in enumerate(gen_ev + sim_ev) if (i + 1) not in rejects]
    def pick(pred):
        for i in good[len(good) // 3:] + good:
            if pred(events[i]):
                return copy.deepcopy(events[i])
        raise Inconclusive('no event available for the binding demo')
    hasdata = lambda e: e['obs']['conns'] and len(e['obs']['conns'][0]['cl']['toks']) >= 2 and not any(c['cl']['skipped'] or c['sv']['skipped'] for c in e['obs']['conns'])
    b1 = pick(hasdata); b1['obs']['conns'][0]['cl']['toks'].pop()                        # stream one token short
    nofin = lambda e: hasdata(e) and not any(p['kind'] == 'fin' for p in e['wire'])
    b2 = pick(nofin); b2['obs']['conns'][0]['cl']['skipped'] = 7                       # loss signalled although nothing is missing
    b3 = pick(hasdata); c0 = b3['obs']['conns'][0]; c0['cl']['side'], c0['sv']['side'] = c0['sv']['side'], c0['cl']['side']   # endpoints swapped
    b4 = pick(lambda e: e['obs']['reasm'] and not e['coinc']); b4['obs']['reasm'] = []   # reassembled datagram not listed
    b5 = pick(lambda e: any(c['cl']['skipped'] > 0 for c in e['obs']['conns']))
    for c in b5['obs']['conns']:
        c['cl']['skipped'] = 0                                                           # hole not signalled
    b6 = pick(hasdata); b6['obs']['conns'].append(copy.deepcopy(b6['obs']['conns'][0]))  # a connection reported twice
    ok1, ok2 = pick(hasdata), pick(lambda e: e['obs']['reasm'] and not e['coinc'])
    for attempt in (0, 1):
        try:
            ctx.binding_demo('TraceTcp', 'TraceTcp.cfg', [ok1, b1, b2, ok2, b3, b4, b5, b6], [2, 3, 5, 6, 7, 8])
            break
        except Inconclusive:
            if attempt == 0 and ctx.cov['tlc_runs'] and ctx.cov['tlc_runs'][-1]['rc'] in (137, 143):
                continue
            raise


def replay(ctx, path):
    """bin/check C19 --replay <file>: re-run the recorded event on real fq and judge it again"""
    if _REPLAY_TEXT is None:
        raise Inconclusive('cannot read replay file %s' % path)
    if not os.path.exists(path):        # put the file back where the runner removed it
        os.makedirs(os.path.dirname(os.path.abspath(path)), exist_ok=True)
        open(path, 'w').write(_REPLAY_TEXT)
    rec = json.loads(_REPLAY_TEXT)
    e = rec['case']
    binp = ctx.go_build('c19')
    pin, pout = os.path.join(ctx.build, 'replay_in.ndjson'), os.path.join(ctx.build, 'replay_out.ndjson')
    vlib.write_ndjson(pin, [e])
    ctx.run([binp, 'again', pin, pout], check=True, timeout=300)
    ev = vlib.read_ndjson(pout)
    rejects, _ = judge(ctx, binp, ev, 'replay')
    ctx.cov['evaluations'] += 1
    ctx.cov['traces_validated_against_impl'] += 1
    ctx.cov['rule'] = 'replay of one recorded event'
    ctx.sample(describe(ev[0])[:1500])
    report(ctx, binp, ev, rejects)
