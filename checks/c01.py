# C01 - Bit-exact reads through any composition of bit and file readers
import os, json, copy, collections, re
from concurrent.futures import ThreadPoolExecutor
import vlib
from vlib import Inconclusive

LEVEL = 'model_checking'
META = dict(
    text=('BitIO.tla gives every reader composition a denotation (a bit sequence) and states, per public call, which observed results '
          '(count, bits, end-of-data, error, reported position) are allowed: exactly the corresponding bits, never beyond the logical end, end-of-data '
          'only at the end, no silent stall, seek from start/current/end, independent clones; byte views and writers are the zero-padded bit views. '
          'TLC enumerates every small composition x every short request history (GEN) for execution by the real readers, the harness adds seeded '
          'random compositions (depth <= 3 over sections, multi, zero, limit, bit<->byte adapters, read-ahead cache, progress and context wrappers, '
          'real files) and histories of up to 14 calls, and TLC validates every recorded history. The read-ahead cache (AheadCache.tla, symbolic file bytes, pre-repair variant as witness) and '
          'Read64/Write64 (ReadWrite64.tla, one disjunct per branch of the code, symbolic bits, all first bits x all widths 0..64) and the byte view (IOAdapter.tla: carry buffer, Seek, ReadByte, short-reading and end-refusing sources, pre-repair Seek as witness) are model checked as built.'
          ' ReaderStack.tla transcribes IOBitReadSeeker / SectionReader / MultiReader / the zero reader / the ReadAtFull loop over symbolic bits, every call judged on its transition, '
          'and PREDICTS every recorded call on such compositions exactly (drift = exit 2); BitBuffer.tla transcribes bitio.Buffer and is judged by the same queue requirement as '
          'recorded Buffer histories; long streams (thousands of bits through the carry buffers) and sections reaching beyond their source are part of the random family.'),
    note=('Exhaustive inside the GEN constants (evidence tlc_runs), random beyond. Denotations up to a few hundred bits per history (12 000 in the long-stream cases). Short reads are '
          'allowed by the requirement, so a reader that returns fewer bits without stalling is never an alarm.'),
    technique='TLA+ denotational spec of reader terms (BitIO.tla): TLC-enumerated histories replayed on real bitio readers + TLC trace validation; as-built models AheadCache / ReadWrite64 / IOAdapter / ReaderStack / BitBuffer model checked, ReaderStack bound by exact prediction of recorded calls',
)

CFG = 'SPECIFICATION TSpec\nPOSTCONDITION Consumed\nCHECK_DEADLOCK FALSE\n'


def shape(t):
    k = t['t']
    if k == 'multi':
        return 'multi[' + ','.join(shape(x) for x in t['rs']) + ']'
    if t.get('r'):
        return k + '(' + shape(t['r']) + ')'
    if t.get('y'):
        return k + '(' + shape(t['y']) + ')'
    return k


def kinds(t, out=None):
    out = out if out is not None else set()
    out.add(t['t'])
    for x in (t.get('rs') or []):
        kinds(x, out)
    for f in ('r', 'y'):
        if t.get(f):
            kinds(t[f], out)
    return out


DEMO_DRIFTS = []
DRIFTS = []      # (tv name, event index, call index): calls the as-built transcription ReaderStackOps did not predict exactly


def tv(ctx, evs, name, shards=None, demo=False):
    shards = shards or min(12, max(1, len(evs) // 1500))
    chunks = [list(range(i, len(evs), shards)) for i in range(shards)]

    def one(k):
        idx = chunks[k]
        p = os.path.join(ctx.build, '%s_shard%d.ndjson' % (name, k))
        vlib.write_ndjson(p, [evs[i] for i in idx])
        r = ctx.tlc('TraceBitIO', 'tb.cfg', cfg_text=CFG, files={'trace.ndjson': p}, workers=1, name='%s_%d' % (name, k), count=not demo,
                    timeout=3000 if ctx.tier == 'thorough' else 900, heap='3g')
        ctx.tlc_expect_ok(r, 'TraceBitIO ' + name)
        out = []
        for line in r.raw_printed:
            m = re.match(r'<<"REJECT", (\d+), "([^"]+)"(?:, (\d+))?>>', line)
            if m:
                out.append((idx[int(m.group(1)) - 1], m.group(2), int(m.group(3) or 0)))
            m = re.match(r'<<"DRIFT", (\d+), (\d+)>>', line)
            if m:
                (DEMO_DRIFTS if demo else DRIFTS).append((name, idx[int(m.group(1)) - 1], int(m.group(2))))
        return out
    rej = []
    with ThreadPoolExecutor(max_workers=shards) as ex:
        for r in ex.map(one, range(shards)):
            rej += r
    return rej


def gen_cfg(K, depth2, small):
    if small:
        ops = ' ReadNs = {0, 7, 9}\n SeekFwd = {3}\n SeekBack = {1, 9}\n ByteReadNs = {0, 1, 3}\n ByteSeekFwd = {0, 2}\n ByteSeekBack = {1}\n QPs = {FALSE}\n'
    else:
        ops = ' ReadNs = {0, 1, 7, 8, 9, 13}\n SeekFwd = {0, 3, 9}\n SeekBack = {1, 9}\n ByteReadNs = {0, 1, 2, 3}\n ByteSeekFwd = {0, 1, 2}\n ByteSeekBack = {1, 2}\n QPs = {FALSE, TRUE}\n'
    return ('SPECIFICATION GSpec\nCONSTANTS\n LenA = 13\n LenB = 16\n LenF = 24\n K = %d\n Depth2 = %s\n%sCONSTRAINT Emit\nCHECK_DEADLOCK FALSE\n'
            % (K, 'TRUE' if depth2 else 'FALSE', ops))


def run(ctx):
    th = ctx.tier == 'thorough'
    ctx.cov['rule'] = ('reader compositions x call histories: every small one emitted by TLC (GEN) plus seeded random ones, each executed on the real '
                       'readers; distinct non-trivial = distinct (composition shape, history) pairs whose composition nests at least two reader kinds '
                       'and whose history has a read that is not byte aligned or follows a seek')
    ctx.assumptions += ['leaf contents are seeded random bytes; bits after the logical end of a leaf are deliberately non-zero',
                        'the open-file stack with its real 512 KiB block size is exercised through the command line on a 1.5 MiB file (byte windows compared with Go slicing of the known content)']
    # 1. as-built model of the read-ahead cache
    def ac(drop, F, M, R):
        return 'SPECIFICATION Spec\nCONSTANTS\n F = %d\n M = %d\n MaxRead = %d\n DropOnSeekEnd = %s\nINVARIANT ReadsTrue\nINVARIANT CacheTrue\nCHECK_DEADLOCK FALSE\n' % (F, M, R, drop)
    for (F, M, R) in ([(8, 3, 4), (12, 4, 6), (10, 1, 3)] if th else [(8, 3, 4), (6, 1, 3)]):
        r = ctx.tlc('AheadCache', 'ac.cfg', cfg_text=ac('TRUE', F, M, R), name='mc_aheadcache_F%d_M%d' % (F, M), timeout=1800)
        ctx.tlc_expect_ok(r, 'AheadCache as built')
    r = ctx.tlc('AheadCache', 'acw.cfg', cfg_text=ac('FALSE', 8, 3, 4), name='mc_aheadcache_witness', count=False)
    ctx.cov['aheadcache_prerepair_variant_violates'] = r.violated
    if not r.violated:
        raise Inconclusive('AheadCache witness variant unexpectedly holds (model vacuous?)')
    # 1b. as-built model of Read64 / Write64 (every branch of the code, symbolic bits): all first bits 0..15 x all widths 0..64
    rw = ctx.tlc('ReadWrite64', 'rw.cfg', cfg_text='SPECIFICATION Spec\nCONSTANTS\n MaxFirst = 15\n MaxBits = 64\nINVARIANT ReadRight\nINVARIANT WriteRight\nINVARIANT Progress\nCHECK_DEADLOCK FALSE\n',
                 name='mc_readwrite64', coverage=True, timeout=1200)
    ctx.tlc_expect_ok(rw, 'ReadWrite64 as built')
    acts = getattr(rw, 'actions', {})
    dead = [a for a in ('RAlignedWhole', 'RAlignedByte', 'RAlignedTail', 'RUnalignedHead', 'RUnalignedInside', 'WAlignedWhole', 'WAlignedByte',
                        'WAlignedTail', 'WUnalignedHead', 'WUnalignedInside') if acts.get(a, (0, 0))[0] == 0]
    ctx.cov['readwrite64_branches_taken'] = {k: v[0] for k, v in acts.items()}
    if dead:
        raise Inconclusive('ReadWrite64 model: branches never taken (vacuous): %s' % dead)
    # 1c. as-built model of the byte view (IOReader carry buffer, IOReadSeeker.Seek/ReadByte) as repaired; pre-repair Seek as witness
    def io(L, short, strict, old):
        return ('SPECIFICATION Spec\nCONSTANTS\n L = %d\n MaxRead = 3\n Short = %s\n StrictEnd = %s\n OldSeek = %s\nINVARIANT ReadsTrue\nINVARIANT Terminates\nCHECK_DEADLOCK FALSE\n'
                % (L, short, strict, old))
    for (L, short, strict) in ([(20, 'FALSE', 'FALSE'), (20, 'TRUE', 'TRUE'), (16, 'TRUE', 'FALSE'), (13, 'FALSE', 'TRUE')] + ([(37, 'TRUE', 'TRUE'), (40, 'FALSE', 'FALSE')] if th else [])):
        r = ctx.tlc('IOAdapter', 'io.cfg', cfg_text=io(L, short, strict, 'FALSE'), name='mc_ioadapter_L%d_%s_%s' % (L, short[0], strict[0]), timeout=1200)
        ctx.tlc_expect_ok(r, 'IOAdapter as built')
    r = ctx.tlc('IOAdapter', 'iow.cfg', cfg_text=io(20, 'FALSE', 'FALSE', 'TRUE'), name='mc_ioadapter_witness', count=False)
    ctx.cov['ioadapter_prerepair_seek_violates'] = r.violated
    if not r.violated:
        raise Inconclusive('IOAdapter witness variant unexpectedly holds (model vacuous?)')
    # 1d. as-built model of the bit-level compositions (leaf / section / multi / zero, the ReadAtFull loop): every call judged on the
    #     transition that makes it; the two out-of-contract corners are witnesses that the model reaches hangs when they exist
    def rs(props, overlong='FALSE', neg='FALSE', maxn=12, a=2):
        return ('SPECIFICATION Spec\nCONSTANTS\n NBytesA = %d\n NBytesB = 1\n MaxN = %d\n Overlong = %s\n NegOff = %s\nINVARIANT EndIsLen\n%sVIEW View\nCHECK_DEADLOCK FALSE\n'
                % (a, maxn, overlong, neg, ''.join('PROPERTY %s\n' % x for x in props)))
    r = ctx.tlc('ReaderStack', 'rs.cfg', cfg_text=rs(['StepOK'], maxn=18 if th else 12, a=3 if th else 2), name='mc_readerstack', timeout=3000)
    ctx.tlc_expect_ok(r, 'ReaderStack as built')
    ctx.cov['readerstack_calls_judged'] = r.generated
    for nm, cfgt in (('overlong', rs(['OverlongTerminates'], overlong='TRUE')), ('negoff', rs(['NegOffProgress'], neg='TRUE'))):
        r = ctx.tlc('ReaderStack', 'rsw.cfg', cfg_text=cfgt, name='mc_readerstack_witness_' + nm, count=False)
        ctx.cov['readerstack_out_of_contract_%s_hangs' % nm] = r.violated
        if not r.violated:
            raise Inconclusive('ReaderStack witness %s unexpectedly holds (model vacuous?)' % nm)
    # 1e. as-built model of bitio.Buffer judged by the same queue requirement (BufOpWhy) that judges recorded histories of the real one
    def bb(bug, mw):
        return ('SPECIFICATION Spec\nCONSTANTS\n MaxWritten = %d\n WriteNs = {0, 1, 3, 8, 9}\n ReadNs = {0, 1, 3, 8, 9, 20}\n BitsBug = %s\nINVARIANT CallsOK\nINVARIANT Refines\nCHECK_DEADLOCK FALSE\n'
                % (mw, bug))
    r = ctx.tlc('BitBuffer', 'bb.cfg', cfg_text=bb('FALSE', 27 if th else 20), name='mc_bitbuffer', timeout=3000)
    ctx.tlc_expect_ok(r, 'BitBuffer as built')
    r = ctx.tlc('BitBuffer', 'bbw.cfg', cfg_text=bb('TRUE', 12), name='mc_bitbuffer_witness', count=False)
    ctx.cov['bitbuffer_prerepair_bits_violates'] = r.violated
    if not r.violated:
        raise Inconclusive('BitBuffer witness variant unexpectedly holds (model vacuous?)')
    # 2. GEN: every small composition x history
    cases = []
    g = ctx.tlc('BitIOGen', 'g.cfg', cfg_text=gen_cfg(2, th, not th), name='gen_bitio', timeout=3000)
    ctx.tlc_expect_ok(g, 'BitIOGen')
    cases += g.printed
    if th:
        g3 = ctx.tlc('BitIOGen', 'g3.cfg', cfg_text=gen_cfg(3, False, True).replace('ReadNs = {0, 7, 9}', 'ReadNs = {7, 9}').replace('ByteReadNs = {0, 1, 3}', 'ByteReadNs = {1, 3}'),
                     name='gen_bitio_k3', timeout=3000)
        ctx.tlc_expect_ok(g3, 'BitIOGen K=3')
        cases += g3.printed
    gen_n = len(cases)
    if gen_n < 5000:
        raise Inconclusive('GEN produced too few cases')
    binp = ctx.go_build('c01')
    rp = os.path.join(ctx.build, 'rand_cases.ndjson')
    ctx.run([binp, 'gen', str(60000 if th else 6000), rp], check=True, timeout=600)
    cases += vlib.read_ndjson(rp)
    cp = os.path.join(ctx.build, 'cases.ndjson'); ep = os.path.join(ctx.build, 'events.ndjson')
    vlib.write_ndjson(cp, cases)
    ctx.run([binp, 'run', cp, ep, str(min(12, vlib.NCPU))], check=True, timeout=3000)
    evs = vlib.read_ndjson(ep)
    wp = os.path.join(ctx.build, 'write_events.ndjson')
    ctx.run([binp, 'write', str(20000 if th else 3000), wp], check=True, timeout=600)
    wevs = vlib.read_ndjson(wp)
    bp = os.path.join(ctx.build, 'buffer_events.ndjson')
    ctx.run([binp, 'buffer', str(4000 if th else 600), bp], check=True, timeout=600)
    bevs = vlib.read_ndjson(bp)
    sp = os.path.join(ctx.build, 'stack_events.ndjson')
    ctx.run([binp, 'stack', str(3000 if th else 400), sp], check=True, timeout=900)
    sevs = vlib.read_ndjson(sp)
    allev = evs + wevs + sevs + bevs
    for i, e in enumerate(allev):
        if e['panic']:
            top = e['panic'].split('\n')[0][:160]
            sig = 'bitio.crash@%s' % ('writer' if e['kind'] == 'write' else 'buffer' if e['kind'] == 'buffer' else '+'.join(sorted(kinds(e['term']))))
            ctx.finding(sig, '%s: %s' % (shape(e['term']) if e['kind'] not in ('write', 'buffer') else e['kind'], top), dict(term=e['term'], panic=e['panic'][:2000]))
    rej = tv(ctx, allev, 'tv_bitio')
    pure = sum(1 for e in evs if not e['panic'] and kinds(e['term']) <= {'leaf', 'section', 'multi', 'zero'})
    ctx.cov['readerstack_binding'] = dict(histories_predicted_exactly_by_as_built_model=pure - len({i for n, i, _ in DRIFTS if n == 'tv_bitio'}),
                                          histories_of_pure_bit_compositions=pure, not_predicted=len(DRIFTS))
    if pure < 500:
        raise Inconclusive('too few histories on pure bit compositions to bind ReaderStack (%d)' % pure)
    rejected = {i for i, _, _ in rej}
    for n, i, opi in DRIFTS[:5]:
        e = allev[i]; o = e['ops'][opi - 1]
        what = '%s; call %d: %s(n=%s off=%s wh=%s) -> k=%s eof=%s err=%s res=%s pos=%s' % (shape(e['term']), opi, o.get('op'), o.get('n'), o.get('off'), o.get('wh'),
                                                                                      o.get('k'), o.get('eof'), o.get('err'), o.get('res'), o.get('pa'))
        ctx.drift('ReaderStackOps does not predict: ' + what)
    if any(i not in rejected for _, i, _ in DRIFTS):
        # the requirement accepts the call but the transcription does not describe it: the as-built model checking above no longer speaks for this code
        ctx.inconc('as-built model ReaderStack differs from the code on %d recorded calls that the requirement accepts (first: %s)' % (len(DRIFTS), ctx.cov.get('model_drift_samples', ['?'])[0]))
    ctx.cov['traces_validated_against_impl'] += len(allev)
    ctx.cov['evaluations'] += sum(len(e['ops']) for e in evs) + len(wevs) + sum(len(e['bops']) for e in bevs)
    ctx.cov['bitio'] = dict(gen_cases=gen_n, random_cases=len(evs) - gen_n, writer_cases=len(wevs), buffer_histories=len(bevs), buffer_calls=sum(len(e['bops']) for e in bevs), long_stream_cases=sum(1 for e in evs[gen_n:] if sum(o['k'] * o['u'] for o in e['ops'] if o['op'] in ('read', 'readfull')) > 2048), calls=sum(len(e['ops']) for e in evs),
                            reader_kinds=sorted(set().union(*[kinds(e['term']) for e in evs])), openfile_windows=len(sevs))
    nt = set()
    for e in evs:
        if len(kinds(e['term'])) >= 2 and any((o['op'] in ('read', 'readat', 'readfull') and (o['u'] == 1 and o['n'] % 8)) or o['op'] == 'seek' for o in e['ops']):
            nt.add(json.dumps([shape(e['term']), [(o['op'], o['n'], o['off'], o['wh']) for o in e['ops']]]))
    ctx.cov['distinct_nontrivial'] += len(nt)
    for i, sig, opi in rej:
        e = allev[i]
        if e['kind'] == 'write':
            ctx.finding('bitio.' + sig, 'writer chunks %s' % [len(c) for c in e['chunks']], e)
            continue
        if e['kind'] == 'buffer':
            o = e['bops'][opi - 1] if opi else {}
            ctx.finding('bitio.' + sig, 'bitio.Buffer history of %d calls; call %d: %s(n=%s) -> k=%s eof=%s res=%s' % (len(e['bops']), opi, o.get('op'), o.get('n'), o.get('k'), o.get('eof'), o.get('res')),
                        dict(bops=e['bops'][:opi]))
            continue
        if e['kind'] == 'window':
            ctx.finding('bitio.' + sig, 'opened 1.5 MiB file, tobytes[%d:%d]' % (e['a'], e['b']), dict(a=e['a'], b=e['b']))
            continue
        o = e['ops'][opi - 1] if opi else {}
        outer = e['term']['t']
        what = '%s; call %d: %s(n=%s off=%s wh=%s) -> k=%s eof=%s err=%s res=%s pos=%s' % (shape(e['term']), opi, o.get('op'), o.get('n'), o.get('off'), o.get('wh'),
                                                                                      o.get('k'), o.get('eof'), o.get('err'), o.get('res'), o.get('pa'))
        ctx.finding('bitio.%s@%s' % (sig, '+'.join(sorted(kinds(e['term'])))), what, dict(term=e['term'], leaves=e['leaves'], ops=e['ops']))
    ev = next((e for e in evs[gen_n:] if len(kinds(e['term'])) >= 3 and len(e['ops']) >= 4), evs[0])
    ctx.sample(dict(kind='history on a real reader composition', composition=shape(ev['term']),
                    calls=[dict(op=o['op'], n=o['n'], off=o['off'], wh=o['wh'], k=o['k'], eof=o['eof'], err=o['err']) for o in ev['ops'][:8]]))
    ctx.sample(dict(kind='writer', chunk_bits=[len(c) for c in wevs[0]['chunks']], output_bits=len(wevs[0]['outbits'])))
    # 3. binding demonstration
    good = [e for k, e in enumerate(evs[:gen_n]) if not e['panic'] and any(o['op'] == 'read' and o['k'] > 2 for o in e['ops']) and k not in {i for i, _, _ in rej}]
    if len(good) < 3:
        raise Inconclusive('no history for the binding demo')
    a = copy.deepcopy(good[0]); o = next(o for o in a['ops'] if o['op'] == 'read' and o['k'] > 2); o['out'][1] ^= 1
    b = copy.deepcopy(good[1]); o = next(o for o in b['ops'] if o['op'] == 'read' and o['k'] > 2); o['eof'] = True; o['k'] -= 1; o['out'] = o['out'][:-1 * o['u']]
    c = copy.deepcopy(wevs[1]); c['outbits'] = c['outbits'][:-8] if len(c['outbits']) >= 8 else [1] * 8
    # a legal short read (one bit fewer, no end-of-data) as the last call of a history on a pure bit composition: the requirement
    # accepts it, the as-built transcription must flag it as drift
    pureg = [e for e in good if kinds(e['term']) <= {'leaf', 'section', 'multi', 'zero'} and e['ops'][-1]['op'] == 'read' and e['ops'][-1]['k'] > 2 and not e['ops'][-1]['eof']]
    if not pureg:
        raise Inconclusive('no history for the as-built binding demo')
    d = copy.deepcopy(pureg[0]); o = d['ops'][-1]; o['k'] -= 1; o['out'] = o['out'][:-1]; o['pa'] = -1
    drej = tv(ctx, [good[2], a, b, c, d], 'tv_bitio_demo', shards=1, demo=True)
    lines = sorted(i for i, _, _ in drej)
    dlines = sorted(i for _, i, _ in DEMO_DRIFTS)
    ok = lines == [1, 2, 3] and 4 in dlines and 0 not in dlines
    ctx.cov['binding_demo'].append(dict(spec='TraceBitIO', corrupted_events=[1, 2, 3], rejected=[(i, s) for i, s, _ in drej], legal_short_read_event=4,
                                        flagged_as_drift_from_as_built_model=dlines, ok=ok))
    if not ok:
        raise Inconclusive('binding demo failed for TraceBitIO: %s' % drej)


def replay(ctx, path):
    """re-execute the recorded history (same composition and calls; leaf contents are drawn again) on the current tree"""
    d = json.load(open(path))
    c = d['case']
    if 'term' not in c or 'ops' not in c:
        raise Inconclusive('replay file holds no history')
    def lens(t, out):
        if t['t'] in ('leaf', 'file'):
            out[t['id']] = len(c['leaves'][t['id']])
        for x in (t.get('rs') or []):
            lens(x, out)
        for f in ('r', 'y'):
            if t.get(f):
                lens(t[f], out)
        return out
    case = dict(term=c['term'], lens=lens(c['term'], {}), reqs=[{k: o[k] for k in ('op', 'h', 'h2', 'n', 'off', 'wh', 'qp')} for o in c['ops']])
    cp = os.path.join(ctx.build, 'replay_case.ndjson'); ep = os.path.join(ctx.build, 'replay_events.ndjson')
    vlib.write_ndjson(cp, [case])
    ctx.run([ctx.go_build('c01'), 'run', cp, ep, '1'], check=True, timeout=300)
    evs = vlib.read_ndjson(ep)
    ctx.cov['evaluations'] = 1; ctx.cov['distinct_nontrivial'] = 2; ctx.cov['rule'] = 'replay of one recorded history'
    for i, sig, opi in tv(ctx, evs, 'tv_replay', shards=1):
        ctx.finding('bitio.%s@%s' % (sig, '+'.join(sorted(kinds(evs[i]['term'])))), 'replayed history, call %d' % opi, evs[i])
    ctx.sample(dict(kind='replayed history', composition=shape(c['term'])))
