# C11 - The internal query rewrite preserves the meaning of the user's program
import re, os, json, copy, collections
from concurrent.futures import ThreadPoolExecutor
import vlib
from vlib import Inconclusive

LEVEL = 'translation_validation'
META = dict(
    text=('Query.tla is the grammar of the embedded parser\'s syntax tree (24 operators, 21 term types, suffix lists, `as` as a suffix), the '
          'precedence/associativity table, the printer (a transcription: it inserts no parentheses), Min/Full/Norm and the rewrite of '
          'eval.jq as a tree function. TLC checks on every (outer construct, child position, inner construct) triple, each under unary '
          'minus, ?, as-binding, def-prefix, directives and slurp tails, that minimal and full parentheses denote the same tree, that '
          're-bracketing the printed skeleton by the table gives the tree back, that the rewrite keeps Norm(user program) at its place and '
          'captures none of its names; the same trees (and TLC-simulated deeper ones, and seeded grammar-generated texts with fq literal '
          'extensions, imports, formats, interpolation, ?// patterns) are then sent through the real _query_tostring/_query_fromstring/'
          '_eval_query_rewrite and the real command line, and TLC judges the recorded facts per program.'),
    note=('Per program: (1) print/parse round trip equals the tree after Norm, (2) full-parenthesis text is a parse/print fixpoint and '
          'denotes the same tree, (3) the rewritten text parses to Norm(Rewrite(tree, options)) for the five option objects (CLI null input, '
          'inputs, slurp, REPL, -i prelude; the real option objects are observed on a seeded sample by recording the text handed to _eval), '
          '(4) for programs the bare engine compiles, outputs of the real command line path equal the bare engine on 6 inputs. '
          'Exhaustive only over the construct inventory of QueryUniv.tla; deeper programs are sampled.'),
    technique='TLA+ grammar/rewrite spec + TLC exhaustive property check over the construct inventory + spec-emitted and generated programs through the real code + TLC trace validation per program',
)

TLC_SHARDS = 6


def gen_cfg(shard, nshards, wrapsel, div, nwrap, props=True):
    s = 'SPECIFICATION Spec\nCONSTANTS Shard = %d\n NShards = %d\n WrapSel = %d\n Div = %d\n NWrap = %d\n' % (shard, nshards, wrapsel, div, nwrap)
    if props:
        s += 'INVARIANT Props\n'
    return s + 'CONSTRAINT Emit\nCHECK_DEADLOCK FALSE\n'


def tlc_cases(ctx):
    th = ctx.tier == 'thorough'
    wrapsel = 1 + (ctx.seed % 11)

    def one(k):
        r = ctx.tlc('QueryGen', 'qgen%d.cfg' % k, cfg_text=gen_cfg(k, TLC_SHARDS, wrapsel, 1 if th else 2, 4 if th else 1), name='mcgen_query_%d' % k,
                    workers=2, timeout=2400 if th else 600, heap='2g')
        ctx.tlc_expect_ok(r, 'Query.tla properties over the construct inventory (shard %d)' % k)
        return r.printed
    cases = []
    with ThreadPoolExecutor(max_workers=TLC_SHARDS) as ex:
        for pr in ex.map(one, range(TLC_SHARDS)):
            cases += pr
    if len(cases) < 2000:
        raise Inconclusive('GEN produced too few trees: %d' % len(cases))
    # anti-vacuity of the model-checked properties: the inventory really needs parentheses somewhere and not everywhere
    with_par = sum(1 for c in cases if '(' in c['min'])
    if with_par < 200 or with_par > len(cases) - 200:
        raise Inconclusive('vacuous inventory: %d of %d minimal prints contain parentheses' % (with_par, len(cases)))
    ctx.cov['query_inventory'] = dict(trees=len(cases), wrappers_per_triple=4 if th else 1, triples_sample='1/1' if th else '1/2 (seed-rotated)', min_prints_with_parentheses=with_par,
                                      properties=['MinStable', 'NormStable', 'SameTree(min,full)', 'Reparse(min)', 'Reparse(full)',
                                                  'RewriteReparses', 'RewriteKeepsUser', 'NoCapture', 'Slurp parts'])
    # SIM: deeper random trees
    s = ctx.tlc('QuerySim', 'qsim.cfg', cfg_text='SPECIFICATION SimSpec\nINVARIANT SimProps\nCHECK_DEADLOCK FALSE\n',
                simulate='num=%d' % (1500 if th else 300), depth=8, timeout=900, name='sim_query')
    if s.rc != 0 or s.violated:
        raise Inconclusive('QuerySim failed rc=%s violated=%s' % (s.rc, s.violated))
    seen, sims = set(), []
    for p in s.printed:
        if p['min'] not in seen:
            seen.add(p['min']); sims.append(p)
    ctx.cov['query_sim_trees'] = len(sims)
    return cases, sims


def tv(ctx, evs, name, shards=None, demo=False):
    shards = shards or min(10, max(1, len(evs) // 500))
    chunks = [list(range(i, len(evs), shards)) for i in range(shards)]
    cfg = 'SPECIFICATION TSpec\nPOSTCONDITION Consumed\nCHECK_DEADLOCK FALSE\n'

    def one(k):
        idx = chunks[k]
        p = os.path.join(ctx.build, '%s_shard%d.ndjson' % (name, k))
        vlib.write_ndjson(p, [evs[i] for i in idx])
        rej, drift, _ = ctx.tv('TraceQuery', 'tq.cfg', p, name='%s_%d' % (name, k), cfg_text=cfg, count=not demo,
                               timeout=3000 if ctx.tier == 'thorough' else 900, heap='3g')
        return [(idx[l - 1], s) for l, s in rej], [idx[l - 1] for l in drift]
    rejects, drifts = {}, []
    with ThreadPoolExecutor(max_workers=shards) as ex:
        for rej, dr in ex.map(one, range(shards)):
            for i, s in rej:
                rejects[i] = s
            drifts += dr
    return rejects, drifts


def binding_demo(ctx, evs):
    def f4ok(e):
        return 'runs' in e.get('f4', {}) and len(e['f4']['runs']) >= 2 and e['f4']['runs'][0]['fq']
    ops = [e for e in evs if 'op' in e.get('a', {}) and 'op' in e.get('a1', {})]
    pipes = [e for e in evs if e.get('s1') not in (None, '.') and e.get('rw', {}).get('inputs', {}).get('ast', {}).get('op') == '|' and 'try' in e['rw']['inputs']['ast'].get('right', {}).get('left', {}).get('term', {})]
    outs = [e for e in evs if f4ok(e)]
    reals = [e for e in evs if 'real' in e and e['real'].get('null_input', '').startswith('null | ')]
    if len(ops) < 2 or len(pipes) < 1 or len(outs) < 1 or len(reals) < 1:
        raise Inconclusive('no suitable events for the TraceQuery binding demo (%d, %d, %d, %d)' % (len(ops), len(pipes), len(outs), len(reals)))
    pick = [ops[0], ops[1], ops[-1], pipes[0], outs[0], reals[0]]
    base = pick[0]
    c1 = copy.deepcopy(pick[1]); c1['a1']['left'], c1['a1']['right'] = c1['a1']['right'], c1['a1']['left']     # round trip swapped operands
    if c1['a1'] == pick[1]['a1']:
        c1['a1'] = c1['a1']['left']
    c2 = copy.deepcopy(pick[2]); c2['b2'] = {'term': {'type': 'TermTypeQuery', 'query': c2['b2']}}                 # not a fixpoint
    c3 = copy.deepcopy(pick[3])                                                                                # parentheses around the user program lost
    t = c3['rw']['inputs']['ast']['right']['left']['term']['try']
    t['body'] = {'term': {'type': 'TermTypeIdentity'}}
    c4 = copy.deepcopy(pick[4]); c4['f4']['runs'][0]['fq'] = c4['f4']['runs'][0]['fq'][:-1]                        # an output lost on the command line path
    c5 = copy.deepcopy(pick[5]); c5['real']['null_input'] = c5['real']['null_input'].replace('null | ', 'inputs | ', 1)  # other option object
    demo = [base, c1, c2, c3, c4, c5]
    rej, _ = tv(ctx, demo, 'query_demo', shards=1, demo=True)
    want = {1: 'q.f1_print_parse', 2: 'q.f2_fullparen_fixpoint', 3: 'q.f3_rewrite.inputs', 4: 'q.f4_outputs', 5: 'q.f3_real_options'}
    ok = rej == want
    ctx.cov['binding_demo'].append(dict(spec='TraceQuery', corrupted=want, rejected=rej, ok=ok))
    if not ok:
        raise Inconclusive('binding demo failed for TraceQuery: wanted %s got %s' % (want, rej))


def run(ctx):
    th = ctx.tier == 'thorough'
    ctx.cov['rule'] = ('programs = syntax trees emitted by TLC for every (outer construct, child position, inner construct) triple under the '
                       'wrappers of QueryUniv.tla (quick: one seed-rotated wrapper on a seed-rotated half of the triples; thorough: four rotated wrappers on every triple), TLC-simulated deeper '
                       'trees, and seeded grammar-generated texts accepted by the embedded parser; distinct non-trivial = distinct printed '
                       'programs containing at least one binary operator, binding, definition or bracketed sub-query.')
    ctx.assumptions += ['the harness records facts only; Norm, the expected rewrite and the verdict are computed by TLC from Query.tla',
                        'the option objects for fact 3 are written with fq\'s own constructors in the harness and compared, on a seeded sample, with '
                        'the text the real command line / REPL hands to _eval (registry entry wrapped, no change to /repo)',
                        'fact 4 uses the bare engine (gojq.Parse/Compile/Run) as reference; builtin error messages are not compared']
    cases, sims = tlc_cases(ctx)
    binp = ctx.go_build('c11')
    gpath = os.path.join(ctx.build, 'go_cases.ndjson')
    ctx.run([binp, 'gen', str(6000 if th else 1200), gpath], check=True, timeout=600)
    gocases = vlib.read_ndjson(gpath)
    # the generator drops texts the embedded parser refuses: make sure that did not silently remove a whole syntactic family
    fam = {'module directive': r'^module ', 'import': r'\bimport "', 'include': r'\binclude "', 'definition': r'\bdef ', 'reduce': r'\breduce ', 'foreach': r'\bforeach ',
           'label': r'\blabel \$', 'try': r'\btry ', 'destructuring alternative': r'\?//', 'tail repl/help/slurp': r'\| (repl|help|slurp)'}
    famn = {k: sum(1 for c in gocases if re.search(rx, c['text'], re.M)) for k, rx in fam.items()}
    ctx.cov['go_grammar_families'] = famn
    if min(famn.values()) < (5 if not th else 20):
        raise Inconclusive('generated programs lack a syntactic family: %s' % {k: v for k, v in famn.items() if v < (5 if not th else 20)})
    allcases = cases + sims + gocases
    cpath = os.path.join(ctx.build, 'cases.ndjson')
    vlib.write_ndjson(cpath, allcases)
    epath = os.path.join(ctx.build, 'events.ndjson')
    r = ctx.run([binp, 'facts', cpath, epath, str(20 if th else 120)], timeout=3000 if th else 900)
    if r.returncode != 0:
        raise Inconclusive('c11 harness failed: %s' % r.stderr[-1500:])
    evs = vlib.read_ndjson(epath)
    if len(evs) != len(allcases):
        raise Inconclusive('harness answered %d of %d programs' % (len(evs), len(allcases)))
    rejects, drifts = tv(ctx, evs, 'tv_query')
    n_runs = sum(len(e.get('f4', {}).get('runs', [])) for e in evs)
    n_f4 = sum(1 for e in evs if 'runs' in e.get('f4', {}))
    n_real = sum(1 for e in evs if 'real' in e)
    skips = collections.Counter(e.get('f4', {}).get('skip', 'compared') for e in evs)
    ctx.cov['programs'] = len(evs)
    ctx.cov['evaluations'] = len(evs)
    ctx.cov['traces_validated_against_impl'] = len(evs)
    ctx.cov['disagreements_checked'] = len(evs) * 8 + n_real * 5 + n_runs     # facts 1,2 and 5 rewrites judged per program, sampled real texts, output runs
    ctx.cov['facts'] = dict(round_trip=len(evs), fullparen_fixpoint=len(evs), rewrites=len(evs) * 5, real_option_texts=n_real * 5,
                            programs_with_output_comparison=n_f4, output_runs_compared=n_runs, fact4_skipped=dict(skips))
    ctx.cov['sources'] = dict(tlc_gen=len(cases), tlc_sim=len(sims), go_grammar=len(gocases))
    nontriv = set()
    for e in evs:
        s = e.get('s1')
        if isinstance(s, str) and any(t in s for t in (' | ', ', ', '(', ' as ', 'def ', ' + ', ' // ', ' and ', ' == ')):
            nontriv.add(s)
    ctx.cov['distinct_nontrivial'] = len(nontriv)
    if drifts:
        ctx.drift('printer transcription (PrintQ) differs from _query_tostring: %s vs %r' % (evs[drifts[0]]['id'], evs[drifts[0]].get('s1')), len(drifts))
    for i in sorted(rejects):
        e = evs[i]
        ident = e['id']
        shape = '%s.%s.%s' % (ident[0], ident[2], ident[3]) if len(ident) == 4 else ident[0]
        ctx.finding('%s:%s' % (rejects[i], shape), 'program %r: %s' % (e.get('text') or e.get('s1') or allcases[i].get('min') or allcases[i].get('text'), rejects[i]),
                    dict(case=allcases[i], event=e))
    for e in (evs[len(cases) // 3], evs[len(cases) + len(sims) // 2], evs[-1]):
        ctx.sample(dict(id=e['id'], program=e.get('text'), printed=e.get('s1'), rewritten_cli=e.get('rw', {}).get('inputs', {}).get('text'),
                        rewritten_repl=e.get('rw', {}).get('repl', {}).get('text'),
                        output_runs=len(e.get('f4', {}).get('runs', []))))
    binding_demo(ctx, [e for i, e in enumerate(evs) if i not in rejects])


def replay(ctx, path):
    rec = json.load(open(path))
    case = rec['case']['case']
    binp = ctx.go_build('c11')
    cpath = os.path.join(ctx.build, 'replay_case.ndjson')
    vlib.write_ndjson(cpath, [case])
    epath = os.path.join(ctx.build, 'replay_event.ndjson')
    ctx.run([binp, 'facts', cpath, epath, '1'], check=True, timeout=300)
    evs = vlib.read_ndjson(epath)
    rejects, _ = tv(ctx, evs, 'replay', shards=1)
    ctx.cov.update(programs=1, disagreements_checked=1, evaluations=1, distinct_nontrivial=2)
    ctx.sample(dict(program=evs[0].get('text'), verdict=rejects.get(0, 'ok')))
    if 0 in rejects:
        ctx.finding(rec['sig'], rec['what'], rec['case'])
