# C06 - No input makes a decoder crash fq
import os, re, json, copy, collections
import vlib, corpusarm
from vlib import Inconclusive

LEVEL = 'fault_enumeration'
META = dict(
    text=('DecodeOutcome.tla is the outcome discipline around a decode (per-format attempts, recoverable errors, probe fall-through, partial tree for a '
          'single format, exit status) with NO action for an unrecoverable fault; TLC checks its invariants and then validates every recorded run of the '
          'REAL decoders: a run that ended in a Go panic, a fatal runtime error (out of memory under a fixed address-space limit, stack overflow) or a '
          'twice-confirmed hang is not a behaviour of the machine. The runs are a finite, fully enumerated mutation family around the sample corpus '
          '(truncation at every small length and strided beyond, single-bit flips and boundary byte overwrites, saturation of 2/4/8-byte windows, block '
          'duplication/removal) x the sample\'s own format and probe x force, plus all registered formats over generated files, executed in isolated '
          'worker processes; TLC also checks the coverage obligation (every sample x mode x mutation class has a run), and every surviving partial tree '
          'must satisfy the C03/C04 predicates. Field saturation takes numeric fields from fq\'s own decode of a sample (counts, sizes, lengths first), '
          'alone, alone under force, and in forced pairs of the narrow early fields. Probe.tla is the as-built loop of decode.decode() over a group\'s formats '
          'and the in-argument precedence: every scenario of 1..3 synthetic formats is emitted by TLC, run on the real decode.Decode and judged by TLC.'),
    note=('The specification decides each run and the completeness of the enumeration; it does not shrink the input space. Faults are deterministic '
          'under the fixed 6 GB address-space limit; a hang is reported only after it reproduces twice alone. Quick strides the family (recorded in evidence).'),
    technique='exhaustive mutation-family enumeration in isolated workers, each run validated by TLC against the TLA+ outcome machine (DecodeOutcome.tla) incl. coverage obligations',
)

MEM_KB = 6000000


def top_fq_frame(msg):
    """first frame of the fault inside github.com/wader/fq that is not harness or decode-library plumbing"""
    frames = re.findall(r'(github\.com/wader/fq/[^\s(]+(?:\([^)]*\))?[^\s(]*)\(', msg)
    frames = [re.sub(r'\(\*?([A-Za-z0-9_]+)\)', r'\1', f) for f in frames]
    skip = ('internal/verif/', 'internal/recoverfn')
    fr = [f for f in frames if not any(s in f for s in skip)]
    pref = [f for f in fr if '/format/' in f]
    pick = (pref or fr or ['?'])[0]
    pick = re.sub(r'(\.func\d+)+(\.\d+)*$', '', pick)      # closures: the enclosing function is the call site
    return pick.replace('github.com/wader/fq/', '')


def fault_kind(msg):
    head = msg.strip().split('\n')[0][:200]
    for pat, name in (('index out of range', 'index_out_of_range'), ('slice bounds out of range', 'slice_bounds'), ('nil pointer', 'nil_dereference'),
                      ('makeslice', 'makeslice'), ('interface conversion', 'type_assertion'), ('divide by zero', 'divide_by_zero'),
                      ('out of memory', 'out_of_memory'), ('cannot allocate memory', 'out_of_memory'), ('stack overflow', 'stack_overflow'), ('negative', 'negative_size')):
        if pat in msg[:3000]:
            return name
    return re.sub(r'[^a-z_]+', '_', head.lower())[:40]


def mutations(ctx, size, th):
    """the finite family (DESIGN C06); quick strides it"""
    m = []
    cuts = set(range(0, min(size, 129 if th else 49)))
    cuts |= set(range(0, size, 64 if th else max(64, size // 24 // 64 * 64 or 64)))
    cuts |= {size - 1, size - 2, size // 2}
    for n in sorted(c for c in cuts if 0 <= c < size):
        m.append(('trunc', dict(kind='trunc', n=n)))
    lim = min(size, 64 if th else 40)
    offs = list(range(lim)) + (list(range(lim, size, max(1, size // (40 if th else 12)))) if size > lim else [])
    for off in offs:
        bits = range(8) if th and off < 16 else (0, 7)
        for b in bits:
            m.append(('flip', dict(kind='flip', off=off, n=b)))
        for v in (0x00, 0x7f, 0x80, 0xff):
            m.append(('set', dict(kind='set', off=off, val=v)))
    for w in (2, 4, 8):
        for off in range(0, min(size, 96 if th else 64), w):
            for v in ((0xff, 0x7f, 0x80) if th else (0xff, 0x7f)):
                m.append(('sat', dict(kind='sat', off=off, n=w, val=v)))
    for off in range(0, min(size, 256), 16):
        m.append(('dup', dict(kind='dup', off=off, n=16)))
        m.append(('del', dict(kind='del', off=off, n=16)))
    return m


def generated_files(ctx):
    d = os.path.join(ctx.build, 'genfiles')
    os.makedirs(d, exist_ok=True)
    out = {}
    blobs = {'empty': b'', 'one': b'\x00', 'zeros': bytes(4096), 'ff': b'\xff' * 4096, 'count': bytes(range(256)) * 8,
             'random': bytes(ctx.rng.getrandbits(8) for _ in range(65536))}
    for k, v in blobs.items():
        p = os.path.join(d, k + '.bin')
        open(p, 'wb').write(v)
        out[k] = p
    return out


def run(ctx):
    th = ctx.tier == 'thorough'
    ctx.cov['rule'] = ('decode runs = (sample file or generated file) x (its golden format | probe | every registered format for generated files) x force x one member of '
                       'the mutation family; distinct non-trivial = distinct (file, format, force, mutation) runs whose input differs from the sample')
    ctx.assumptions += ['address-space limit %d KB per worker, 60 s watchdog per run' % MEM_KB,
                        'quick tier strides offsets and truncation lengths; the stride rule is mutations() in checks/c06.py']
    # the protocol itself
    for nf in (1, 3):
        r = ctx.tlc('DecodeOutcome', 'do.cfg', cfg_text='SPECIFICATION Spec\nCONSTANTS NF = %d\nINVARIANT ExitOK\nINVARIANT PartialOnlyForSingle\nINVARIANT NoTreeOnlyAfterAll\nCHECK_DEADLOCK FALSE\n' % nf,
                    name='mc_outcome_nf%d' % nf)
        ctx.tlc_expect_ok(r, 'DecodeOutcome MC')
    # the loop the protocol abstracts from, as built: which format of a group wins, which errors are collected, what a single-format group
    # returns, and the precedence of in-arguments - every scenario of 1..3 synthetic formats on the real decode.Decode (Probe.tla)
    import probearm
    probearm.run(ctx)
    known = corpusarm.registered_formats(ctx)
    files = corpusarm.sample_files(2 << 20 if th else 256 << 10)
    byfam = collections.defaultdict(list)
    for f in files:
        byfam[corpusarm.family(f)].append(f)
    pick = []
    for fam in sorted(byfam):
        fs = sorted(byfam[fam], key=os.path.getsize)
        ctx.rng.shuffle(fs)
        pick += sorted(fs[:(3 if th else 1)], key=os.path.getsize)[:(3 if th else 1)]
    # field saturation is cheap and targeted: it gets more files than the bytewise family
    fpick = []
    for fam in sorted(byfam):
        fs = sorted(byfam[fam])
        ctx.rng.shuffle(fs)
        fpick += fs[:(40 if th else 2)]
    force = [x for x in os.environ.get('VERIF_C06_FILES', '').split(',') if x]      # development aid: force sample files into the field arm
    fpick = sorted(set(fpick) | set(pick) | {f for f in files if any(x in f for x in force)})
    jobs, obs = [], []
    # numeric fields of every picked sample, from fq's own decode: targets for field saturation
    fjobs = []
    for f in fpick:
        j = corpusarm.mk(f, corpusarm.golden_formats(f, known)[0], tree=False)
        j['fields'] = True
        fjobs.append(j)
    fres = corpusarm.run_jobs(ctx, fjobs, 'c06_fields', mem_kb=MEM_KB, per_job=60)
    fields = {}
    small = {}
    for j, r in zip(fjobs, fres):
        f = j['file']
        rr = (r['res'] or {}) if r['outcome'] == 'ok' else {}
        named = sorted({(a, b, n) for (a, b), n in zip(rr.get('fields') or [], rr.get('fnames') or [])})
        # counts, sizes, lengths, offsets and indexes first (the "length-field saturation" of the property), the rest by a seed-rotating stride
        hot = [(a, b) for a, b, n in named if re.search(r'count|size|len|num|entr|offset|index|idx|pos|start|end|width|height|version|type|flag', n, re.I)]
        cold = [(a, b) for a, b, n in named if (a, b) not in set(hot)]
        cap = (200 if f in pick else 80) if th else (40 if not any(x in f for x in force) else 400)
        def stride(lst, k):
            if len(lst) <= k:
                return lst
            step = len(lst) / k
            return [lst[int((i * step + ctx.seed) % len(lst))] for i in range(k)]
        fl = stride(hot, cap * 3 // 4)
        fl = fl + stride(cold, cap - len(fl))
        fields[f] = fl
        # header-like fields: narrow and early; pairs of them are overwritten together (a reserved code in one field + an unusual value
        # in another is what a forced decode walks into)
        small[f] = sorted({(a, b) for a, b, n in named if b <= 8 and a < 1024})[:(12 if th else 8)]

    def add(f, fmt, force, cls, mut, cli=False):
        ob = '%s|%s|%s|%s%s' % (os.path.relpath(f, vlib.REPO) if f.startswith(vlib.REPO) else os.path.basename(f), fmt, 'force' if force else 'noforce', cls, '|cli' if cli else '')
        j = corpusarm.mk(f, fmt, force=force, mut=mut, maxnodes=0, tree=False)   # outcome only: the watchdog must time the decoder, not the harness
        j['cli'] = cli
        j['ob'] = ob
        jobs.append(j)
        obs.append(ob)
    for f in pick:
        size = os.path.getsize(f)
        fmts = corpusarm.golden_formats(f, known)[:1]
        modes = [(fmts[0], False), ('probe', False), (fmts[0], True)] + ([('probe', True)] if th else [])
        muts = mutations(ctx, size, th)
        if not th and len(muts) > 110:
            keep = set(ctx.rng.sample(range(len(muts)), 110))
            classes = {}
            for k, (c, m) in enumerate(muts):
                classes.setdefault(c, k)
            keep |= set(classes.values())
            muts = [m for k, m in enumerate(muts) if k in keep]
        for fmt, force in dict.fromkeys(modes):
            add(f, fmt, force, 'none', None)
            for cls, m in muts:
                add(f, fmt, force, cls, m)
        # the command line (exit status) on the truncation family
        for cls, m in [x for x in muts if x[0] == 'trunc'][::(1 if th else 6)]:
            add(f, fmts[0], False, cls, m, cli=True)
            add(f, 'probe', False, cls, m, cli=True)
    for f in fpick:                # field saturation under the sample's own format (and probe for the bytewise files in thorough)
        fmt0 = corpusarm.golden_formats(f, known)[0]
        for a, b in fields.get(f, []):
            for v in ((0, 1, 2, 3, 4, 5) if th and f in pick else (0, 1, 2)):
                m = dict(kind='field', off=a, n=b, val=v)
                add(f, fmt0, False, 'field', m)
                if th and f in pick:
                    add(f, 'probe', False, 'field', m)
    npair = 0
    for f in sorted(set(pick) | set(fpick[::4] if th else [])):
        fmt0 = corpusarm.golden_formats(f, known)[0]
        # single fields once more, forced (the assert that stops an unforced decode at a reserved code does not stop a forced one)
        for a, b in fields.get(f, [])[:(None if th else 30)]:
            for v in (0, 1, 2):
                add(f, fmt0, True, 'field+force', dict(kind='field', off=a, n=b, val=v))
        sm = small.get(f, []) if f in pick else []
        for i in range(len(sm)):
            for k in range(i + 1, len(sm)):
                for v1 in (0, 1, 2):
                    for v2 in (0, 1, 2):
                        m = dict(kind='field2', off=sm[i][0], n=sm[i][1], val=v1, off2=sm[k][0], n2=sm[k][1], val2=v2)
                        add(f, fmt0, True, 'field2+force', m)
                        npair += 1
                        if th and f in pick:
                            add(f, fmt0, False, 'field2', m)
    ctx.cov['field_pairs_forced'] = npair
    gen = generated_files(ctx)
    fmt_list = sorted(known) if th else sorted(known)[ctx.seed % 3::3]
    for name, p in gen.items():
        for fmt in fmt_list:
            add(p, fmt, False, 'gen:' + name, None)
            if th or name in ('zeros', 'ff'):
                add(p, fmt, True, 'gen:' + name, None)
    vlib.log('C06: %d runs over %d sample files and %d formats' % (len(jobs), len(pick), len(fmt_list)))
    res = corpusarm.run_jobs(ctx, jobs, 'c06', mem_kb=MEM_KB, per_job=60 if th else 25)
    # confirm hangs: twice alone
    hangs = [k for k, r in enumerate(res) if r['outcome'] == 'hang']
    for k in hangs[:20]:
        again = [corpusarm.run_jobs(ctx, [jobs[k]], 'c06_hang%d_%d' % (k, t), mem_kb=MEM_KB, per_job=60 if th else 25, workers=1)[0]['outcome'] for t in range(2)]
        if again != ['hang', 'hang']:
            res[k] = dict(res[k], outcome='unconfirmed-hang')
            ctx.cov.setdefault('stalls_not_reproduced_alone', []).append(jobs[k]['ob'])
    if len(hangs) > 20:
        ctx.inconc('%d stalled runs, only 20 re-checked' % len(hangs))
    events = []
    for j, r in zip(jobs, res):
        if r['outcome'] == 'unconfirmed-hang':
            # a stall under load that did not reproduce: no verdict for this run (it still counts for coverage)
            events.append(dict(ob=j['ob'], cli=False, outcome='ok', hastree=True, rooterr=False, errclass='', single=False, exit=0, stdout_tree=True))
            continue
        rr = r['res'] or {}
        events.append(dict(ob=j['ob'], cli=j['cli'], outcome=r['outcome'], hastree=bool(rr.get('hastree')), rooterr=bool(rr.get('rooterr')),
                           errclass=rr.get('errclass', '') or '', single=bool(rr.get('single')), exit=int(rr.get('exit', 0)), stdout_tree=bool(rr.get('stdout_tree'))))
    ep = os.path.join(ctx.build, 'c06_events.ndjson'); op = os.path.join(ctx.build, 'c06_oblig.ndjson')
    vlib.write_ndjson(ep, events)
    vlib.write_ndjson(op, [dict(ob=o) for o in sorted(set(obs))])
    cfg = 'SPECIFICATION TSpec\nPOSTCONDITION Consumed\nCHECK_DEADLOCK FALSE\n'
    rej, _, tr = ctx.tv('TraceDecodeOutcome', 'tdo.cfg', ep, name='tv_outcome', cfg_text=cfg, extra_files={'obligations.ndjson': op}, timeout=1800)
    ctx.cov['traces_validated_against_impl'] += len(events)
    outcomes = collections.Counter(r['outcome'] for r in res)
    for l, sig in rej:
        j, r = jobs[l - 1], res[l - 1]
        if r['outcome'] == 'hang' and top_fq_frame(r['msg']) == '?' and 'internal/verif/' in r['msg']:
            ctx.inconc('stall inside the harness, not fq: %s' % j['ob'])
            continue
        fam = corpusarm.family(j['file']) if j['file'].startswith(vlib.REPO) else 'generated'
        if sig.startswith('fault.'):
            s2 = 'fault:%s:%s' % (fault_kind(r['msg']) if r['outcome'] != 'hang' else 'hang', top_fq_frame(r['msg']))   # the faulting function is the defect; the requested format is only the path to it
        else:
            s2 = '%s:format=%s' % (sig, j['format'])
        ctx.finding(s2, '%s; %s' % (j['ob'], (r['msg'] or '').strip().split('\n')[0][:160]), dict(job=j, outcome=r['outcome'], msg=(r['msg'] or '')[:3000]))
    # surviving trees must satisfy C03/C04 (reported under their own properties; here only counted)
    bad_tree = collections.Counter()
    for j, r in zip(jobs, res):
        rr = r['res'] or {}
        for k in ('refwhy', 'refgap'):
            if rr.get(k) and rr[k] != 'ok':
                bad_tree[rr[k]] += 1
    ctx.cov['c06'] = dict(runs=len(jobs), sample_files=len(pick), formats_on_generated_files=len(fmt_list), outcomes=dict(outcomes),
                          obligations=len(set(obs)), trees=sum(1 for r in res if (r['res'] or {}).get('hastree')),
                          malformed_trees_seen_reported_by_C03_C04=dict(bad_tree))
    ctx.cov['evaluations'] += len(jobs)
    ctx.cov['distinct_nontrivial'] += len({(j['file'], j['format'], j['force'], json.dumps(j['mut'])) for j in jobs if j['mut']['kind'] != 'none'})
    ctx.sample(dict(kind='decode run', job={k: jobs[len(jobs) // 3][k] for k in ('file', 'format', 'force', 'mut')}, outcome=res[len(jobs) // 3]['outcome']))
    # binding demonstration: a fault outcome is rejected; a dropped obligation fails the coverage postcondition
    good = [e for e in events if e['outcome'] == 'ok'][:3]
    bad = dict(good[1]); bad['outcome'] = 'panic'
    dp = os.path.join(ctx.build, 'c06_demo.ndjson'); dop = os.path.join(ctx.build, 'c06_demo_oblig.ndjson')
    vlib.write_ndjson(dp, [good[0], bad, good[2]])
    vlib.write_ndjson(dop, [dict(ob=e['ob']) for e in good])
    drej, _, _ = ctx.tv('TraceDecodeOutcome', 'tdo.cfg', dp, name='tv_outcome_demo', cfg_text=cfg, extra_files={'obligations.ndjson': dop}, count=False)
    vlib.write_ndjson(dop, [dict(ob=e['ob']) for e in good] + [dict(ob='missing|x|noforce|none')])
    r2 = ctx.tlc('TraceDecodeOutcome', 'tdo.cfg', cfg_text=cfg, files={'trace.ndjson': dp, 'obligations.ndjson': dop}, workers=1, name='tv_outcome_demo2', count=False)
    ok = [l for l, _ in drej] == [2] and (r2.postcondition_false or not r2.ok())
    ctx.cov['binding_demo'].append(dict(spec='TraceDecodeOutcome', fault_rejected=[l for l, _ in drej] == [2], missing_obligation_fails=not r2.ok(), ok=ok))
    if not ok:
        raise Inconclusive('binding demo failed for TraceDecodeOutcome')


def replay(ctx, path):
    """re-run the recorded decode job in an isolated worker on the current tree"""
    d = json.load(open(path))
    j = d['case']['job']
    res = corpusarm.run_jobs(ctx, [j], 'replay', mem_kb=MEM_KB, per_job=60, workers=1)
    r = res[0]
    ctx.cov['evaluations'] = 1; ctx.cov['distinct_nontrivial'] = 2; ctx.cov['rule'] = 'replay of one recorded decode run'
    ctx.sample(dict(kind='replayed decode run', job={k: j[k] for k in ('file', 'format', 'force', 'mut')}, outcome=r['outcome']))
    if r['outcome'] != 'ok':
        ctx.finding('fault:%s:%s' % (fault_kind(r['msg']) if r['outcome'] != 'hang' else 'hang', top_fq_frame(r['msg'])),
                    '%s; %s' % (j.get('ob', ''), (r['msg'] or '').strip().split('\n')[0][:160]), dict(job=j, outcome=r['outcome'], msg=(r['msg'] or '')[:3000]))
