# C10 - Displayed bytes, addresses, ranges and JSON numbers are true
import os, sys, re, json, copy, collections, random
from concurrent.futures import ThreadPoolExecutor
import vlib
from vlib import Inconclusive

LEVEL = 'model_checking'
META = dict(
    text=('Dump.tla states the requirement over a PARSED dump of one value (rows of address text, column -> hex pair, column -> ascii '
          'character; line width; the value\'s inner bit range; the buffer bytes): True (every row address, read from its text in the '
          'requested base with the documented prefix, is a multiple of line_bytes and every hex pair / ascii character is the buffer byte '
          'at address+column, ascii through the safe-character mapping), Once (the shown bytes are one duplicate-free run from the '
          'value\'s first byte, never past its last), Complete (no truncation row => the run ends at the last byte), Verbose (printed '
          'range and size, read from the text, are the actual ones) and the `until` text of truncated values. The same module transcribes '
          'the arithmetic of dumpEx / dump / hexdump and of the hex / ascii column writers (lastDisplayBit rounding, startLine, addrLines, '
          'display size clipping, end marker, address width incl. the nested-root `maxAddrIndentWidth - rootDepth` rule). TLC (DumpMC) checks '
          'as-built => as-required for every (start bit, length, buffer end, line_bytes, display_bytes) inside the constants, shows the D4 '
          'counterexample for nested roots and that the `- 2*rootDepth` repair removes it, and emits the cases (GEN). The harness runs REAL fq '
          'in-process through the CLI entry point: binaries (`tobits[a:b] | d/dd/dv/ddv/hd(opts)`), real decode trees of TLC-emitted and '
          'seeded random decoder programs with nested buffers (whole trees and values inside them), gzip members and small corpus files; '
          'strips ANSI, cuts the text at the fixed column positions and hands address strings, hex pairs and characters AS TEXT to TLC '
          '(TraceDump), which decides every event. JSON half: the value universe emitted by TLC (DumpJsonGen) plus seeded integers of 31..300 '
          'bits, floats and escape-heavy strings go through default/-c/-C output, tojson, @json, fromjson and -d json -V; the output is parsed '
          'back with encoding/json (UseNumber) and TLC compares value with output (JsonEq; integers as exact digit strings).'),
    note=('Exhaustive only inside the TLC constants recorded in the evidence (mc_constants, tlc_runs); the quick tier model-checks a sub-box '
          'and replays a seeded sample of the GEN family, the thorough tier all of it; random beyond. Verdicts come only from text printed by '
          'real fq. The parser (harness/c10/parse.go) is trusted to cut lines at the column positions; the binding demo damages real dump text '
          'by hand in 20 ways and TLC rejects every one. The known defect D4 (nested-root addresses lose their last digits) is recognised by '
          'signature dump.nested_root_addr_width: address texts exactly as the `maxAddrIndentWidth - rootDepth` rule prints them and the dump '
          'right in every other respect; any other false cell or address is a violation. The as-built layer is compared too (model_drift). '
          'array_truncate is always 0; widths of the tree column are not judged.'),
    technique=('TLA+ spec (Dump.tla: as-required predicates + as-built transcription) + TLC exhaustive MC + spec-emitted cases replayed on '
               'real fq + TLC trace validation of parsed real output (dumps and JSON) with a hand-corruption binding demo'),
)

ALL_L = [1, 2, 3, 4, 5, 6, 7, 8, 9, 16, 64]
D4 = 'dump.nested_root_addr_width'


def S(xs):
    return '{' + ','.join(str(x) for x in xs) + '}'


def mc_cfg(starts=range(41), lens=range(81), L=ALL_L, dsel=range(1, 7), abs_=(16,), sbs=(16,), tails=(0, 1, 2, 3), rds=(0,), outer=0,
           fix=False, spread=False, invs=('Refines',), emit=False):
    s = ('SPECIFICATION Spec\nCONSTANTS\n Starts = %s\n Lens = %s\n LineBytes = %s\n DSel = %s\n ABs = %s\n SBs = %s\n Tails = %s\n RDs = %s\n'
         ' Outer = %d\n Fix = %s\n Spread = %s\n' % (S(starts), S(lens), S(L), S(dsel), S(abs_), S(sbs), S(tails), S(rds), outer,
                                                    'TRUE' if fix else 'FALSE', 'TRUE' if spread else 'FALSE'))
    for i in invs:
        s += 'INVARIANT %s\n' % i
    if emit:
        s += 'CONSTRAINT Emit\n'
    return s + 'CHECK_DEADLOCK FALSE\n'


def model_check(ctx):
    th = ctx.tier == 'thorough'
    # 1. as built => as required for binaries (rootDepth 0): every start x length x buffer end x line_bytes x display_bytes
    if th:
        box = dict(starts=range(41), lens=range(81))
    else:
        box = dict(starts=range(10), lens=list(range(41)) + [47, 48, 49, 63, 64, 65, 79, 80])
    r = ctx.tlc('DumpMC', 'mc_bin.cfg', cfg_text=mc_cfg(**box), timeout=3000 if th else 600, name='mc_binaries')
    ctx.tlc_expect_ok(r, 'as-built dump of a binary refines the requirement')
    ctx.cov['mc_constants'] = dict(start_bits='0..%d' % (len(box['starts']) - 1), length_bits=S(box['lens']) if not th else '0..80', line_bytes=ALL_L,
                                   display_bytes='{0,1,L-1,L,L+1,2L+1}', buffer_end='{at last bit, next byte, beyond next line, +5 bits}',
                                   cases=r.distinct)
    # 2. all address / size bases and a tree root above the value (wider address column)
    small = dict(starts=(0, 1, 7, 8, 9, 23, 40), lens=(0, 1, 7, 8, 9, 16, 17, 63, 64, 80), L=(1, 3, 8, 16, 64) if not th else ALL_L,
                 dsel=(1, 2, 5, 6) if not th else range(1, 7))
    r = ctx.tlc('DumpMC', 'mc_bases.cfg', cfg_text=mc_cfg(abs_=(2, 8, 10, 16, 36), sbs=(2, 10, 36) if not th else (2, 8, 10, 16, 36), tails=(0, 2, 3),
                                                          outer=64, **small), timeout=3000 if th else 600, name='mc_bases')
    ctx.tlc_expect_ok(r, 'as-built dump in every base refines the requirement')
    # 3. nested roots: as built fails, and only in the D4 shape; with the repair (`- 2*rootDepth`) it refines
    nest = dict(starts=(0, 3, 8, 9, 40), lens=(0, 1, 8, 9, 40, 80), L=(1, 2, 4, 8, 16), dsel=(1, 3, 5), abs_=(2, 10, 16, 36), tails=(0, 2, 3), rds=(1, 2), outer=64)
    r = ctx.tlc('DumpMC', 'mc_nested.cfg', cfg_text=mc_cfg(invs=('RefinesOrD4',), **nest), timeout=900, workers=4, name='mc_nested_as_built')
    ctx.tlc_expect_ok(r, 'nested-root dump: only the D4 shape fails')
    r = ctx.tlc('DumpMC', 'mc_nested_fix.cfg', cfg_text=mc_cfg(invs=('Refines',), fix=True, **nest), timeout=900, workers=4, name='mc_nested_repaired')
    ctx.tlc_expect_ok(r, 'nested-root dump with addrWidth = maxAddrIndentWidth - 2*rootDepth refines the requirement')
    r = ctx.tlc('DumpMC', 'mc_d4.cfg', cfg_text=mc_cfg(invs=('Refines',), **dict(nest, starts=(3,), lens=(8, 40), L=(1, 16), abs_=(16,))), count=False, workers=2,
                name='mc_d4_counterexample')
    ctx.cov['as_built_d4_counterexample'] = r.violated == 'Refines'   # FALSE once the code (and the transcription) is repaired
    # 4. anti-vacuity: the branches of the arithmetic are reached (the Witness constraint prints a tag per branch and case)
    wit = dict(starts=(0, 1, 3, 13), lens=(0, 9, 34, 80), L=(2, 5), tails=(0, 1, 2, 3), rds=(0, 1), outer=64)
    m = ctx.tlc('DumpMC', 'wit.cfg', cfg_text=mc_cfg(invs=(), **wit).replace('CHECK_DEADLOCK', 'CONSTRAINT Witness\nCHECK_DEADLOCK'), count=False,
                workers=2, name='mc_witness')
    ctx.tlc_expect_ok(m, 'witness run')
    seen = collections.Counter(x[len('WITNESS '):] for x in m.raw_printed if isinstance(x, str) and x.startswith('WITNESS '))
    want = ['truncated', 'end marker', 'until text cut by column', 'start inside a line', 'truncation one byte into a line',
            'display size clipped at buffer end', 'D4 nested root address cut', 'nested root dump true (single line at 0)']
    missing = [w for w in want if not seen[w]]
    if missing:
        raise Inconclusive('vacuous MC: branches never reached: %s' % missing)
    ctx.cov['mc_witnessed_branches'] = dict(seen)


def tv_sharded(ctx, evs, name, shards=None, count=True):
    """parallel TLC trace validation of independent events -> ({index: sig}, [drift indices])"""
    shards = shards or min(8, max(1, len(evs) // 2500))
    chunks = [list(range(i, len(evs), shards)) for i in range(shards)]

    def one(k):
        idx = chunks[k]
        p = os.path.join(ctx.build, '%s_shard%d.ndjson' % (name, k))
        vlib.write_ndjson(p, [evs[i] for i in idx])
        rej, drift, _ = ctx.tv('TraceDump', 'TraceDump.cfg', p, name='%s_%d' % (name, k), count=count, timeout=3000 if ctx.tier == 'thorough' else 900, heap='1g')
        return [(idx[l - 1], s) for l, s in rej], [idx[l - 1] for l in drift]
    rejects, drifts = {}, []
    with ThreadPoolExecutor(max_workers=shards) as ex:
        for rej, dr in ex.map(one, range(shards)):
            rejects.update(dict(rej))
            drifts += dr
    return rejects, sorted(drifts)


def nontrivial(e):
    return len(e['rows']) >= 2 or e['trunc'] or (e['rows'] and e['rows'][0]['cells'] and e['rows'][0]['cells'][0]['c'] > 0) or e['rd'] > 0


def judge_dumps(ctx, evs, name, arm):
    if not evs:
        raise Inconclusive('no dump events from ' + name)
    rejects, drifts = tv_sharded(ctx, evs, 'tv_' + name)
    ctx.cov['traces_validated_against_impl'] += len(evs)
    ctx.cov['evaluations'] += len(evs)
    for e in evs:
        if nontrivial(e):
            ctx._distinct.add((arm, e['L'], e['ab'], e['sb'], e['D'], e['start'], e['len'], e['blen'], e['rd'], len(e['rows'])))
        o = ctx.cov['option_space']
        o['line_bytes'].add(e['L']); o['addrbase'].add(e['ab']); o['sizebase'].add(e['sb']); o['root_depth'].add(e['rd'])
        o['display_bytes'].add(e['D'] if e['D'] <= 2 * e['L'] + 1 else 'other')
        ctx.cov['hex_cells_judged'] += sum(len(r['cells']) for r in e['rows'])
    if drifts:
        ctx.drift('%s: real dump differs from the as-built transcription: %s' % (name, evs[drifts[0]]['what'][:300]), len(drifts))
    for i in sorted(rejects):
        sig = rejects[i]
        if sig not in (D4, 'dump.value_outside_its_buffer_not_displayed'):
            sig = '%s@%s' % (sig, arm)
        ctx.finding(sig, evs[i]['what'][:600] + ((' parser: ' + evs[i]['perr'][:200]) if evs[i]['perr'] else ''), evs[i])
    a = ctx.cov.setdefault('arms', {}).setdefault(name, collections.Counter())
    a.update(dict(events=len(evs), rejected=len(rejects), drift=len(drifts), truncated=sum(1 for e in evs if e['trunc']),
                  nested=sum(1 for e in evs if e['rd'] > 0), verbose=sum(1 for e in evs if e['hasv'])))
    return rejects


def run_harness(ctx, binp, args, timeout=1800):
    r = ctx.run([binp] + args, timeout=timeout)
    if r.returncode != 0:
        # fq runs inside the harness process: a Go panic whose innermost non-runtime frame is fq's own code (not the harness) means fq
        # died while producing the display; confirmed by a second run before it is reported
        def fq_frame(err):
            if 'panic:' not in err and 'fatal error:' not in err:
                return None
            for m in re.finditer(r'^(github\.com/wader/fq/[^\s(]+)', err[err.find('goroutine'):], re.M):
                if '/internal/verif/' not in m.group(1):
                    return m.group(1)
            return None
        f1 = fq_frame(r.stderr)
        r2 = ctx.run([binp] + args, timeout=timeout)
        f2 = fq_frame(r2.stderr) if r2.returncode != 0 else None
        if f1 and f1 == f2:
            first = next((l for l in r.stderr.splitlines() if l.startswith(('panic:', 'fatal error:'))), '')[:200]
            ctx.finding('display.crash@' + f1.split('/')[-1], 'fq dies while producing output (harness mode %s): %s' % (args[0], first),
                        dict(mode=args[0], stderr=r.stderr[-3000:], one_line='harness c10 %s <cases> (see checks/c10.py)' % args[0]))
            raise Inconclusive('harness mode %s stopped by a crash inside fq (reported above); the rest of this arm was not judged' % args[0])
        sys.stderr.write(r.stderr[-4000:])
        raise Inconclusive('command failed rc=%d: %s' % (r.returncode, ([binp] + args)[:3]))
    return r.stdout.strip()


def dump_arms(ctx, binp):
    th = ctx.tier == 'thorough'
    # GEN: the whole family of binaries (bases and buffer end spread over it); quick replays a seeded sample
    g = ctx.tlc('DumpMC', 'gen.cfg', cfg_text=mc_cfg(spread=True, invs=(), emit=True), timeout=3000, name='gen_binaries')
    ctx.tlc_expect_ok(g, 'DumpMC GEN')
    cases = g.printed
    if len(cases) < 200000:
        raise Inconclusive('GEN produced too few cases (%d)' % len(cases))
    ctx.cov['gen_family'] = dict(cases=len(cases), start_bits='0..40', length_bits='0..80', line_bytes=ALL_L, display_bytes='{0,1,L-1,L,L+1,2L+1}',
                                 bases='spread over {2,8,10,16,36}', buffer_end='spread over 4 shapes')
    if not th:
        cases = random.Random(ctx.seed).sample(cases, 9000)
    # the `until <last bit> (end) (<size>)` line of a truncated value is only judged when it fits its column: a second, small family with
    # wide lines, values longer than a line and display_bytes 1 or L-1 (always truncated, mostly visible), every buffer-end shape, all replayed in both tiers
    gu = ctx.tlc('DumpMC', 'gen_until.cfg', cfg_text=mc_cfg(starts=range(16), lens=range(130, 190), L=(9, 16), dsel=(2, 3), spread=True, invs=(), emit=True),
                 timeout=900, name='gen_until_lines')
    ctx.tlc_expect_ok(gu, 'DumpMC GEN until-lines')
    ctx.cov['gen_family']['until_line_family'] = len(gu.printed)
    cases = cases + gu.printed
    ctx.cov['gen_family']['replayed'] = len(cases)
    for k in range(0, len(cases), 40000):      # in portions: the thorough tier replays all 219k
        part = cases[k:k + 40000]
        cp = os.path.join(ctx.build, 'gen_cases_%d.ndjson' % k)
        vlib.write_ndjson(cp, part)
        ep = os.path.join(ctx.build, 'ev_gen_%d.ndjson' % k)
        run_harness(ctx, binp, ['bin', cp, ep])
        evs = vlib.read_ndjson(ep)
        if len(evs) != len(part):
            raise Inconclusive('replay lost cases')
        judge_dumps(ctx, evs, 'gen_binaries', 'bin')
        if k == 0:
            ctx.sample(dict(kind='TLC-emitted binary case on real fq', case=part[len(part) // 2], what=evs[len(part) // 2]['what'],
                            rows=[(''.join(r['a']), [c['h'] for c in r['cells']]) for r in evs[len(part) // 2]['rows']][:4]))
        del evs
        if th:
            os.unlink(ep)

    # decoder programs emitted by TLC (DecodeTreeMC GEN, as in the C03 arm): real trees, dumped whole and at inner values
    import treearm
    tg = ctx.tlc('DecodeTreeMC', 'gen_tree.cfg', cfg_text=treearm.mc_cfg(zq='TRUE', pp='FALSE', slack=1, ops=3 if th else 2, view=False, emit=True),
                 timeout=3000, name='gen_tree_programs')
    ctx.tlc_expect_ok(tg, 'DecodeTree GEN')
    progs = tg.printed
    ctx.cov['tlc_tree_programs_emitted'] = len(progs)
    cap = 20000 if th else 800       # every program is dumped twice (whole tree, one inner value); a seeded sample of the emitted family
    if len(progs) > cap:
        progs = random.Random(ctx.seed).sample(progs, cap)
    pp = os.path.join(ctx.build, 'tree_progs.ndjson')
    vlib.write_ndjson(pp, progs)
    ep = os.path.join(ctx.build, 'ev_progs.ndjson')
    info = run_harness(ctx, binp, ['progs', pp, ep])
    evs = vlib.read_ndjson(ep)
    judge_dumps(ctx, evs, 'tlc_tree_programs', 'tree')
    ctx.cov['arms']['tlc_tree_programs']['programs'] = len(progs)
    ctx.cov['arms']['tlc_tree_programs']['harness'] = info

    # seeded random: binaries up to 200 bytes, power-of-base sized buffers, programs with multi-line nested buffers, gzip members, corpus files
    ep = os.path.join(ctx.build, 'ev_rand.ndjson')
    info = run_harness(ctx, binp, ['rand', str(6000 if th else 600), ep, vlib.REPO])
    evs = vlib.read_ndjson(ep)
    rej = judge_dumps(ctx, evs, 'random', 'rand')
    ctx.cov['arms']['random']['harness'] = info
    ctx.cov['dumps_random_driver'] = int(info.split()[1]) if info.startswith('dumps') else None
    d4 = [i for i, s in rej.items() if s == D4]
    if d4:
        e = evs[d4[0]]
        ctx.sample(dict(kind='known D4 on real fq', what=e['what'][:300], root_depth=e['rd'], printed_addresses=[''.join(r['a']) for r in e['rows']][:4],
                        true_addresses=[(e['start'] // 8 // e['L'] + k) * e['L'] for k in range(min(4, len(e['rows'])))], addrbase=e['ab']))
    ev = next((e for e in evs if e['rd'] == 0 and len(e['rows']) >= 3 and e['trunc']), evs[0])
    ctx.sample(dict(kind='real dump event (truncated value)', what=ev['what'][:300], start=ev['start'], len=ev['len'],
                    rows=[(''.join(r['a']), len(r['cells'])) for r in ev['rows']], until=''.join(ev['uaddr'])))


def json_arm(ctx, binp):
    th = ctx.tier == 'thorough'
    g = ctx.tlc('DumpJsonGen', 'jgen.cfg', cfg_text='SPECIFICATION Spec\nCONSTANTS Depth = %d\nCONSTRAINT Emit\nCHECK_DEADLOCK FALSE\n' % (2 if th else 1),
                timeout=900, name='gen_json_universe')
    ctx.tlc_expect_ok(g, 'DumpJsonGen')
    vals = g.printed
    if len(vals) < 300:
        raise Inconclusive('JSON universe too small')
    cp = os.path.join(ctx.build, 'json_cases.ndjson')
    vlib.write_ndjson(cp, vals)
    ep = os.path.join(ctx.build, 'ev_json.ndjson')
    info = run_harness(ctx, binp, ['json', cp, ep])
    evs = vlib.read_ndjson(ep)
    rejects, _ = tv_sharded(ctx, evs, 'tv_json', shards=min(4, max(1, len(evs) // 20000)))
    ctx.cov['traces_validated_against_impl'] += len(evs)
    ctx.cov['evaluations'] += len(evs)
    modes = sorted({e['mode'] for e in evs})
    big = sum(1 for e in evs if e['val']['t'] == 'num' and len(e['val']['s'].lstrip('-')) > 18 and e['val']['s'].lstrip('-').isdigit())
    ctx.cov['json'] = dict(universe_values=len(vals), harness=info, modes=modes, events=len(evs), rejected=len(rejects), top_level_integers_over_18_digits=big)
    for e in evs:
        if e['val']['t'] in ('arr', 'obj') or len(e['val']['s']) > 15 or len(e['val']['cp']) > 1:
            ctx._distinct.add(('json', e['mode'], e['text'][:200]))
    for i in sorted(rejects):
        ctx.finding('%s@%s' % (rejects[i], evs[i]['mode'].replace(' ', '_')), 'value %s through %s' % (evs[i]['text'][:300], evs[i]['mode']), evs[i])
    ev = next(e for e in evs if e['val']['t'] == 'num' and len(e['val']['s']) > 60)
    ctx.sample(dict(kind='JSON number through real fq', mode=ev['mode'], input=ev['text'][:120], parsed_back=ev['out']['s'][:120]))
    return evs


def binding_demo(ctx, binp, jevs):
    ep = os.path.join(ctx.build, 'ev_demo.ndjson')
    run_harness(ctx, binp, ['demo', ep])
    evs = vlib.read_ndjson(ep)
    # JSON: a big integer that lost its low digits, and an output that is not JSON
    good = next(e for e in jevs if e['val']['t'] == 'num' and len(e['val']['s']) > 30 and e['val']['s'].isdigit())
    bad = copy.deepcopy(good); bad['out']['s'] = bad['out']['s'][:16] + '0' * (len(bad['out']['s']) - 16); bad['demo'] = 'reject'
    bad2 = copy.deepcopy(good); bad2['valid'] = False; bad2['demo'] = 'reject'
    good = dict(good, demo='accept')
    jd = [good, bad, bad2]
    rej, _ = tv_sharded(ctx, evs, 'demo_dump', shards=1, count=False)
    rejj, _ = tv_sharded(ctx, jd, 'demo_json', shards=1, count=False)
    problems = []
    for i, e in enumerate(evs):
        s = rej.get(i)
        if e['demo'] == 'accept' and s or e['demo'] == 'reject' and (not s or s == D4) or e['demo'] == 'd4' and s not in (None, D4):
            problems.append((i + 1, e['demo'], s, e['what'][-60:]))
    for i, e in enumerate(jd):
        if (e['demo'] == 'reject') != (i in rejj):
            problems.append(('json', i + 1, e['demo'], rejj.get(i)))
    n = collections.Counter(e['demo'] for e in evs)
    ctx.cov['binding_demo'].append(dict(spec='TraceDump', hand_corrupted_dump_variants=sorted({e['what'].split(' -- ')[1] for e in evs if e['demo'] == 'reject'}),
                                        events=dict(n), rejected_with_sig={e['what'].split(' -- ')[1]: rej[i] for i, e in enumerate(evs) if e['demo'] == 'reject' and i in rej},
                                        json=dict(corrupted=2, rejected=sorted(rejj.values())), ok=not problems))
    if problems or n['reject'] < 15:
        raise Inconclusive('binding demo failed for TraceDump: %s' % problems[:5])


def run(ctx):
    ctx._distinct = set()
    ctx.cov['hex_cells_judged'] = 0
    ctx.cov['option_space'] = dict(line_bytes=set(), addrbase=set(), sizebase=set(), display_bytes=set(), root_depth=set())
    ctx.cov['rule'] = ('dump events: one per displayed value of one real fq dump; distinct non-trivial = distinct (arm, line_bytes, addrbase, sizebase, '
                       'display_bytes, start, length, buffer length, root depth, rows) among events that show >= 2 rows, start inside a line, are '
                       'truncated or live in a nested buffer. JSON events: distinct (mode, value) among containers, numbers over 15 characters and '
                       'strings of >= 2 code points.')
    ctx.assumptions += ['the buffer byte at an address is read by the harness from the value\'s RootReader (trees) or is the byte the harness supplied '
                        '(binaries); a trailing partial byte is zero padded on the right',
                        'fq is run in-process through interp.Main with a virtual OS (no terminal: colour only when asked by option)',
                        'JSON: number equality is exact for integer-valued numbers (digit strings) and float64 equality otherwise; object member order is not part of the value']
    ctx.cov['trusted_base'] += ['harness/c10/parse.go splitLine/rowsOf/verboseOf (cuts printed lines at the column positions; no number or hex interpretation)',
                                'harness/c10/main.go walk/inner/bufBytes (which values a dump visits, inner range, buffer bytes from the real tree)',
                                'harness/c10/json.go canonNum/proj (canonical number text via math/big, tagged form of encoding/json output)']
    binp = ctx.go_build('c10')
    model_check(ctx)
    dump_arms(ctx, binp)
    jevs = json_arm(ctx, binp)
    binding_demo(ctx, binp, jevs)
    ctx.cov['distinct_nontrivial'] += len(ctx._distinct)
    ctx.cov['option_space'] = {k: sorted(v, key=str) for k, v in ctx.cov['option_space'].items()}
    del ctx._distinct


def replay(ctx, path):
    """Replay file -> rerun the check with the recorded seed/tier (all arms are deterministic in the seed)."""
    rec = json.load(open(path))
    ctx.seed, ctx.tier = rec.get('seed', ctx.seed), rec.get('tier', ctx.tier)
    ctx.rng = random.Random(ctx.seed)
    run(ctx)
