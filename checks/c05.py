# C05 - tobytes/tobits of a value are exactly the input bits of its range
import jqarm, treearm

LEVEL = 'model_checking'
META = dict(
    text=('The specification (DecodeTree.tla + TraceJqTree.tla) states what tobits, tobytes (left padded), every bits_format rendering (right '
          'padded regrouping, truncate = first 1024 bytes, snippet = first 256, md5 = digest of the string form) and raw stdout of the root must be, '
          'as functions of the buffer bits and the value range. TLC generates decoder programs (exhaustive small, simulated deeper); the harness '
          'runs them through real fq (-d verifprog), records what the real jq layer returns for EVERY node, including nodes in nested buffers and '
          'unaligned fields, and TLC validates every recorded observation. A corpus arm does the same on small sample files under real formats; '
          'the decode-API level (value readers vs buffer) is judged on large corpus trees by a cross-checked reference.'),
    note=('hex/base64 texts are turned back into bytes by Go encoding/hex and encoding/base64 and md5 by crypto/md5 on the harness side (trusted); '
          'buffers above 32768 bits are not sent to TLC. For a nested root the reported range is its inner range [0,len).'),
    technique='TLA+ oracle (TraceJqTree.tla over DecodeTree.tla) validating jq-level observations of real trees built from TLC-generated decoder programs',
)


def run(ctx):
    ctx.cov['rule'] = ('every node of every real decode tree built from TLC-emitted / random decoder programs and small corpus files, observed through '
                       'tobits, tobytes, 7 bits_format renderings and raw stdout; distinct non-trivial = distinct trees with >= 4 nodes')
    ctx.assumptions += ['Go encoding/hex, encoding/base64, crypto/md5 decode the renderings on the harness side']
    jqarm.run_for(ctx, 'C05')
    # decode-API level on big corpus trees: value readers hold exactly the buffer bits of their range (harness/ref sameBits, bits.*)
    import corpusarm
    corpusarm.run_for(ctx, 'C05')
    # one MC run so the evidence carries the model the programs come from
    r = ctx.tlc('DecodeTreeMC', 'mc_c05.cfg', cfg_text=treearm.mc_cfg(ops=2, allowed='{"ok",%s}' % treearm.STRETCH, invs=('TreeOK', 'InputCovered')), name='mc_tree_c05')
    ctx.tlc_expect_ok(r, 'DecodeTree MC')
