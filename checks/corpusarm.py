# Corpus arm for C03 / C04 / C05: real registered decoders on sample files (and a truncation family),
# trees judged by TLC (TraceTree.tla) when small and by harness/ref (cross-checked against TLC, G4) when large.
import os, re, json, copy, glob, collections
import vlib, treearm
from vlib import Inconclusive

SKIP_FILES = ('bigzero',)          # needs > 10 GB unless uncompress=false (memory note); C06 handles it in limited workers
FORMAT_ROOT = os.path.join(vlib.REPO, 'format')


def sample_files(max_size):
    out = []
    for p in sorted(glob.glob(os.path.join(FORMAT_ROOT, '**', 'testdata', '**', '*'), recursive=True)):
        if not os.path.isfile(p) or p.endswith('.fqtest') or p.endswith('.jq') or p.endswith('.md') or p.endswith('.sh') or p.endswith('.go'):
            continue
        if any(s in os.path.basename(p) for s in SKIP_FILES):
            continue
        if os.path.getsize(p) > max_size or os.path.getsize(p) == 0:
            continue
        out.append(p)
    return out


_fmt_cache = {}


def golden_formats(path, known):
    """formats named with -d in the .fqtest files next to the sample that mention it"""
    d = os.path.dirname(path)
    if d not in _fmt_cache:
        m = collections.defaultdict(set)
        for ft in glob.glob(os.path.join(d, '*.fqtest')):
            try:
                txt = open(ft, errors='replace').read()
            except OSError:
                continue
            for line in txt.splitlines():
                if not line.startswith('$ fq'):
                    continue
                f = re.search(r'-d[ =](\w+)', line)
                for tok in line.split():
                    tok = tok.strip('\'"')
                    if os.path.isfile(os.path.join(d, tok)):
                        m[tok].add(f.group(1) if f else 'probe')
        _fmt_cache[d] = m
    fs = {f for f in _fmt_cache[d].get(os.path.basename(path), set()) if f in known}
    return sorted(fs) or ['probe']


def family(path):
    rel = os.path.relpath(path, FORMAT_ROOT)
    return rel.split(os.sep)[0]


def mk(file, fmt, force=False, mut=None, maxnodes=120, tree=True):
    m = dict(kind='none', off=0, n=0, val=0)
    m.update(mut or {})
    return dict(file=file, format=fmt, force=force, mut=m, maxnodes=maxnodes, tree=tree, fields=False, cli=False)


def build_jobs(ctx, known):
    th = ctx.tier == 'thorough'
    files = sample_files(4 << 20 if th else 1 << 20)
    byfam = collections.defaultdict(list)
    for f in files:
        byfam[family(f)].append(f)
    pick = []
    per = 400 if th else 6
    for fam in sorted(byfam):
        fs = byfam[fam][:]
        ctx.rng.shuffle(fs)
        pick += fs[:per]
    jobs = []
    for f in pick:
        fmts = golden_formats(f, known)
        for fmt in sorted(set(fmts + ['probe'])):
            jobs.append(mk(f, fmt))
            if th:
                jobs.append(mk(f, fmt, force=True))
        size = os.path.getsize(f)
        fmt = fmts[0]
        # truncation family: partial trees of failed decodes (the undecoded tail must be a gap, the tree well formed)
        cuts = sorted({size // 2, size - 1, max(1, size // 3), min(size, 17), min(size, 64)})
        if th:
            cuts = sorted(set(cuts) | {size * k // 16 for k in range(1, 16)} | {k for k in (1, 2, 3, 4, 8, 12, 16, 24, 32, 48, 100, 200) if k < size})
        for n in cuts:
            if 0 < n < size:
                jobs.append(mk(f, fmt, mut=dict(kind='trunc', n=n)))
                if th:
                    jobs.append(mk(f, fmt, force=True, mut=dict(kind='trunc', n=n)))
    return jobs, len(pick), len(files)


def run_jobs(ctx, jobs, name, mem_kb=6000000, per_job=60, workers=None):
    binp = ctx.go_build('corpus')
    jp = os.path.join(ctx.build, name + '_jobs.ndjson')
    rp = os.path.join(ctx.build, name + '_res.ndjson')
    vlib.write_ndjson(jp, jobs)
    ctx.run([binp, 'run', jp, rp, str(workers or min(12, vlib.NCPU)), str(mem_kb), str(per_job)], check=True, timeout=7200)
    res = [None] * len(jobs)
    for r in vlib.read_ndjson(rp):
        res[r['id']] = r
    if any(r is None for r in res):
        raise Inconclusive('corpus run lost results')
    for r in res:
        if r['outcome'] == 'panic' and r['msg'].startswith('harness:'):
            raise Inconclusive('corpus harness error: ' + r['msg'][:200])
    return res


def registered_formats(ctx):
    binp = ctx.go_build('corpus')
    return set(ctx.run([binp, 'formats'], check=True).stdout.split())


def damage(ev, k):
    """systematically damaged copies of a small real tree, for the ref-vs-TLC cross-check"""
    e = copy.deepcopy(ev)
    ns = e['nodes']
    leaves = [i for i, n in enumerate(ns) if n['kind'] in ('leaf', 'gap') and n['len'] > 0]
    arrs = [n for n in ns if n['kind'] == 'array' and len(n['kids']) >= 2]
    structs = [n for n in ns if n['kind'] == 'struct' and len(n['kids']) >= 2]
    if k == 0 and leaves:
        ns[leaves[-1]]['len'] += 7
    elif k == 1 and arrs:
        ns[arrs[0]['kids'][-1] - 1]['idx'] += 1
    elif k == 2 and structs:
        structs[0]['kids'].reverse()
    elif k == 3 and leaves:
        ns[leaves[len(leaves) // 2]]['start'] += 3
    elif k == 4 and structs:
        ns[structs[-1]['kids'][0] - 1]['name'] = ns[structs[-1]['kids'][1] - 1]['name']
    elif k == 5 and leaves:
        g = [i for i in leaves if ns[i]['kind'] == 'gap']
        if g:
            ns[g[0]]['len'] = max(0, ns[g[0]]['len'] - 2)
        else:
            return None
    else:
        return None
    e['hasb_off'] = True
    for n in ns:
        n['hasb'] = False
    return e


def run_for(ctx, pid):
    known = registered_formats(ctx)
    jobs, nfiles, ntotal = build_jobs(ctx, known)
    res = run_jobs(ctx, jobs, 'corpus')
    pref = treearm.ASPECTS[pid]
    small_events, small_idx = [], []
    outcomes = collections.Counter()
    ntrees = nnodes = 0
    for k, (j, r) in enumerate(zip(jobs, res)):
        outcomes[r['outcome']] += 1
        if r['outcome'] != 'ok' or not r['res'] or not r['res']['hastree']:
            continue
        rr = r['res']
        ntrees += 1
        nnodes += rr['nnodes']
        # TLC integers are 32 bit: a tree with a position beyond 2^30 (a seek to an offset read from the input) is judged by harness/ref only
        if rr['nodes'] and sum(n['blen'] for n in rr['nodes'] if n['root']) <= 4096 and all(abs(n['start']) < (1 << 30) and abs(n['len']) < (1 << 30) for n in rr['nodes']):
            small_events.append(dict(len=0, force=False, prog=[], hasprog=False, nodes=rr['nodes'], bufs=rr['bufs'] or {}, panic='', nil=False))
            small_idx.append(k)
    # TLC judges every small tree; ref judges all; they must agree where both speak (G4)
    damaged = []
    for e in small_events[:60]:
        for d in range(6):
            x = damage(e, d)
            if x:
                damaged.append(x)
    all_ev = small_events + damaged
    rej, _ = treearm.tv_tree(ctx, all_ev, 'tv_corpus') if all_ev else ({}, [])
    ctx.cov['traces_validated_against_impl'] += len(small_events)

    def tlc_sig(i, prefix):
        return sorted(s for s in rej.get(i, []) if s.startswith(prefix))
    # cross-check on real small trees
    disagree = 0
    for n, k in enumerate(small_idx):
        rr = res[k]['res']
        for prefix, refsig in (('tree.', rr['refwhy']), ('gaps.gap_overlaps', rr['refgap']), ('gaps.merge', rr['refgap']), ('gaps.bits_unc', rr['refgap'])):
            t = tlc_sig(n, prefix)
            r_ = [refsig] if refsig.startswith(prefix) else []
            if t != r_:
                disagree += 1
                vlib.log('ref/TLC disagree on %s %s: tlc=%s ref=%s' % (jobs[k]['file'], prefix, t, r_))
    # cross-check on damaged copies: ref and TLC must agree on them too (agreement on REJECTION)
    ndam_rej = 0
    if damaged:
        dp = os.path.join(ctx.build, 'damaged.ndjson'); do = os.path.join(ctx.build, 'damaged_ref.ndjson')
        vlib.write_ndjson(dp, damaged)
        ctx.run([ctx.go_build('corpus'), 'ref', dp, do], check=True, timeout=600)
        refd = vlib.read_ndjson(do)
        for n, rd in enumerate(refd):
            i = len(small_events) + n
            t_tree = tlc_sig(i, 'tree.')
            t_gap = [x for x in tlc_sig(i, 'gaps.') if not x.startswith('gaps.gap_bits')]
            r_tree = [rd['why']] if rd['why'] != 'ok' else []
            r_gap = [rd['gap']] if rd['gap'] != 'ok' else []
            if t_tree != r_tree or t_gap != r_gap:
                disagree += 1
                vlib.log('ref/TLC disagree on damaged copy %d: tlc=%s/%s ref=%s/%s' % (n, t_tree, t_gap, r_tree, r_gap))
            if t_tree or t_gap:
                ndam_rej += 1
    ctx.cov['ref_crosscheck'] = dict(small_trees=len(small_events), disagreements=disagree, damaged_copies=len(damaged), damaged_rejected_by_both=ndam_rej)
    ctx.cov['trusted_base'].append('harness/ref/treeref.go (Why, GapSig) for trees > 120 nodes or buffers > 4096 bits; cross-checked against TLC on every small tree of this run and on damaged copies')
    if disagree:
        raise Inconclusive('harness/ref disagrees with TLC on %d trees' % disagree)
    if damaged and ndam_rej < len(damaged) // 2:
        raise Inconclusive('damaged copies are mostly accepted (%d of %d rejected): cross-check is weak' % (ndam_rej, len(damaged)))
    # verdicts
    for k, (j, r) in enumerate(zip(jobs, res)):
        if r['outcome'] != 'ok' or not r['res'] or not r['res']['hastree']:
            continue
        rr = r['res']
        sigs = [rr['refwhy'], rr['refgap'], rr['refbits']]
        if k in small_idx:
            sigs += rej.get(small_idx.index(k), [])
        for s in sorted(set(sigs)):
            if s != 'ok' and s.startswith(pref):
                what = '%s -d %s%s %s' % (os.path.relpath(j['file'], vlib.REPO), j['format'], ' force' if j['force'] else '',
                                          '' if j['mut']['kind'] == 'none' else json.dumps(j['mut']))
                base = s if s.startswith('gaps.merge_slack') or s == 'tree.range_stretched_by_empty_value_past_end' else '%s@%s' % (s, family(j['file']))
                ctx.finding(base, what, dict(job=j))
    ctx.cov['corpus'] = dict(sample_files_available=ntotal, files_used=nfiles, decode_jobs=len(jobs), trees=ntrees, nodes=nnodes,
                             small_trees_to_tlc=len(small_events), outcomes=dict(outcomes))
    ctx.cov['evaluations'] += len(jobs)
    ctx.cov['distinct_nontrivial'] += ntrees
    if small_events:
        e = small_events[0]
        ctx.sample(dict(kind='corpus tree', job={k: v for k, v in jobs[small_idx[0]].items() if k in ('file', 'format', 'mut')},
                        first_nodes=[(n['name'], n['kind'], n['start'], n['len']) for n in e['nodes'][:8]]))
