# C07 - Standard jq programs behave in fq as in the reference jq engine
import os, re, json, copy, collections
from concurrent.futures import ThreadPoolExecutor
import vlib
from vlib import Inconclusive

LEVEL = 'translation_validation'
META = dict(
    text=('JqCore.tla is a denotational semantics of a jq core (Eval over the JSON universe of JsonVal.tla and the syntax trees of Query.tla: '
          'paths, arithmetic, comparison, alternative, try/catch, reduce/foreach, label/break, destructuring, closures, path tracking, the '
          'engine-defined library from its jq definitions and ~30 natives). TLC emits every construct under every other in every child '
          'position on inputs from JsonVals(2, atoms) with the outcome sequence the semantics predicts; every program is then run through '
          'the real fq command line path (interp.Main, _cli_eval, rewrite, include machinery, fq\'s overriding definitions) and through the '
          'bare embedded engine (gojq.Parse/Compile/Run); a seeded grammar generator adds what the TLA+ universe cannot hold (regex functions '
          'with flags, big integers, floats, unicode, @formats, update operators, paths, walk, env ...). TLC (TraceJq.tla) judges every '
          'recorded event: fq must equal the reference; inside the core both must equal JqCore.'),
    note=('Verdict only from fq vs the bare engine under N1-N4 (canonical JSON values; built-in error messages compared by position only, '
          'error(v) values exactly; input/inputs/debug/stderr/input_filename supplied on the reference side as the jq command documents, '
          'side channel compared on the plain command line arm; fq-only arities not generated). JqCore vs the engine is reported as '
          'spec_discrepancies (0 expected), never as a violation. Exhaustive over the construct inventory of JqCoreUniv.tla only in the '
          'thorough tier (quick: a seed-rotated 1/Div sample of the (outer, position, inner) triples); generated programs are samples. '
          'Excluded: index/rindex/indices with string input and non-string argument, date functions, halt, $__loc__ (unsupported by the '
          'embedded engine). Engine panics (label inside an operand, dependency defect) are recorded, not judged.'),
    technique='TLA+ denotational semantics + TLC exhaustive program emission + per-program comparison of the real command line with the bare engine + TLC trace validation',
)

SHARDS = 8          # thorough; quick uses 4 (fewer JVM start-ups)
DIVERGENT = ('call depth', 'too many outputs', 'unbounded range')
OVERRIDDEN = ['split', 'splits', 'test', 'match', 'capture', 'scan', 'sub', 'gsub', 'explode', 'implode', 'tojson', 'fromjson', 'debug', 'stderr', 'input',
              'inputs', 'input_filename', 'group_by', 'unique_by', 'min_by', 'max_by', 'paths', 'getpath', 'tostring', 'ascii_downcase', 'ltrimstr',
              'walk', 'env', 'limit', 'first', 'until', 'todisplay', 'tovalue', 'path', 'to_entries', 'from_entries', 'with_entries', 'join', 'flatten']


def untag(t):
    k = t.get('t')
    if k == 'null':
        return None
    if k in ('true', 'false'):
        return k == 'true'
    if k == 'num':
        return t['n']
    if k == 'big':
        return float(''.join(map(chr, t['b']))) if not ''.join(map(chr, t['b'])).lstrip('-').isdigit() else int(''.join(map(chr, t['b'])))
    if k == 'str':
        return ''.join(map(chr, t['s']))
    if k == 'arr':
        return [untag(x) for x in t['v']]
    if k == 'obj':
        return {''.join(map(chr, a)): untag(b) for a, b in zip(t['k'], t['v'])}
    return '?'


def show_outs(os_):
    r = []
    for o in os_ or []:
        if o['k'] == 'v':
            r.append(json.dumps(untag(o['v']), ensure_ascii=False))
        elif o['k'] == 'e':
            r.append('error' + ('(%s)' % json.dumps(untag(o['v']), ensure_ascii=False) if 'v' in o and o.get('u', True) else ''))
        else:
            r.append(o['k'])
    return ' '.join(r)[:300]


def signature(e, tsig):
    prog = e['prog']
    names = sorted({n for n in OVERRIDDEN if re.search(r'(?<![\w$])' + n + r'(?![\w])', prog)})
    # known: a string that came out of fq's fromjson, fed to fromjson again, is parsed from its source text (see known_findings.txt)
    if tsig in ('jq.fq_differs', 'jq.cli_differs') and re.search(r'fromjson\??\)*\s*\|\s*\(*fromjson', prog):
        return 'jq.diff:fromjson_of_fromjson_string'
    # known: fq's fromjson returns a decode value; the difference disappears when its result is turned into the plain value
    if tsig == 'jq.fq_differs' and 'fq_fromjson_tovalue' in e and 'gj' in e:
        alt, gj = e['fq_fromjson_tovalue'], e['gj']
        if len(alt) == len(gj) and all((a['k'] == 'v' and a == b) if b['k'] == 'v' else (a['k'] == 'e' and (not b.get('u') or a.get('v') == b.get('v')))
                                       for a, b in zip(alt, gj)):
            return 'jq.diff:fromjson_result_is_decode_value'
    # known: split/1 with a backslash in the separator (see known_findings.txt)
    if tsig in ('jq.fq_differs', 'jq.cli_differs'):
        for m in re.finditer(r'split\("((?:[^"\\]|\\.)*)"\)|/ "((?:[^"\\]|\\.)*)"', prog):
            if '\\\\' in (m.group(1) or m.group(2) or ''):
                return 'jq.diff:split1_backslash'
    return '%s:%s' % (tsig.replace('jq.', 'jq.diff:', 1) if tsig.startswith('jq.fq_differs') or tsig.startswith('jq.cli_differs') else tsig,
                      '+'.join(names[:4]) or 'core')


def gen_cfg(k, nshards, nin, rot, div):
    return ('SPECIFICATION Spec\nCONSTANTS Shard = %d\n NShards = %d\n NIn = %d\n Rot = %d\n Div = %d\nCHECK_DEADLOCK FALSE\n'
            % (k, nshards, nin, rot, div))


def tlc_cases(ctx):
    th = ctx.tier == 'thorough'
    nin, div = (1, 1) if th else (1, 12)
    nsh = SHARDS if th else 4

    def one(k):
        r = ctx.tlc('JqCoreGen', 'jgen%d.cfg' % k, cfg_text=gen_cfg(k, nsh, nin, ctx.seed, div), name='gen_jq_%d' % k, workers=1,
                    timeout=3000 if th else 900, heap='2g')
        ctx.tlc_expect_ok(r, 'JqCoreGen shard %d' % k)
        return r.printed
    cases = []
    with ThreadPoolExecutor(max_workers=nsh) as ex:
        for pr in ex.map(one, range(nsh)):
            cases += pr
    if len(cases) < 800:
        raise Inconclusive('GEN produced too few cases: %d' % len(cases))
    s = ctx.tlc('JqCoreSim', 'jsim.cfg', cfg_text='SPECIFICATION Spec\nCONSTRAINT Emit\nCHECK_DEADLOCK FALSE\n', simulate='num=%d' % (2500 if th else 300),
                depth=3, timeout=1800, name='sim_jq')
    if s.rc != 0:
        raise Inconclusive('JqCoreSim failed rc=%s' % s.rc)
    seen, sims = set(), []
    for p in s.printed:
        key = (p['prog'], json.dumps(p['input'], sort_keys=True))
        if key not in seen:
            seen.add(key); sims.append(p)
    ctx.cov['gen'] = dict(triples_sample='1/%d' % div, inputs_per_program=nin, gen_cases=len(cases), sim_cases=len(sims),
                          exhaustive_inventory=(div == 1))
    return cases, sims


def tv(ctx, evs, name, shards=None, demo=False):
    shards = shards or (max(1, len(evs) // 1200) if ctx.tier == 'thorough' else min(3, max(1, len(evs) // 800)))
    chunks = [list(range(i, len(evs), shards)) for i in range(shards)]
    cfg = 'SPECIFICATION TSpec\nPOSTCONDITION Consumed\nCHECK_DEADLOCK FALSE\n'

    def one(k):
        idx = chunks[k]
        p = os.path.join(ctx.build, '%s_shard%d.ndjson' % (name, k))
        vlib.write_ndjson(p, [evs[i] for i in idx])
        rej, drift, res = ctx.tv('TraceJq', 'tj.cfg', p, name='%s_%d' % (name, k), cfg_text=cfg, count=not demo,
                                 timeout=3000 if ctx.tier == 'thorough' else 900, heap='5g')
        core = [idx[int(m.group(1)) - 1] for m in (re.match(r'<<"CORE",\s*(\d+)>>', ln) for ln in res.raw_printed) if m]
        return [(idx[l - 1], s) for l, s in rej], [idx[l - 1] for l in drift], core
    rejects, drifts, cores = {}, [], []
    with ThreadPoolExecutor(max_workers=min(shards, 6)) as ex:      # 6 x 5 GB of TLC heap at most
        for rej, dr, co in ex.map(one, range(shards)):
            for i, s in rej:
                rejects[i] = s
            drifts += dr
            cores += co
    return rejects, drifts, cores


def binding_demo(ctx, evs):
    batch = [e for e in evs if e.get('fq') and e.get('gj') and len(e['gj']) >= 2 and e['gj'][0]['k'] == 'v' and 'gj_compile' not in e and not e.get('engine_panic')]
    cli = [e for e in evs if 'cli' in e and e.get('gj') and 'gj_compile' not in e and not e['cli'].get('bad') and e.get('gj_stderr')]
    core = [e for e in evs if e.get('spec', {}).get('core') and e.get('gj') and e['gj'][0]['k'] == 'v' and e.get('fq')]
    if len(batch) < 3 or len(cli) < 2 or len(core) < 1:
        raise Inconclusive('no suitable events for the TraceJq binding demo (%d, %d, %d)' % (len(batch), len(cli), len(core)))
    a = copy.deepcopy(batch[1]); a['fq'][0]['v'] = {'t': 'str', 's': [122]}            # a value changed on the fq side
    b = copy.deepcopy(batch[2]); b['fq'] = b['fq'][:-1]                                  # an output (or the error) lost
    c = copy.deepcopy(cli[0]); c['cli']['stderr'] = c['cli']['stderr'][1:]               # side channel text damaged
    d = copy.deepcopy(cli[1]); d['cli']['exit'] = 0 if d['cli']['exit'] else 5           # exit status flipped
    s = copy.deepcopy(core[0]); s['spec']['out'][0]['v'] = {'t': 'str', 's': [122]}      # the specification's prediction damaged: drift, not a verdict
    demo = [batch[0], a, b, c, d, s]
    rej, drift, _ = tv(ctx, demo, 'jq_demo', shards=1, demo=True)
    want = {1: 'jq.fq_differs', 2: 'jq.fq_differs', 3: 'jq.cli_differs', 4: 'jq.cli_differs'}
    ok = rej == want and sorted(drift) == [5]
    ctx.cov['binding_demo'].append(dict(spec='TraceJq', corrupted=want, rejected=rej, drift_events=sorted(drift), ok=ok))
    if not ok:
        raise Inconclusive('binding demo failed for TraceJq: wanted %s + drift [5], got %s + drift %s' % (want, rej, sorted(drift)))


def judge(ctx, evs, cases):
    rejects, drifts, cores = tv(ctx, evs, 'tv_jq')
    for i in sorted(rejects):
        e = evs[i]
        sig = signature(e, rejects[i])
        what = 'program %r on input %s: fq %s | reference %s%s' % (
            e['prog'], json.dumps(untag(e['input']), ensure_ascii=False)[:200], show_outs(e.get('fq') or (e.get('cli') or {}).get('out')) or e.get('fq_failed', ''),
            show_outs(e.get('gj')), (' | cli stderr %r' % e['cli'].get('stderr_text', '')[:200]) if 'cli' in e and rejects[i] == 'jq.cli_differs' else '')
        ctx.finding(sig, what, dict(case=cases[i], event=e))
    return rejects, drifts, cores


def run(ctx):
    th = ctx.tier == 'thorough'
    ctx.cov['rule'] = ('programs: (a) TLC-emitted trees, every construct of JqCoreUniv.tla at the top and under every other construct in every child '
                       'position (quick: seed-rotated sample of the triples) on seed-rotated inputs from JsonVals(2, atoms), (b) TLC-simulated trees one '
                       'level deeper, (c) seeded grammar-generated texts beyond the TLA+ universe; distinct non-trivial = distinct program texts whose '
                       'reference run produced at least one output or error on some input.')
    ctx.assumptions += ['reference = the embedded engine run bare (gojq.Parse/Compile/Run, module github.com/wader/gojq as pinned by /repo/go.mod)',
                        'debug/stderr/input/inputs/input_filename on the reference side implement the documented behaviour of the jq command (N3)',
                        'batch arm: many programs per command line expression, each wrapped in try/catch to record its error value; the plain '
                        'command line arm runs side-channel/input programs and a seeded sample unwrapped',
                        'the verdict is computed by TLC (TraceJq.tla); the harness only records']
    cases, sims = tlc_cases(ctx)
    allc = cases + sims
    kept = [c for c in allc if c['core'] or c['out'][0].get('why') not in DIVERGENT]
    ctx.cov['dropped_possibly_divergent'] = len(allc) - len(kept)
    cpath = os.path.join(ctx.build, 'cases.ndjson')
    vlib.write_ndjson(cpath, kept)
    binp = ctx.go_build('c07')
    e1 = os.path.join(ctx.build, 'events_tlc.ndjson')
    r = ctx.run([binp, 'replay', cpath, e1, str(15 if th else 60)], timeout=3000 if th else 900)
    if r.returncode != 0:
        raise Inconclusive('c07 replay failed: %s' % r.stderr[-1500:])
    e2 = os.path.join(ctx.build, 'events_rand.ndjson')
    r = ctx.run([binp, 'rand', str(8000 if th else 1500), e2], timeout=3000 if th else 900)
    if r.returncode != 0:
        raise Inconclusive('c07 rand failed: %s' % r.stderr[-1500:])
    ev1, ev2 = vlib.read_ndjson(e1), vlib.read_ndjson(e2)
    if len(ev1) != len(kept):
        raise Inconclusive('harness answered %d of %d cases' % (len(ev1), len(kept)))
    # the generator keeps only texts the embedded parser accepts: every family of fq-overridden / beyond-the-core functions must still be there
    fam = {'split': r'\bsplit\(', 'splits': r'\bsplits\(', 'test/match/capture/scan': r'\b(test|match|capture|scan)\(', 'sub/gsub': r'\bg?sub\(',
           'format strings': r'@(base64|uri|csv|tsv|html|sh|json|text|base32)', 'update operators': r'(\|=|\+=|-=|\*=|//=)', 'tojson/fromjson': r'\b(tojson|fromjson)\b',
           'paths/getpath': r'\b(paths|getpath|leaf_paths)\b', 'group/unique/min/max by': r'\b(group_by|unique_by|min_by|max_by)\(', 'limit/first/until': r'\b(limit|first|until)\(',
           'big integers': r'\d{19,}', 'walk/env/tostream': r'\b(walk|env|tostream|input_filename)\b', 'explode/implode': r'\b(explode|implode)\b',
           'ltrimstr/rtrimstr/case': r'\b(ltrimstr|rtrimstr|ascii_downcase|ascii_upcase)\b', 'to_entries family': r'\b(to_entries|from_entries|with_entries)\b'}
    famn = {k: sum(1 for e in ev2 if re.search(rx, e['prog'])) for k, rx in fam.items()}
    ctx.cov['generated_program_families'] = famn
    if min(famn.values()) < 3:
        raise Inconclusive('generated programs lack a family: %s' % {k: v for k, v in famn.items() if v < 3})
    evs = ev1 + ev2
    rcases = kept + [dict(prog=e['prog'], input=e['input'], inputs=e.get('inputs')) for e in ev2]
    rejects, drifts, cores = judge(ctx, evs, rcases)

    n_core_tlc = sum(1 for e in ev1 if e['spec']['core'])
    why = collections.Counter(c['out'][0].get('why', '?') for c in kept if not c['core'])
    panics = [e for e in evs if e.get('engine_panic')]
    refbroken = sum(1 for e in evs if any(o['k'] in ('x', 'halt') for o in e.get('gj', [])))
    # anti-vacuity: the semantics must keep covering what it is claimed to cover, and both fq arms must have run
    if n_core_tlc < 0.9 * len(ev1):
        raise Inconclusive('JqCore covers only %d of %d emitted cases' % (n_core_tlc, len(ev1)))
    if sum(1 for e in evs if 'fq' in e) < 0.8 * len(evs) or sum(1 for e in evs if 'cli' in e) < 30:
        raise Inconclusive('fq arms did not run on enough cases')
    ctx.cov['programs'] = len({e['prog'] for e in evs})
    ctx.cov['evaluations'] = len(evs)
    ctx.cov['traces_validated_against_impl'] = len(evs)
    ctx.cov['disagreements_checked'] = sum(1 for e in evs if 'fq' in e) + sum(1 for e in evs if 'cli' in e)
    ctx.cov['arms'] = dict(batch_command_line=sum(1 for e in evs if 'fq' in e), plain_command_line=sum(1 for e in evs if 'cli' in e),
                           reference_rejects_program=sum(1 for e in evs if 'gj_compile' in e), reference_timeout_or_panic=refbroken)
    ctx.cov['core'] = dict(tlc_cases_in_core=n_core_tlc, tlc_cases_outside_core=dict(why), generated_programs_in_core=len(cores))
    ctx.cov['input_programs_not_judged'] = sum(1 for e in evs if 'not_judged' in e)
    ctx.cov['spec_discrepancies'] = len(drifts)
    ctx.cov['engine_panics_recorded'] = sorted({e['prog'] for e in panics})[:8]
    ctx.cov['distinct_nontrivial'] = len({e['prog'] for e in evs if e.get('gj')})
    if drifts:
        d = evs[drifts[0]]
        ctx.drift('JqCore.Run differs from the bare engine: %r on %s: spec %s | engine %s' % (
            d['prog'], json.dumps(untag(d['input']))[:100], show_outs((d.get('spec') or {}).get('out')), show_outs(d['gj'])), len(drifts))
    for e in (ev1[len(ev1) // 3], ev1[-1], ev2[len(ev2) // 2], ev2[-1]):
        ctx.sample(dict(id=e['id'], program=e['prog'], input=untag(e['input']), fq=show_outs(e.get('fq') or (e.get('cli') or {}).get('out')),
                        reference=show_outs(e.get('gj')), in_core=(e.get('spec') or {}).get('core')))
    binding_demo(ctx, [e for i, e in enumerate(evs) if i not in rejects])


def replay(ctx, path):
    rec = json.load(open(path))
    case = rec['case']['case']
    binp = ctx.go_build('c07')
    cpath = os.path.join(ctx.build, 'replay_case.ndjson')
    vlib.write_ndjson(cpath, [dict(id=['replay', '0', ''], prog=case['prog'], input=case['input'], **({'inputs': case['inputs']} if case.get('inputs') else {}))])
    epath = os.path.join(ctx.build, 'replay_event.ndjson')
    ctx.run([binp, 'replay', cpath, epath, '1'], check=True, timeout=300)
    evs = vlib.read_ndjson(epath)
    rejects, _, _ = tv(ctx, evs, 'replay', shards=1)
    ctx.cov.update(programs=1, disagreements_checked=1, evaluations=1, distinct_nontrivial=2)
    ctx.sample(dict(program=evs[0]['prog'], verdict=rejects.get(0, 'ok')))
    if 0 in rejects:
        ctx.finding(rec['sig'], rec['what'], rec['case'])
