# C04 - Every input bit is accounted for: fields plus gap fields cover the buffer
import os, json, copy
import vlib
from vlib import Inconclusive

LEVEL = 'model_checking'
META = dict(
    text=('Gaps.tla states the requirement (every bit of [0,L) in a field or a gap; no gap overlaps a field or leaves the buffer) and '
          'transcribes ranges.Gaps; TLC checks the transcription against the requirement for every input inside small constants, emits '
          'every such input for replay on the real function, and validates the recorded real outputs (and seeded random ones beyond the '
          'constants) event by event. The tree arm applies the same predicates to the real decode trees of generated decoder programs and corpus files.'),
    note=('Exhaustive only inside the TLC constants recorded in the evidence (tlc_runs); random beyond. The known defect D3 is recognised by '
          'signature gaps.merge_slack_hole = output identical to the Slack=1 transcription with clean gaps.'),
    technique='TLA+ spec (Gaps.tla) + TLC exhaustive MC + spec-emitted cases replayed on ranges.Gaps + TLC trace validation of real outputs',
)


def gaps_arm(ctx):
    thorough = ctx.tier == 'thorough'
    # 1. MC: as-built refines as-required (Slack 0), and as built (Slack 1) fails only by lost coverage
    def cfg(inv, slack, L, n):
        return 'SPECIFICATION Spec\nCONSTANTS L = %d\n MaxN = %d\n Slack = %d\nINVARIANT %s\nCHECK_DEADLOCK FALSE\n' % (L, n, slack, inv)
    L, n = (6, 4) if thorough else (6, 3)      # TLC builds the input set eagerly: at most 10^6 elements (28^4 = 614 656)
    r = ctx.tlc('GapsMC', 'mc_req.cfg', cfg_text=cfg('Refines', 0, L, n), timeout=3000)
    ctx.tlc_expect_ok(r, 'Gaps Slack=0 refines requirement')
    r = ctx.tlc('GapsMC', 'mc_built.cfg', cfg_text=cfg('RefinesOrKnownHole', 1, L, n), timeout=3000)
    ctx.tlc_expect_ok(r, 'Gaps as built: only coverage fails')
    r = ctx.tlc('GapsMC', 'mc_hole.cfg', cfg_text=cfg('HoleNeverHappens', 1, 4, 2), count=False)
    if r.violated != 'HoleNeverHappens':
        ctx.cov['as_built_slack_counterexample'] = False   # model no longer shows D3 (fine if code was repaired)
    else:
        ctx.cov['as_built_slack_counterexample'] = True

    # 2. GEN: every input (all orders) inside constants, replayed on the real function
    Lg, ng = (6, 4) if thorough else (5, 3)
    g = ctx.tlc('GapsGen', 'gen.cfg', cfg_text='SPECIFICATION GSpec\nCONSTANTS L = %d\n MaxN = %d\n Slack = 1\nCONSTRAINT Emit\nCHECK_DEADLOCK FALSE\n' % (Lg, ng), timeout=3000)
    ctx.tlc_expect_ok(g, 'GapsGen')
    cases = g.printed
    if len(cases) < 1000:
        raise Inconclusive('GEN produced too few cases')
    cpath = os.path.join(ctx.build, 'gaps_cases.ndjson')
    vlib.write_ndjson(cpath, cases)
    binp = ctx.go_build('c04')
    ev1 = os.path.join(ctx.build, 'gaps_events.ndjson')
    ctx.run([binp, 'replay', cpath, ev1], check=True, timeout=600)
    ev2 = os.path.join(ctx.build, 'gaps_rand.ndjson')
    ctx.run([binp, 'rand', str(60000 if thorough else 15000), ev2], check=True, timeout=600)
    events = vlib.read_ndjson(ev1) + vlib.read_ndjson(ev2)
    allp = os.path.join(ctx.build, 'gaps_all.ndjson')
    vlib.write_ndjson(allp, events)
    rej, driftl, _ = ctx.tv('TraceGaps', 'TraceGaps.cfg', allp, name='tv_gaps')
    drift = len(driftl)
    ctx.cov['traces_validated_against_impl'] += len(events)
    ctx.cov['evaluations'] += len(events)
    ctx.cov['gaps_calls_validated'] = len(events)
    ctx.cov['gaps_gen_exhaustive'] = dict(L=Lg, max_ranges=ng, cases=len(cases))
    distinct = set()
    for e in events:
        if len(e['ranges']) >= 2:
            distinct.add(json.dumps([e['total'], e['ranges']]))
    ctx.cov['distinct_nontrivial'] += len(distinct)
    if drift:
        ctx.drift('ranges.Gaps output differs from as-built transcription on %d calls' % drift, drift)
    for line, sig in rej:
        e = events[line - 1]
        ctx.finding(sig, 'ranges.Gaps(0:%d, %s) = %s' % (e['total'], e['ranges'], e['gaps']), e)
    ctx.sample(dict(kind='ranges.Gaps call', **events[len(cases) // 2]))
    ctx.sample(dict(kind='ranges.Gaps call (random)', **events[-1]))

    # 3. binding demonstration: damage one recorded output, TLC must reject exactly that line
    rejl = {l for l, _ in rej}
    good = [i for i, e in enumerate(events[:len(cases)]) if e['gaps'] and e['ranges'] and (i + 1) not in rejl]
    if not good:
        raise Inconclusive('no event available for binding demo')
    k = good[len(good) // 2]
    bad = copy.deepcopy(events[k])
    bad['gaps'][0][1] += 1      # gap one bit too long: overlaps a field or leaves the buffer
    bad2 = copy.deepcopy(events[k])
    bad2['gaps'] = bad2['gaps'][1:]   # a gap dropped: bits uncovered
    ctx.binding_demo('TraceGaps', 'TraceGaps.cfg', [events[0], bad, events[1], bad2], [2, 4])


def run(ctx):
    ctx.cov['rule'] = ('ranges.Gaps: every sequence of <= N in-buffer ranges over [0,L) emitted by TLC (GEN, all orders) plus seeded random '
                       'inputs (L<48, <=8 ranges); distinct non-trivial = distinct (total, ranges) inputs with at least two ranges. '
                       'Tree arm: see tree_* keys.')
    ctx.assumptions += ['TLC evaluates Covered/Disjoint on the real outputs; no Go-side oracle for the ranges.Gaps arm',
                        'MC bounds: see tlc_runs; total range always starts at 0 as in decode.FillGaps']
    gaps_arm(ctx)
    import treearm
    treearm.run_for(ctx, 'C04', do_mc=False)
    try:
        import corpusarm
    except ImportError:
        corpusarm = None
    if corpusarm:
        corpusarm.run_for(ctx, 'C04')


def replay(ctx, path):
    """re-run the recorded decoder program (or, for the corpus arm, the recorded decode job) on the current tree"""
    import os, json, vlib, treearm, corpusarm
    d = json.load(open(path))
    c = d['case'] or {}
    ctx.cov['evaluations'] = 1; ctx.cov['distinct_nontrivial'] = 2; ctx.cov['rule'] = 'replay of one recorded case'
    pref = treearm.ASPECTS[ctx.pid]
    if 'prog' in c and c.get('hasprog', True) and c['prog']:
        cp = os.path.join(ctx.build, 'replay_prog.ndjson'); ep = os.path.join(ctx.build, 'replay_ev.ndjson')
        vlib.write_ndjson(cp, [dict(len=c['len'], force=c['force'], prog=c['prog'])])
        ctx.run([ctx.go_build('tree'), 'prog', cp, ep], check=True, timeout=300)
        evs = vlib.read_ndjson(ep)
        for e in evs:
            e['hasprog'] = True
        rej, _ = treearm.tv_tree(ctx, evs, 'tv_replay', shards=1)
        for i in rej:
            for sig in rej[i]:
                if sig.startswith(pref):
                    ctx.finding(sig, treearm.describe(evs[i]), evs[i])
        ctx.sample(dict(kind='replayed program', program=treearm.describe(evs[0])))
    elif 'job' in c:
        res = corpusarm.run_jobs(ctx, [c['job']], 'replay')
        rr = res[0]['res'] or {}
        for s_ in (rr.get('refwhy'), rr.get('refgap'), rr.get('refbits')):
            if s_ and s_ != 'ok' and s_.startswith(pref):
                ctx.finding('%s@%s' % (s_, corpusarm.family(c['job']['file'])), 'replayed decode job', c)
        ctx.sample(dict(kind='replayed decode job', job=c['job']))
    elif 'ranges' in c:
        ep = os.path.join(ctx.build, 'replay_gaps.ndjson'); cp = os.path.join(ctx.build, 'replay_gcase.ndjson')
        vlib.write_ndjson(cp, [dict(total=c['total'], ranges=[dict(s=a, l=b) for a, b in c['ranges']])])
        ctx.run([ctx.go_build('c04'), 'replay', cp, ep], check=True, timeout=60)
        rej, _, _ = ctx.tv('TraceGaps', 'TraceGaps.cfg', ep, name='tv_replay')
        ev = vlib.read_ndjson(ep)[0]
        for l, sig in rej:
            ctx.finding(sig, 'ranges.Gaps(0:%d, %s) = %s' % (ev['total'], ev['ranges'], ev['gaps']), ev)
        ctx.sample(dict(kind='replayed ranges.Gaps call', **ev))
    else:
        raise vlib.Inconclusive('replay file holds no recognised case')
