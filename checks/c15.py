# C15 - Container decoders report what independent writers stored
import os, json, copy, re
import vlib
from vlib import Inconclusive

LEVEL = 'exploration'
META = dict(
    text=('Container.tla describes an abstract archive (member count 0..3, payload class empty / incompressible / compressible / > 64 KiB rotating over '
          'the members, compression level or method or tar header format or colour mode, name class ascii / unicode / long, header options such as gzip '
          'name/comment/extra, zip data descriptor and archive comment, png zTXt, wav LIST chunk) and a corruption (region: covered payload, covered header, '
          'stored checksum, uncovered; position class; target member) and states the expectation: reported members = written members (names, sizes, '
          'header fields, payload bytes), intact => every stored checksum marked valid, covered byte flipped => a checksum marked invalid or a decode '
          'error, never a clean result. TLC enumerates the whole scenario space (GEN). The harness instantiates each scenario with an independent writer '
          '(Go compress/gzip, compress/zlib, archive/zip, archive/tar, image/png, image/gif, hash/crc32, a hand-written RIFF/WAV writer, the bzip2 tool), '
          'decodes it with real fq in-process, extracts the jq-visible report and, for corruption scenarios, flips the bytes of the chosen third of the '
          'region one at a time; TLC validates every recorded event against the expectation (TraceContainer.tla).'),
    note=('The spec supplies scenario space and expectation only; byte-level fidelity rests on the independent writers (trusted base). Payload equality is '
          'judged through length + SHA-256 computed by the harness (verbatim bytes up to 64). quick runs every intact scenario and a seed-dependent sixth '
          'of the corruption scenarios with a stride of flips; thorough runs the whole space with up to 16 flips per region third (every byte of regions up to 16 bytes, a stride beyond). fq never computes zip '
          'crc32 or tar chksum: those two are known findings and hide nothing else (members are compared before checksum marks).'),
    technique='TLA+ scenario space and expectation (Container.tla) enumerated by TLC + independent writers + real fq decode + TLC trace validation',
)

KINDS = ['gzip', 'zip', 'tar', 'png', 'gif', 'wav', 'bzip2']


def name_of(m):
    return ''.join(map(chr, m['name']))


def describe(e):
    s = e['s']
    head = '%s n=%d payload-class=%d %s name=%s opt=%s corrupt=%s/%s/member %d (%d bytes)' % (
        s['kind'], s['n'], s['p'], s['method'], s['name'], ','.join(s['opt']) or '-', s['region'], s['pos'], s['target'], e.get('bytes', 0))
    i = e['intact']
    w = [(name_of(m)[:30], m['size'], m['sha'][:8]) for m in e['written']]
    r = [(name_of(m)[:30], m['size'], m['sha'][:8]) for m in i['members']]
    out = head + ': written %s %s; fq reports %s %s marks=%s err=%s %s' % (w, e['hdr'], r, i['hdr'], i['marks'], i['err'], i['errtxt'][:100])
    bad = [f for f in e['flips'] if not (f['err'] or f['ninvalid'] or f['same'])]
    if bad:
        out += '; %d of %d flipped files decode to a clean, different tree (first at byte %d)' % (len(bad), len(e['flips']), bad[0]['off'])
    return out[:900]


def strip(e):
    c = copy.deepcopy(e)
    for m in c.get('written', []) + c.get('intact', {}).get('members', []):
        if len(m['name']) > 40:
            m['name'] = m['name'][:40]
    c['flips'] = c.get('flips', [])[:8]
    return c


def select(ctx, cases):
    if ctx.tier == 'thorough':
        return cases
    out = []
    for i, c in enumerate(cases):
        if c['s']['region'] == 'none' or (i + ctx.seed) % 6 == 0:
            out.append(c)
    return out


def run_cases(ctx, binp, cases, name):
    jp = os.path.join(ctx.build, name + '_scenarios.ndjson')
    vlib.write_ndjson(jp, cases)
    ep = os.path.join(ctx.build, name + '_events.ndjson')
    ctx.run([binp, 'replay', jp, ep], check=True, timeout=3000)
    events = vlib.read_ndjson(ep)
    if len(events) != len(cases):
        raise Inconclusive('harness returned %d events for %d scenarios' % (len(events), len(cases)))
    for c, e in zip(cases, events):
        if e['skipped']:
            continue
        if c.get('e_must_detect') and not e['flips']:
            raise Inconclusive('no byte flipped for a corruption scenario: %s' % (c['s'],))
    rej, _, res = ctx.tv('TraceContainer', 'TraceContainer.cfg', ep, name='tv_' + name, timeout=1500)
    judged = 0
    for raw in res.raw_printed:
        m = re.match(r'<<"FLIPSJUDGED", (\d+)>>', raw)
        if m:
            judged = int(m.group(1))
    return events, rej, judged


def run(ctx):
    ctx.cov['rule'] = ('one evaluation = one scenario instantiated and decoded (plus one decode per flipped byte, counted in flipped_files_decoded). '
                       'distinct non-trivial = distinct scenarios with at least one member whose payload is not empty, or with a corruption.')
    ctx.assumptions += [
        'independent writers are the oracle for bytes: Go compress/gzip, compress/flate, compress/zlib, archive/zip (writer; its reader locates member offsets), '
        'archive/tar, image/png, image/gif, hash/crc32; hand-written RIFF/WAVE writer and PNG chunk walker in harness/c15; bzip2 command line tool when installed',
        'payload equality through length + SHA-256 (crypto/sha256) of `tobytes`, verbatim up to 64 bytes',
        'tar member name = prefix + "/" + name when the ustar prefix field is set (how ustar defines it)',
        'a flip that leaves the report identical to the intact one (slack bits of a deflate stream) did not reach a covered byte',
        'png IDAT is not inflated by fq: the IDAT member is the concatenated chunk data; the zlib stream under test is the zTXt chunk',
        'gzip header crc (FHCRC) is never written by compress/gzip, so gzip header bytes are uncovered',
    ]
    ctx.cov['trusted_base'] += ['Go standard library writers (see assumptions)', 'harness/c15 buildWAV, walkPNG, zTXt chunk assembly, digest()']
    binp = ctx.go_build('c15')
    g = ctx.tlc('ContainerGen', 'gen_container.cfg', timeout=1500,
                cfg_text='SPECIFICATION GSpec\nCONSTANTS KindSet = {%s}\nCONSTRAINT Emit\nCHECK_DEADLOCK FALSE\n' % ', '.join('"%s"' % k for k in KINDS))
    ctx.tlc_expect_ok(g, 'ContainerGen')
    if len(g.printed) < 5000 or g.distinct != len(g.printed):
        raise Inconclusive('GEN: %d scenarios printed for %d states' % (len(g.printed), g.distinct))
    cases = sorted(g.printed, key=lambda c: json.dumps(c['s'], sort_keys=True))
    ctx.cov['scenario_space'] = len(cases)
    per_kind = {}
    for c in cases:
        per_kind[c['s']['kind']] = per_kind.get(c['s']['kind'], 0) + 1
    ctx.cov['scenario_space_by_kind'] = per_kind
    chosen = select(ctx, cases)
    events, rej, judged = run_cases(ctx, binp, chosen, 'c15')
    skipped = [e for e in events if e['skipped']]
    if skipped:
        ctx.cov['skipped_scenarios'] = dict(n=len(skipped), why=skipped[0]['skipped'])
    live = [e for e in events if not e['skipped']]
    ctx.cov['evaluations'] += len(live)
    ctx.cov['traces_validated_against_impl'] += len(events)
    ctx.cov['scenarios_run'] = len(live)
    ctx.cov['flipped_files_decoded'] = sum(len(e['flips']) for e in live)
    ctx.cov['flips_judged_must_detect'] = judged
    ctx.cov['distinct_nontrivial'] += len({json.dumps(e['s'], sort_keys=True) for e in live
                                           if e['s']['region'] != 'none' or any(m['size'] > 0 for m in e['written'])})
    ctx.cov['max_file_bytes'] = max([e['bytes'] for e in live] + [0])
    ctx.cov['intact_clean_by_kind'] = {k: sum(1 for i, e in enumerate(events) if not e['skipped'] and e['s']['kind'] == k and e['s']['region'] == 'none'
                                              and (i + 1) not in {l for l, _ in rej}) for k in KINDS}
    for line, sig in rej:
        e = events[line - 1]
        ctx.finding(sig, describe(e), strip(e))
    rejected = {l for l, _ in rej}
    for pred in (lambda e: e['s']['kind'] == 'gzip' and e['s']['region'] == 'payload' and e['s']['n'] == 3,
                 lambda e: e['s']['kind'] == 'png' and e['s']['region'] == 'checksum',
                 lambda e: e['s']['kind'] == 'zip' and e['s']['n'] == 2 and e['s']['region'] == 'none',
                 lambda e: e['s']['kind'] == 'wav' and 'list' in e['s']['opt'],
                 lambda e: e['s']['kind'] == 'tar' and e['s']['method'] == 'ustar' and e['s']['name'] == 'long'):
        for e in live:
            if pred(e):
                ctx.sample(dict(kind=e['s']['kind'], what=describe(e)[:500]))
                break

    # binding demonstration
    def pick(pred):
        for i, e in enumerate(events):
            if (i + 1) not in rejected and not e['skipped'] and pred(e):
                return copy.deepcopy(e)
        raise Inconclusive('no event available for binding demo')
    a = pick(lambda e: e['s']['kind'] == 'gzip' and e['s']['region'] == 'payload' and len(e['flips']) >= 2)
    b = pick(lambda e: e['s']['kind'] == 'png' and e['s']['region'] == 'none')
    c = pick(lambda e: e['s']['kind'] == 'wav' and e['written'] and e['written'][0]['size'] > 0)
    a2, b2, c2, b3 = copy.deepcopy(a), copy.deepcopy(b), copy.deepcopy(c), copy.deepcopy(b)
    a2['flips'][1].update(err=False, ninvalid=0, same=False)      # a flipped covered byte that decoded to a clean, different tree
    b2['intact']['marks'][1] = 'invalid'                           # an intact file with a checksum marked invalid
    c2['intact']['members'][0]['sha'] = '0' * 64                   # a payload that differs from what was written
    b3['intact']['hdr'][0] = 'width=99999'                         # a header field that differs
    ctx.binding_demo('TraceContainer', 'TraceContainer.cfg', [a, a2, b, b2, c2, c, b3], [2, 4, 5, 7])


def replay(ctx, path):
    case = json.load(open(path))['case']
    binp = ctx.go_build('c15')
    events, rej, _ = run_cases(ctx, binp, [dict(s=case['s'])], 'replay')
    ctx.cov['evaluations'] += len(events)
    for line, sig in rej:
        ctx.finding(sig, describe(events[line - 1]), strip(events[line - 1]))
