# The read-eval-print loop arm (Repl.tla, ReplMC.tla, ReplGen.tla, TraceRepl.tla, harness/repl): used by C20.
#
#   MC   the loop of Repl.tla over its line vocabulary: an interrupt (at the prompt or while a line runs) changes no level and no slurp,
#        only ctrl-D leaves a loop and exactly the innermost one, enclosing levels are never touched, a level is entered only by `F | repl`.
#   GEN  every script of one line from every initial input list (exhaustive over the vocabulary), SIM random longer sessions;
#        each is executed by the REAL loop (`fq -i` in process, scripted line reader, interrupts through OS.InterruptChan()).
#   TV   TraceRepl.tla judges every answer of the line reader of every recorded session: the prompt fq asked for (its own projection of
#        the loop state: nesting level, summary of the level's inputs), the lines printed, whether the interrupt could be delivered, that
#        the session ends with every loop left and status 0.
import os, json, re
import vlib
from vlib import Inconclusive

RUNKINDS = ('run', 'runpush', 'runce', 'runab', 'runfin')


def to_script(i, c):
    lines = []
    for a in c['lines']:
        k = a['k']
        if k in ('sigint', 'eof'):
            lines.append(dict(k=k))
        elif k in RUNKINDS:
            lines.append(dict(k='run', t=a['t']))
        else:
            lines.append(dict(k='line', t=a['t']))
    return dict(id=i, init=c['prog'], args=[], lines=lines)


def norm_out(ls):
    # an error message line: "error: ..." (run time) or the caret line under the echoed text (a line that does not parse)
    return ['ERR' if (l.startswith('error: ') or re.match(r'^\s+\^ ', l)) else l for l in ls]


def to_events(c, r):
    """one recorded session -> events of TraceRepl. Readline call j answered script line j (j < len(lines)), every later call ctrl-D."""
    ev = [dict(op='init', i=c['init'], prog=c['prog'])]
    steps = r['steps']
    acts = [dict(k=a['k'], f=a['f'], o=a['o'], t=a['t']) for a in c['lines']]
    n = len(steps)
    for j in range(n):
        a = acts[j] if j < len(acts) else dict(k='eof', f='id', o=-1, t='')
        if j + 1 < n:
            out, intr = steps[j + 1]['out'], steps[j + 1]['intr']
        elif not r['hang']:
            out, intr = r['tail'], False        # the last call: what was printed until fq returned
        else:
            break                               # the line that never came back: judged by the end event
        ev.append(dict(op='step', k=a['k'], f=a['f'], o=a['o'], t=a['t'], prompt=steps[j]['prompt'], out=norm_out(out), intr=bool(intr)))
    at = 'none'
    if r['hang']:
        k = r['at'] - 1
        at = acts[k]['k'] if 0 <= k < len(acts) else 'eof'
    ev.append(dict(op='end', exit=r['exit'], tail=(norm_out(r['tail']) if r['hang'] else []), hang=bool(r['hang']), at=at, lost=bool(r['lost'])))
    return ev


def run_scripts(ctx, binp, cases, name, idle=None, shards=8):
    scripts = [to_script(i, c) for i, c in enumerate(cases)]
    jobs = []
    for p in range(shards):
        sp = os.path.join(ctx.build, '%s_scripts_%d.ndjson' % (name, p))
        op = os.path.join(ctx.build, '%s_out_%d.ndjson' % (name, p))
        part = scripts[p::shards]
        if not part:
            continue
        vlib.write_ndjson(sp, part)
        jobs.append((sp, op))
    import subprocess
    env = dict(os.environ); env.update(vlib.GOENV)
    if idle:
        env['REPL_IDLE_S'] = str(idle)
    procs = [(subprocess.Popen([binp, 'run', sp, op], stdout=subprocess.PIPE, stderr=subprocess.PIPE, text=True, env=env, cwd=ctx.build), op) for sp, op in jobs]
    res = {}
    for p, op in procs:
        try:
            so, se = p.communicate(timeout=1500)
        except subprocess.TimeoutExpired:
            p.kill()
            raise Inconclusive('repl harness did not finish')
        if p.returncode == 4:
            ctx.finding('repl.session_survives_cancelled_context', 'a session did not end even after the context of Main was cancelled: ' + se[-300:], dict(kind='repl', stderr=se[-2000:]))
            continue
        if p.returncode != 0:
            raise Inconclusive('repl harness failed rc=%s: %s' % (p.returncode, se[-500:]))
        for r in vlib.read_ndjson(op):
            res[r['id']] = r
    return res


def repl_arm(ctx):
    th = ctx.tier == 'thorough'
    # ---- MC
    L = 5 if th else 4
    cfg = ('SPECIFICATION MCSpec\nCONSTANTS MaxLen = %d\n MaxStack = 3\n MaxIns = 4\nINVARIANT PromptOK NeverDeeper\n'
           'PROPERTY InterruptTouchesNothing InterruptedCollectionStillEnters OnlyEofLeaves EnclosingKept PushOnlyByRepl\nVIEW MCView\nCHECK_DEADLOCK FALSE\n' % L)
    r = ctx.tlc('ReplMC', 'replmc.cfg', cfg_text=cfg, name='mc_repl', timeout=900)
    ctx.tlc_expect_ok(r, 'ReplMC')
    mc_states = r.distinct
    # ---- GEN (one line, exhaustive) + SIM (longer sessions)
    g = ctx.tlc('ReplGen', 'replgen.cfg', cfg_text='SPECIFICATION GSpec\nCONSTANTS GenLen = 1\n Shard = 0\n NShards = 1\nCONSTRAINT GEmit\nCHECK_DEADLOCK FALSE\n',
                workers=1, name='gen_repl', timeout=600)
    ctx.tlc_expect_ok(g, 'ReplGen')
    cases = list(g.printed)
    nsim = 1500 if th else 250
    simcfg = ('SPECIFICATION MCSpec\nCONSTANTS MaxLen = %d\n MaxStack = 3\n MaxIns = 4\nCONSTRAINT Emit\nCHECK_DEADLOCK FALSE\n' % (8 if th else 6))
    s = ctx.tlc('ReplMC', 'replsim.cfg', cfg_text=simcfg, simulate='num=%d' % (60 if th else 20), depth=(10 if th else 8), name='sim_repl', timeout=600, count=False)
    if s.rc not in (0,) and not s.printed:
        raise Inconclusive('ReplMC simulation failed rc=%s' % s.rc)
    seen = set(json.dumps(c, sort_keys=True) for c in cases)
    # TLC evaluates the constraint on every successor it generates, so a simulation prints many more sessions than it walks: take a
    # seeded sample.  A `runab` line ends its session on the pinned tree (known finding D33: nothing after it is reached, and every
    # such session costs the patience of the watchdog twice), so the longer sessions are taken without it; the one-line scripts have
    # it from every initial input list.
    pool = []
    for c in s.printed:
        k = json.dumps(c, sort_keys=True)
        if k not in seen and len(c['lines']) >= 2 and not any(a['k'] == 'runab' for a in c['lines']):
            seen.add(k); pool.append(c)
    pool.sort(key=lambda c: json.dumps(c, sort_keys=True))
    ctx.rng.shuffle(pool)
    cases += pool[:nsim]
    if len(cases) < 300:
        raise Inconclusive('too few REPL sessions generated: %d' % len(cases))
    kinds_seen = set(a['k'] for c in cases for a in c['lines'])
    need = {'eval', 'push', 'slurp', 'blank', 'bad', 'badopt', 'mid', 'sigint', 'eof', 'run', 'runpush', 'runce', 'runab', 'runfin'}
    if need - kinds_seen:
        raise Inconclusive('REPL line kinds never generated: %s' % sorted(need - kinds_seen))
    # ---- the real loop
    binp = ctx.go_build('repl')
    res = run_scripts(ctx, binp, cases, 'repl')
    hung = [i for i in res if res[i]['hang']]
    if hung:
        # a session that stopped moving is run once more alone with a longer patience before anything is said about it
        again = run_scripts(ctx, binp, [cases[i] for i in hung], 'repl_again', idle=15, shards=min(8, len(hung)))
        for j, i in enumerate(hung):
            if j in again and not again[j]['hang']:
                res[i] = again[j]; res[i]['id'] = i
    events, owner = [], []
    for i, c in enumerate(cases):
        if i not in res:
            continue
        for e in to_events(c, res[i]):
            events.append(e); owner.append(i)
    tp = os.path.join(ctx.build, 'repl_trace.ndjson')
    vlib.write_ndjson(tp, events)
    rej, _, _ = ctx.tv('TraceRepl', 'TraceRepl.cfg', tp, name='tv_repl')
    first = {}
    for line, sig in sorted(rej):
        i = owner[line - 1]
        if i not in first:
            first[i] = (line, sig)
    for i, (line, sig) in sorted(first.items()):
        if sig == 'repl.trace_malformed':
            raise Inconclusive('REPL trace malformed at line %d (harness/vocabulary out of step with Repl.tla)' % line)
        c = cases[i]
        ctx.finding(sig, 'fq -i -n %r, lines %s: event %s' % (c['prog'], [a['t'] for a in c['lines']], json.dumps(events[line - 1])[:400]),
                    dict(kind='repl', case=c, result=res[i]))
    nsteps = sum(1 for e in events if e['op'] == 'step')
    ctx.cov['traces_validated_against_impl'] += len(res)
    ctx.cov['evaluations'] += nsteps
    ctx.cov['repl'] = dict(mc_distinct_states=mc_states, mc_max_lines=L, one_line_scripts=len(g.printed), sessions=len(res), steps=nsteps,
                           sessions_with_interrupt_while_running=sum(1 for c in cases if any(a['k'] in RUNKINDS for a in c['lines'])),
                           sessions_stalled=sum(1 for i in res if res[i]['hang']), rejected_sessions=len(first))
    ctx.sample(dict(kind='REPL session (real fq -i, judged by TraceRepl.tla)', init=cases[-1]['prog'], lines=[a['t'] for a in cases[-1]['lines']],
                    prompts=[s_['prompt'] for s_ in res[len(cases) - 1]['steps']] if (len(cases) - 1) in res else None))
    # ---- binding demo: a clean session with one printed line changed, and one with a prompt changed
    demo = None
    for i, c in enumerate(cases):
        if i in res and i not in first and len(c['lines']) >= 2 and any(a['k'] == 'push' for a in c['lines']):
            evs = to_events(c, res[i])
            if any(e['op'] == 'step' and e['out'] for e in evs):
                demo = evs
                break
    if demo is None:
        raise Inconclusive('no clean REPL session with a push and output for the binding demo')
    bad = json.loads(json.dumps(demo))
    k1 = next(j for j, e in enumerate(bad) if e['op'] == 'step' and e['out'])
    bad[k1]['out'] = bad[k1]['out'] + ['7']
    k2 = max(j for j, e in enumerate(bad) if e['op'] == 'step')
    bad[k2]['prompt'] = '> ' + bad[k2]['prompt']
    exp = sorted({k1 + 1, k2 + 1})
    ctx.binding_demo('TraceRepl', 'TraceRepl.cfg', bad, exp, name='TraceRepl')
